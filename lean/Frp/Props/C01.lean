import Frp.Model.Layers
import Frp.Model.Limit
import Frp.Model.CloseGraph
import Frp.Model.Tunnel
import Frp.Lemmas.Limit
import Frp.Lemmas.Layers
import Frp.Model.Deadline
import Frp.Model.QuicStream
import Frp.Model.CodecPool1
import Frp.Gen.ConnFacts
import Frp.Lemmas.Reload
import Frp.Props.C06
/-
  C01 — TCP-class tunnels are byte-transparent, never cross-wired, propagate close, respect the
  bandwidth bound.  (partial: AES-CFB / snappy being lawful layers, the transports and "eventually
  delivered" under real scheduling are assumed and sampled by the `stack` / `e2e` engines.)

  Clauses → theorems
   (1) both ends build mirrored stacks ............ mirror_proxy, mirror_order, mirror_visitor, limiter_position
   (2) a stack of lawful layers is lawful ......... stack_transparent, stack_prefix, stack_complete,
       and the two DIFFERENT stacks of the two ends are compatible in both directions
       .............................................. tunnel_down_prefix/complete, tunnel_up_prefix/complete
   (3) limit.Writer / Reader ...................... writer_chunks, writer_chunk_bounds, writer_tokens, reader_le;
       against the limiter's admission check (`WaitN(n)` fails for n > burst on a finite limiter) and a
       sink that can fail ........................... writer_wait_never_refused, writer_finite_complete,
       writer_short_count, writer_requests_cover, writer_calls_concat, reader_drain;
       the io.Reader / io.Writer CONTRACT for every wrapper (limit.Reader / Writer, StatsConn, pass-through), ALL sources
       (scripts of (n, err) pairs: data together with EOF / another error, (0, nil), any segmentation) and all
       contract-abiding sinks ....................... reader_pair_unchanged, reader_any_source, reader_any_prefix,
       reader_read_bounds, reader_eof_with_data, stats_count_all, writer_any_sink, writer_calls_any_sink,
       writer_lax_sink_witness (outside the contract); charging: reader_charged (every byte, those that come with an
       error included), reader_tail_charged, reader_code_charges (tie: regenerated from reader.go),
       reader_charged_old_witness (sensitivity: reader.go before c863bec)
   (4) token bucket ............................... bucket_bound, bucket_window_bound, writer_requests_admissible
   (5) close propagation .......................... client_close, server_close_fixed, server_close_partial,
       server_close_witness (DEFECT, DESIGN §7 #2), http_close_*, closeNotify_witness (DEFECT #17),
       closeNotify_fixed, join_returns, join_close_calls, join_stuck_witness
   (6) no cross-wiring ............................ no_crosswire, dispatch_unknown
   (7) proxy-protocol header ...................... pp_header_src, pp_header_iff, pp_header_dst
   (8) sniffed bytes replayed ..................... https_replays_all, tcpmux_passthrough_replays_all,
       tcpmux_strips_consumed, tcpmux_early_data_witness (observation)
   (9) the vhost sniff phase leaves no deadline on a connection it hands on
       .............................................. dl_clear_both, dl_read_only_clear_leaves_write, handle_clears_deadlines,
       handle_closes_or_clears, handle_code_clears (tie: regenerated from vhost.go), dlHoldsOn_sound
   (10) closing a QUIC work connection only closes the send side, never cancels what was written
       .............................................. quic_noCancel_delivers, quic_close_delivers, quic_cancelWrite_loses,
       quic_close_code (tie: regenerated from conn.go)
   (11) a pooled snappy codec is never held by two live connections
       .............................................. pool_no_sharing, pool_live_not_pooled, pool_double_put_witness,
       pool_recycle_once_code (tie: regenerated from every caller of WithCompressionFromPool)
   (12) closing one vhost proxy never re-routes another's connections (over C06's Router model)
       .............................................. survivor_keeps_route, survivor_example
   (13) frpc is re-configured while it runs (Manager.UpdateAll): after ANY history of reloads a new connection of proxy p
       is bridged to the backend (and gets the header version) of the LAST loaded configuration of p
       .............................................. reload_table, reload_inv, reload_bridges_last, reload_swap,
       reload_inplace_witness (sensitivity), reload_code_recreates (tie: regenerated from client/proxy)
   (14) the StartWorkConn message of a user connection is a function of THAT connection's addresses, whatever other
       user connections of the proxy are in flight, in every interleaving
       .............................................. startmsg_own, startmsg_header_own, startmsg_shared_witness (sensitivity),
       startmsg_code_locals (tie: regenerated from server/proxy/proxy.go), reloadHoldsOn / ppcHoldsOn (driver predicates)
-/
namespace Frp
namespace C01
open Layers Limit CloseGraph Tunnel

/-! ## (1) mirror -/

/-- for every option combination the byte-transforming layers of the two ends are the same list in
    the same order -/
theorem mirror_proxy (o : Opts) : transforming (serverStack o) = transforming (clientStack o) := by
  cases o with | mk e c ls lc => cases e <;> cases c <;> cases ls <;> cases lc <;> rfl

/-- … namely encryption next to the wire, compression above it -/
theorem mirror_order (o : Opts) : transforming (serverStack o) = opt o.enc .enc ++ opt o.comp .comp := by
  cases o with | mk e c ls lc => cases e <;> cases c <;> cases ls <;> cases lc <;> rfl

/-- visitor leg: the visitor's stack and `visitor.Manager.NewConn`'s stack agree (the flags travel
    in NewVisitorConn) -/
theorem mirror_visitor (e c : Bool) : visitorStack e c = visitorServerStack e c := rfl

/-- the limiter sits on top of the server's stack iff the server enforces, and next to the wire in
    the client's stack iff the client enforces -/
theorem limiter_position (o : Opts) :
    serverStack o = transforming (serverStack o) ++ opt o.limSrv .limit ∧
    clientStack o = opt o.limCli .limit ++ transforming (clientStack o) := by
  cases o with | mk e c ls lc => cases e <;> cases c <;> cases ls <;> cases lc <;> exact ⟨rfl, rfl⟩

/-! ## (2) transparency -/

/-- a stack of lawful layers is a lawful layer -/
theorem stack_transparent (st : List Layer) (h : ∀ l ∈ st, Lawful l) : Lawful (stackLayer st) :=
  stack_lawful st h

/-- the reader sees a prefix of what the writer wrote — any chunking of any prefix of the wire -/
theorem stack_prefix (st : List Layer) (h : ∀ l ∈ st, Lawful l) (ps cs : List C01Bytes)
    (hw : cs.flatten <+: ((stackLayer st).Eout ps).flatten) : (stackLayer st).Dout cs <+: ps.flatten :=
  transparent_prefix (stack_lawful st h) ps cs hw

/-- … and all of it once everything written arrived -/
theorem stack_complete (st : List Layer) (h : ∀ l ∈ st, Lawful l) (ps cs : List C01Bytes)
    (hw : cs.flatten = ((stackLayer st).Eout ps).flatten) : (stackLayer st).Dout cs = ps.flatten :=
  transparent_complete (stack_lawful st h) ps cs hw

theorem id_Eout (ps : List C01Bytes) : idLayer.Eout ps = ps := id_encRun ps _
theorem id_Dchunks (cs : List C01Bytes) : idLayer.Dchunks cs = cs := id_decChunks cs _

/-- the top layer encodes first … -/
theorem stack_snoc_Eout (u : Layer) : ∀ (T : List Layer) (ps : List C01Bytes),
    (stackLayer (T ++ [u])).Eout ps = (stackLayer T).Eout (u.Eout ps) := by
  intro T
  induction T with
  | nil =>
    intro ps
    show (comp idLayer u).Eout ps = idLayer.Eout (u.Eout ps)
    rw [comp_Eout, id_Eout, id_Eout]
  | cons l rest ih =>
    intro ps
    show (comp (stackLayer (rest ++ [u])) l).Eout ps = (comp (stackLayer rest) l).Eout (u.Eout ps)
    rw [comp_Eout, comp_Eout, ih]

/-- … and decodes last -/
theorem stack_snoc_Dchunks (u : Layer) : ∀ (T : List Layer) (cs : List C01Bytes),
    (stackLayer (T ++ [u])).Dchunks cs = u.Dchunks ((stackLayer T).Dchunks cs) := by
  intro T
  induction T with
  | nil =>
    intro cs
    show (comp idLayer u).Dchunks cs = u.Dchunks (idLayer.Dchunks cs)
    rw [comp_Dchunks, id_Dchunks, id_Dchunks]
  | cons l rest ih =>
    intro cs
    show (comp (stackLayer (rest ++ [u])) l).Dchunks cs = u.Dchunks ((comp (stackLayer rest) l).Dchunks cs)
    rw [comp_Dchunks, comp_Dchunks, ih]

theorem instantiate_append (encL compL : Layer) (b : Nat) : ∀ (a c : List Kind),
    instantiate encL compL b (a ++ c) = instantiate encL compL b a ++ instantiate encL compL b c := by
  intro a
  induction a with
  | nil => intro c; rfl
  | cons k r ih => intro c; cases k <;> simp [instantiate, ih]

/-- the transforming layers both ends share, as one layer -/
def coreLayer (encL compL : Layer) (o : Opts) : Layer :=
  stackLayer (instantiate encL compL 0 (opt o.enc .enc ++ opt o.comp .comp))

/-- the stack frps builds / the stack frpc builds, as layers (`burst` = the limiter's burst) -/
def serverLayer (encL compL : Layer) (burst : Nat) (o : Opts) : Layer :=
  stackLayer (instantiate encL compL burst (serverStack o))
def clientLayer (encL compL : Layer) (burst : Nat) (o : Opts) : Layer :=
  stackLayer (instantiate encL compL burst (clientStack o))

theorem instantiate_core (encL compL : Layer) (b : Nat) (e c : Bool) :
    instantiate encL compL b (opt e .enc ++ opt c .comp) = instantiate encL compL 0 (opt e .enc ++ opt c .comp) := by
  cases e <;> cases c <;> rfl

theorem core_lawful {encL compL : Layer} (he : Lawful encL) (hc : Lawful compL) (o : Opts) :
    Lawful (coreLayer encL compL o) := by
  apply stack_lawful
  cases o with | mk e c ls lc =>
  cases e <;> cases c <;> simp [opt, instantiate] <;> (try exact he) <;> (try exact hc) <;> exact ⟨he, hc⟩

theorem limiter_Eout_flatten (burst : Nat) (hb : 0 < burst) (ps : List C01Bytes) :
    ((limiterLayer burst).Eout ps).flatten = ps.flatten :=
  rechunk_encRun _ (Limit.chunks_flatten burst hb) ps _

theorem limiter_Dchunks (burst : Nat) (cs : List C01Bytes) : (limiterLayer burst).Dchunks cs = cs :=
  rechunk_decChunks _ cs _

/-- what frps' stack puts on the wire is the shared core applied to writes with the same content -/
theorem server_Eout (encL compL : Layer) (burst : Nat) (hb : 0 < burst) (o : Opts) (ps : List C01Bytes) :
    ∃ ps', ps'.flatten = ps.flatten ∧ (serverLayer encL compL burst o).Eout ps = (coreLayer encL compL o).Eout ps' := by
  unfold serverLayer coreLayer serverStack
  rw [instantiate_append, instantiate_core]
  cases hl : o.limSrv
  · refine ⟨ps, rfl, ?_⟩
    simp [opt, instantiate]
  · refine ⟨(limiterLayer burst).Eout ps, limiter_Eout_flatten burst hb ps, ?_⟩
    show (stackLayer (_ ++ [limiterLayer burst])).Eout ps = _
    rw [stack_snoc_Eout]

theorem server_Dout (encL compL : Layer) (burst : Nat) (o : Opts) (cs : List C01Bytes) :
    (serverLayer encL compL burst o).Dout cs = (coreLayer encL compL o).Dout cs := by
  unfold serverLayer coreLayer serverStack
  rw [instantiate_append, instantiate_core]
  cases hl : o.limSrv
  · simp [opt, instantiate]
  · show (stackLayer (_ ++ [limiterLayer burst])).Dout cs = _
    simp only [Layer.Dout]
    rw [stack_snoc_Dchunks, limiter_Dchunks]

theorem client_split (encL compL : Layer) (burst : Nat) (o : Opts) :
    instantiate encL compL burst (clientStack o) =
      (if o.limCli then [limiterLayer burst] else []) ++ instantiate encL compL 0 (opt o.enc .enc ++ opt o.comp .comp) := by
  unfold clientStack
  rw [List.append_assoc, instantiate_append, instantiate_core]
  cases o.limCli <;> rfl

theorem client_Dout (encL compL : Layer) (burst : Nat) (o : Opts) (cs : List C01Bytes) :
    (clientLayer encL compL burst o).Dout cs = (coreLayer encL compL o).Dout cs := by
  unfold clientLayer coreLayer
  rw [client_split]
  cases hl : o.limCli
  · rfl
  · show (comp (stackLayer _) (limiterLayer burst)).Dout cs = _
    rw [comp_Dout, limiter_Dchunks]
    rfl

theorem client_Eout_flatten (encL compL : Layer) (burst : Nat) (hb : 0 < burst) (o : Opts) (ps : List C01Bytes) :
    ((clientLayer encL compL burst o).Eout ps).flatten = ((coreLayer encL compL o).Eout ps).flatten := by
  unfold clientLayer coreLayer
  rw [client_split]
  cases hl : o.limCli
  · rfl
  · show ((comp (stackLayer _) (limiterLayer burst)).Eout ps).flatten = _
    rw [comp_Eout, limiter_Eout_flatten burst hb]
    rfl

/-- user → backend: whatever prefix of frps' encoded stream reaches frpc, in whatever chunking,
    frpc's (different) stack decodes it to a prefix of what frps' stack was given — for every option
    combination, any lawful cipher / compression layers, any burst > 0 -/
theorem tunnel_down_prefix {encL compL : Layer} (he : Lawful encL) (hc : Lawful compL) (burst : Nat)
    (hb : 0 < burst) (o : Opts) (ps cs : List C01Bytes)
    (hw : cs.flatten <+: ((serverLayer encL compL burst o).Eout ps).flatten) :
    (clientLayer encL compL burst o).Dout cs <+: ps.flatten := by
  obtain ⟨ps', hfl, hE⟩ := server_Eout encL compL burst hb o ps
  rw [client_Dout, ← hfl]
  rw [hE] at hw
  exact transparent_prefix (core_lawful he hc o) ps' cs hw

theorem tunnel_down_complete {encL compL : Layer} (he : Lawful encL) (hc : Lawful compL) (burst : Nat)
    (hb : 0 < burst) (o : Opts) (ps cs : List C01Bytes)
    (hw : cs.flatten = ((serverLayer encL compL burst o).Eout ps).flatten) :
    (clientLayer encL compL burst o).Dout cs = ps.flatten := by
  obtain ⟨ps', hfl, hE⟩ := server_Eout encL compL burst hb o ps
  rw [client_Dout, ← hfl]
  rw [hE] at hw
  exact transparent_complete (core_lawful he hc o) ps' cs hw

/-- backend → user -/
theorem tunnel_up_prefix {encL compL : Layer} (he : Lawful encL) (hc : Lawful compL) (burst : Nat)
    (hb : 0 < burst) (o : Opts) (ps cs : List C01Bytes)
    (hw : cs.flatten <+: ((clientLayer encL compL burst o).Eout ps).flatten) :
    (serverLayer encL compL burst o).Dout cs <+: ps.flatten := by
  rw [server_Dout]
  rw [client_Eout_flatten encL compL burst hb] at hw
  exact transparent_prefix (core_lawful he hc o) ps cs hw

theorem tunnel_up_complete {encL compL : Layer} (he : Lawful encL) (hc : Lawful compL) (burst : Nat)
    (hb : 0 < burst) (o : Opts) (ps cs : List C01Bytes)
    (hw : cs.flatten = ((clientLayer encL compL burst o).Eout ps).flatten) :
    (serverLayer encL compL burst o).Dout cs = ps.flatten := by
  rw [server_Dout]
  rw [client_Eout_flatten encL compL burst hb] at hw
  exact transparent_complete (core_lawful he hc o) ps cs hw

/-- non-vacuity: a cipher-shaped layer (16-byte header, bytewise bijection) and a second one as
    "compression" are lawful, so the hypotheses of the tunnel theorems are satisfiable -/
def toyEnc : Layer := headerMap (List.replicate 16 7) (fun x => x + 1) (fun x => x - 1)
def toyComp : Layer := headerMap [0xff, 6, 0, 0] (fun x => x + 3) (fun x => x - 3)
theorem toyEnc_lawful : Lawful toyEnc := headerMap_lawful _ _ _ (fun x => by omega)
theorem toyComp_lawful : Lawful toyComp := headerMap_lawful _ _ _ (fun x => by omega)

example : (clientLayer toyEnc toyComp 3 ⟨true, true, true, false⟩).Dout
    ((serverLayer toyEnc toyComp 3 ⟨true, true, true, false⟩).Eout [[1, 2, 3, 4, 5], [], [6]]) = [1, 2, 3, 4, 5, 6] := by
  decide
example : ((serverLayer toyEnc toyComp 3 ⟨true, true, true, false⟩).Eout [[1, 2, 3, 4, 5]]).flatten.length = 16 + 4 + 5 := by
  decide

/-! ## (3) limit.Writer / limit.Reader -/

/-- the chunks `Writer.Write(p)` writes concatenate to `p`: nothing dropped, duplicated, reordered -/
theorem writer_chunks (b : Nat) (hb : 0 < b) (p : C01Bytes) : (chunks b p).flatten = p := chunks_flatten b hb p

/-- every chunk is non-empty and at most one burst -/
theorem writer_chunk_bounds (b : Nat) (hb : 0 < b) (p : C01Bytes) :
    ∀ c ∈ chunks b p, 0 < c.length ∧ c.length ≤ b := chunks_bounds b hb p

/-- tokens requested = bytes written = `len(p)` = the `n` returned -/
theorem writer_tokens (b : Nat) (hb : 0 < b) (p : C01Bytes) :
    ((writerTrace b p).map (·.1)).sum = p.length ∧ writerN b p = p.length := by
  refine ⟨?_, writerN_eq b hb p⟩
  have : (writerTrace b p).map (·.1) = (chunks b p).map List.length := by
    simp [writerTrace, List.map_map, Function.comp_def]
  rw [this]
  exact writerN_eq b hb p

/-- every `WaitN` request of the writer is admissible (`n ≤ burst`, else WaitN fails) -/
theorem writer_requests_admissible (b : Nat) (hb : 0 < b) (p : C01Bytes) :
    ∀ x ∈ writerTrace b p, x.1 ≤ b ∧ x.1 = x.2.length := by
  intro x hx
  simp only [writerTrace, List.mem_map] at hx
  obtain ⟨c, hc, rfl⟩ := hx
  exact ⟨(chunks_bounds b hb p c hc).2, rfl⟩

/-- `Reader.Read`: never asks for more than one burst; charges exactly the bytes returned -/
theorem reader_le (b plen got : Nat) (h : got ≤ readerAsk b plen) :
    got ≤ min plen b ∧ readerCharge got false = got := by
  simp only [readerAsk] at h
  refine ⟨?_, rfl⟩
  split at h <;> omega

/-! ### (3b) the same loops with the limiter's admission check and a sink / source that is not ideal

  `Limit.write` mirrors `Writer.Write` INCLUDING `WaitN`'s refusal of `n > burst` (finite limiters, the
  only kind frp builds) and the error / short count of the writer below; `Limit.readAll` drains a
  stream through `Reader.Read` with buffers of any size. -/

/-- no `WaitN` of the writer is ever refused: for every payload (any multiple of the burst), every
    sink capacity and a finite limiter, `Write` never returns the limiter's error -/
theorem writer_wait_never_refused (inf : Bool) (b : Nat) (hb : 0 < b) (room : Nat) (p : C01Bytes) :
    (write inf b room p).err ≠ .wait := (write_spec inf b hb room p).noWait

/-- a sink with room for `p`: `Write` returns `(len(p), nil)`, the sink is offered exactly `chunks b p`
    and each `WaitN` asks for its chunk's length -/
theorem writer_finite_complete (inf : Bool) (b : Nat) (hb : 0 < b) (room : Nat) (p : C01Bytes) (h : p.length ≤ room) :
    write inf b room p =
      { n := p.length, err := .none, reqs := (chunks b p).map List.length, offered := chunks b p,
        room := room - p.length } := by
  have hn := writerN_eq b hb p
  simp only [writerN, chunks] at hn
  simp only [write, writeAux_roomy inf b p.length room p h, chunks, hn]

/-- a sink that fails after `room` bytes: the count returned is what the sink took, the error is nil
    exactly when everything fitted, and the bytes the sink took are the first `n` bytes of `p` -/
theorem writer_short_count (inf : Bool) (b : Nat) (hb : 0 < b) (room : Nat) (p : C01Bytes) :
    (write inf b room p).n = min room p.length ∧
    ((write inf b room p).err = .none ↔ p.length ≤ room) ∧
    (write inf b room p).accepted = p.take (write inf b room p).n ∧
    (write inf b room p).room = room - (write inf b room p).n :=
  ⟨(write_spec inf b hb room p).n_eq, (write_spec inf b hb room p).ok_iff, write_accepted inf b hb room p,
    (write_spec inf b hb room p).room_eq⟩

/-- tokens: every `WaitN` asks for exactly the bytes of the chunk it precedes, 1..burst of them -/
theorem writer_requests_cover (inf : Bool) (b : Nat) (hb : 0 < b) (room : Nat) (p : C01Bytes) :
    (write inf b room p).reqs = (write inf b room p).offered.map List.length ∧
    ∀ r ∈ (write inf b room p).reqs, 0 < r ∧ r ≤ b := by
  have s := write_spec inf b hb room p
  refine ⟨s.reqs, ?_⟩
  intro r hr
  rw [s.reqs] at hr
  obtain ⟨c, hc, rfl⟩ := List.mem_map.mp hr
  exact s.bounds c hc

/-- a payload split over any number of `Write` calls: every call succeeds in full and the sink receives
    the concatenation -/
theorem writer_calls_concat (inf : Bool) (b : Nat) (hb : 0 < b) :
    ∀ (ps : List C01Bytes) (room : Nat), ps.flatten.length ≤ room →
      ((writeMany inf b room ps).map WOut.accepted).flatten = ps.flatten ∧
      (writeMany inf b room ps).map (fun o => (o.n, o.err)) = ps.map (fun p => (p.length, WErr.none)) := by
  intro ps
  induction ps with
  | nil => intro room _; exact ⟨rfl, rfl⟩
  | cons p ps ih =>
    intro room h
    simp only [List.flatten_cons, List.length_append] at h
    have hp : p.length ≤ room := by omega
    have hw := writer_finite_complete inf b hb room p hp
    have hacc := write_accepted inf b hb room p
    obtain ⟨i1, i2⟩ := ih (room - p.length) (by omega)
    simp only [writeMany, List.map_cons, List.flatten_cons, hacc]
    rw [hw]
    simp only [List.take_length]
    exact ⟨by rw [i1], by rw [i2]⟩

/-- draining a stream through `Reader.Read` with buffers of ANY size (larger than the burst included)
    over a source that hands out at most `per` bytes per call: the reads concatenate to the stream, each
    is at most `min(len(p), burst)` bytes, `WaitN` is asked for exactly the bytes returned and is never
    refused, and the drain ends with end-of-stream -/
theorem reader_drain (inf : Bool) (b plen per : Nat) (hb : 0 < b) (hp : 0 < plen) (hper : 0 < per) (src : C01Bytes) :
    ((readAll inf b plen per (src.length + 1) src).map (·.got)).flatten = src ∧
    (∀ r ∈ readAll inf b plen per (src.length + 1) src, ROutOk b plen r) ∧
    (∃ pre, readAll inf b plen per (src.length + 1) src = pre ++ [{ got := [], req := none, err := .eof }] ∧
      ∀ r ∈ pre, r.err = .none) :=
  readAll_spec inf b plen per hb hp hper (src.length + 1) src (Nat.lt_succ_self _)

example : write false 3 100 [1, 2, 3, 4, 5, 6, 7, 8] =
    { n := 8, err := .none, reqs := [3, 3, 2], offered := [[1, 2, 3], [4, 5, 6], [7, 8]], room := 92 } := by decide
example : write false 3 4 [1, 2, 3, 4, 5, 6, 7, 8] =
    { n := 4, err := .sink, reqs := [3, 3], offered := [[1, 2, 3], [4, 5, 6]], room := 0 } := by decide
example : (readAll false 3 8 2 6 [1, 2, 3, 4, 5]).map (·.got) = [[1, 2], [3, 4], [5], []] := by decide
/-- the check `WaitN` performs is not vacuous: a request of burst + 1 is refused by a finite limiter -/
example : waitOk false 3 4 = false ∧ waitOk true 3 4 = true := by decide

/-! ### (3c) the io.Reader / io.Writer contract: every wrapper, every source, every sink

  `Limit.readW` mirrors `Read` of limit.Reader, StatsConn and the pass-through wrappers (CloseNotifyConn, ContextConn,
  WrapReadWriteCloserConn, golib io.ReadWriteCloser) on the `(n, err)` PAIR the reader below returned; a source is a
  script of such pairs (`Limit.Seg`): `(n > 0, EOF)` — how a quic stream ends —, `(n > 0, other error)`, `(0, nil)`,
  one byte at a time, more than the buffer holds. -/

/-- any stack of wrappers hands the caller the `(n, err)` pair of the source unchanged (read with the smallest of the
    buffer and the bursts): no byte that came with an error is dropped, no error is swallowed or invented -/
theorem reader_pair_unchanged (ws : List RW) (k : Nat) (src : List Seg) (hb : burstsPos ws = true) :
    (readW ws k src).1.got = (srcRead (effK ws k) src).1.1 ∧
    (readW ws k src).1.err = PErr.ofS (srcRead (effK ws k) src).1.2 ∧
    (readW ws k src).2 = (srcRead (effK ws k) src).2 := by
  rw [readW_eq ws k src hb]; exact ⟨rfl, rfl, rfl⟩

/-- FOR ALL SOURCES: an `io.Copy`-like caller reading through any wrapper stack with any non-empty buffer gets, read by
    read, exactly the bytes the source delivers up to and INCLUDING those that come with its final error, and then that
    error; every read is at most the buffer and every burst; no `WaitN` is refused; a read without error asks each
    limiter for exactly its bytes -/
theorem reader_any_source (ws : List RW) (plen : Nat) (hb : burstsPos ws = true) (hp : 0 < plen) (src : List Seg) :
    ((drainW ws plen (srcFuel src) src).map (·.got)).flatten = delivered src ∧
    (∀ r ∈ drainW ws plen (srcFuel src) src, RResOk ws plen r) ∧
    (∃ pre last, drainW ws plen (srcFuel src) src = pre ++ [last] ∧ (∀ r ∈ pre, r.err = .none) ∧
      last.err = PErr.ofS (finalErr src) ∧ last.err ≠ .none) := by
  obtain ⟨h1, h2, pre, last, h3, h4, h5⟩ := drainW_spec ws plen hb hp (srcFuel src) src (Nat.le_refl _)
  refine ⟨h1, h2, pre, last, h3, h4, h5, ?_⟩
  rw [h5]
  have := finalErr_ne_none src
  cases h : finalErr src <;> simp_all [PErr.ofS]

/-- … and a caller that stops earlier has read a prefix of it -/
theorem reader_any_prefix (ws : List RW) (plen : Nat) (hb : burstsPos ws = true) (hp : 0 < plen) (fuel : Nat)
    (src : List Seg) : ((drainW ws plen fuel src).map (·.got)).flatten <+: delivered src :=
  drainW_prefix ws plen hb hp fuel src

/-- every read of a drain stays within the buffer and within the burst of every limiter of the stack -/
theorem reader_read_bounds (ws : List RW) (plen : Nat) (hb : burstsPos ws = true) (hp : 0 < plen) (src : List Seg)
    (r : RRes) (hr : r ∈ drainW ws plen (srcFuel src) src) :
    r.got.length ≤ plen ∧ ∀ inf b, RW.limit inf b ∈ ws → r.got.length ≤ b :=
  have h := ((reader_any_source ws plen hb hp src).2.1 r hr).2.1
  ⟨Nat.le_trans h (effK_le ws plen), fun inf b hm => Nat.le_trans h (effK_le_burst ws plen inf b hm)⟩

/-- the way a quic stream ends — the last bytes TOGETHER WITH end-of-stream — through limit.Reader under any other
    wrappers: the caller gets every byte, then EOF (and a tcp / yamux end, `(n, nil)` then `(0, EOF)`, alike) -/
theorem reader_eof_with_data (ws : List RW) (plen : Nat) (hb : burstsPos ws = true) (hp : 0 < plen) (pre d : C01Bytes) :
    ((drainW ws plen (srcFuel [⟨pre, .none⟩, ⟨d, .eof⟩]) [⟨pre, .none⟩, ⟨d, .eof⟩]).map (·.got)).flatten = pre ++ d ∧
    ((drainW ws plen (srcFuel [⟨pre, .none⟩, ⟨d, .none⟩, ⟨[], .eof⟩]) [⟨pre, .none⟩, ⟨d, .none⟩, ⟨[], .eof⟩]).map
      (·.got)).flatten = pre ++ d := by
  refine ⟨(reader_any_source ws plen hb hp _).1.trans ?_, (reader_any_source ws plen hb hp _).1.trans ?_⟩
  · simp [delivered]
  · simp [delivered]

/-- `StatsConn.totalRead` after a drain = the number of bytes the source delivered (those of the failing read included) -/
theorem stats_count_all (ws : List RW) (plen : Nat) (hb : burstsPos ws = true) (hp : 0 < plen) (src : List Seg) :
    statsCount (drainW ws plen (srcFuel src) src) = (delivered src).length := by
  have h := (reader_any_source ws plen hb hp src).1
  have := sum_map_length_flatten ((drainW ws plen (srcFuel src) src).map (·.got))
  rw [List.map_map, h] at this
  exact this

/-- reader.go (since c863bec): the bytes that come with an error are handed on AND charged — `WaitN(n)` runs inside the
    error branch when `n > 0`; a bare `(0, err)` asks for nothing -/
theorem reader_tail_charged (inf : Bool) (b plen : Nat) (d : C01Bytes) (hd : d.length ≤ readerAsk b plen) (hb : 0 < b) :
    (readW [.limit inf b] plen [⟨d, .eof⟩]).1 =
      { got := d, err := .eof, reqs := if d.length = 0 then [] else [d.length] } := by
  have hw : waitOk inf b d.length = true := by
    simp only [waitOk, Bool.or_eq_true, decide_eq_true_eq]; right
    exact Nat.le_trans hd (readerAsk_le b plen).2
  by_cases h0 : d.length = 0
  · simp [readW, srcRead, hd, PErr.ofS, h0]
  · simp [readW, srcRead, hd, PErr.ofS, h0, hw]

/-- FOR ALL contract-abiding SINKS (full counts, short counts with an error, full counts with an error, at any call):
    `Write` through any wrapper stack returns exactly the number of bytes the sink took — the sum of the counts the sink
    returned —, never more than `len(p)`, `len(p)` whenever it returns nil; the bytes the sink took are the first `n`
    bytes of `p`; no `WaitN` is refused -/
theorem writer_any_sink (ws : List RW) (hb : limPos ws = true) (ss : List SinkResp) (hs : sinkOk ss = true) (p : C01Bytes) :
    (writeW ws ss p).1.n = (writeW ws ss p).1.took.sum ∧ (writeW ws ss p).1.n ≤ p.length ∧
    (writeW ws ss p).1.accepted = p.take (writeW ws ss p).1.n ∧
    ((writeW ws ss p).1.err = .none → (writeW ws ss p).1.n = p.length) ∧ (writeW ws ss p).1.err ≠ .wait :=
  have s := writeW_spec ws hb ss p hs
  ⟨s.n_eq, s.n_le, s.acc, s.ok_full, s.noWait⟩

/-- a stream written in any pieces through any wrapper stack into any contract-abiding sink by a caller that stops at
    the first error: the sink holds exactly the first `Σ n` bytes of the stream -/
theorem writer_calls_any_sink (ws : List RW) (hb : limPos ws = true) (ps : List C01Bytes) (ss : List SinkResp)
    (hs : sinkOk ss = true) :
    ((writeManyW ws ss ps).map WRes.accepted).flatten = ps.flatten.take ((writeManyW ws ss ps).map (·.n)).sum :=
  writeManyW_spec ws hb ps ss hs

/-- outside the contract (a sink that returns a short count and a nil error) `Writer.Write` goes on with `p[end:]`: the
    sink ends up with a stream that has a hole, `Write` reports `(n < len(p), nil)` — every sink frp puts below a
    limit.Writer (net.Conn, the cipher writer, the snappy writer) abides by the contract -/
theorem writer_lax_sink_witness :
    (writeS false 4 [⟨1, false, true⟩] [1, 2, 3, 4, 5, 6]).1.accepted = [1, 5, 6] ∧
    (writeS false 4 [⟨1, false, true⟩] [1, 2, 3, 4, 5, 6]).1.n = 3 ∧
    (writeS false 4 [⟨1, false, true⟩] [1, 2, 3, 4, 5, 6]).1.err = .none := by decide

example : (drainW [.stats, .limit false 3, .pass] 8 20 [⟨[1, 2, 3, 4], .none⟩, ⟨[], .none⟩, ⟨[5, 6], .eof⟩]).map
    (fun r => (r.got, r.err, r.reqs)) =
    [([1, 2, 3], .none, [3]), ([4], .none, [1]), ([], .none, [0]), ([5, 6], .eof, [2])] := by decide
example : (writeS false 3 [⟨3, false, false⟩, ⟨1, false, false⟩] [1, 2, 3, 4, 5, 6, 7]).1 =
    { n := 4, err := .sink, reqs := [3, 3], offered := [[1, 2, 3], [4, 5, 6]], took := [3, 1] } := by decide

/-! ## (4) token bucket -/

/-- any run of grants of a valid history, from any bucket state, sums to at most burst + rate·span -/
theorem bucket_bound (r B : Nat) (mid : List (Nat × Nat)) (L t : Nat) (h : valid r B L t mid = true) :
    sumN mid ≤ B + r * span mid := run_bound r B mid L t h

/-- for ALL histories of a limiter (all connections and both directions share it): the grants inside
    any window (a contiguous run `mid` of the history) are bounded by one burst plus rate × duration -/
theorem bucket_window_bound (r B : Nat) (pre mid post : List (Nat × Nat))
    (h : valid r B B 0 (pre ++ mid ++ post) = true) : sumN mid ≤ B + r * span mid := by
  rw [List.append_assoc] at h
  obtain ⟨L', t', h'⟩ := valid_of_append_right r B pre (mid ++ post) B 0 h
  exact run_bound r B mid L' t' (valid_of_append_left r B mid post L' t' h')

example : valid 2 10 10 0 [(0, 10), (3, 6), (5, 4), (100, 10)] = true := by decide
example : valid 2 10 10 0 [(0, 10), (3, 7)] = false := by decide

/-! ## (5) close propagation -/

/-- first close succeeds, a second close changes nothing: then every number ≥ 1 of closes gives the same count -/
def closeCheck (g : Graph) : Option Nat :=
  match close g fuel0 g.top {} with
  | some st1 => if close g fuel0 g.top st1 = some st1 then some st1.count else none
  | none => none

theorem closeTop_idem (g : Graph) (st : St) (h : close g fuel0 g.top st = some st) :
    ∀ k, closeTop g k st = some st := by
  intro k
  induction k with
  | zero => rfl
  | succ k ih => simp only [closeTop, h, Option.bind_some, ih]

theorem closeCount_of_check (g : Graph) (n : Nat) (hc : closeCheck g = some n) :
    ∀ k, 1 ≤ k → closeCount g k = some n := by
  intro k hk
  obtain ⟨k, rfl⟩ : ∃ j, k = j + 1 := ⟨k - 1, by omega⟩
  unfold closeCheck at hc
  split at hc
  · rename_i st1 h1
    split at hc
    · rename_i h2
      simp only [closeCount, closeTop, h1, Option.bind_some, closeTop_idem g st1 h2 k, Option.map_some]
      exact hc
    · exact absurd hc (by simp)
  · exact absurd hc (by simp)

/-- a bare transport (no wrapper at all): every `Close()` call reaches it -/
theorem closeTop_bare (g : Graph) (h : ∀ st : St, close g fuel0 g.top st = some { st with count := st.count + 1 }) :
    ∀ k (st : St), closeTop g k st = some { st with count := st.count + k } := by
  intro k
  induction k with
  | zero => intro st; rfl
  | succ k ih =>
    intro st
    simp only [closeTop, h, Option.bind_some, ih]
    congr 2
    omega

/-- frpc's stack, every option combination, any number k ≥ 1 of `Close()` calls on the top: the work
    connection is closed — exactly once as soon as one wrapper exists -/
theorem client_close (o : Opts) (k : Nat) (hk : 1 ≤ k) :
    closeCount (clientGraph o) k = some (if (clientStack o).isEmpty then k else 1) := by
  cases o with | mk e c ls lc =>
  cases e <;> cases c <;> cases lc <;>
    first
    | exact closeCount_of_check _ 1 (by cases ls <;> decide) k hk
    | (simp only [closeCount]
       rw [closeTop_bare _ (by intro st; rfl) k {}]
       cases ls <;> simp [clientStack, opt])

/-- frps' stack with the REPAIRED limiter closure: same statement -/
theorem server_close_fixed (o : Opts) (k : Nat) (hk : 1 ≤ k) :
    closeCount (serverGraph o true) k = some (if (serverStack o).isEmpty then k else 1) := by
  cases o with | mk e c ls lc =>
  cases e <;> cases c <;> cases ls <;>
    first
    | exact closeCount_of_check _ 1 (by cases lc <;> decide) k hk
    | (simp only [closeCount]
       rw [closeTop_bare _ (by intro st; rfl) k {}]
       cases lc <;> simp [serverStack, opt])

/-- frps' stack AS IT IS: the statement holds whenever the server does not enforce a bandwidth limit -/
theorem server_close_partial (o : Opts) (k : Nat) (hk : 1 ≤ k) (hl : o.limSrv = false) :
    closeCount (serverGraph o false) k = some (if (serverStack o).isEmpty then k else 1) := by
  cases o with | mk e c ls lc =>
  simp only at hl
  subst hl
  cases e <;> cases c <;>
    first
    | exact closeCount_of_check _ 1 (by cases lc <;> decide) k hk
    | (simp only [closeCount]
       rw [closeTop_bare _ (by intro st; rfl) k {}]
       cases lc <;> simp [serverStack, opt])

/-- the full statement for the code as it is — FALSE on this tree (see the witness) -/
def ServerCloseFull : Prop :=
  ∀ (o : Opts) (k : Nat), 1 ≤ k → closeCount (serverGraph o false) k = some (if (serverStack o).isEmpty then k else 1)

/-- DEFECT (DESIGN §7 #2): with a server-side bandwidth limit, closing the top of frps' stack never
    reaches the work connection — for every combination of the other options and any number of closes:
    the limiter's closeFn `local.Close()` reads the variable that by then holds the limiter wrapper itself -/
theorem server_close_witness (o : Opts) (k : Nat) (hk : 1 ≤ k) (hl : o.limSrv = true) :
    closeCount (serverGraph o false) k = some 0 := by
  cases o with | mk e c ls lc =>
  simp only at hl
  subst hl
  cases e <;> cases c <;> exact closeCount_of_check _ 0 (by cases lc <;> decide) k hk

theorem server_close_full_fails : ¬ ServerCloseFull := by
  intro h
  have h1 := h ⟨false, false, true, false⟩ 1 (Nat.le_refl _)
  have h2 := server_close_witness ⟨false, false, true, false⟩ 1 (Nat.le_refl _) rfl
  rw [h2] at h1
  exact absurd h1 (by decide)

/-- both settings of the switch in one statement -/
theorem server_close_switch (fixed : Bool) (o : Opts) (k : Nat) (hk : 1 ≤ k) :
    closeCount (serverGraph o fixed) k =
      some (if !fixed && o.limSrv then 0 else if (serverStack o).isEmpty then k else 1) := by
  cases fixed
  · cases hl : o.limSrv
    · simpa [hl] using server_close_partial o k hk hl
    · simpa [hl] using server_close_witness o k hk hl
  · simpa using server_close_fixed o k hk

/-- the model the driver uses follows the switch `CloseGraph.limiterCloseIsFixed` -/
theorem server_close_current (o : Opts) (k : Nat) (hk : 1 ≤ k) :
    closeCount (serverGraph o) k =
      some (if !limiterCloseIsFixed && o.limSrv then 0 else if (serverStack o).isEmpty then k else 1) :=
  server_close_switch limiterCloseIsFixed o k hk

/-- http `GetRealConn` (same closure, below WrapReadWriteCloserToConn and StatsConn whose guard makes
    the top idempotent): repaired → exactly once; as it is → 0 with a server-side limit, else once -/
theorem http_close_fixed (o : Opts) (k : Nat) (hk : 1 ≤ k) : closeCount (httpRealConnGraph o true) k = some 1 := by
  cases o with | mk e c ls lc =>
  cases e <;> cases c <;> cases ls <;> exact closeCount_of_check _ 1 (by cases lc <;> decide) k hk

theorem http_close_current (o : Opts) (k : Nat) (hk : 1 ≤ k) :
    closeCount (httpRealConnGraph o false) k = some (if o.limSrv then 0 else 1) := by
  cases o with | mk e c ls lc =>
  cases e <;> cases c <;> cases ls <;>
    first
    | exact closeCount_of_check _ 1 (by cases lc <;> decide) k hk
    | exact closeCount_of_check _ 0 (by cases lc <;> decide) k hk

/-- visitor leg, both ends -/
theorem visitor_close (e c : Bool) (k : Nat) (hk : 1 ≤ k) :
    closeCount (visitorGraph e c) k = some (if (visitorStack e c).isEmpty then k else 1) := by
  cases e <;> cases c <;>
    first
    | exact closeCount_of_check _ 1 (by decide) k hk
    | (simp only [closeCount]
       rw [closeTop_bare _ (by intro st; rfl) k {}]
       simp [visitorStack, opt])

theorem visitor_server_close (e c : Bool) (k : Nat) (hk : 1 ≤ k) :
    closeCount (visitorServerGraph e c) k = some (if (visitorServerStack e c).isEmpty then k else 1) := by
  cases e <;> cases c <;>
    first
    | exact closeCount_of_check _ 1 (by decide) k hk
    | (simp only [closeCount]
       rw [closeTop_bare _ (by intro st; rfl) k {}]
       simp [visitorServerStack, opt])

/-- DEFECT (DESIGN §7 #17): `CloseNotifyConn.Close` never closes the embedded connection -/
theorem closeNotify_witness (k : Nat) (hk : 1 ≤ k) : closeCount (closeNotifyGraph false) k = some 0 :=
  closeCount_of_check _ 0 (by decide) k hk

/-- repaired (`cc.Conn.Close()`): exactly once -/
theorem closeNotify_fixed (k : Nat) (hk : 1 ≤ k) : closeCount (closeNotifyGraph true) k = some 1 :=
  closeCount_of_check _ 1 (by decide) k hk

/-- StatsConn: exactly once; WrapReadWriteCloserConn alone: every call is passed on -/
theorem stats_close (k : Nat) (hk : 1 ≤ k) : closeCount statsGraph k = some 1 :=
  closeCount_of_check _ 1 (by decide) k hk

theorem rwcConn_close (k : Nat) : closeCount rwcConnGraph k = some k := by
  simp only [closeCount]
  rw [closeTop_bare _ (by intro st; rfl) k {}]
  simp

/-- all copiers done and both transports closed -/
def JState.allDone (s : JState) : Bool := s.c1done && s.c2done && s.aClosed && s.bClosed

theorem jstep_done (s : JState) (h : s.c1done = true ∧ s.c2done = true) (e : JEv) : jstep true true s e = s := by
  cases e <;> simp [jstep, h.1, h.2]

/-- golib `Join`, both endpoints closable: after ANY non-empty sequence of end-of-stream events — the
    end of either direction — both copiers have returned and both transports are closed (so each peer
    sees EOF), and `Close()` was called exactly twice on each endpoint (hence the close-once guards) -/
theorem join_returns (evs : List JEv) (hne : evs ≠ []) :
    let s := jrun true true {} evs
    s.returned = true ∧ s.aClosed = true ∧ s.bClosed = true ∧ s.aCloseCalls = 2 ∧ s.bCloseCalls = 2 := by
  cases evs with
  | nil => exact absurd rfl hne
  | cons e rest =>
    have h1 : ∀ e : JEv, (jstep true true {} e).c1done = true ∧ (jstep true true {} e).c2done = true ∧
        (jstep true true {} e).aClosed = true ∧ (jstep true true {} e).bClosed = true ∧
        (jstep true true {} e).aCloseCalls = 2 ∧ (jstep true true {} e).bCloseCalls = 2 := by
      intro e; cases e <;> decide
    have hfix : ∀ (es : List JEv) (s : JState), s.c1done = true ∧ s.c2done = true → jrun true true s es = s := by
      intro es
      induction es with
      | nil => intro s _; rfl
      | cons e es ih => intro s hs; simp only [jrun, jstep_done s hs e, ih s hs]
    have := h1 e
    simp only [jrun]
    rw [hfix rest _ ⟨this.1, this.2.1⟩]
    simp only [JState.returned, this.1, this.2.1, this.2.2.1, this.2.2.2.1, this.2.2.2.2.1, this.2.2.2.2.2, and_self, Bool.and_self]

/-- DEFECT #2 seen from `Join` in handleUserTCPConnection (A = `local`, whose close does not reach the
    work connection; B = the user connection): however often the user side ends, `Join` does not
    return and the work connection stays open — the backend never learns that the user left -/
theorem join_stuck_witness (n : Nat) :
    let s := jrun false true {} (List.replicate n .eofB)
    s.returned = false ∧ s.aClosed = false := by
  have hinv : ∀ (n : Nat) (s : JState), s.c1done = false → s.aClosed = false →
      (jrun false true s (List.replicate n .eofB)).c1done = false ∧
      (jrun false true s (List.replicate n .eofB)).aClosed = false := by
    intro n
    induction n with
    | zero => intro s h1 h2; exact ⟨h1, h2⟩
    | succ n ih =>
      intro s h1 h2
      simp only [List.replicate_succ, jrun]
      apply ih
      · simp only [jstep]; split
        · exact h1
        · simp [JState.settle, JState.finish, h1, h2]
      · simp only [jstep]; split
        · exact h2
        · simp [JState.settle, JState.finish, h1, h2]
  have := hinv n {} rfl rfl
  simp only [JState.returned, this.1, this.2, Bool.false_and, and_self]

/-! ## (6) no cross-wiring -/

theorem find_endpoint (es : List Entry) (x : Entry) (hx : x ∈ es)
    (hu : ∀ y ∈ es, y.endpoint = x.endpoint → y = x) : es.find? (·.endpoint = x.endpoint) = some x := by
  induction es with
  | nil => cases hx
  | cons a r ih =>
    simp only [List.find?_cons]
    by_cases ha : a.endpoint = x.endpoint
    · have := hu a List.mem_cons_self ha
      simp [this]
    · simp only [ha, decide_false]
      rcases List.mem_cons.mp hx with h | h
      · exact absurd (h ▸ rfl) ha
      · exact ih h (fun y hy => hu y (List.mem_cons_of_mem _ hy))

theorem find_name (es : List Entry) (x : Entry) (hx : x ∈ es) (hd : namesDistinct es = true) :
    es.find? (·.name = x.name) = some x := by
  induction es with
  | nil => cases hx
  | cons a r ih =>
    simp only [namesDistinct, Bool.and_eq_true, List.all_eq_true] at hd
    simp only [List.find?_cons]
    rcases List.mem_cons.mp hx with h | h
    · subst h; simp
    · have hne : a.name ≠ x.name := by
        intro he
        have := hd.1 x h
        simp [he] at this
      simp only [hne, decide_false]
      exact ih h hd.2

/-- for ALL proxy tables with distinct names (Manager.Add refuses a used name) and distinct
    endpoints: a connection to proxy x's public endpoint is bridged to x's backend and no other -/
theorem no_crosswire (es : List Entry) (x : Entry) (hx : x ∈ es) (hd : namesDistinct es = true)
    (hu : ∀ y ∈ es, y.endpoint = x.endpoint → y = x) : bridged es x.endpoint = some x.backend := by
  have h1 := find_endpoint es x hx hu
  have h2 := find_name es x hx hd
  unfold bridged proxyOfEndpoint
  rw [h1]
  show dispatch es x.name = _
  unfold dispatch
  rw [h2]; rfl

/-- a StartWorkConn naming no proxy of this client dials nothing (the work connection is closed) -/
theorem dispatch_unknown (es : List Entry) (n : Str) (h : ∀ y ∈ es, y.name ≠ n) : dispatch es n = none := by
  simp only [dispatch, Option.map_eq_none_iff, List.find?_eq_none]
  intro y hy
  simp [h y hy]

example : bridged [⟨[1], 10, 100⟩, ⟨[2], 11, 101⟩, ⟨[1, 2], 12, 102⟩] 11 = some 101 := by decide

/-! ## (7) proxy-protocol header -/

/-- the header's source is the user's address as frps saw it -/
theorem pp_header_src (ver name : Str) (src : Addr) (dst : Option Addr)
    (hv : ver ≠ []) (hh : src.host ≠ []) (hp : src.port ≠ 0) :
    (ppHeader ver (startMsg name (some src) dst)).map (·.src) = some src := by
  simp [ppHeader, startMsg, hv, hh, hp]

/-- a header is written iff a version is configured and frps supplied a source -/
theorem pp_header_iff (ver : Str) (m : StartWorkConn) :
    (ppHeader ver m).isSome = (decide (ver ≠ []) && decide (m.srcAddr ≠ []) && decide (m.srcPort ≠ 0)) := by
  simp only [ppHeader]
  split
  · rename_i h; simp [h.1, h.2.1, h.2.2]
  · rename_i h
    simp only [Option.isSome_none]
    by_cases h1 : ver = [] <;> by_cases h2 : m.srcAddr = [] <;> by_cases h3 : m.srcPort = 0 <;> simp_all

/-- destination: what frps saw as local address of the user connection, 127.0.0.1 when absent -/
theorem pp_header_dst (ver name : Str) (src : Addr) (dst : Option Addr)
    (hv : ver ≠ []) (hh : src.host ≠ []) (hp : src.port ≠ 0) :
    (ppHeader ver (startMsg name (some src) dst)).map (·.dst) =
      some (match dst with
            | some d => if d.host = [] then { host := loopbackStr, port := d.port } else d
            | none => { host := loopbackStr, port := 0 }) := by
  cases dst with
  | none => simp [ppHeader, startMsg, hv, hh, hp]
  | some d =>
    by_cases hd : d.host = [] <;> simp [ppHeader, startMsg, hv, hh, hp, hd]

/-! ## (8) sniffed bytes are replayed -/

theorem https_replays_all (stream : C01Bytes) (k : Nat) : handedOn .https stream k = stream :=
  List.take_append_drop k stream

theorem tcpmux_passthrough_replays_all (stream : C01Bytes) (k : Nat) : handedOn (.tcpmux true) stream k = stream :=
  List.take_append_drop k stream

/-- tcpmux without passthrough hands on the raw connection: exactly the consumed bytes are gone; when
    the sniffer consumed exactly the CONNECT request the backend sees everything after it -/
theorem tcpmux_strips_consumed (req rest : C01Bytes) : handedOn (.tcpmux false) (req ++ rest) req.length = rest :=
  List.drop_left

/-- observation: bytes that arrive together with the CONNECT request (before the 200 reply) sit in the
    sniffer's bufio.Reader and are lost, since the raw connection — not the SharedConn — is handed on -/
theorem tcpmux_early_data_witness :
    ∃ (req rest : C01Bytes) (k : Nat), req.length < k ∧ handedOn (.tcpmux false) (req ++ rest) k ≠ rest :=
  ⟨[67], [1, 2, 3], 3, by decide, by decide⟩

/-! ## executable predicates the driver evaluates on the implementation's own results -/

/-- a recorded `limit.Writer.Write(p)`: the chunks the sink received -/
def writerHoldsOn (b : Nat) (p : C01Bytes) (got : List C01Bytes) : Bool :=
  got.flatten == p && got.all fun c => decide (0 < c.length) && decide (c.length ≤ b)

theorem holdsOn_sound (b : Nat) (p : C01Bytes) (got : List C01Bytes) :
    writerHoldsOn b p got = true ↔ (got.flatten = p ∧ ∀ c ∈ got, 0 < c.length ∧ c.length ≤ b) := by
  simp [writerHoldsOn, List.all_eq_true]

/-- the model's own output satisfies the predicate (the theorem the predicate stands for) -/
theorem model_holdsOn (b : Nat) (hb : 0 < b) (p : C01Bytes) : writerHoldsOn b p (chunks b p) = true :=
  (holdsOn_sound b p _).mpr ⟨writer_chunks b hb p, writer_chunk_bounds b hb p⟩

/-- one recorded `limit.Writer.Write` on the real code: `len(p)`, the count and whether `err == nil`, the sizes of
    the writes the sink saw, and (when the harness could observe them) the tokens each `WaitN` took -/
structure WObs where
  len : Nat
  n : Nat
  ok : Bool
  offered : List Nat
  reqs : Option (List Nat)
  deriving DecidableEq, Repr

/-- tokens cover bytes: the i-th `WaitN` took at least the size of the i-th write it admitted -/
def tokensCover : List Nat → List Nat → Bool
  | _, [] => true
  | [], _ :: _ => false
  | r :: rs, c :: cs => decide (c ≤ r) && tokensCover rs cs

/-- what C01 demands of one `Write` over a sink with `room` bytes left: if `p` fits it is written in full
    without error; if not, an error is reported and the count does not exceed what the sink took; the limiter
    was asked for at least the bytes that went through -/
def wObsOk (room : Nat) (o : WObs) : Bool :=
  (if o.len ≤ room then o.ok && o.n == o.len && o.offered.sum == o.len else !o.ok && decide (o.n ≤ room)) &&
  (match o.reqs with
   | some rs => tokensCover rs o.offered
   | none => true)

/-- successive calls on one writer (the sink's room shrinks by what it took) -/
def wlimHoldsOn : Nat → List WObs → Bool
  | _, [] => true
  | room, o :: rest => wObsOk room o && wlimHoldsOn (room - o.n) rest

def WObs.ofModel (p : C01Bytes) (o : WOut) : WObs :=
  { len := p.length, n := o.n, ok := o.err == .none, offered := o.offered.map List.length, reqs := some o.reqs }

theorem tokensCover_self : ∀ (l : List Nat), tokensCover l l = true
  | [] => rfl
  | a :: l => by simp [tokensCover, tokensCover_self l]

/-- the model's own `Write` satisfies the predicate, for every burst, sink capacity and payload -/
theorem wlim_model_holdsOn (inf : Bool) (b : Nat) (hb : 0 < b) (room : Nat) (p : C01Bytes) :
    wObsOk room (WObs.ofModel p (write inf b room p)) = true := by
  have hc := writer_requests_cover inf b hb room p
  by_cases h : p.length ≤ room
  · have hw := writer_finite_complete inf b hb room p h
    have hn := writerN_eq b hb p
    simp only [writerN] at hn
    simp [wObsOk, WObs.ofModel, hw, h, hn, tokensCover_self]
  · have hs := writer_short_count inf b hb room p
    have hne : ((write inf b room p).err == WErr.none) = false := by
      cases he : (write inf b room p).err with
      | none => exact absurd (hs.2.1.mp he) h
      | wait => rfl
      | sink => rfl
    have hle : (write inf b room p).n ≤ room := by rw [hs.1]; exact Nat.min_le_left _ _
    simp [wObsOk, WObs.ofModel, h, hne, hle, hc.1, tokensCover_self]

/-- one recorded drain through the real `limit.Reader`: bytes per `Read`, tokens per `Read` when observed -/
def rlimHoldsOn (b plen srcLen : Nat) (ns : List Nat) (reqs : Option (List Nat)) (eof cat : Bool) : Bool :=
  eof && cat && ns.sum == srcLen && ns.all (fun n => decide (n ≤ min plen b)) &&
  (match reqs with
   | some rs => tokensCover rs ns
   | none => true)

theorem tokensCover_map {α : Type} (f g : α → Nat) : ∀ (l : List α), (∀ x ∈ l, g x ≤ f x) →
    tokensCover (l.map f) (l.map g) = true
  | [], _ => rfl
  | a :: l, h => by
    simp only [List.map_cons, tokensCover, Bool.and_eq_true, decide_eq_true_eq]
    exact ⟨h a (List.mem_cons_self ..), tokensCover_map f g l (fun x hx => h x (List.mem_cons_of_mem _ hx))⟩

/-- the model's own drain satisfies the predicate, for every burst, buffer size, segment size and stream -/
theorem rlim_model_holdsOn (inf : Bool) (b plen per : Nat) (hb : 0 < b) (hp : 0 < plen) (hper : 0 < per) (src : C01Bytes) :
    rlimHoldsOn b plen src.length ((readAll inf b plen per (src.length + 1) src).map (·.got.length))
      (some ((readAll inf b plen per (src.length + 1) src).map (·.req.getD 0)))
      ((readAll inf b plen per (src.length + 1) src).getLast?.map (·.err) == some RErr.eof) true = true := by
  obtain ⟨h1, h2, pre, h3, _⟩ := reader_drain inf b plen per hb hp hper src
  generalize readAll inf b plen per (src.length + 1) src = rs at h1 h2 h3
  have hsum : (rs.map (·.got.length)).sum = src.length := by
    have := sum_map_length_flatten (rs.map (·.got))
    rw [List.map_map, h1] at this
    exact this
  have hall : ∀ n ∈ rs.map (·.got.length), n ≤ min plen b := by
    intro n hn
    obtain ⟨r, hr, rfl⟩ := List.mem_map.mp hn
    exact (h2 r hr).2.1
  have hcov : tokensCover (rs.map (·.req.getD 0)) (rs.map (·.got.length)) = true := by
    apply tokensCover_map
    intro r hr
    obtain ⟨hw, _, hn, he⟩ := h2 r hr
    cases hr' : r.err with
    | none => rw [(hn hr').1]; exact Nat.le_refl _
    | eof => rw [(he hr').1]; exact Nat.zero_le _
    | wait => exact absurd hr' hw
  have hlast : (rs.getLast?.map (·.err) == some RErr.eof) = true := by
    rw [h3]; simp
  simp only [rlimHoldsOn, hlast, hsum, hcov, Bool.true_and, Bool.and_true, beq_self_eq_true, List.all_eq_true,
    decide_eq_true_eq]
  exact hall

/-- one recorded drain of a REAL wrapper stack over a scripted source: the bytes of every `Read` (the failing one
    included), the tokens each took when the harness could observe them, the error that ended the drain (`none` = it
    did not end), whether the bytes read are the bytes the source delivered, `StatsConn`'s count.  `cap` = the smallest
    of the buffer and the bursts -/
def rsrcHoldsOn (cap : Nat) (src : List Seg) (ns : List Nat) (toks : Option (List Nat)) (endE : Option PErr)
    (cat : Bool) (cnt : Option Nat) : Bool :=
  cat && ns.sum == (delivered src).length && ns.all (fun n => decide (n ≤ cap)) &&
  (if finalErr src = .eof then endE == some .eof else endE.isSome && endE != some .none) &&
  (match toks with
   | some ts => tokensCover ts.dropLast ns.dropLast
   | none => true) &&
  (match cnt with
   | some c => c == ns.sum
   | none => true)

theorem dropLast_map {α β : Type} (f : α → β) : ∀ (l : List α), (l.map f).dropLast = l.dropLast.map f
  | [] => rfl
  | [_] => rfl
  | a :: b :: l => by simp [List.dropLast]

/-- the model's own drain satisfies the predicate, for every wrapper stack, buffer and source (tokens are observed
    when the stack has a limiter) -/
theorem rsrc_model_holdsOn (ws : List RW) (plen : Nat) (hb : burstsPos ws = true) (hp : 0 < plen) (src : List Seg) :
    rsrcHoldsOn (effK ws plen) src ((drainW ws plen (srcFuel src) src).map (·.got.length))
      (if nLim ws = 0 then none else some ((drainW ws plen (srcFuel src) src).map (·.reqs.sum)))
      ((drainW ws plen (srcFuel src) src).getLast?.map (·.err)) true
      (some (statsCount (drainW ws plen (srcFuel src) src))) = true := by
  have hcnt := stats_count_all ws plen hb hp src
  obtain ⟨h1, h2, pre, last, h3, h4, h5, h6⟩ := reader_any_source ws plen hb hp src
  generalize drainW ws plen (srcFuel src) src = rs at h1 h2 h3 hcnt
  have hsum : (rs.map (·.got.length)).sum = (delivered src).length := hcnt
  have hall : ((rs.map (·.got.length)).all fun n => decide (n ≤ effK ws plen)) = true := by
    simp only [List.all_eq_true, decide_eq_true_eq]
    intro n hn
    obtain ⟨r, hr, rfl⟩ := List.mem_map.mp hn
    exact (h2 r hr).2.1
  have hlast : rs.getLast?.map (·.err) = some (PErr.ofS (finalErr src)) := by rw [h3]; simp [h5]
  have hend : (if finalErr src = .eof then rs.getLast?.map (·.err) == some PErr.eof
      else (rs.getLast?.map (·.err)).isSome && rs.getLast?.map (·.err) != some PErr.none) = true := by
    rw [hlast]
    have hne := finalErr_ne_none src
    cases hf : finalErr src <;> simp_all [PErr.ofS]
  have hcov : (match (if nLim ws = 0 then none else some (rs.map (·.reqs.sum))) with
      | some ts => tokensCover ts.dropLast (rs.map (·.got.length)).dropLast
      | none => true) = true := by
    cases hn : nLim ws with
    | zero => simp
    | succ m =>
      simp only [Nat.succ_ne_zero, if_false]
      rw [dropLast_map, dropLast_map, h3, List.dropLast_concat]
      apply tokensCover_map
      intro r hr
      have hr' : r ∈ rs := by rw [h3]; exact List.mem_append_left _ hr
      rw [(h2 r hr').2.2.1 (h4 r hr), hn]
      simp only [List.replicate_succ, List.sum_cons]
      exact Nat.le_add_right _ _
  simp only [rsrcHoldsOn, hsum, hcnt, hend, hcov, hall, beq_self_eq_true, Bool.and_self]

/-- every byte handed to the caller was charged: the tokens of each `Read` — the failing one included — cover its bytes
    (the bandwidth clause: what a limiter lets through without asking is not bounded by the bucket) -/
def rsrcChargedOn (ns : List Nat) (toks : Option (List Nat)) : Bool :=
  match toks with
  | some ts => tokensCover ts ns
  | none => true

/-- FOR ALL SOURCES every byte handed to the caller is charged to every limiter of the stack — those that come together
    with an error included (fix c863bec) -/
theorem reader_charged (ws : List RW) (plen : Nat) (hb : burstsPos ws = true) (hp : 0 < plen) (src : List Seg)
    (hl : 0 < nLim ws) :
    rsrcChargedOn ((drainW ws plen (srcFuel src) src).map (·.got.length))
      (some ((drainW ws plen (srcFuel src) src).map (·.reqs.sum))) = true := by
  have h2 := (reader_any_source ws plen hb hp src).2.1
  generalize drainW ws plen (srcFuel src) src = rs at h2
  simp only [rsrcChargedOn]
  apply tokensCover_map
  intro r hr
  rw [(h2 r hr).2.2.2]
  exact Nat.le_mul_of_pos_left _ hl

/-- sensitivity: reader.go as it was BEFORE c863bec (`Limit.readWOld`: `if err != nil { return }` ahead of `WaitN`) fails
    the predicate over a source that ends `(n > 0, EOF)` — a quic stream: its last bytes passed the limiter for free -/
theorem reader_charged_old_witness :
    rsrcChargedOn ((drainWOld [.limit false 8] 8 (srcFuel [⟨[1, 2], .eof⟩]) [⟨[1, 2], .eof⟩]).map (·.got.length))
      (some ((drainWOld [.limit false 8] 8 (srcFuel [⟨[1, 2], .eof⟩]) [⟨[1, 2], .eof⟩]).map (·.reqs.sum))) = false ∧
    readerChargeOld 2 true = 0 ∧ readerCharge 2 true = 2 := by
  decide

/-- the tie to reader.go (regenerated on every run): every `return` of `Reader.Read` after the read below is dominated
    by a `WaitN` call (one guarded by `n > 0` counts: it runs whenever there are bytes) -/
theorem reader_code_charges :
    Gen.ConnFacts.readerReturnsCharged.all (fun r => r.2) = true ∧ Gen.ConnFacts.readerReturnsCharged ≠ [] := by
  decide

/-- one recorded `Write` of a REAL wrapper stack over a scripted sink: `len(p)`, the returned count, whether
    `err == nil`, the sizes the sink was offered, the counts the sink returned, whether the sink returned an error
    during this call, the tokens each `WaitN` took when observed -/
structure WSObs where
  len : Nat
  n : Nat
  ok : Bool
  offered : List Nat
  took : List Nat
  sinkErr : Bool
  reqs : Option (List Nat)
  deriving DecidableEq, Repr

/-- what C01 demands of one `Write` over a contract-abiding sink: the count is what the sink took (not less: the caller
    would send those bytes again; not more: they would be lost), at most `len(p)`, `len(p)` when no error is returned;
    an error of the sink is reported; the limiter was asked for at least the bytes that went through -/
def wsObsOk (o : WSObs) : Bool :=
  o.n == o.took.sum && decide (o.n ≤ o.len) && (!o.ok || o.n == o.len) && (!o.sinkErr || !o.ok) &&
  (match o.reqs with
   | some rs => tokensCover rs o.offered
   | none => true)

/-- a run of `Write` calls that stops at the first error; `cat` = the sink holds exactly the first `Σ n` bytes -/
def wsnkHoldsOn (obs : List WSObs) (cat : Bool) : Bool := cat && obs.all wsObsOk

def WSObs.ofModel (ws : List RW) (p : C01Bytes) (o : WRes) : WSObs :=
  { len := p.length, n := o.n, ok := o.err == .none, offered := o.offered.map List.length, took := o.took,
    sinkErr := o.err == .sink, reqs := if (limOf ws).isSome then some o.reqs else none }

/-- the model's own `Write` satisfies the predicate, for every wrapper stack, contract-abiding sink and payload -/
theorem wsnk_model_holdsOn (ws : List RW) (hb : limPos ws = true) (ss : List SinkResp) (hs : sinkOk ss = true)
    (p : C01Bytes) : wsObsOk (WSObs.ofModel ws p (writeW ws ss p).1) = true := by
  obtain ⟨h1, h2, _, h4, h5⟩ := writer_any_sink ws hb ss hs p
  have hreq : (match (if (limOf ws).isSome then some (writeW ws ss p).1.reqs else none) with
      | some rs => tokensCover rs ((writeW ws ss p).1.offered.map List.length)
      | none => true) = true := by
    cases hl : limOf ws with
    | none => simp
    | some ib =>
      obtain ⟨inf, b⟩ := ib
      simp only [Option.isSome_some, if_true, writeW, hl, writeS, writeSAux_reqs, tokensCover_self]
  have hok : (!((writeW ws ss p).1.err == WErr.none) || (writeW ws ss p).1.n == p.length) = true := by
    cases he : (writeW ws ss p).1.err with
    | none => simp [h4 he]
    | wait => simp
    | sink => simp
  have hse : (!((writeW ws ss p).1.err == WErr.sink) || !((writeW ws ss p).1.err == WErr.none)) = true := by
    cases (writeW ws ss p).1.err <;> simp
  have hn : ((writeW ws ss p).1.n == (writeW ws ss p).1.took.sum) = true := by
    rw [← h1]; exact beq_self_eq_true _
  have hle : decide ((writeW ws ss p).1.n ≤ p.length) = true := decide_eq_true h2
  simp only [wsObsOk, WSObs.ofModel, hn, hok, hse, hreq, Bool.true_and, Bool.and_true]
  exact hle

/-- what an end-to-end transfer observed -/
structure Obs where
  sent : C01Bytes                -- what the writer wrote (small cases: the bytes; large: empty + flags)
  got : C01Bytes                 -- what the reader read
  complete : Bool             -- writer closed after writing everything, reader read until EOF
  eofSeen : Bool              -- reader saw end-of-stream within the bound
  deriving DecidableEq, Repr

/-- prefix always; equality and EOF after a close -/
def xferHoldsOn (o : Obs) : Bool :=
  o.got.isPrefixOf o.sent && (!o.complete || (o.got == o.sent && o.eofSeen))

theorem xferHoldsOn_sound (o : Obs) :
    xferHoldsOn o = true ↔ (o.got <+: o.sent ∧ (o.complete = true → o.got = o.sent ∧ o.eofSeen = true)) := by
  simp only [xferHoldsOn, Bool.and_eq_true, List.isPrefixOf_iff_prefix, Bool.or_eq_true,
    Bool.not_eq_true', beq_iff_eq]
  constructor
  · rintro ⟨h1, h2⟩
    refine ⟨h1, fun hc => ?_⟩
    rcases h2 with h | h
    · rw [hc] at h; cases h
    · exact h
  · rintro ⟨h1, h2⟩
    refine ⟨h1, ?_⟩
    cases hc : o.complete
    · exact Or.inl rfl
    · exact Or.inr (h2 hc)

/-! ## (9) the sniff phase leaves no deadline behind -/
section deadline
open Deadline

/-- whatever happened before, `SetDeadline(time.Time{})` leaves neither deadline armed -/
theorem dl_clear_both (cs : List Call) : (run (cs ++ [.both false])).cleared = true := by
  simp [run, List.foldl_append, St.apply, St.cleared]

/-- lifting ONLY the read deadline after `SetDeadline(t)` leaves the write deadline armed, whatever happened before -/
theorem dl_read_only_clear_leaves_write (cs : List Call) :
    run (cs ++ [.both true, .rd false]) = { rd := false, wd := true } := by
  simp [run, List.foldl_append, St.apply]

/-- `(*Muxer).handle`: a connection that is handed to the proxy's listener carries no deadline -/
theorem handle_clears_deadlines : (run (handleCalls .handedOn)).cleared = true := by decide

/-- every way `handle` can end: the connection is closed, or it is handed on with both deadlines cleared -/
theorem handle_closes_or_clears (o : Outcome) :
    handleCloses o = true ∨ (handleCloses o = false ∧ (run (handleCalls o)).cleared = true) := by
  cases o <;> decide

/-- the deadline calls of the REAL `handle` (regenerated from vhost.go on every run): all on the straight-line path
    to the hand-off, and exactly the model's -/
def handleCodeCalls : Option (List Call) :=
  Gen.ConnFacts.muxerHandleDeadlines.mapM fun d => if d.2.2.2 = 0 then Call.ofSrc d.2.1 d.2.2.1 else none

theorem handle_code_clears :
    handleCodeCalls = some (handleCalls .handedOn) ∧ Gen.ConnFacts.muxerHandleHandOff.length = 1 := by
  decide +kernel

/-- the predicate evaluated on the calls the real socket saw up to the hand-off -/
def dlHoldsOn (calls : List Call) : Bool := (run calls).cleared

theorem dlHoldsOn_sound (calls : List Call) :
    dlHoldsOn calls = true ↔ (run calls).rd = false ∧ (run calls).wd = false := by
  simp [dlHoldsOn, St.cleared]

end deadline

/-! ## (10) closing a QUIC work connection never cancels what was written -/
section quic
open QuicStream

theorem quic_noCancel_run : ∀ (prog : List Call) (s : Stream) (ks : List Nat), s.resetAt = none → .cancelWrite ∉ prog →
    (runCalls s prog ks).resetAt = none ∧ (runCalls s prog ks).written = s.written ∧
    (runCalls s prog ks).fin = (s.fin || prog.contains .close)
  | [], s, ks, h, _ => by cases ks <;> simp [runCalls, h]
  | c :: cs, s, ks, h, hn => by
    have hc : c ≠ .cancelWrite := fun e => hn (by simp [e])
    have hcs : Call.cancelWrite ∉ cs := fun e => hn (by simp [e])
    have step : ∀ k, (s.call k c).resetAt = none ∧ (s.call k c).written = s.written ∧
        (s.call k c).fin = (s.fin || c == .close) := by
      intro k
      cases c with
      | cancelRead => simp [Stream.call, h]
      | close => simp [Stream.call, h]
      | cancelWrite => exact absurd rfl hc
    cases ks with
    | nil =>
      obtain ⟨h1, h2, h3⟩ := step 0
      obtain ⟨i1, i2, i3⟩ := quic_noCancel_run cs (s.call 0 c) [] h1 hcs
      refine ⟨by simpa [runCalls] using i1, by simpa [runCalls, h2] using i2, ?_⟩
      simp only [runCalls, i3, h3, List.contains_cons, Bool.or_assoc]
      cases c <;> simp [show (Call.cancelRead == Call.close) = false by decide, show (Call.close == Call.cancelRead) = false by decide,
        show (Call.cancelWrite == Call.close) = false by decide, show (Call.close == Call.cancelWrite) = false by decide]
    | cons k ks =>
      obtain ⟨h1, h2, h3⟩ := step k
      obtain ⟨i1, i2, i3⟩ := quic_noCancel_run cs (s.call k c) ks h1 hcs
      refine ⟨by simpa [runCalls] using i1, by simpa [runCalls, h2] using i2, ?_⟩
      simp only [runCalls, i3, h3, List.contains_cons, Bool.or_assoc]
      cases c <;> simp [show (Call.cancelRead == Call.close) = false by decide, show (Call.close == Call.cancelRead) = false by decide,
        show (Call.cancelWrite == Call.close) = false by decide, show (Call.close == Call.cancelWrite) = false by decide]

/-- ANY close program that closes the send side and never calls CancelWrite — at whatever moments its calls run, however
    little the peer has read by then — delivers everything that was written, then a clean end-of-stream -/
theorem quic_noCancel_delivers (prog : List Call) (w : List Nat) (ks : List Nat)
    (hn : .cancelWrite ∉ prog) (hc : .close ∈ prog) :
    (runCalls { written := w } prog ks).peerGets = (w, true) := by
  obtain ⟨h1, h2, h3⟩ := quic_noCancel_run prog { written := w } ks rfl hn
  simp only [Stream.peerGets, h1, h2, h3]
  simp [hc]

/-- `(*wrapQuicStream).Close` as it is -/
theorem quic_close_delivers (w : List Nat) (ks : List Nat) :
    (runCalls { written := w } wrapperClose ks).peerGets = (w, true) :=
  quic_noCancel_delivers _ w ks (by decide) (by decide)

/-- a CancelWrite that runs after the close, at a moment when the peer's application has consumed only `k` of the bytes
    (a timer, a slow or paused reader): the peer gets `k` bytes and no clean end — the tail is lost -/
theorem quic_cancelWrite_loses (w : List Nat) (k k1 k2 : Nat) (hk : k < w.length) :
    (runCalls { written := w } (wrapperClose ++ [.cancelWrite]) [k1, k2, k]).peerGets = (w.take k, false) := by
  have : ¬ w.length ≤ k := by omega
  simp [runCalls, wrapperClose, Stream.call, Stream.peerGets, this, Nat.min_eq_left (Nat.le_of_lt hk)]

/-- the calls of the REAL wrapper's Close (regenerated from conn.go on every run): exactly the model's, none deferred
    to a timer / goroutine -/
theorem quic_close_code :
    Gen.ConnFacts.quicCloseCalls.mapM (fun c => if c.2 then none else Call.ofSrc c.1) = some wrapperClose := by
  decide +kernel

/-- the predicate on an observed close: the stream calls seen, what the peer got -/
def quicHoldsOn (calls : List Call) (sent got : Nat) (eof eq : Bool) : Bool :=
  !calls.contains .cancelWrite && calls.contains .close && got == sent && eof && eq

end quic

/-! ## (11) a pooled codec is never held by two live connections -/
section pool
open CodecPool1

/-- no object is in two places (pool slots, live connections) at once, and `next` is beyond all of them -/
def PoolInv (s : CodecPool1.St) : Prop :=
  (s.pool ++ s.live).Nodup ∧ ∀ o ∈ s.pool ++ s.live, o < s.next

theorem nodup_eraseIdx_not_mem : ∀ (l : List Nat) (i : Nat) (o : Nat), l.Nodup → l[i]? = some o → o ∉ l.eraseIdx i
  | [], _, _, _, h => by simp at h
  | x :: xs, 0, o, hn, h => by
    simp at h; subst h
    simpa using (List.nodup_cons.mp hn).1
  | x :: xs, i + 1, o, hn, h => by
    have hx := List.nodup_cons.mp hn
    simp only [List.getElem?_cons_succ] at h
    have ih := nodup_eraseIdx_not_mem xs i o hx.2 h
    have hmem : o ∈ xs := List.mem_of_getElem? h
    simp only [List.eraseIdx_cons_succ, List.mem_cons, not_or]
    exact ⟨fun e => hx.1 (e ▸ hmem), ih⟩

theorem poolInv_step (s : CodecPool1.St) (op : Op) (hs : PoolInv s) (h1 : ∀ i r, op = .finish i r → r ≤ 1) : PoolInv (step s op) := by
  obtain ⟨hnd, hlt⟩ := hs
  have hA := List.nodup_append.mp hnd
  cases op with
  | start pick =>
    simp only [step]
    split
    · rename_i o ho
      -- a pooled object moves to the new connection
      have hmem : o ∈ s.pool := List.mem_of_getElem? ho
      refine ⟨?_, ?_⟩
      · refine List.nodup_append.mpr ⟨hA.1.sublist (List.eraseIdx_sublist _ _), ?_, ?_⟩
        · exact List.nodup_cons.mpr ⟨fun hl => hA.2.2 o hmem o hl rfl, hA.2.1⟩
        · intro a ha b hb
          have ha' : a ∈ s.pool := (List.eraseIdx_sublist _ _).subset ha
          rcases List.mem_cons.mp hb with rfl | hb
          · intro e; subst e; exact nodup_eraseIdx_not_mem _ _ _ hA.1 ho ha
          · exact hA.2.2 a ha' b hb
      · intro x hx
        rcases List.mem_append.mp hx with hx | hx
        · exact hlt x (List.mem_append.mpr (Or.inl ((List.eraseIdx_sublist _ _).subset hx)))
        · rcases List.mem_cons.mp hx with rfl | hx
          · exact hlt _ (List.mem_append.mpr (Or.inl hmem))
          · exact hlt x (List.mem_append.mpr (Or.inr hx))
    · -- pool.New: an object nobody has
      refine ⟨?_, ?_⟩
      · refine List.nodup_append.mpr ⟨hA.1, ?_, ?_⟩
        · exact List.nodup_cons.mpr ⟨fun hl => Nat.lt_irrefl _ (hlt _ (List.mem_append.mpr (Or.inr hl))), hA.2.1⟩
        · intro a ha b hb
          rcases List.mem_cons.mp hb with rfl | hb
          · intro e; subst e; exact Nat.lt_irrefl _ (hlt _ (List.mem_append.mpr (Or.inl ha)))
          · exact hA.2.2 a ha b hb
      · intro x hx
        rcases List.mem_append.mp hx with hx | hx
        · exact Nat.lt_succ_of_lt (hlt x (List.mem_append.mpr (Or.inl hx)))
        · rcases List.mem_cons.mp hx with rfl | hx
          · exact Nat.lt_succ_self _
          · exact Nat.lt_succ_of_lt (hlt x (List.mem_append.mpr (Or.inr hx)))
  | finish idx r =>
    simp only [step]
    split
    · rename_i o ho
      have hmem : o ∈ s.live := List.mem_of_getElem? ho
      have hr : r ≤ 1 := h1 idx r rfl
      have hsub : s.live.eraseIdx idx ⊆ s.live := (List.eraseIdx_sublist _ _).subset
      have hnotin : o ∉ s.live.eraseIdx idx := nodup_eraseIdx_not_mem _ _ _ hA.2.1 ho
      have hnd' : (s.live.eraseIdx idx).Nodup := hA.2.1.sublist (List.eraseIdx_sublist _ _)
      have r01 : r = 0 ∨ r = 1 := by omega
      rcases r01 with rfl | rfl
      · -- never recycled: the object is dropped
        simp only [putN]
        refine ⟨List.nodup_append.mpr ⟨hA.1, hnd', fun a ha b hb => hA.2.2 a ha b (hsub hb)⟩, ?_⟩
        intro x hx
        rcases List.mem_append.mp hx with hx | hx
        · exact hlt x (List.mem_append.mpr (Or.inl hx))
        · exact hlt x (List.mem_append.mpr (Or.inr (hsub hx)))
      · -- recycled once: it goes back to the pool
        simp only [putN]
        refine ⟨List.nodup_append.mpr ⟨?_, hnd', ?_⟩, ?_⟩
        · refine List.nodup_append.mpr ⟨hA.1, (by simp), ?_⟩
          intro a ha b hb
          rw [List.mem_singleton.mp hb]
          intro e; subst e; exact hA.2.2 a ha a hmem rfl
        · intro a ha b hb
          rcases List.mem_append.mp ha with ha | ha
          · exact hA.2.2 a ha b (hsub hb)
          · rw [List.mem_singleton.mp ha]; intro e; subst e; exact hnotin hb
        · intro x hx
          rcases List.mem_append.mp hx with hx | hx
          · rcases List.mem_append.mp hx with hx | hx
            · exact hlt x (List.mem_append.mpr (Or.inl hx))
            · rw [List.mem_singleton.mp hx]; exact hlt o (List.mem_append.mpr (Or.inr hmem))
          · exact hlt x (List.mem_append.mpr (Or.inr (hsub hx)))
    · exact ⟨hnd, hlt⟩

theorem poolInv_run : ∀ (ops : List Op) (s : CodecPool1.St), PoolInv s → onceOnly ops = true → PoolInv (ops.foldl step s)
  | [], s, hs, _ => hs
  | op :: ops, s, hs, ho => by
    have h1 : (∀ i r, op = .finish i r → r ≤ 1) ∧ onceOnly ops = true := by
      cases op with
      | start p => exact ⟨fun _ _ e => (by cases e), by simpa [onceOnly] using ho⟩
      | finish i r =>
        simp only [onceOnly, Bool.and_eq_true, decide_eq_true_eq] at ho
        exact ⟨fun _ _ e => (by cases e; exact ho.1), ho.2⟩
    exact poolInv_run ops (step s op) (poolInv_step s op hs h1.1) h1.2

/-- for ALL histories of compressed connections starting and ending, with ANY choice the pool makes on Get: if every
    handler runs its recycle function at most once, no two live connections ever hold the same codec object … -/
theorem pool_no_sharing (ops : List Op) (h : onceOnly ops = true) : (run ops).live.Nodup :=
  (List.nodup_append.mp (poolInv_run ops {} ⟨by simp, by simp⟩ h).1).2.1

/-- … and no live connection's codec sits in the pool waiting to be handed to the next connection -/
theorem pool_live_not_pooled (ops : List Op) (h : onceOnly ops = true) : ∀ o ∈ (run ops).live, o ∉ (run ops).pool :=
  fun o ho hp => (List.nodup_append.mp (poolInv_run ops {} ⟨by simp, by simp⟩ h).1).2.2 o hp o ho rfl

/-- recycling TWICE: one connection finishes, the next two get the same object -/
theorem pool_double_put_witness : (run [.start 0, .finish 0 2, .start 0, .start 0]).live = [0, 0] := by decide

/-- the REAL handlers (regenerated from every caller of WithCompressionFromPool on every run): on no path through any
    of them does the recycle function run more than once -/
theorem pool_recycle_once_code : Gen.ConnFacts.poolRecycleMax.all (fun f => decide (f.2 ≤ 1)) = true ∧
    Gen.ConnFacts.poolRecycleMax.length ≥ 4 := by
  decide +kernel

end pool

/-! ## (12) closing one vhost proxy never re-routes the connections of another -/
section survivor
open Str Router

/-- a (domain, location, user) triple other than the survivor's bucket -/
def otherBucket (host user : Str) (d : Str × Str × Str) : Prop := ¬ (toLower host = toLower d.1 ∧ user = d.2.2)

/-- `Routers.Del` of routes in OTHER buckets (another domain, or the same domain under another routeByHTTPUser) — any
    number of them, in any order — leaves the lookup of a host/user that has its own route literally unchanged: the
    muxer still hands the connection to the same listener (so to the same proxy and backend), never to a wildcard
    proxy that also covers the host -/
theorem survivor_keeps_route (dels : List (Str × Str × Str)) : ∀ (R : Routers) (host path user : Str) (r : Route),
    Router.get R host path user = some r → (∀ d ∈ dels, otherBucket host user d) →
    Router.getVhost (dels.foldl (fun R d => Router.del R d.1 d.2.1 d.2.2) R) host path user = some r := by
  induction dels with
  | nil =>
    intro R host path user r h _
    simp [Router.getVhost, Router.levels, Router.findRouter, h]
  | cons d ds ih =>
    intro R host path user r h ho
    refine ih _ host path user r ?_ (fun x hx => ho x (List.mem_cons_of_mem _ hx))
    rw [C06.del_get_other R d.1 d.2.1 d.2.2 host path user (ho d (List.mem_cons_self))]
    exact h

/-- what the seeded cleanup did instead — dropping the whole domain entry — on the smallest table: alice's and bob's
    routes on one domain plus a wildcard; after alice's proxy is closed bob's connections must still reach bob (1),
    and in the model they do -/
theorem survivor_example :
    let a := Str.ofString "a.life.test"
    let R := (add (add (add Router.empty a [] (Str.ofString "alice") 0).1 a [] (Str.ofString "bob") 1).1
      (Str.ofString "*.life.test") [] [] 2).1
    (Router.getVhost (Router.del R a [] (Str.ofString "alice")) a [] (Str.ofString "bob")).map (·.payload) = some 1 ∧
    (Router.getVhost (Router.del R a [] (Str.ofString "alice")) a [] (Str.ofString "alice")).map (·.payload) = some 2 := by
  decide +kernel

end survivor
/-! ## (13) a running frpc is re-configured -/
section reload
open Reload

/-- UpdateAll(cs) on any table whose wrappers read what they report: the table IS the configured map (lo.KeyBy: the last
    entry of a name), every proxy made by NewWrapper from what is configured now -/
theorem reload_table (T : Table) (cs : List Cfg) (h : Inv T) (n : Nat) :
    lookup (updateAll T cs) n = (keyBy cs n).map Wrapper.new := updateAll_lookup T cs h n

/-- … and that table again has the property: it holds along every history -/
theorem reload_inv (hs : List (List Cfg)) (T : Table) (h : Inv T) : Inv (runHist T hs) := runHist_inv hs T h

/-- after ANY history of reloads (any earlier configurations, names configured twice, proxies that came and went), a
    new work connection of proxy n goes to the backend — dialled or through the plugin —, with the header version, of the
    LAST loaded configuration of n; to nothing if that does not configure n -/
theorem reload_bridges_last (hs : List (List Cfg)) (cs : List Cfg) (n : Nat) :
    dialled (runHist [] (hs ++ [cs])) n = (keyBy cs n).map fun c => (c.backend, c.via, c.ppv) := by
  have hinv : Inv (runHist [] hs) := runHist_inv hs [] (fun _ hp => by cases hp)
  have : runHist [] (hs ++ [cs]) = updateAll (runHist [] hs) cs := by simp [runHist, List.foldl_append]
  rw [this]
  simp only [dialled, reload_table _ cs hinv n, Option.map_map]
  cases keyBy cs n <;> rfl

/-- two proxies swap their backends (nothing frps sees changes): each is bridged to its NEW backend -/
theorem reload_swap (hs : List (List Cfg)) (a b : Cfg) (hn : a.name ≠ b.name) :
    let cs := [{ a with backend := b.backend }, { b with backend := a.backend }]
    dialled (runHist [] (hs ++ [[a, b], cs])) a.name = some (b.backend, a.via, a.ppv) ∧
    dialled (runHist [] (hs ++ [[a, b], cs])) b.name = some (a.backend, b.via, b.ppv) := by
  intro cs
  have e : hs ++ [[a, b], cs] = (hs ++ [[a, b]]) ++ [cs] := by simp
  rw [e, reload_bridges_last, reload_bridges_last]
  have hn' : ¬ b.name = a.name := fun h => hn h.symm
  simp [cs, keyBy, hn']

example : dialled (runHist [] [[⟨0, 7, 0, 2, 1⟩, ⟨1, 8, 0, 0, 1⟩], [⟨0, 8, 0, 2, 1⟩, ⟨1, 7, 0, 0, 1⟩, ⟨0, 9, 1, 1, 1⟩]]) 0 = some (9, 1, 1) := by
  decide

/-- SENSITIVITY: were a change that frps does not see taken over "in place" (`pw.Cfg = cfg`, the proxy keeps running),
    the proxy would go on dialling the OLD backend -/
theorem reload_inplace_witness :
    dialled (updateAllWith keepInPlace (updateAllWith keepInPlace [] [⟨0, 7, 0, 0, 1⟩]) [⟨0, 8, 0, 0, 1⟩]) 0 = some (7, 0, 0) ∧
    dialled (updateAll (updateAll [] [⟨0, 7, 0, 0, 1⟩]) [⟨0, 8, 0, 0, 1⟩]) 0 = some (8, 0, 0) := by
  decide

/-- the REAL UpdateAll (regenerated from client/proxy on every run): a running proxy is deleted-and-stopped exactly when it
    is no longer configured or its configuration is not DeepEqual to the new one, loop 1 does nothing else with a running
    wrapper, loop 2 makes a NewWrapper for what is missing — and no code of the package writes a wrapper's / a running
    proxy's configuration after NewWrapper -/
theorem reload_code_recreates :
    Gen.ConnFacts.updateAllDelConds = [["!ok || !reflect.DeepEqual(pxy.Cfg, cfg)"]] ∧
    Gen.ConnFacts.updateAllTouches = ["Stop"] ∧
    (Gen.ConnFacts.updateAllDelBody.contains "delete(pm.proxies, name)" && Gen.ConnFacts.updateAllDelBody.contains "pxy.Stop()") = true ∧
    (Gen.ConnFacts.updateAllAddCalls.contains "NewWrapper" && Gen.ConnFacts.updateAllAddCalls.contains "pxy.Start") = true ∧
    Gen.ConnFacts.clientCfgWriters = ["client/proxy/proxy_wrapper.go:NewWrapper:pw.pxy"] := by
  decide +kernel

/-- the predicate on what the users of one step observed: `obs n` = (backend, via, header version, the header named this
    very user / there was none) of the answer to a NEW connection to proxy n, `none` = no answer -/
def reloadHoldsOn (cs : List Cfg) (names : List Nat) (obs : Nat → Option (Nat × Nat × Nat × Bool)) : Bool :=
  names.all fun n =>
    match keyBy cs n with
    | none => true
    | some c => obs n == some (c.backend, c.via, c.ppv, true)

end reload

/-! ## (14) the StartWorkConn message of one user connection among others in flight -/
section workmsg
open WorkMsg

/-- for EVERY interleaving of the fill / send moments of any number of user connections of one proxy: a message written
    for connection i was built from connection i's own addresses -/
theorem startmsg_own (name : Str) (cs : List Conn) (evs : List Ev) :
    ∀ p ∈ (run false name cs evs).sent, ∃ c, cs[p.1]? = some c ∧ p.2 = startMsg name c.src c.dst :=
  (run_ok name cs evs St.init (by constructor <;> (intro p hp; simp [St.init] at hp))).2

/-- … so the proxy-protocol header frpc builds from it carries that very user's source address -/
theorem startmsg_header_own (ver name : Str) (cs : List Conn) (evs : List Ev) (i : Nat) (m : StartWorkConn) (c : Conn) (a : Addr)
    (hm : (i, m) ∈ (run false name cs evs).sent) (hc : cs[i]? = some c) (ha : c.src = some a)
    (hv : ver ≠ []) (hh : a.host ≠ []) (hp : a.port ≠ 0) : (ppHeader ver m).map (·.src) = some a := by
  rcases startmsg_own name cs evs (i, m) hm with ⟨c', hc', he⟩
  simp only at hc' he
  rw [hc] at hc'
  cases hc'
  rw [he, ha]
  exact pp_header_src ver name a c.dst hv hh hp

/-- SENSITIVITY: were the message a field of the proxy that every call fills in, a second user arriving between fill and
    send would put ITS address into the first user's message -/
theorem startmsg_shared_witness :
    let cs : List Conn := [⟨some ⟨[49], 1001⟩, none⟩, ⟨some ⟨[49], 1002⟩, none⟩]
    ((run true [112] cs [.fill 0, .fill 1, .send 0]).sent.map fun p => (p.1, p.2.srcPort)) = [(0, 1002)] ∧
    ((run false [112] cs [.fill 0, .fill 1, .send 0]).sent.map fun p => (p.1, p.2.srcPort)) = [(0, 1001)] := by
  decide

/-- the REAL GetWorkConnFromPool (regenerated from server/proxy/proxy.go on every run): the message is a literal built at
    the msg.WriteMsg call, its four address fields from parameters / locals of the call only, and neither the function nor
    a BaseProxy method it calls writes a field of the proxy or takes the address of one -/
theorem startmsg_code_locals :
    Gen.ConnFacts.startMsgShape = "literal" ∧
    (["SrcAddr", "SrcPort", "DstAddr", "DstPort"].all fun k => Gen.ConnFacts.startMsgFields.any fun f => f.1 == k && f.2.2) = true ∧
    Gen.ConnFacts.startMsgRecvWrites = [] := by
  decide +kernel

/-- the predicate on what k simultaneous users of one proxy observed: `obs i` = (backend, via, header version, the index of the
    user whose address the header's source is, destination = the endpoint dialled, own line answered) -/
def ppcHoldsOn (backend via ppv : Nat) (obs : List (Option (Nat × Nat × Nat × Option Nat × Bool × Bool))) : Bool :=
  (List.range obs.length).all fun i => obs[i]? == some (some (backend, via, ppv, some i, true, true))

end workmsg

end C01
end Frp
