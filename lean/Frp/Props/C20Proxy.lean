import Frp.Props.C20
import Frp.Model.NatProxy
/-
  C20, clause "a session is created only for a correctly signed request naming a LIVE xtcp proxy",
  through the SERVER-SIDE xtcp proxy (server/proxy/xtcp.go Run / Close / the sid-dispatch goroutine)
  composed with the controller model — Frp/Model/NatProxy.lean.

  The registration of a name in the controller (`Controller.clientCfgs`) is owned by the proxy:
  `PInv` says, for every reachable state of the composed system and so for every interleaving of
  visitor requests, owner deliveries (fast, slow, failing), closes, re-registrations and handler
  steps:   registered  ⇔  a proxy of that name whose Run succeeded and whose Close was not called,
  and the dispatch goroutine of a registered proxy has not returned.

    pinv_reachable                 the invariant, all label sequences from the empty state
    registered_iff_live            registered ⇔ live (the invariant read as an equivalence)
    close_unregisters              after Close() returns the name is not registered — whatever the
                                   dispatch goroutine is doing (idle, delivering a sid, returned)
    close_removes_own_channel      … and no registration carries this proxy's sid channel any more
    closed_stays_unregistered      … and stays so along every continuation without a Run of that name
    unregistered_refused           a request / pre-check naming an unregistered proxy is answered
                                   "doesn't exist", creates nothing; Run of that name registers it again
    session_only_for_live_proxy    a session appears only by a correctly signed, allowed request naming
                                   a proxy that is live and whose dispatch goroutine is running
    sid_only_from_notifying        a sid is taken by a dispatch goroutine only from a stored session
                                   whose handler is sending on THAT proxy's channel
    deferred_unregister_witness    the variant that unregisters when the goroutine returns instead of in
                                   Close() violates the clause (closed proxy, session created)
-/
namespace Frp
namespace C20
open NatHole NatProxy

/-! ## free controller labels never touch the registrations -/

theorem free_step_cfgs (c c' : State) (l : Label) (o : Out) (hf : ctlFree l = true)
    (h : step c l = some (c', o)) : c'.cfgs = c.cfgs ∧ c'.nextChan = c.nextChan := by
  cases l <;> simp only [ctlFree, Bool.false_eq_true] at hf <;> simp only [step] at h
  all_goals (repeat' split at h)
  all_goals first
    | (cases h; exact ⟨rfl, rfl⟩)
    | cases h

/-! ## the invariant -/

structure PInvOn (cfgs : List (Str × Cfg)) (next : Nat) (pxs : List (Nat × Pxy)) : Prop where
  /-- a registered name belongs to a live proxy holding the registration's channel -/
  reg_live : ∀ name cfg, aget cfgs name = some cfg →
    ∃ id p, nget pxs id = some p ∧ p.name = name ∧ p.chan = cfg.chan ∧ p.closed = false
  /-- a live proxy is registered under its name with its own channel -/
  live_reg : ∀ id p, nget pxs id = some p → p.closed = false →
    ∃ cfg, aget cfgs p.name = some cfg ∧ cfg.chan = p.chan
  chan_lt : ∀ id p, nget pxs id = some p → p.chan < next
  chan_inj : ∀ id id' p p', nget pxs id = some p → nget pxs id' = some p' → p.chan = p'.chan → id = id'
  /-- the dispatch goroutine returns only after Close -/
  stopped_closed : ∀ id p, nget pxs id = some p → p.loop = .stopped → p.closed = true

def PInv (s : PState) : Prop := PInvOn s.ctl.cfgs s.ctl.nextChan s.pxs

theorem pinv_init : PInv {} := by
  constructor
  · intro name cfg h; simp [aget] at h
  · intro id p h; simp [nget] at h
  · intro id p h; simp [nget] at h
  · intro id id' p p' h; simp [nget] at h
  · intro id p h; simp [nget] at h

/-- the dispatch goroutine moves (or nothing but `closed := true` is excluded): same name, channel and
    closed flag at `id` -/
theorem pinv_update {cfgs : List (Str × Cfg)} {next : Nat} {pxs : List (Nat × Pxy)}
    (h : PInvOn cfgs next pxs) (id : Nat) (p p' : Pxy) (hp : nget pxs id = some p)
    (hn : p'.name = p.name) (hc : p'.chan = p.chan) (hcl : p'.closed = p.closed)
    (hl : p'.loop = .stopped → p'.closed = true) : PInvOn cfgs next (nput pxs id p') := by
  constructor
  · intro name cfg hcfg
    obtain ⟨id0, p0, h0, hn0, hc0, hcl0⟩ := h.reg_live name cfg hcfg
    by_cases e : id = id0
    · subst e
      rw [hp] at h0; cases h0
      exact ⟨id, p', by rw [nget_nput]; simp, hn.trans hn0, hc.trans hc0, hcl.trans hcl0⟩
    · exact ⟨id0, p0, by rw [nget_nput]; simpa [e] using h0, hn0, hc0, hcl0⟩
  · intro id' q hq hqc
    rw [nget_nput] at hq
    by_cases e : id = id'
    · simp only [e, if_true, Option.some.injEq] at hq
      subst hq
      obtain ⟨cfg, h1, h2⟩ := h.live_reg id p hp (hcl ▸ hqc)
      exact ⟨cfg, by rw [hn]; exact h1, by rw [hc]; exact h2⟩
    · simp only [e, if_false] at hq
      exact h.live_reg id' q hq hqc
  · intro id' q hq
    rw [nget_nput] at hq
    by_cases e : id = id'
    · simp only [e, if_true, Option.some.injEq] at hq
      subst hq; rw [hc]; exact h.chan_lt id p hp
    · simp only [e, if_false] at hq
      exact h.chan_lt id' q hq
  · intro a b q r hq hr hqr
    rw [nget_nput] at hq hr
    by_cases ea : id = a <;> by_cases eb : id = b
    · exact ea.symm.trans eb
    · simp only [ea, if_true, Option.some.injEq] at hq
      simp only [eb, if_false] at hr
      subst hq
      rw [hc] at hqr
      exact ea ▸ h.chan_inj id b p r hp hr hqr
    · simp only [ea, if_false] at hq
      simp only [eb, if_true, Option.some.injEq] at hr
      subst hr
      rw [hc] at hqr
      exact eb ▸ h.chan_inj a id q p hq hp hqr
    · simp only [ea, if_false] at hq
      simp only [eb, if_false] at hr
      exact h.chan_inj a b q r hq hr hqr
  · intro id' q hq hs
    rw [nget_nput] at hq
    by_cases e : id = id'
    · simp only [e, if_true, Option.some.injEq] at hq
      subst hq; exact hl hs
    · simp only [e, if_false] at hq
      exact h.stopped_closed id' q hq hs

/-- `Run()` that registers: a fresh instance, a fresh channel, a name that was not registered -/
theorem pinv_run_ok {cfgs : List (Str × Cfg)} {next : Nat} {pxs : List (Nat × Pxy)}
    (h : PInvOn cfgs next pxs) (id : Nat) (name sk : Str) (allow : List Str)
    (hid : nget pxs id = none) (hname : aget cfgs name = none) :
    PInvOn (aput cfgs name { sk := sk, allow := allow, chan := next }) (next + 1)
      (nput pxs id { name := name, chan := next }) := by
  constructor
  · intro n cfg hcfg
    rw [aget_aput] at hcfg
    by_cases e : name = n
    · simp only [e, if_true, Option.some.injEq] at hcfg
      subst hcfg
      exact ⟨id, { name := name, chan := next }, by rw [nget_nput]; simp, e, rfl, rfl⟩
    · simp only [e, if_false] at hcfg
      obtain ⟨id0, p0, h0, hn0, hc0, hcl0⟩ := h.reg_live n cfg hcfg
      have : id ≠ id0 := by intro e2; subst e2; rw [hid] at h0; cases h0
      exact ⟨id0, p0, by rw [nget_nput]; simpa [this] using h0, hn0, hc0, hcl0⟩
  · intro id' q hq hqc
    rw [nget_nput] at hq
    by_cases e : id = id'
    · simp only [e, if_true, Option.some.injEq] at hq
      subst hq
      exact ⟨{ sk := sk, allow := allow, chan := next }, by rw [aget_aput]; simp, rfl⟩
    · simp only [e, if_false] at hq
      obtain ⟨cfg, h1, h2⟩ := h.live_reg id' q hq hqc
      have : name ≠ q.name := by intro e2; rw [← e2, hname] at h1; cases h1
      exact ⟨cfg, by rw [aget_aput]; simpa [this] using h1, h2⟩
  · intro id' q hq
    rw [nget_nput] at hq
    by_cases e : id = id'
    · simp only [e, if_true, Option.some.injEq] at hq
      subst hq; exact Nat.lt_succ_self _
    · simp only [e, if_false] at hq
      exact Nat.lt_succ_of_lt (h.chan_lt id' q hq)
  · intro a b q r hq hr hqr
    rw [nget_nput] at hq hr
    by_cases ea : id = a <;> by_cases eb : id = b
    · exact ea.symm.trans eb
    · simp only [ea, if_true, Option.some.injEq] at hq
      simp only [eb, if_false] at hr
      subst hq
      have := h.chan_lt b r hr
      simp only at hqr
      omega
    · simp only [ea, if_false] at hq
      simp only [eb, if_true, Option.some.injEq] at hr
      subst hr
      have := h.chan_lt a q hq
      simp only at hqr
      omega
    · simp only [ea, if_false] at hq
      simp only [eb, if_false] at hr
      exact h.chan_inj a b q r hq hr hqr
  · intro id' q hq hs
    rw [nget_nput] at hq
    by_cases e : id = id'
    · simp only [e, if_true, Option.some.injEq] at hq
      subst hq; cases hs
    · simp only [e, if_false] at hq
      exact h.stopped_closed id' q hq hs

/-- the first `Close()` of a proxy: CloseClient(name), closed := true — in any state of its goroutine -/
theorem pinv_close {cfgs : List (Str × Cfg)} {next : Nat} {pxs : List (Nat × Pxy)}
    (h : PInvOn cfgs next pxs) (id : Nat) (p : Pxy) (hp : nget pxs id = some p) (hpc : p.closed = false) :
    PInvOn (adel cfgs p.name) next (nput pxs id { p with closed := true }) := by
  constructor
  · intro n cfg hcfg
    rw [aget_adel] at hcfg
    by_cases e : p.name = n
    · simp [e] at hcfg
    · simp only [e, if_false] at hcfg
      obtain ⟨id0, p0, h0, hn0, hc0, hcl0⟩ := h.reg_live n cfg hcfg
      have : id ≠ id0 := by
        intro e2; subst e2; rw [hp] at h0; cases h0; exact e hn0
      exact ⟨id0, p0, by rw [nget_nput]; simpa [this] using h0, hn0, hc0, hcl0⟩
  · intro id' q hq hqc
    rw [nget_nput] at hq
    by_cases e : id = id'
    · simp only [e, if_true, Option.some.injEq] at hq
      subst hq; cases hqc
    · simp only [e, if_false] at hq
      obtain ⟨cfg, h1, h2⟩ := h.live_reg id' q hq hqc
      have hne : p.name ≠ q.name := by
        intro e2
        obtain ⟨cfg', h1', h2'⟩ := h.live_reg id p hp hpc
        rw [e2, h1] at h1'; cases h1'
        exact e (h.chan_inj id id' p q hp hq (h2'.symm.trans h2))
      exact ⟨cfg, by rw [aget_adel]; simpa [hne] using h1, h2⟩
  · intro id' q hq
    rw [nget_nput] at hq
    by_cases e : id = id'
    · simp only [e, if_true, Option.some.injEq] at hq
      subst hq; exact h.chan_lt id p hp
    · simp only [e, if_false] at hq
      exact h.chan_lt id' q hq
  · intro a b q r hq hr hqr
    rw [nget_nput] at hq hr
    by_cases ea : id = a <;> by_cases eb : id = b
    · exact ea.symm.trans eb
    · simp only [ea, if_true, Option.some.injEq] at hq
      simp only [eb, if_false] at hr
      subst hq
      exact ea ▸ h.chan_inj id b p r hp hr hqr
    · simp only [ea, if_false] at hq
      simp only [eb, if_true, Option.some.injEq] at hr
      subst hr
      exact eb ▸ h.chan_inj a id q p hq hp hqr
    · simp only [ea, if_false] at hq
      simp only [eb, if_false] at hr
      exact h.chan_inj a b q r hq hr hqr
  · intro id' q hq hs
    rw [nget_nput] at hq
    by_cases e : id = id'
    · simp only [e, if_true, Option.some.injEq] at hq
      subst hq; rfl
    · simp only [e, if_false] at hq
      exact h.stopped_closed id' q hq hs

/-- every step of the composed system keeps the invariant -/
theorem pinv_step (s s' : PState) (l : PLabel) (o : Out) (d : Sids) (hi : PInv s)
    (h : pstep s l = some (s', o, d)) : PInv s' := by
  unfold PInv at *
  cases l <;> simp only [pstep, pstepWith] at h
  case run id name sk allow =>
    split at h
    · cases h
    · next hid =>
      split at h
      · cases h; exact hi
      · next hname => cases h; exact pinv_run_ok hi id name sk allow hid hname
  case close id =>
    split at h
    · cases h
    · next p hp =>
      split at h
      · cases h; exact hi
      · next hc => cases h; exact pinv_close hi id p hp (by simpa using hc)
  case recv id sid =>
    split at h
    · next p sess hp hsess =>
      split at h
      · cases h; exact pinv_update hi id p _ hp rfl rfl rfl (by intro hh; cases hh)
      · cases h
    · cases h
  case fetched id ok =>
    split at h
    · next p hp =>
      split at h
      · cases h; exact pinv_update hi id p _ hp rfl rfl rfl (by intro hh; cases hh)
      · cases h
    · cases h
  case exit id =>
    split at h
    · next p hp =>
      split at h
      · next hc => cases h; exact pinv_update hi id p _ hp rfl rfl rfl (fun _ => hc.2)
      · cases h
    · cases h
  case ctl l =>
    split at h
    · next hf =>
      split at h
      · next c' o' hs =>
        cases h
        obtain ⟨h1, h2⟩ := free_step_cfgs _ _ _ _ hf hs
        simp only [h1, h2]; exact hi
      · cases h
    · cases h

theorem pinv_run : ∀ (ls : List PLabel) (s s' : PState) (o : Out) (d : Sids),
    PInv s → prun s ls = some (s', o, d) → PInv s' := by
  intro ls
  induction ls with
  | nil => intro s s' o d hi h; simp only [prun, prunWith] at h; cases h; exact hi
  | cons l ls ih =>
    intro s s' o d hi h
    simp only [prun, prunWith] at h
    split at h
    · cases h
    · next s1 o1 d1 h1 =>
      split at h
      · cases h
      · next s2 o2 d2 h2 => cases h; exact ih s1 _ _ _ (pinv_step s s1 l o1 d1 hi h1) h2

/-- ALL INTERLEAVINGS: every state the composed system reaches from the empty one satisfies `PInv` -/
theorem pinv_reachable (ls : List PLabel) (s : PState) (o : Out) (d : Sids)
    (h : prun {} ls = some (s, o, d)) : PInv s := pinv_run ls {} s o d pinv_init h

/-- registered ⇔ live, in every reachable state -/
theorem registered_iff_live (ls : List PLabel) (s : PState) (o : Out) (d : Sids)
    (h : prun {} ls = some (s, o, d)) (name : Str) :
    (aget s.ctl.cfgs name).isSome = true ↔
      ∃ id p, nget s.pxs id = some p ∧ p.name = name ∧ p.closed = false ∧ p.loop ≠ .stopped := by
  have hi := pinv_reachable ls s o d h
  constructor
  · intro hr
    match hc : aget s.ctl.cfgs name with
    | none => rw [hc] at hr; cases hr
    | some cfg =>
      obtain ⟨id, p, h1, h2, _, h4⟩ := hi.reg_live name cfg hc
      refine ⟨id, p, h1, h2, h4, ?_⟩
      intro hs; rw [hi.stopped_closed id p h1 hs] at h4; cases h4
  · rintro ⟨id, p, h1, h2, h3, _⟩
    obtain ⟨cfg, hc, _⟩ := hi.live_reg id p h1 h3
    rw [← h2, hc]; rfl

/-! ## Close -/

/-- AFTER `Close()` RETURNS THE NAME IS NOT REGISTERED: for every reachable state, whatever the
    dispatch goroutine of the proxy is doing at that moment (idle, inside GetWorkConnFromPool for a
    sid in flight, or already returned) -/
theorem close_unregisters (ls : List PLabel) (s s' : PState) (o o' : Out) (d d' : Sids) (id : Nat) (p : Pxy)
    (_h : prun {} ls = some (s, o, d)) (hp : nget s.pxs id = some p) (hpc : p.closed = false)
    (hc : pstep s (.close id) = some (s', o', d')) :
    aget s'.ctl.cfgs p.name = none ∧ o' = [] ∧ d' = [] := by
  simp only [pstep, pstepWith, hp, hpc, Bool.false_eq_true, if_false, if_true] at hc
  cases hc
  exact ⟨by simp only [aget_adel, if_true], rfl, rfl⟩

/-- … and after ANY `Close()` (first or repeated) no registration carries this proxy's channel: a
    visitor can never again be handed the sid channel of a closed proxy -/
theorem close_removes_own_channel (ls : List PLabel) (s s' : PState) (o o' : Out) (d d' : Sids) (id : Nat) (p : Pxy)
    (h : prun {} ls = some (s, o, d)) (hp : nget s.pxs id = some p)
    (hc : pstep s (.close id) = some (s', o', d')) :
    ∀ name cfg, aget s'.ctl.cfgs name = some cfg → cfg.chan ≠ p.chan := by
  have hi' : PInv s' := pinv_step s s' _ o' d' (pinv_reachable ls s o d h) hc
  intro name cfg hcfg hch
  obtain ⟨id0, p0, h0, _, hc0, hcl0⟩ := hi'.reg_live name cfg hcfg
  -- in s' the instance `id` is closed and still has channel p.chan
  have hid : ∃ q, nget s'.pxs id = some q ∧ q.chan = p.chan ∧ q.closed = true := by
    by_cases hcl : p.closed = true
    · simp only [pstep, pstepWith, hp, hcl, if_true] at hc
      cases hc; exact ⟨p, hp, rfl, hcl⟩
    · simp only [pstep, pstepWith, hp, hcl, if_true] at hc
      cases hc
      exact ⟨{ p with closed := true }, by rw [nget_nput]; simp, rfl, rfl⟩
  obtain ⟨q, hq, hqc, hqcl⟩ := hid
  have : id0 = id := hi'.chan_inj id0 id p0 q h0 hq (by rw [hc0, hch, hqc])
  subst this
  rw [hq] at h0; cases h0
  rw [hqcl] at hcl0; cases hcl0

def isRunOf (name : Str) : PLabel → Bool
  | .run _ n _ _ => n == name
  | _ => false

/-- only `Run` registers a name -/
theorem registered_only_by_run (s s' : PState) (l : PLabel) (o : Out) (d : Sids) (name : Str)
    (h : pstep s l = some (s', o, d)) (hn : aget s.ctl.cfgs name = none) (hr : isRunOf name l = false) :
    aget s'.ctl.cfgs name = none := by
  cases l <;> simp only [pstep, pstepWith] at h
  case run id n sk allow =>
    have hne : n ≠ name := by simpa [isRunOf] using hr
    split at h
    · cases h
    · split at h
      · cases h; exact hn
      · cases h; simp only [aget_aput, hne, if_false]; exact hn
  case close id =>
    split at h
    · cases h
    · split at h
      · cases h; exact hn
      · cases h; simp only [if_true, aget_adel]; split <;> simp [hn]
  case recv id sid =>
    split at h
    · split at h
      · cases h; exact hn
      · cases h
    · cases h
  case fetched id ok =>
    split at h
    · split at h
      · cases h; exact hn
      · cases h
    · cases h
  case exit id =>
    split at h
    · split at h
      · cases h; exact hn
      · cases h
    · cases h
  case ctl l =>
    split at h
    · next hf =>
      split at h
      · next c' o' hs =>
        cases h
        rw [(free_step_cfgs _ _ _ _ hf hs).1]; exact hn
      · cases h
    · cases h

/-- … so a closed name stays unregistered along EVERY continuation (deliveries ending, the
    goroutine returning, other proxies, visitor requests, timeouts …) that has no Run of that name -/
theorem closed_stays_unregistered (name : Str) : ∀ (ls : List PLabel) (s s' : PState) (o : Out) (d : Sids),
    aget s.ctl.cfgs name = none → (∀ l ∈ ls, isRunOf name l = false) → prun s ls = some (s', o, d) →
    aget s'.ctl.cfgs name = none := by
  intro ls
  induction ls with
  | nil => intro s s' o d hn _ h; simp only [prun, prunWith] at h; cases h; exact hn
  | cons l ls ih =>
    intro s s' o d hn hall h
    simp only [prun, prunWith] at h
    split at h
    · cases h
    · next s1 o1 d1 h1 =>
      split at h
      · cases h
      · next s2 o2 d2 h2 =>
        cases h
        exact ih s1 _ _ _
          (registered_only_by_run s s1 l o1 d1 name h1 hn (hall l (List.mem_cons_self ..)))
          (fun l' hl' => hall l' (List.mem_cons_of_mem _ hl')) h2

/-- what "not registered" means for the parties: a (correctly signed or not) request and a pre-check
    naming it are answered "doesn't exist" and change nothing — no session —, and `Run()` of a proxy
    of that name succeeds (ListenClient does not say "repeated") -/
theorem unregistered_refused (s : PState) (name : Str) (hn : aget s.ctl.cfgs name = none) :
    (∀ sid m t u, m.proxyName = name → aget s.ctl.sessions sid = none →
       pstep s (.ctl (.visitorLookup sid m t u)) = some (s, [(t, errResp m.tid .noExist)], [])) ∧
    (∀ m t u, m.proxyName = name →
       pstep s (.ctl (.precheck m t u)) = some (s, [(t, errResp m.tid .noExist)], [])) ∧
    (∀ id sk allow, nget s.pxs id = none →
       ∃ s', pstep s (.run id name sk allow) = some (s', [], []) ∧ (aget s'.ctl.cfgs name).isSome = true ∧
         ∃ p, nget s'.pxs id = some p ∧ p.name = name ∧ p.closed = false ∧ p.loop = .idle) := by
  refine ⟨?_, ?_, ?_⟩
  · intro sid m t u hm hs
    subst hm
    simp [pstep, pstepWith, ctlFree, step, hs, hn]
  · intro m t u hm
    subst hm
    simp [pstep, pstepWith, ctlFree, step, hn]
  · intro id sk allow hid
    refine ⟨{ ctl := { s.ctl with cfgs := aput s.ctl.cfgs name { sk := sk, allow := allow, chan := s.ctl.nextChan },
                                   nextChan := s.ctl.nextChan + 1 },
              pxs := nput s.pxs id { name := name, chan := s.ctl.nextChan } },
      by simp only [pstep, pstepWith, hid, hn], by simp [aget_aput], ?_⟩
    exact ⟨{ name := name, chan := s.ctl.nextChan }, by rw [nget_nput]; simp, rfl, rfl, rfl⟩

/-! ## sessions -/

/-- A SESSION IS CREATED ONLY FOR A CORRECTLY SIGNED REQUEST NAMING A LIVE XTCP PROXY: in every
    reachable state of the composed system a step that makes a new sid stored is the critical
    section of HandleVisitor for a request whose proxy name belongs to a proxy whose Run succeeded,
    whose Close has NOT been called and whose dispatch goroutine is running; signature and allow list
    as before -/
theorem session_only_for_live_proxy (ls : List PLabel) (s s' : PState) (o o' : Out) (d d' : Sids) (l : PLabel)
    (sid : Str) (h : prun {} ls = some (s, o, d)) (hs : pstep s l = some (s', o', d'))
    (hnew : aget s.ctl.sessions sid = none) (hs' : aget s'.ctl.sessions sid ≠ none) :
    ∃ m t u cfg id p, l = .ctl (.visitorLookup sid m t u) ∧
      aget s.ctl.cfgs m.proxyName = some cfg ∧ m.signed = authInput cfg.sk m.timestamp ∧
      userAllowed cfg.allow u = true ∧
      nget s.pxs id = some p ∧ p.name = m.proxyName ∧ p.chan = cfg.chan ∧ p.closed = false ∧ p.loop ≠ .stopped := by
  have hi := pinv_reachable ls s o d h
  cases l <;> simp only [pstep, pstepWith] at hs
  case run id name sk allow =>
    split at hs
    · cases hs
    · split at hs <;> cases hs <;> exact absurd hnew hs'
  case close id =>
    split at hs
    · cases hs
    · split at hs <;> cases hs <;> exact absurd hnew hs'
  case recv id sid' =>
    split at hs
    · next p sess hp hsess =>
      split at hs
      · cases hs
        simp only at hs'
        by_cases e : sid' = sid
        · subst e; rw [hsess] at hnew; cases hnew
        · rw [get_put_ne _ _ _ _ e] at hs'; exact absurd hnew hs'
      · cases hs
    · cases hs
  case fetched id ok =>
    split at hs
    · split at hs
      · cases hs; exact absurd hnew hs'
      · cases hs
    · cases hs
  case exit id =>
    split at hs
    · split at hs
      · cases hs; exact absurd hnew hs'
      · cases hs
    · cases hs
  case ctl l =>
    split at hs
    · split at hs
      · next c' o1 hst =>
        cases hs
        obtain ⟨m, t, u, cfg, hl, hcfg, hsig, hal, _⟩ := session_created_only_signed s.ctl c' l _ sid hst hnew hs'
        obtain ⟨id, p, h1, h2, h3, h4⟩ := hi.reg_live m.proxyName cfg hcfg
        refine ⟨m, t, u, cfg, id, p, by rw [hl], hcfg, hsig, hal, h1, h2, h3, h4, ?_⟩
        intro hst'; rw [hi.stopped_closed id p h1 hst'] at h4; cases h4
      · cases hs
    · cases hs

/-- a dispatch goroutine takes a sid only from a stored session whose handler is sending on THIS
    proxy's channel, and hands the owner nothing else -/
theorem sid_only_from_notifying (s s' : PState) (o : Out) (d : Sids) (id : Nat) (sid : Str)
    (h : pstep s (.recv id sid) = some (s', o, d)) :
    ∃ p sess, nget s.pxs id = some p ∧ p.loop = .idle ∧ aget s.ctl.sessions sid = some sess ∧
      sess.phase = .notifying p.chan ∧ nget s'.pxs id = some { p with loop := .delivering sid } ∧ d = [] := by
  simp only [pstep, pstepWith] at h
  split at h
  · next p sess hp hsess =>
    split at h
    · next hc => cases h; exact ⟨p, sess, hp, hc.1, hsess, hc.2, by rw [nget_nput]; simp, rfl⟩
    · cases h
  · cases h

theorem delivered_is_taken (s s' : PState) (o : Out) (d : Sids) (id : Nat) (ok : Bool)
    (h : pstep s (.fetched id ok) = some (s', o, d)) :
    ∃ p sid, nget s.pxs id = some p ∧ p.loop = .delivering sid ∧ o = [] ∧
      d = (if ok then [(id, sid)] else []) := by
  simp only [pstep, pstepWith] at h
  split at h
  · next p hp =>
    split at h
    · next sid hl => cases h; exact ⟨p, sid, hp, hl, rfl, rfl⟩
    · cases h
  · cases h

/-! ## the variant that unregisters when the dispatch goroutine returns -/

def pV (n : Nat) : VMsg := { tid := [118, n], proxyName := [112], signed := authInput [115] 7, timestamp := 7,
                              mapped := [Str.ofString "1.2.3.4:80", Str.ofString "1.2.3.4:80"] }

/-- Run p; a signed request s1; the goroutine takes s1 and asks the (slow) owner for a work
    connection; Close(); a second signed request s2 -/
def slowOwnerTrace : List PLabel :=
  [.run 0 [112] [115] [[Str.star]], .ctl (.visitorLookup [115, 49] (pV 1) 1 []), .recv 0 [115, 49], .close 0,
   .ctl (.visitorLookup [115, 50] (pV 2) 2 [])]

/-- If `Close()` only closed `closeCh` and the dispatch goroutine unregistered when it returns
    (`pstepWith false`), the clause would be FALSE: after `slowOwnerTrace` proxy 0 is closed, yet the
    second request created the session s2 and re-registering the name says "repeated" (state
    unchanged).  On xtcp.go as it is (`pstepWith true`) the same trace answers "doesn't exist" and
    stores nothing (general statements: `close_unregisters`, `session_only_for_live_proxy`). -/
theorem deferred_unregister_witness :
    (match prunWith false {} slowOwnerTrace with
     | some (s, o, _) => o.isEmpty && (aget s.ctl.sessions [115, 50]).isSome &&
         (match nget s.pxs 0 with | some p => p.closed && decide (p.loop = .delivering [115, 49]) | none => false) &&
         (match pstepWith false s (.run 1 [112] [115] [[Str.star]]) with
          | some (s2, _, _) => (nget s2.pxs 1).isNone | none => false)
     | none => false) = true ∧
    (match prunWith true {} slowOwnerTrace with
     | some (s, o, _) => decide (o = [(2, errResp [118, 2] .noExist)]) && (aget s.ctl.sessions [115, 50]).isNone &&
         (match pstepWith true s (.run 1 [112] [115] [[Str.star]]) with
          | some (s2, _, _) => (nget s2.pxs 1).isSome | none => false)
     | none => false) = true := by
  refine ⟨?_, ?_⟩ <;> decide +kernel

end C20
end Frp
