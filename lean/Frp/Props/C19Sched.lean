import Frp.Props.C19
import Frp.Gen.C19Facts
/-
  C19, Part D — the worker's two decisions as the SOURCE has them, and the schedule in which `Stop()`
  overtakes a worker that has already left its select.

  `Wrapper.wantsStart` (the condition under which one iteration of `checkWorker` hands NewProxy to
  the handler) and the withdrawal test of the unhealthy branch are hand-written in
  Frp/Model/Wrapper.lean.  translate/gen_c19facts.go EVALUATES the two conditions of the real
  `checkWorker` — through whatever helper method, switch or if chain they are written with — for
  every phase constant and both values of the two deadline tests, on every run
  (Frp/Gen/C19Facts.lean).  The theorems below say that the model's functions are exactly those
  tables; all theorems of Part W / Part K about `wantsStart` (in particular
  `conc_no_newProxy_after_stop`: in EVERY interleaving of wake-up, Lock(), Stop, SetRunningStatus and
  monitor callbacks nothing but CloseProxy follows once Stop has written `closed`) are therefore
  theorems about the decision the code takes.  A source in which some other phase registers — e.g.
  a `switch` whose default branch also covers `closed` — regenerates a different table and
  `wantsStart_eq_source` / `source_register_phases` no longer compile.
-/
namespace Frp
namespace C19
open Wrapper WrapperConc

/-- index of a phase in the `ProxyPhase…` const block of proxy_wrapper.go -/
def phaseIdx : Phase → Nat
  | .new => 0 | .waitStart => 1 | .startErr => 2 | .running => 3 | .checkFailed => 4 | .closed => 5

theorem source_phase_order :
    Gen.C19Facts.phaseNames = ["ProxyPhaseNew", "ProxyPhaseWaitStart", "ProxyPhaseStartErr", "ProxyPhaseRunning",
      "ProxyPhaseCheckFailed", "ProxyPhaseClosed"] ∧
    Gen.C19Facts.phaseTexts = ["new", "wait start", "start error", "running", "check failed", "closed"] := by
  decide +kernel

/-- the registration condition of the source, read off the regenerated table -/
def srcRegisterDue (p : Nat) (waitExpired errExpired : Bool) : Bool :=
  Gen.C19Facts.registerDue.any (fun r => r.1 == p && r.2.1 == waitExpired && r.2.2.1 == errExpired && r.2.2.2)

def srcWithdrawDue (p : Nat) : Bool := Gen.C19Facts.withdrawDue.any (fun r => r.1 == p && r.2)

/-- the model's decision IS the source's: for every wrapper state and every clock value -/
theorem wantsStart_eq_source (w : W) (now : Nat) :
    wantsStart w now = srcRegisterDue (phaseIdx w.phase)
      (decide (w.lastSend + waitResponseTimeout < now)) (decide (w.lastErr + startErrTimeout < now)) := by
  unfold wantsStart
  cases hp : w.phase <;>
    cases h1 : decide (w.lastSend + waitResponseTimeout < now) <;>
    cases h2 : decide (w.lastErr + startErrTimeout < now) <;> decide

/-- the set of phases in which `checkWorker` sends NewProxy, as the source has it: new and check
    failed always, wait start exactly past its deadline, start error exactly past its back-off;
    never running, never CLOSED -/
theorem source_register_phases (we ee : Bool) :
    srcRegisterDue 0 we ee = true ∧ srcRegisterDue 4 we ee = true ∧
    srcRegisterDue 1 we ee = we ∧ srcRegisterDue 2 we ee = ee ∧
    srcRegisterDue 3 we ee = false ∧ srcRegisterDue 5 we ee = false := by
  cases we <;> cases ee <;> decide

/-- the unhealthy branch withdraws exactly from running / wait start -/
theorem withdraw_eq_source (w : W) :
    decide (w.phase = .running ∨ w.phase = .waitStart) = srcWithdrawDue (phaseIdx w.phase) := by
  cases hp : w.phase <;> decide

/-- the two guarded blocks write `wait start` / `check failed`, and both sit between Lock() and Unlock() -/
theorem source_worker_writes :
    Gen.C19Facts.registerWrites = phaseIdx .waitStart ∧ Gen.C19Facts.withdrawWrites = phaseIdx .checkFailed ∧
    Gen.C19Facts.registerLocked = true ∧ Gen.C19Facts.withdrawLocked = true := by decide

/-- a stopped wrapper's worker iteration is silent — stated on the SOURCE's table: whatever the clock -/
theorem closed_tick_silent (w : W) (now : Nat) (h : w.phase = .closed) :
    (step w (.tick now)).2.1 = [] ∧ (step w (.tick now)).1.phase = .closed := by
  have hs : wantsStart w now = false := by
    rw [wantsStart_eq_source, h]
    exact (source_register_phases _ _).2.2.2.2.2
  simp only [step, hs]
  split <;> simp [h]

/-! ### Stop() overtakes a worker that has left its select

    The worker's wake-up (`wWake`: the status-check timer fired or a health notification was taken,
    `time.Now()` and the load of `pw.health` done) and its `Lock()` (`wLock`) are separate steps of
    `WrapperConc`; `Stop` may take the mutex in between.  The worker then runs its critical section
    on a closed wrapper. -/

def wakeStopSchedule : List Label :=
  [.wWake 0, .stopLock, .hold, .hold, .hold, .wLock, .hold, .hold, .wExit]

theorem wake_stop_schedule_wire :
    (exec (WrapperConc.init (mk ⟨1, 0, false, false⟩ 1)) wakeStopSchedule).wire = [.closeProxy] ∧
    (exec (WrapperConc.init (mk ⟨1, 0, false, false⟩ 1)) wakeStopSchedule).lin = [.stop, .tick 0] ∧
    (exec (WrapperConc.init (mk ⟨1, 0, false, false⟩ 1)) wakeStopSchedule).w.phase = .closed ∧
    (exec (WrapperConc.init (mk ⟨1, 0, false, false⟩ 1)) wakeStopSchedule).wpc = .exited := by decide

/-- the same for EVERY wrapper state, every moment of the wake-up and whatever else happens in
    between and afterwards: if the worker is between its wake-up and its Lock() when the wrapper is
    closed, the rest of the run appends nothing but CloseProxy and the phase stays closed
    (instance of `conc_no_newProxy_after_stop`, spelled out for the woken worker) -/
theorem conc_woken_worker_after_stop (w0 : W) (ls ls' : List Label) (now h : Nat)
    (_hw : (exec (WrapperConc.init w0) ls).wpc = .loaded now h)
    (hc : (exec (WrapperConc.init w0) ls).w.phase = .closed) :
    (exec (WrapperConc.init w0) (ls ++ ls')).w.phase = .closed ∧
    ∃ extra, (exec (WrapperConc.init w0) (ls ++ ls')).wire = (exec (WrapperConc.init w0) ls).wire ++ extra ∧
      Msg.newProxy ∉ extra :=
  conc_no_newProxy_after_stop w0 ls ls' hc

/-! ### the executable predicate of op `wake` (engine client) -/

/-- on the wire of ONE proxy name: after the last CloseProxy at most `allow` NewProxy follow
    (`allow` = 1 when the name is configured again — the new wrapper registers once —, 0 when the
    name is gone) -/
def noNewAfterLastClose (q : List Msg) (allow : Nat) : Bool :=
  decide (((q.reverse.takeWhile (· != .closeProxy)).filter (· == .newProxy)).length ≤ allow)

theorem takeWhile_append_of_mem {α} (p : α → Bool) : ∀ (a b : List α), (∃ x ∈ a, p x = false) →
    (a ++ b).takeWhile p = a.takeWhile p := by
  intro a
  induction a with
  | nil => intro b h; obtain ⟨x, hx, _⟩ := h; cases hx
  | cons y ys ih =>
    intro b h
    simp only [List.cons_append, List.takeWhile]
    cases hy : p y with
    | false => rfl
    | true =>
      simp only
      congr 1
      apply ih
      obtain ⟨x, hx, hpx⟩ := h
      cases hx with
      | head => rw [hy] at hpx; cases hpx
      | tail _ hm => exact ⟨x, hm, hpx⟩

/-- what `conc_no_newProxy_after_stop` gives for a stopped wrapper — the wire is some prefix followed
    by a tail without NewProxy that contains Stop's CloseProxy — passes the predicate with allowance 0 -/
theorem noNewAfterLastClose_of_tail (pre extra : List Msg) (h1 : Msg.newProxy ∉ extra)
    (h2 : Msg.closeProxy ∈ extra) : noNewAfterLastClose (pre ++ extra) 0 = true := by
  unfold noNewAfterLastClose
  rw [List.reverse_append, takeWhile_append_of_mem]
  · have : (extra.reverse.takeWhile (· != Msg.closeProxy)).filter (· == Msg.newProxy) = [] := by
      apply List.filter_eq_nil_iff.mpr
      intro x hx
      have hx' : x ∈ extra := List.mem_reverse.mp ((List.takeWhile_prefix _).subset hx)
      intro he
      have : x = Msg.newProxy := by simpa using he
      subst this
      exact h1 hx'
    simp [this]
  · exact ⟨.closeProxy, List.mem_reverse.mpr h2, by simp⟩

/-- non-vacuity: a registration after the CloseProxy of a name that is gone fails it -/
example : noNewAfterLastClose [.newProxy, .closeProxy, .newProxy] 0 = false := by decide
example : noNewAfterLastClose [.newProxy, .closeProxy, .closeProxy] 0 = true := by decide
example : noNewAfterLastClose [.closeProxy, .newProxy, .newProxy] 1 = false := by decide

end C19
end Frp
