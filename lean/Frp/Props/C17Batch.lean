import Frp.Props.C17
import Frp.Model.Base64
import Frp.Lemmas.Base64
/-
  C17, the lossless clause as a statement about VALUES THAT PERSIST.

  "Decoding the encoding yields an equal message" is a statement about what the caller of the decoder HOLDS, not
  about what the decoder's return value looks like at the instant of the return: the callers of frp's decode entry
  points keep results while further messages are decoded — the Dispatcher hands messages to handlers that queue them
  (`msg.AsyncHandler`, the udp `readCh` of 1024 packets), the udp forwarders pass `GetContent`'s result to a socket
  write while other proxies of the same process decode their own packets.

  Model: a connection is a reader plus the list of results its caller has RETAINED (`Conn`).  One `ReadMsg`
  appends to that list and never alters what is already in it (`read_keeps`, `reads_keeps`); a batch of k frames
  decodes to exactly the k values that were encoded (`batch_roundtrip`); and when several goroutines decode on
  their own connections under ANY schedule, every connection ends with the result of running its own reads alone
  (`sched_independent`, `par_batch_roundtrip`) — a decoder in which a later or concurrent decode changes an earlier
  result (a result aliasing a recycled buffer) is not a refinement of this model.  The same for the udp payload
  codec (`udp_content_roundtrip`, `udp_batch_roundtrip`) and, at the object level, for encoding a retained value
  again (`reencode_stable`, `decode_reencode`).

  Go anchors: pkg/msg/ctl.go ReadMsg / ReadMsgInto, pkg/msg/handler.go readLoop, pkg/nathole/utils.go
  DecodeMessageInto, pkg/proto/udp/udp.go NewUDPPacket / GetContent.
-/
namespace Frp
namespace C17
open Frame MsgObj

/-! ## 1. one connection: successive `ReadMsg` calls, every result retained by the caller -/

/-- a reader (`input` = the bytes not yet consumed) and what its caller keeps: (type byte, body) of every
    message returned so far, oldest first.  `failed`: a `ReadMsg` returned an error (the callers stop reading). -/
structure Conn where
  input : Str
  kept : List (Nat × Str) := []
  failed : Bool := false
  deriving DecidableEq, Repr

/-- one `msg.ReadMsg(c)` whose result the caller appends to what it keeps -/
def Conn.read (max : Nat) (known : Nat → Bool) (c : Conn) : Conn :=
  if c.failed then c else
  match decode max known c.input with
  | .ok t body rest => { c with input := rest, kept := c.kept ++ [(t, body)] }
  | .err _ => { c with failed := true }

/-- `n` successive calls -/
def Conn.reads (max : Nat) (known : Nat → Bool) : Nat → Conn → Conn
  | 0, c => c
  | n + 1, c => Conn.reads max known n (c.read max known)

/-- the byte stream of a list of (type byte, body) frames written back to back (`WriteMsg` k times) -/
def framesOf : List (Nat × Str) → Str
  | [] => []
  | g :: gs => encode g.1 g.2 ++ framesOf gs

/-- PERSISTENCE, one step: a decode never alters a result the caller already holds — the retained list only
    grows at its end -/
theorem read_keeps (max : Nat) (known : Nat → Bool) (c : Conn) : c.kept <+: (c.read max known).kept := by
  unfold Conn.read
  split
  · exact List.prefix_refl _
  · split
    · exact List.prefix_append _ _
    · exact List.prefix_refl _

/-- PERSISTENCE, any number of later decodes -/
theorem reads_keeps (max : Nat) (known : Nat → Bool) (n : Nat) (c : Conn) :
    c.kept <+: (Conn.reads max known n c).kept := by
  induction n generalizing c with
  | zero => exact List.prefix_refl _
  | succ n ih => exact List.IsPrefix.trans (read_keeps max known c) (ih (c.read max known))

/-- … spelled out per retained result: the i-th result is the same before and after `n` more decodes -/
theorem kept_stable (max : Nat) (known : Nat → Bool) (n : Nat) (c : Conn) (i : Nat) (hi : i < c.kept.length) :
    (Conn.reads max known n c).kept[i]? = c.kept[i]? := by
  obtain ⟨t, ht⟩ := reads_keeps max known n c
  rw [← ht, List.getElem?_append_left hi]

/-- LOSSLESS for a whole batch on one connection: `k` frames written back to back, `k` reads, everything
    retained: the caller ends up holding exactly the values that were encoded, in order, and the reader stands
    exactly behind the last frame -/
theorem batch_roundtrip (max : Nat) (known : Nat → Bool) (hmax : max < 9223372036854775808)
    (gs : List (Nat × Str)) (hg : ∀ g ∈ gs, known g.1 = true ∧ g.2.length ≤ max) (rest : Str) (kept : List (Nat × Str)) :
    Conn.reads max known gs.length ⟨framesOf gs ++ rest, kept, false⟩ = ⟨rest, kept ++ gs, false⟩ := by
  induction gs generalizing kept with
  | nil => simp [Conn.reads, framesOf]
  | cons g gs ih =>
    have h1 := hg g List.mem_cons_self
    have hd : decode max known (encode g.1 g.2 ++ (framesOf gs ++ rest)) = .ok g.1 g.2 (framesOf gs ++ rest) :=
      decode_encode_res max known g.1 g.2 _ h1.1 h1.2 hmax
    simp only [List.length_cons, Conn.reads, framesOf, List.append_assoc]
    have hr : Conn.read max known ⟨encode g.1 g.2 ++ (framesOf gs ++ rest), kept, false⟩
        = ⟨framesOf gs ++ rest, kept ++ [g], false⟩ := by
      simp [Conn.read, hd]
    rw [hr, ih (fun g' hg' => hg g' (List.mem_cons_of_mem _ hg')) (kept ++ [g])]
    simp

/-! ## 2. several goroutines, each decoding on its own connection, under any schedule -/

/-- a schedule = which connection performs its next `ReadMsg`, step by step -/
def runSched (max : Nat) (known : Nat → Bool) : List Nat → List Conn → List Conn
  | [], cs => cs
  | j :: s, cs => runSched max known s (cs.modify j (Conn.read max known))

theorem reads_succ (max : Nat) (known : Nat → Bool) (n : Nat) (c : Conn) :
    Conn.reads max known (n + 1) c = Conn.reads max known n (c.read max known) := rfl

/-- INDEPENDENCE: whatever the interleaving, connection `j` ends in the state its own reads alone lead to —
    no decode on another connection changes what a caller holds -/
theorem sched_independent (max : Nat) (known : Nat → Bool) (s : List Nat) (cs : List Conn) (j : Nat) :
    (runSched max known s cs)[j]? = (cs[j]?).map (Conn.reads max known (s.count j)) := by
  induction s generalizing cs with
  | nil => cases h : cs[j]? <;> simp [runSched, Conn.reads, h]
  | cons i s ih =>
    simp only [runSched]
    rw [ih, List.getElem?_modify, List.count_cons]
    by_cases hij : i = j
    · subst hij
      cases cs[i]? <;> simp [reads_succ]
    · have : (i == j) = false := by simpa using hij
      cases cs[j]? <;> simp [hij, this]

/-- LOSSLESS for concurrent batches: worker `j` holds the frames of `gss[j]`; under every schedule in which each
    worker makes as many reads as it has frames, each worker ends up holding exactly its own values -/
theorem par_batch_roundtrip (max : Nat) (known : Nat → Bool) (hmax : max < 9223372036854775808)
    (gss : List (List (Nat × Str))) (hg : ∀ gs ∈ gss, ∀ g ∈ gs, known g.1 = true ∧ g.2.length ≤ max)
    (s : List Nat) (hs : ∀ j (h : j < gss.length), s.count j = gss[j].length) (j : Nat) (hj : j < gss.length) :
    (runSched max known s (gss.map (fun gs => ⟨framesOf gs, [], false⟩)))[j]? = some ⟨[], gss[j], false⟩ := by
  rw [sched_independent, List.getElem?_map, List.getElem?_eq_getElem hj]
  simp only [Option.map_some, hs j hj]
  have := batch_roundtrip max known hmax gss[j] (hg _ (List.getElem_mem hj)) [] []
  simpa using this

/-! ## 3. the udp payload codec (pkg/proto/udp/udp.go) -/

/-- `NewUDPPacket(buf, …).Content` = `base64.StdEncoding.EncodeToString(buf)` -/
def udpPack (buf : Str) : Str := Base64.encode buf

/-- `GetContent(m)` = `base64.StdEncoding.DecodeString(m.Content)` (`none` = error) -/
def udpContent (content : Str) : Option Str := Base64.decode content

/-- LOSSLESS for every payload -/
theorem udp_content_roundtrip (buf : Str) (hb : Base64.bytes buf) : udpContent (udpPack buf) = some buf :=
  Base64.decode_encode buf hb

/-- … and for every batch of payloads: the list of contents a consumer has collected is the list of payloads
    that were packed (each result is a value of its own, not a view of a shared buffer) -/
theorem udp_batch_roundtrip (bufs : List Str) (hb : ∀ b ∈ bufs, Base64.bytes b) :
    (bufs.map udpPack).map udpContent = bufs.map some := by
  induction bufs with
  | nil => rfl
  | cons b bs ih =>
    simp only [List.map_cons]
    rw [udp_content_roundtrip b (hb b List.mem_cons_self), ih (fun b' h => hb b' (List.mem_cons_of_mem _ h))]

/-- distinct payloads stay distinct: no packet's content can come out as another packet's -/
theorem udp_pack_injective (a b : Str) (ha : Base64.bytes a) (hb : Base64.bytes b) (h : udpPack a = udpPack b) : a = b :=
  Base64.encode_injective ha hb h

/-! ## 4. object level: encoding a retained value again -/

section reencode
variable {α : Type}

theorem field_reencode (subJ : String → α → J) (normSub : String → α → α)
    (hsub : ∀ n a, subJ n (normSub n a) = subJ n a) (f : FieldS) (v : ValF α) :
    isEmpty (normF normSub f v) = isEmpty v ∧
      ((f.omitE && isEmpty v) = false → toJF subJ f.kind (normF normSub f v) = toJF subJ f.kind v) := by
  cases v with
  | str s => simp [normF]
  | bool b => simp [normF]
  | int i => simp [normF]
  | udp o => simp [normF]
  | strs o =>
    cases o with
    | none => simp [normF]
    | some l => cases ho : f.omitE <;> cases l <;> simp [normF, isEmpty, ho]
  | smap o =>
    cases o with
    | none => simp [normF]
    | some l => cases ho : f.omitE <;> cases l <;> simp [normF, isEmpty, ho]
  | sub a =>
    cases hk : f.kind <;> simp [normF, isEmpty, hk, toJF, hsub]
  | subs o =>
    cases o with
    | none => simp [normF]
    | some l =>
      have hmap : ∀ n, List.map (subJ n ∘ normSub n) l = List.map (subJ n) l := by
        intro n; apply List.map_congr_left; intro a _; simp [Function.comp, hsub]
      cases ho : f.omitE <;> cases hk : f.kind <;> cases hl : l <;>
        simp [normF, isEmpty, ho, hk, toJF, hsub] <;> (subst hl; simpa [Function.comp] using hmap _)

theorem members_reencode (subJ : String → α → J) (normSub : String → α → α)
    (hsub : ∀ n a, subJ n (normSub n a) = subJ n a) :
    ∀ (fs : List FieldS) (vs : List (ValF α)),
      toMembersF subJ fs (normMembersF normSub fs vs) = toMembersF subJ fs vs := by
  intro fs
  induction fs with
  | nil => intro vs; cases vs <;> simp [toMembersF]
  | cons f fs ih =>
    intro vs
    cases vs with
    | nil => simp [toMembersF, normMembersF]
    | cons v vs =>
      obtain ⟨h1, h2⟩ := field_reencode subJ normSub hsub f v
      simp only [normMembersF, toMembersF, h1]
      by_cases hc : (f.omitE && isEmpty v) = true
      · simp [hc, ih]
      · have hc' : (f.omitE && isEmpty v) = false := by simpa using hc
        simp [hc', ih, h2 hc']

end reencode

theorem reencode0 (sch : Schema) (n : String) (m : Struct0) : toObj0 sch n (norm0 sch n m) = toObj0 sch n m := by
  unfold toObj0 norm0
  rw [members_reencode _ _ (fun _ _ => rfl)]

theorem reencode1 (sch : Schema) (n : String) (m : Struct1) : toObj1 sch n (norm1 sch n m) = toObj1 sch n m := by
  unfold toObj1 norm1
  rw [members_reencode _ _ (fun n' a => reencode0 sch n' a)]

theorem reencode2 (sch : Schema) (n : String) (m : Struct2) : toObj2 sch n (norm2 sch n m) = toObj2 sch n m := by
  unfold toObj2 norm2
  rw [members_reencode _ _ (fun n' a => reencode1 sch n' a)]

/-- the identification of the round trip is invisible on the wire: the normalised value is written as the
    same object -/
theorem reencode_stable (n : String) (m : Struct2) : toObj2 schema n (norm2 schema n m) = toObj2 schema n m :=
  reencode2 schema n m

/-- encoding the value that was decoded gives the object that was on the wire, for every message value of
    every struct of the table -/
theorem decode_reencode (n : String) (m : Struct2) (ht : typed2 schema n m = true) :
    toObj2 schema n (fromObj2 schema n (toObj2 schema n m)) = toObj2 schema n m := by
  rw [fromObj_toObj n m ht, reencode_stable]

/-! ## 5. the executable predicate of the driver (`batch` op of engine codec) -/

/-- what the harness reports about one item of a batch, read through the Go-field-keyed table:
    `v` the value that was encoded, `imm` the decoder's result dumped at once, `late` the SAME retained result
    dumped after the whole batch was decoded, `reframe` the frame that result encodes to afterwards,
    `body` the JSON text the original value was written as (trusted text level) -/
structure ItemObs where
  t : Nat
  sname : String
  body : Str
  v : Struct2
  imm : Struct2
  late : Struct2
  reframe : Str

/-- the clause on one item: the value the caller holds AFTER the batch is the model's decoding of the model's
    encoding of the value that went in, it is what the decoder returned at once, and it encodes to the frame of
    the original body -/
def ItemSpec (o : ItemObs) : Prop :=
  o.late = fromObj2 schema o.sname (toObj2 schema o.sname o.v) ∧ o.imm = o.late ∧ o.reframe = encode o.t o.body

def itemHolds (o : ItemObs) : Bool :=
  typed2 schema o.sname o.v && o.imm == norm2 schema o.sname o.v && o.late == o.imm && o.reframe == encode o.t o.body

theorem itemHolds_sound (o : ItemObs) (h : itemHolds o = true) : ItemSpec o := by
  simp only [itemHolds, Bool.and_eq_true, beq_iff_eq] at h
  obtain ⟨⟨⟨ht, hi⟩, hl⟩, hr⟩ := h
  refine ⟨?_, ?_, hr⟩
  · rw [fromObj_toObj o.sname o.v ht, hl, hi]
  · exact hl.symm

/-- udp item: payload in, content at once, content after the batch -/
def udpItemHolds (payload imm late : Str) : Bool :=
  udpContent (udpPack payload) == some imm && late == imm

theorem udpItemHolds_sound (payload imm late : Str) (hb : Base64.bytes payload) (h : udpItemHolds payload imm late = true) :
    late = payload ∧ imm = payload := by
  simp only [udpItemHolds, Bool.and_eq_true, beq_iff_eq] at h
  rw [udp_content_roundtrip payload hb] at h
  have hi : imm = payload := by
    have := h.1
    injection this with this
    exact this.symm
  exact ⟨h.2.trans hi, hi⟩

/-! ## non-vacuity -/

example : Conn.reads maxLen known 2 ⟨framesOf [(104, [123, 125]), (52, [123, 125])] ++ [9], [], false⟩
    = ⟨[9], [(104, [123, 125]), (52, [123, 125])], false⟩ := by decide +kernel
-- two workers, three schedules: the same per-worker result
example : (runSched maxLen known [0, 1, 0] [⟨framesOf [(104, [123, 125]), (52, [123, 125])], [], false⟩, ⟨framesOf [(104, [123, 125])], [], false⟩])
    = [⟨[], [(104, [123, 125]), (52, [123, 125])], false⟩, ⟨[], [(104, [123, 125])], false⟩] := by decide +kernel
example : (runSched maxLen known [1, 0, 0] [⟨framesOf [(104, [123, 125]), (52, [123, 125])], [], false⟩, ⟨framesOf [(104, [123, 125])], [], false⟩])
    = [⟨[], [(104, [123, 125]), (52, [123, 125])], false⟩, ⟨[], [(104, [123, 125])], false⟩] := by decide +kernel
example : udpContent (udpPack [1, 2, 3, 4]) = some [1, 2, 3, 4] := by decide
-- the predicate rejects a retained payload that changed after the batch, and one that was wrong at once
example : udpItemHolds [1, 2, 3] [1, 2, 3] [1, 2, 3] = true := by decide
example : udpItemHolds [1, 2, 3] [1, 2, 3] [7, 7, 7] = false := by decide
example : udpItemHolds [1, 2, 3] [7, 7, 7] [7, 7, 7] = false := by decide

end C17
end Frp
