import Frp.Model.VisitorHandshake
import Frp.Lemmas.Frame
import Frp.Lemmas.Layers
import Frp.Props.C01
import Frp.Gen.VisitorFacts
/-
  C08 §13 — the CLIENT side of an admitted visitor stream (client/visitor/stcp.go, sudp.go, the stcp visitor an xtcp
  visitor falls back to): "an admitted visitor is bridged to the owner's backend as a byte-transparent stream" from
  byte 0, for EVERY segmentation in which the NewVisitorConnResp frame and the first payload bytes arrive.

   * a reader that obeys the io.Reader contract, reading a frame: `readFull_spec`, `readFrame_exact` (exactly the frame is
     consumed from the reader's content, whatever the segmentation);
   * the connection itself is such a reader (`direct_ok`), so after the handshake the connection holds exactly what
     followed the frame (`hs_consumes_exactly_frame`);
   * the user reads exactly what the backend wrote, from byte 0: at every moment a prefix (`hs_stream_prefix`), all of it
     once everything arrived (`hs_stream_complete`), for all enc / comp declarations (lawful layers as in C01);
   * a refusal / a broken frame gives the user nothing (`hs_refused_nothing`, `hs_unreadable_nothing`);
   * a buffered reader that is dropped after the handshake is a contract-abiding reader (`buffered_ok`) but does NOT
     leave the connection intact: `hs_buffered_loses` (for every coalesced wire that fits the buffer the user loses the
     whole first burst), `hs_buffered_witness`;
   * the source reads from the connection it hands on: `visitor_reads_from_handed_conn` (regenerated fact).
-/
namespace Frp
namespace C08
open VisitorHandshake Frame Layers

/-! ## §13.1 readers -/

theorem cread_split (n : Nat) : ∀ w : Wire, (cread n w).1 ++ (cread n w).2.flatten = w.flatten := by
  intro w
  induction w with
  | nil => simp [cread]
  | cons s rest ih =>
    simp only [cread]
    by_cases hs : s.isEmpty = true
    · simp only [hs, if_true]
      have : s = [] := List.isEmpty_iff.mp hs
      subst this
      simpa using ih
    · simp only [hs, Bool.false_eq_true, ↓reduceIte]
      by_cases hd : (s.drop n).isEmpty = true
      · have hd' : s.drop n = [] := List.isEmpty_iff.mp hd
        simp only [hd, if_true, List.flatten_cons]
        have h := List.take_append_drop n s
        rw [hd', List.append_nil] at h
        rw [h]
      · simp only [hd, Bool.false_eq_true, ↓reduceIte, List.flatten_cons]
        rw [← List.append_assoc, List.take_append_drop]

theorem cread_le (n : Nat) : ∀ w : Wire, (cread n w).1.length ≤ n := by
  intro w
  induction w with
  | nil => simp [cread]
  | cons s rest ih =>
    simp only [cread]
    by_cases hs : s.isEmpty = true
    · simp only [hs, if_true]; exact ih
    · simp only [hs, Bool.false_eq_true, ↓reduceIte]; simp [List.length_take]; omega

theorem cread_progress (n : Nat) (hn : 0 < n) : ∀ w : Wire, w.flatten ≠ [] → (cread n w).1 ≠ [] := by
  intro w
  induction w with
  | nil => simp
  | cons s rest ih =>
    intro h
    simp only [cread]
    by_cases hs : s.isEmpty = true
    · simp only [hs, if_true]
      have : s = [] := List.isEmpty_iff.mp hs
      subst this
      exact ih (by simpa using h)
    · simp only [hs, Bool.false_eq_true, ↓reduceIte]
      cases s with
      | nil => simp at hs
      | cons a t =>
        cases n with
        | zero => omega
        | succ m => simp

theorem direct_ok : direct.Ok where
  split n s := cread_split n s
  le n s := cread_le n s
  progress n s hn h := cread_progress n hn s h

theorem buffered_ok (k : Nat) : (buffered k).Ok where
  split n s := by
    obtain ⟨b, w⟩ := s
    simp only [buffered, bread]
    by_cases hb : b.isEmpty = true
    · have : b = [] := List.isEmpty_iff.mp hb
      subst this
      by_cases hk : k ≤ n
      · simp [hk, cread_split]
      · simp only [List.isEmpty_nil, Bool.not_true, hk, if_false, Bool.false_eq_true, List.nil_append]
        rw [← List.append_assoc, List.take_append_drop, cread_split]
    · simp only [hb, Bool.not_false, if_true]
      rw [← List.append_assoc, List.take_append_drop]
  le n s := by
    obtain ⟨b, w⟩ := s
    simp only [buffered, bread]
    by_cases hb : b.isEmpty = true
    · by_cases hk : k ≤ n
      · simp [hb, hk, cread_le]
      · simp [hb, hk, List.length_take]; omega
    · simp [hb, List.length_take]; omega
  progress n s hn h := by
    obtain ⟨b, w⟩ := s
    simp only [buffered, bread] at *
    by_cases hb : b.isEmpty = true
    · have : b = [] := List.isEmpty_iff.mp hb
      subst this
      have hw : w.flatten ≠ [] := by simpa using h
      by_cases hk : k ≤ n
      · simp [hk]; exact cread_progress n hn w hw
      · have hk' : 0 < k := by omega
        have := cread_progress k hk' w hw
        simp only [List.isEmpty_nil, Bool.not_true, hk, if_false, Bool.false_eq_true]
        cases hr : (cread k w).1 with
        | nil => exact absurd hr this
        | cons a t =>
          cases n with
          | zero => omega
          | succ m => simp
    · simp only [hb, Bool.not_false, if_true]
      cases b with
      | nil => simp at hb
      | cons a t =>
        cases n with
        | zero => omega
        | succ m => simp

/-- io.ReadFull on a contract-abiding reader: what it returns plus what the reader still holds is what the reader held;
    at most n bytes; exactly n when that many are still to come -/
theorem readFullAux_spec {R : Reader} (h : R.Ok) : ∀ (fuel n : Nat) (s : R.σ), n ≤ fuel →
    (readFullAux R fuel n s).1 ++ R.content (readFullAux R fuel n s).2 = R.content s ∧
    (readFullAux R fuel n s).1.length ≤ n ∧
    (n ≤ (R.content s).length → (readFullAux R fuel n s).1.length = n) := by
  intro fuel
  induction fuel with
  | zero =>
    intro n s hn
    have : n = 0 := by omega
    subst this
    simp [readFullAux]
  | succ f ih =>
    intro n s hn
    simp only [readFullAux]
    by_cases h0 : n = 0
    · subst h0; simp
    · simp only [h0, if_false]
      have hsp := h.split n s
      have hle := h.le n s
      by_cases he : (R.rd n s).1.isEmpty = true
      · have he' : (R.rd n s).1 = [] := List.isEmpty_iff.mp he
        simp only [he, if_true]
        rw [he'] at hsp
        refine ⟨by simpa using hsp, by simp, ?_⟩
        intro hlen
        have hc : R.content s ≠ [] := by
          intro hc; rw [hc] at hlen; simp at hlen; exact h0 hlen
        exact absurd he' (h.progress n s (by omega) hc)
      · simp only [he, Bool.false_eq_true, ↓reduceIte]
        have hk : 1 ≤ (R.rd n s).1.length := by
          cases hr : (R.rd n s).1 with
          | nil => rw [hr] at he; simp at he
          | cons a t => simp
        obtain ⟨i1, i2, i3⟩ := ih (n - (R.rd n s).1.length) (R.rd n s).2 (by omega)
        refine ⟨?_, ?_, ?_⟩
        · rw [List.append_assoc, i1, hsp]
        · simp only [List.length_append]; omega
        · intro hlen
          have : (R.content s).length = (R.rd n s).1.length + (R.content (R.rd n s).2).length := by
            rw [← hsp]; simp
          simp only [List.length_append]
          have := i3 (by omega)
          omega

theorem readFull_exact {R : Reader} (h : R.Ok) (n : Nat) (s : R.σ) (a rest : Str)
    (hc : R.content s = a ++ rest) (ha : a.length = n) :
    (readFull R n s).1 = a ∧ R.content (readFull R n s).2 = rest := by
  obtain ⟨h1, _, h3⟩ := readFullAux_spec h n n s (Nat.le_refl n)
  have hl : (readFullAux R n n s).1.length = a.length := by
    rw [ha]; apply h3; rw [hc]; simp; omega
  rw [hc] at h1
  exact List.append_inj h1 hl

/-- reading one frame from ANY contract-abiding reader consumes exactly the frame from its content -/
theorem readFrame_exact {R : Reader} (h : R.Ok) (max : Nat) (known : Nat → Bool) (s : R.σ) (t : Nat) (body rest : Str)
    (hc : R.content s = Frame.encode t body ++ rest) (hk : known t = true) (hb : body.length ≤ max)
    (hmax : max < 9223372036854775808) :
    (readFrame R max known s).1 = .ok t body ∧ R.content (readFrame R max known s).2 = rest := by
  have hsp := h.split 1 s
  have hle := h.le 1 s
  have hpr := h.progress 1 s (by omega) (by rw [hc]; simp [Frame.encode])
  rw [hc] at hsp
  simp only [Frame.encode, List.cons_append] at hsp
  -- the first Read delivers exactly the type byte
  obtain ⟨hr1, hc1⟩ : (R.rd 1 s).1 = [t] ∧ R.content (R.rd 1 s).2 = be64 body.length ++ (body ++ rest) := by
    cases hr : (R.rd 1 s).1 with
    | nil => exact absurd hr hpr
    | cons a tl =>
      rw [hr] at hsp hle
      have : tl = [] := by
        cases tl with
        | nil => rfl
        | cons _ _ => simp at hle
      subst this
      simp only [List.cons_append, List.nil_append, List.cons.injEq] at hsp
      obtain ⟨rfl, h2⟩ := hsp
      exact ⟨rfl, by rw [h2, List.append_assoc]⟩
  obtain ⟨hh1, hh2⟩ := readFull_exact h 8 (R.rd 1 s).2 (be64 body.length) (body ++ rest) hc1 (be64_length _)
  have hu : unbe64 (be64 body.length) = body.length := unbe64_be64 _ (by omega)
  have hi : toInt64 body.length = (body.length : Int) := by
    simp only [toInt64]; rw [if_pos (by omega)]
  obtain ⟨hb1, hb2⟩ := readFull_exact h body.length (readFull R 8 (R.rd 1 s).2).2 body rest hh2 rfl
  simp only [readFrame, hr1, readHeader, hk, Bool.not_true, Bool.false_eq_true, if_false, hh1, be64_length,
    Nat.lt_irrefl, readBody, hu, hi, Int.toNat_natCast, hb1]
  have h1 : ¬ ((body.length : Int) > (max : Int)) := by omega
  have h2 : ¬ ((body.length : Int) < 0) := by omega
  simp [h1, h2, hb2]

/-! ## §13.2 the stream visitor: the connection itself is read, the connection is handed on -/

def maxLen : Nat := Frame.maxLen

/-- after the handshake the connection holds exactly what followed the frame — for ALL segmentations -/
theorem hs_consumes_exactly_frame (segs : Wire) (t : Nat) (body rest : Str)
    (hw : segs.flatten = Frame.encode t body ++ rest) (hk : knownType t = true) (hb : body.length ≤ maxLen) :
    (readFrame direct maxLen knownType segs).1 = .ok t body ∧
    (direct.conn (readFrame direct maxLen knownType segs).2).flatten = rest :=
  readFrame_exact direct_ok maxLen knownType segs t body rest hw hk hb (by decide)

/-- the stack frps puts on an admitted visitor connection (server/visitor Manager.NewConn), as DECLARED by the visitor,
    and the stack the visitor puts on its end (stcp.go handleConn / sudp.go getNewVisitorConn): the same kinds
    (`C01.mirror_visitor`), here as layers -/
def serverEndLayer (encL compL : Layer) (e c : Bool) : Layer := stackLayer (instantiate encL compL 0 (visitorServerStack e c))
def visitorEndLayer (encL compL : Layer) (e c : Bool) : Layer := stackLayer (instantiate encL compL 0 (visitorStack e c))

theorem visitorEnd_lawful {encL compL : Layer} (he : Lawful encL) (hc : Lawful compL) (e c : Bool) :
    Lawful (visitorEndLayer encL compL e c) := by
  apply stack_lawful
  cases e <;> cases c <;> simp [visitorStack, opt, instantiate] <;> (try exact he) <;> (try exact hc) <;> exact ⟨he, hc⟩

theorem serverEnd_eq (encL compL : Layer) (e c : Bool) : serverEndLayer encL compL e c = visitorEndLayer encL compL e c := rfl

/-- COMPLETE: the backend wrote `ps` (any writes, the first ones before the visitor's user said anything); the relay
    delivers frame ++ image in ANY segmentation (one segment = coalesced); the response carries no error: the user reads
    exactly `ps.flatten`, from byte 0 -/
theorem hs_stream_complete {encL compL : Layer} (he : Lawful encL) (hc : Lawful compL) (e c : Bool)
    (segs : Wire) (body : Str) (ps : List C01Bytes) (hb : body.length ≤ maxLen)
    (hw : segs.flatten = Frame.encode respType body ++ ((serverEndLayer encL compL e c).Eout ps).flatten) :
    userSees direct (visitorEndLayer encL compL e c) (readFrame direct maxLen knownType segs) true = some ps.flatten := by
  obtain ⟨h1, h2⟩ := hs_consumes_exactly_frame segs respType body _ hw (by decide) hb
  simp only [userSees, h1, if_true]
  rw [serverEnd_eq] at h2
  rw [transparent_complete (visitorEnd_lawful he hc e c) ps _ h2]

/-- AT EVERY MOMENT: whatever part of the image has arrived so far (`x`, a prefix), in whatever segments: what the user
    has been given is a prefix of what the backend wrote — no byte skipped, none invented -/
theorem hs_stream_prefix {encL compL : Layer} (he : Lawful encL) (hc : Lawful compL) (e c : Bool)
    (segs : Wire) (body x : Str) (ps : List C01Bytes) (hb : body.length ≤ maxLen)
    (hx : x <+: ((serverEndLayer encL compL e c).Eout ps).flatten)
    (hw : segs.flatten = Frame.encode respType body ++ x) :
    ∃ u, userSees direct (visitorEndLayer encL compL e c) (readFrame direct maxLen knownType segs) true = some u ∧
      u <+: ps.flatten := by
  obtain ⟨h1, h2⟩ := hs_consumes_exactly_frame segs respType body x hw (by decide) hb
  refine ⟨(visitorEndLayer encL compL e c).Dout (direct.conn (readFrame direct maxLen knownType segs).2), ?_, ?_⟩
  · simp only [userSees, h1, if_true]
  · rw [serverEnd_eq] at hx
    exact transparent_prefix (visitorEnd_lawful he hc e c) ps _ (by rw [h2]; exact hx)

/-- a response that carries an error gives the user nothing, whatever follows the frame -/
theorem hs_refused_nothing (R : Reader) (Lv : Layer) (out : HsRes × R.σ) : userSees R Lv out false = none := by
  unfold userSees; cases out.1 <;> simp

/-- a frame that cannot be read (unknown type, oversized, negative length, the stream ends) gives the user nothing -/
theorem hs_unreadable_nothing (R : Reader) (Lv : Layer) (out : HsRes × R.σ) (e : Err) (b : Bool) (h : out.1 = .err e) :
    userSees R Lv out b = none := by
  unfold userSees; rw [h]

/-! ## §13.3 a buffered reader that is dropped: the shape the clause excludes -/

theorem bread_conn_nil (k n : Nat) (s : Str × Wire) (hs : s.2 = []) : (bread k n s).2.2 = [] := by
  obtain ⟨b, w⟩ := s
  simp only at hs; subst hs
  simp only [bread]
  by_cases hbe : b.isEmpty = true <;> by_cases hkn : k ≤ n <;> simp [hbe, hkn, cread]

theorem bfull_conn_nil (k : Nat) : ∀ (fuel n : Nat) (s : Str × Wire), s.2 = [] →
    (readFullAux (buffered k) fuel n s).2.2 = [] := by
  intro fuel
  induction fuel with
  | zero => intro n s hs; simpa [readFullAux] using hs
  | succ f ih =>
    intro n s hs
    simp only [readFullAux]
    by_cases h0 : n = 0
    · simpa [h0] using hs
    · simp only [h0, if_false]
      by_cases he : ((buffered k).rd n s).1.isEmpty = true
      · simp only [he, if_true]; exact bread_conn_nil k n s hs
      · simp only [he, Bool.false_eq_true, ↓reduceIte]; exact ih _ _ (bread_conn_nil k n s hs)

theorem bbody_conn_nil (k max t : Nat) (hdr : Str) (s : Str × Wire) (hs : s.2 = []) :
    (readBody (buffered k) max t hdr s).2.2 = [] := by
  unfold readBody
  split
  · exact hs
  · split
    · exact hs
    · split <;> exact bfull_conn_nil k _ _ s hs

theorem bheader_conn_nil (k max : Nat) (known : Nat → Bool) (t : Nat) (s : Str × Wire) (hs : s.2 = []) :
    (readHeader (buffered k) max known t s).2.2 = [] := by
  unfold readHeader
  split
  · exact hs
  · split
    · exact bfull_conn_nil k _ _ s hs
    · exact bbody_conn_nil k max t _ _ (bfull_conn_nil k _ _ s hs)

/-- the frame and the first payload bytes in ONE segment that fits the buffer: a handshake through
    `bufio.NewReaderSize(conn, k)` succeeds and leaves NOTHING of the payload on the connection -/
theorem hs_buffered_loses (k : Nat) (t : Nat) (body rest : Str) (hk : knownType t = true) (hb : body.length ≤ maxLen)
    (hfit : (Frame.encode t body ++ rest).length ≤ k) (h1 : 1 < k) :
    (readFrame (buffered k) maxLen knownType ([], [Frame.encode t body ++ rest])).1 = .ok t body ∧
    ((buffered k).conn (readFrame (buffered k) maxLen knownType ([], [Frame.encode t body ++ rest])).2).flatten = [] := by
  have hf := readFrame_exact (buffered_ok k) maxLen knownType ([], [Frame.encode t body ++ rest]) t body rest
    (by simp [buffered]) hk hb (by decide)
  refine ⟨hf.1, ?_⟩
  -- the first Read fills the buffer with the whole segment; everything later is served from the buffer
  have hfirst : (bread k 1 ([], [Frame.encode t body ++ rest])).2.2 = [] := by
    have hne : (Frame.encode t body ++ rest).isEmpty = false := by simp [Frame.encode]
    have hd : ((Frame.encode t body ++ rest).drop k).isEmpty = true := by
      rw [List.drop_of_length_le hfit]; rfl
    simp only [bread, List.isEmpty_nil, Bool.not_true, Bool.false_eq_true, if_false,
      show ¬ k ≤ 1 by omega, cread, hne, hd, if_true]
  have hall : (readFrame (buffered k) maxLen knownType ([], [Frame.encode t body ++ rest])).2.2 = [] := by
    unfold readFrame
    split
    · exact hfirst
    · exact bheader_conn_nil k _ _ _ _ hfirst
  show ((readFrame (buffered k) maxLen knownType ([], [Frame.encode t body ++ rest])).2.2).flatten = []
  rw [hall]; rfl

/-- concrete: a 3-byte greeting behind an empty-bodied response in one segment, bufio size 512: the handshake succeeds and
    the user's stream starts after the greeting; read from the connection itself nothing is lost -/
theorem hs_buffered_witness :
    userSees (buffered 512) idLayer (readFrame (buffered 512) maxLen knownType ([], [Frame.encode respType [123, 125] ++ [50, 50, 48]])) true
      = some [] ∧
    userSees direct idLayer (readFrame direct maxLen knownType [Frame.encode respType [123, 125] ++ [50, 50, 48]]) true
      = some [50, 50, 48] := by
  decide

/-- the same frame cut anywhere: reading the connection itself is insensitive to the cut (instances of the theorem above,
    executed) -/
example : (List.range 15).all (fun a =>
    userSees direct idLayer (readFrame direct maxLen knownType
      (segment (Frame.encode respType [123, 125] ++ [50, 50, 48]) [a])) true == some [50, 50, 48]) = true := by decide

/-! ## §13.4 the source reads from the connection it hands on (regenerated from go/ast) -/

/-- the reader argument of a `msg.ReadMsg` / `msg.ReadMsgInto` call is the connection itself: a `net.Conn` parameter of
    the function that goes on using it, or the variable `ConnectServer()` was assigned to and which is used again after
    the read (wrapped, returned) — never an expression / a second reader on top of it -/
def readsHandedConn (r : String × String × String × String × String × Nat) : Bool :=
  r.2.2.2.2.1 == "param:net.Conn" || (r.2.2.2.2.1 == "dial:ConnectServer" && decide (1 ≤ r.2.2.2.2.2))

theorem visitor_reads_from_handed_conn :
    Gen.VisitorFacts.msgReads.all readsHandedConn = true ∧
    1 ≤ (Gen.VisitorFacts.msgReads.filter (fun r => r.2.2.1 == "ReadMsgInto")).length := by
  decide +kernel

/-! ## §13.5 the predicate the `vhs` driver engine evaluates on what the real visitors delivered -/

/-- one scenario: `sent` = what the backend wrote for the user (stcp: the one byte stream; sudp: the datagrams, in
    order), `got` = what the user received until the end; `up` / `upgot` the other direction -/
def hsHoldsOn (refused : Bool) (sent got : List Str) (up upgot : Str) : Bool :=
  if refused then got.all (·.isEmpty) else got == sent && upgot == up

theorem hsHoldsOn_sound (sent got : List Str) (up upgot : Str) (h : hsHoldsOn false sent got up upgot = true) :
    got = sent ∧ upgot = up := by
  simpa [hsHoldsOn] using h

theorem hsHoldsOn_refused (sent got : List Str) (up upgot : Str) (h : hsHoldsOn true sent got up upgot = true) :
    got.flatten = [] := by
  simp only [hsHoldsOn, if_true, List.all_eq_true] at h
  induction got with
  | nil => rfl
  | cons g rest ih =>
    have hg : g = [] := List.isEmpty_iff.mp (h g List.mem_cons_self)
    simp [hg, ih (fun x hx => h x (List.mem_cons_of_mem _ hx))]

/-- the model's scenario: the peer's wire image cut at `abs`; the handshake on the connection itself; what is handed on -/
def hsRun (wire : Str) (abs : List Nat) : HsRes × Str :=
  ((readFrame direct maxLen knownType (segment wire abs)).1,
   (direct.conn (readFrame direct maxLen knownType (segment wire abs)).2).flatten)

example : hsRun (Frame.encode respType [123, 125] ++ [1, 2, 3, 4]) [1, 5, 12, 13] = (.ok respType [123, 125], [1, 2, 3, 4]) := by decide
example : hsRun (Frame.encode respType [123, 125] ++ [1, 2, 3, 4]) [] = (.ok respType [123, 125], [1, 2, 3, 4]) := by decide

end C08
end Frp
