import Frp.Lemmas.NatHole
import Frp.Model.NatPunch
/-
  C20 — NAT hole punching: authenticated, complementary instructions, bounded state.

  Model: Frp/Model/NatHole.lean (pkg/nathole/{classify,analysis,controller}.go),
  tables: Frp/Gen/NatTables.lean (REGENERATED from analysis.go on every run).

  The model describes the REPAIRED code: f51e354 (ClassifyNATFeature rejects ports outside
  1..65535), 8d80cd3 (the notify send of HandleVisitor is bounded by NatHoleTimeout) and the
  C08 fix (the session branch of HandleVisitor consults allowUsers).  The pinned tree's functions
  are kept as `classifyOld`, `analysisOld`, `stepOld`, `runOld` with their witness theorems.

  §1 tables (decide over the whole regenerated tables)      §2 executable predicates
  §3 recommendations, all histories (scores_valid, complementary, role rules)
  §4 port ranges of getRangePorts (ports_in_range; the function itself still maps 70000 to
     69995..65535 — `ports_out_of_range_witness` — but is no longer reachable with such a port)
  §5 Controller.analysis: the two responses — FULL: `analysis_full` (no hypothesis on ports),
     `analysis_malformed_error`; `classify_some_iff` / `classify_malformed_error` (every entry is
     validated, wherever the NAT type is decided); instruction timing `tables_timing` (every row of
     every regenerated table) ⇒ `analysis_timing` (all histories);
     pinned tree: `analysis_oor_witness` (¬ AnalysisFullFor classifyOld)
  §6 sessions, small-step, all interleavings — creation only when signed AND allowed; addressing;
     rank argument `sessions_deleted`; FULL progress `handler_never_stuck` (every stored session of
     every reachable state has an enabled handler step); pinned tree: `leak_witness`,
     `allow_users_not_checked_witness`
     reports: enabled in every phase, frame (`report_frame`), FULL no-op clause for unknown /
     not-yet-analysed / failed-analysis sids over all reachable states (`report_not_analysed_noop`)
  §7 soundness of the predicates the driver evaluates on the implementation's responses
  §8 client side (Model/NatPunch.lean): waitDetectMessage over all inboxes (`wait_accepts_only`),
     memoryless (`waitLoop_eq_spec`, `waitLoop_memoryless`, `foreign_sid_anywhere`),
     FULL "honest peers meet" step by step (`honest_peers_meet_steps`), key mismatch, and the
     many-socket result hand-over: `handover_lost_witness` (current code, OPEN finding),
     `handover_main_first_partial`, repaired: `handover_buffered_never_lost`
-/
namespace Frp
namespace C20
open NatBeh NatHole Gen.NatTables

/-! ## 1. The regenerated tables -/

/-- a pair of behaviours is complementary: exactly one sender and one receiver -/
def Complementary (a b : Beh) : Prop :=
  (a.role = .sender ∧ b.role = .receiver) ∨ (a.role = .receiver ∧ b.role = .sender)

instance (a b : Beh) : Decidable (Complementary a b) := by unfold Complementary; exact inferInstance

/-- every row of every table has exactly one sender and one receiver -/
theorem tables_complementary : ∀ t ∈ allTables, ∀ p ∈ t, Complementary p.1 p.2 := by decide

theorem lookup_mem {β : Type} (l : List (Nat × β)) (k : Nat) (v : β) (h : l.lookup k = some v) :
    (k, v) ∈ l := by
  induction l with
  | nil => simp [List.lookup] at h
  | cons x xs ih =>
    obtain ⟨a, b⟩ := x
    simp only [List.lookup] at h
    by_cases e : k = a
    · subst e
      simp only [beq_self_eq_true] at h
      cases h
      exact List.mem_cons_self
    · have : (k == a) = false := by simp [e]
      rw [this] at h
      exact List.mem_cons_of_mem _ (ih h)

/-- the switch of `getBehaviorByMode` only ever returns one of the tables -/
theorem byMode_mem (mode : Nat) : behaviorsByMode mode ∈ allTables := by
  have h1 : ∀ p ∈ modeCases, p.2 ∈ allTables := by decide
  have h2 : modeDefault ∈ allTables := by decide
  unfold behaviorsByMode
  split
  · next t ht => exact h1 _ (lookup_mem _ _ _ ht)
  · exact h2

/-- expectation pinning what the extractor must have found (a silently empty extraction cannot
    make the theorems vacuous) -/
theorem tables_shape :
    allTables.length = 5 ∧ allTables.map List.length = [10, 6, 3, 6, 3] ∧ modeCases.map Prod.fst = [0, 1, 2, 3, 4] := by
  decide

/-- mode 1 and 2 and 4: the A column is the sender in every row (what the swap rules rely on) -/
theorem modes124_A_sends :
    (∀ p ∈ behaviorsByMode detectMode1, p.1.role = .sender ∧ p.2.role = .receiver) ∧
    (∀ p ∈ behaviorsByMode detectMode2, p.1.role = .sender ∧ p.2.role = .receiver) ∧
    (∀ p ∈ behaviorsByMode detectMode4, p.1.role = .sender ∧ p.2.role = .receiver) := by decide

/-- controller.go `analysis()`: `timeoutMs := max(cBehavior.SendDelayMs, vBehavior.SendDelayMs) + 5000;
    if cBehavior.ListenRandomPorts > 0 || vBehavior.ListenRandomPorts > 0 { timeoutMs += 30000 }` -/
def timeoutMsOf (a b : Beh) : Nat :=
  if a.listenRandomPorts > 0 ∨ b.listenRandomPorts > 0 then max a.sendDelayMs b.sendDelayMs + 5000 + 30000
  else max a.sendDelayMs b.sendDelayMs + 5000

/-- … and `ReadTimeoutMs: timeoutMs - xBehavior.SendDelayMs` for each party: the party that is not
    the sender reads for at least the sender's send delay plus 5 s, the sender itself for at least
    5 s after its delay (natural-number subtraction: nothing underflows) -/
def RowTiming (a b : Beh) : Prop :=
  (a.role = .sender → timeoutMsOf a b - b.sendDelayMs ≥ a.sendDelayMs + 5000 ∧ timeoutMsOf a b - a.sendDelayMs ≥ 5000) ∧
  (b.role = .sender → timeoutMsOf a b - a.sendDelayMs ≥ b.sendDelayMs + 5000 ∧ timeoutMsOf a b - b.sendDelayMs ≥ 5000)

instance (a b : Beh) : Decidable (RowTiming a b) := by unfold RowTiming; exact inferInstance

/-- EVERY row of EVERY regenerated table, in either assignment of its two columns to client and
    visitor (the swap rules): the read timeouts `analysis()` derives cover the peer's send delay -/
theorem tables_timing : ∀ t ∈ allTables, ∀ p ∈ t, RowTiming p.1 p.2 ∧ RowTiming p.2 p.1 := by decide

/-! ## 2. The executable predicates (evaluated by the driver on the implementation's own responses) -/

def roleCompl (a b : Role) : Bool :=
  (a == .sender && b == .receiver) || (a == .receiver && b == .sender)

def rangeOk (r : Int × Int) : Bool := decide (1 ≤ r.1) && decide (r.1 ≤ r.2) && decide (r.2 ≤ 65535)

/-- the address splits and its port is a decimal in 1..65535 -/
def portValid (a : Str) : Bool :=
  match splitHostPort a with
  | some (_, p) =>
    match atoi p with
    | some n => decide (1 ≤ n) && decide (n ≤ 65535)
    | none => false
  | none => false

def addrsValid (l : List Str) : Bool := l.all portValid

/-- both parties are told about an error and get no instruction at all -/
def errPairOk (v c : Resp) : Bool :=
  v.error != .none && c.error != .none && v.sid == [] && c.sid == [] &&
  v.role == .none && c.role == .none && v.candidatePorts == [] && c.candidatePorts == [] &&
  v.candidateAddrs == [] && c.candidateAddrs == []

/-- a well-formed pair of instructions for session `sid`: same sid, same mode, complementary
    roles, each side gets the other side's (compacted) addresses -/
def instrOk (sid : Str) (vm : VMsg) (cm : CMsg) (v c : Resp) : Bool :=
  v.error == .none && c.error == .none && sid != [] && v.sid == sid && c.sid == sid &&
  v.mode == c.mode && roleCompl v.role c.role &&
  v.candidateAddrs == compact cm.mapped && c.candidateAddrs == compact vm.mapped &&
  v.assistedAddrs == compact cm.assisted && c.assistedAddrs == compact vm.assisted &&
  v.tid == vm.tid && c.tid == cm.tid && v.protocol == vm.protocol && c.protocol == vm.protocol

def rangesOk (v c : Resp) : Bool := (v.candidatePorts ++ c.candidatePorts).all rangeOk

/-- nathole.go `MakeHole`: `timeout := 5 * time.Second; if ReadTimeoutMs > 0 { timeout = ReadTimeoutMs ms }` -/
def effReadMs (ms : Nat) : Nat := if ms > 0 then ms else 5000

/-- controller.go `HandleVisitor`: the response of the party whose role is sender is held back by
    `time.Sleep(1 * time.Second)`; the other party gets its response at once -/
def senderHoldMs : Nat := 1000

/-- the instructions fit together IN TIME: the party that is not the sender starts reading when its
    response arrives; the sender gets its response `senderHoldMs` later, sleeps `SendDelayMs` and only
    then sends its first detect message.  The receiver must still be reading at that moment:
    its (effective) read timeout exceeds the sender's hold-back plus send delay.  (The demand is the
    weakest one that makes "follow the instructions ⇒ find each other" possible on a network without
    latency; `Controller.analysis` gives 5 s — or 35 s — more than the sender's delay: `analysis_timing`.) -/
def timingOk (v c : Resp) : Bool :=
  (v.role != .sender || decide (effReadMs c.readTimeoutMs > v.sendDelayMs + senderHoldMs)) &&
  (c.role != .sender || decide (effReadMs v.readTimeoutMs > c.sendDelayMs + senderHoldMs))

/-- clauses 1 and 4 without the port-range clause -/
def pairOk (sid : Str) (vm : VMsg) (cm : CMsg) (v c : Resp) : Bool :=
  errPairOk v c || instrOk sid vm cm v c

/-- the full statement: either an error pair, or instructions computed from valid addresses with
    valid port ranges (malformed / out-of-range addresses must give the error pair) that also fit
    together in time (`timingOk`) -/
def fullOk (sid : Str) (vm : VMsg) (cm : CMsg) (v c : Resp) : Bool :=
  errPairOk v c ||
  (instrOk sid vm cm v c && addrsValid vm.mapped && addrsValid cm.mapped && rangesOk v c && timingOk v c)

/-- `report`: what the driver demands of the implementation's own answer to a NatHoleReport.
    `frameSame` = between the snapshots taken before and after `HandleReport` nothing differs but
    the score list of the reported session's own analysis key (sessions, the lists of all other
    keys, the number of keys); a session that is not analysed (or unknown) moreover has no score
    list of its own.  A panic is judged by the engine before this predicate (prop=FAILS).
    Model side: `report_frame`, `report_not_analysed_noop`. -/
def reportOk (analysed ownScores frameSame : Bool) : Bool := frameSame && (analysed || !ownScores)

/-! ## 3. Recommendations: all histories -/

inductive AOp
  | recm (key : Str) (c v : Feature)           -- GetRecommandBehaviors
  | succ (key : Str) (mode index : Nat)        -- ReportSuccess (any numbers, also ones never recommended)
  | forget (key : Str)                         -- Clean

def applyA (A : Analyzer) : AOp → Analyzer
  | .recm k c v => (getRecommand A k c v).1
  | .succ k m i => analyzerReport A k m i
  | .forget k => analyzerForget A k

def runA (ops : List AOp) : Analyzer := ops.foldl applyA {}

/-- `scores_valid`: in every reachable analyzer state (any history of recommendations, success
    reports and clean-ups, any keys, any features) every stored (mode, index) indexes an existing
    table row. -/
theorem scores_valid (ops : List AOp) : AInv (runA ops) := by
  unfold runA
  suffices h : ∀ A, AInv A → AInv (ops.foldl applyA A) from h _ ainv_init
  induction ops with
  | nil => intro A h; exact h
  | cons op ops ih =>
    intro A h
    apply ih
    cases op with
    | recm k c v => exact ainv_getRecommand h k c v
    | succ k m i => exact ainv_report h k m i
    | forget k => exact ainv_forget h k

theorem row_of_valid {mode index : Nat} (h : index < (behaviorsByMode mode).length) :
    behaviorByModeAndIndex mode index ∈ behaviorsByMode mode := by
  unfold behaviorByModeAndIndex
  split
  · next p hp => exact List.mem_of_getElem? hp
  · next hn => rw [List.getElem?_eq_none_iff] at hn; omega

theorem swapRule_complementary (mode : Nat) (c : Feature) (ab : Beh × Beh)
    (h : Complementary ab.1 ab.2) : Complementary (swapRule mode c ab).1 (swapRule mode c ab).2 := by
  have hs : Complementary ab.2 ab.1 := by
    rcases h with h | h
    · exact Or.inr ⟨h.2, h.1⟩
    · exact Or.inl ⟨h.2, h.1⟩
  unfold swapRule
  repeat' split
  all_goals first | exact h | exact hs

/-- the recommendation indexes an existing row, whatever happened before -/
theorem recommand_row (ops : List AOp) (key : Str) (c v : Feature) :
    (getRecommand (runA ops) key c v).2.index <
      (behaviorsByMode (getRecommand (runA ops) key c v).2.mode).length := by
  rw [getRecommand_eq]
  exact NatHole.recommand_row (valid_recsFor (scores_valid ops) key c v)

/-- for every feature pair, every key and every history: exactly one sender and one receiver -/
theorem recommand_complementary (ops : List AOp) (key : Str) (c v : Feature) :
    Complementary (getRecommand (runA ops) key c v).2.cBeh (getRecommand (runA ops) key c v).2.vBeh := by
  have hrow := recommand_row ops key c v
  rw [getRecommand_eq] at hrow ⊢
  simp only at hrow ⊢
  apply swapRule_complementary
  have hm := row_of_valid hrow
  exact tables_complementary _ (byMode_mem _) _ hm

/-! ### role rules (from the comments in analysis.go: "HardNAT is always the sender" (mode 1),
    "HardNAT is always the receiver" (mode 2), "Regular ports changes is always the sender" (mode 4)) -/

theorem mode_consts : detectMode1 ≠ detectMode2 ∧ detectMode1 ≠ detectMode4 ∧ detectMode2 ≠ detectMode4 := by decide

/-- mode 1: a hard client sends; an easy client listens and the visitor sends.  Hence whenever
    exactly one side is a hard NAT, the hard NAT is the sender. -/
theorem mode1_hard_sends (ops : List AOp) (key : Str) (c v : Feature)
    (hm : (getRecommand (runA ops) key c v).2.mode = detectMode1) :
    let r := (getRecommand (runA ops) key c v).2
    (c.natType = .hard → r.cBeh.role = .sender ∧ r.vBeh.role = .receiver) ∧
    (c.natType = .easy → r.vBeh.role = .sender ∧ r.cBeh.role = .receiver) := by
  have hrow := recommand_row ops key c v
  rw [getRecommand_eq] at hrow hm ⊢
  simp only at hrow hm ⊢
  rw [hm] at hrow ⊢
  have hA := modes124_A_sends.1 _ (row_of_valid hrow)
  unfold swapRule
  simp only [if_true]
  constructor
  · intro hc; simp [hc, hA.1, hA.2]
  · intro hc; simp [hc, hA.1, hA.2]

/-- mode 2: a hard client listens (visitor sends); an easy client sends and the visitor listens -/
theorem mode2_hard_listens (ops : List AOp) (key : Str) (c v : Feature)
    (hm : (getRecommand (runA ops) key c v).2.mode = detectMode2) :
    let r := (getRecommand (runA ops) key c v).2
    (c.natType = .hard → r.cBeh.role = .receiver ∧ r.vBeh.role = .sender) ∧
    (c.natType = .easy → r.cBeh.role = .sender ∧ r.vBeh.role = .receiver) := by
  have hrow := recommand_row ops key c v
  rw [getRecommand_eq] at hrow hm ⊢
  simp only at hrow hm ⊢
  rw [hm] at hrow ⊢
  have hA := modes124_A_sends.2.1 _ (row_of_valid hrow)
  unfold swapRule
  have h21 : ¬ detectMode2 = detectMode1 := fun h => mode_consts.1 h.symm
  simp only [h21, if_false, if_true]
  constructor
  · intro hc; simp [hc, hA.1, hA.2]
  · intro hc; simp [hc, hA.1, hA.2]

/-- mode 4: the client sends iff its port changes are regular; otherwise the visitor sends.  Hence
    whenever exactly one side has regular port changes and it is the client, or the client has not,
    the sender is on the side the code treats as regular. -/
theorem mode4_regular_sends (ops : List AOp) (key : Str) (c v : Feature)
    (hm : (getRecommand (runA ops) key c v).2.mode = detectMode4) :
    let r := (getRecommand (runA ops) key c v).2
    (c.regular = true → r.cBeh.role = .sender ∧ r.vBeh.role = .receiver) ∧
    (c.regular = false → r.vBeh.role = .sender ∧ r.cBeh.role = .receiver) := by
  have hrow := recommand_row ops key c v
  rw [getRecommand_eq] at hrow hm ⊢
  simp only at hrow hm ⊢
  rw [hm] at hrow ⊢
  have hA := modes124_A_sends.2.2 _ (row_of_valid hrow)
  unfold swapRule
  have h41 : ¬ detectMode4 = detectMode1 := fun h => mode_consts.2.1 h.symm
  have h42 : ¬ detectMode4 = detectMode2 := fun h => mode_consts.2.2 h.symm
  simp only [h41, h42, if_false, if_true]
  constructor
  · intro hc; simp [hc, hA.1, hA.2]
  · intro hc; simp [hc, hA.1, hA.2]

/-- the role rules as one executable predicate (evaluated by the driver on the implementation's
    recommendations): whenever exactly one side is the hard NAT it sends in mode 1 and listens in
    mode 2; whenever exactly one side has regular port changes it sends in mode 4 -/
def roleRulesOk (mode : Nat) (c v : Feature) (cr vr : Role) : Bool :=
  if mode = detectMode1 then
    (!(c.natType == .hard && v.natType == .easy) || cr == .sender) &&
    (!(c.natType == .easy && v.natType == .hard) || vr == .sender)
  else if mode = detectMode2 then
    (!(c.natType == .hard && v.natType == .easy) || cr == .receiver) &&
    (!(c.natType == .easy && v.natType == .hard) || vr == .receiver)
  else if mode = detectMode4 then
    (!(c.regular && !v.regular) || cr == .sender) &&
    (!(!c.regular && v.regular) || vr == .sender)
  else true

/-- the role rules hold for every feature pair, key and history -/
theorem role_rules_hold (ops : List AOp) (key : Str) (c v : Feature) :
    roleRulesOk (getRecommand (runA ops) key c v).2.mode c v
      (getRecommand (runA ops) key c v).2.cBeh.role (getRecommand (runA ops) key c v).2.vBeh.role = true := by
  unfold roleRulesOk
  split
  · next hm =>
    have h := mode1_hard_sends ops key c v hm
    simp only at h
    cases hc : c.natType <;> cases hv : v.natType <;> simp [h.1, h.2, hc]
  · split
    · next hm =>
      have h := mode2_hard_listens ops key c v hm
      simp only at h
      cases hc : c.natType <;> cases hv : v.natType <;> simp [h.1, h.2, hc]
    · split
      · next hm =>
        have h := mode4_regular_sends ops key c v hm
        simp only at h
        cases hc : c.regular <;> cases hv : v.regular <;> simp [h.1, h.2, hc]
      · rfl

/-- non-vacuity: mode 1, 2 and 4 recommendations do occur -/
example : (getRecommand (runA []) [] { natType := .hard, behavior := .portChanged, regular := true } {}).2.mode = detectMode1 := by decide
example : (getRecommand (runA []) [] { natType := .hard, behavior := .portChanged } {}).2.mode = detectMode2 := by decide
example : (getRecommand (runA []) [] { natType := .hard, behavior := .portChanged, regular := true }
            { natType := .hard, behavior := .portChanged }).2.mode = detectMode4 := by decide

/-! ## 4. Port ranges -/

/-- core of `ports_in_range`: the address `getRangePorts` looks at either does not split (no range
    at all) or has a port in 1..65535; `difference ≥ -5` -/
theorem ports_in_range_core (addrs : List Str) (d : Int) (n : Nat) (hd : -5 ≤ d)
    (hv : ∀ a, addrs.getLast? = some a → portValid a = true ∨ splitHostPort a = none) :
    ∀ r ∈ getRangePorts addrs d n, rangeOk r = true := by
  intro r hr
  unfold getRangePorts at hr
  split at hr
  · cases hr
  · next hn =>
    split at hr
    · cases hr
    · next addr hlast =>
      split at hr
      · cases hr
      · next h ps hsplit =>
        split at hr
        · cases hr
        · next port hatoi =>
          rcases hv addr hlast with hpv | hnone
          · unfold portValid at hpv
            rw [hsplit] at hpv
            simp only [hatoi, Bool.and_eq_true, decide_eq_true_eq] at hpv
            simp only [List.mem_singleton] at hr
            subst hr
            simp only [rangeOk, Bool.and_eq_true, decide_eq_true_eq]
            have : (1 : Int) ≤ (n : Int) := by omega
            omega
          · rw [hsplit] at hnone; cases hnone

/-- `ports_in_range`: for ports within 1..65535 (every address of the list) and a non-negative
    difference, every produced range satisfies 1 ≤ From ≤ To ≤ 65535 -/
theorem ports_in_range (addrs : List Str) (d : Int) (n : Nat) (hd : 0 ≤ d) (hv : addrsValid addrs = true) :
    ∀ r ∈ getRangePorts addrs d n, rangeOk r = true := by
  apply ports_in_range_core addrs d n (by omega)
  intro a ha
  left
  exact List.all_eq_true.mp hv a (List.mem_of_getLast? ha)

def addr70000 : Str := Str.ofString "1.2.3.4:70000"

/-- for unvalidated ports the statement is false: port 70000 gives From 69995 > To 65535 -/
theorem ports_out_of_range_witness :
    getRangePorts [addr70000] 0 10 = [(69995, 65535)] ∧
    ¬ (∀ r ∈ getRangePorts [addr70000] 0 10, rangeOk r = true) := by
  decide +kernel

/-- non-vacuity of `ports_in_range` -/
example : addrsValid [Str.ofString "1.2.3.4:65533"] = true ∧
    getRangePorts [Str.ofString "1.2.3.4:65533"] 2 10 = [(65526, 65535)] := by decide +kernel

/-! ## 5. `Controller.analysis`: the two responses -/

theorem roleCompl_of {a b : Beh} (h : Complementary a b) : roleCompl a.role b.role = true := by
  rcases h with h | h <;> simp [roleCompl, h.1, h.2]

/-- whatever the analyzer has seen before (`AInv`, which `scores_valid` gives for every history),
    a successful analysis (over any classifier) produces a well-formed pair: same sid, same mode,
    complementary roles, each side gets the other side's addresses; the analyzer invariant is kept -/
theorem analysisWith_pair_ok (cls : List Str → List Str → Option Feature)
    (A A' : Analyzer) (sid : Str) (vm : VMsg) (cm : CMsg) (o : AnalysisOut)
    (hA : AInv A) (hsid : sid ≠ []) (h : analysisWith cls A sid vm cm = .ok (A', o)) :
    instrOk sid vm cm o.vResp o.cResp = true ∧ AInv A' ∧ o.vResp.mode = o.mode ∧
    o.index < (behaviorsByMode o.mode).length := by
  unfold analysisWith at h
  split at h
  · cases h
  · next cf hcf =>
    split at h
    · cases h
    · next vf hvf =>
      simp only [Except.ok.injEq, Prod.mk.injEq] at h
      obtain ⟨hA', ho⟩ := h
      subst ho
      subst hA'
      have hrow : (getRecommand A (analysisKey vm vf cm cf) cf vf).2.index <
          (behaviorsByMode (getRecommand A (analysisKey vm vf cm cf) cf vf).2.mode).length := by
        rw [getRecommand_eq]; exact NatHole.recommand_row (valid_recsFor hA _ cf vf)
      have hc : Complementary (getRecommand A (analysisKey vm vf cm cf) cf vf).2.cBeh
          (getRecommand A (analysisKey vm vf cm cf) cf vf).2.vBeh := by
        rw [getRecommand_eq] at hrow ⊢
        simp only at hrow ⊢
        exact swapRule_complementary _ _ _ (tables_complementary _ (byMode_mem _) _ (row_of_valid hrow))
      have hc' : roleCompl (getRecommand A (analysisKey vm vf cm cf) cf vf).2.vBeh.role
          (getRecommand A (analysisKey vm vf cm cf) cf vf).2.cBeh.role = true := by
        rcases hc with h | h <;> simp [roleCompl, h.1, h.2]
      refine ⟨?_, ainv_getRecommand hA _ cf vf, rfl, hrow⟩
      simp only [instrOk, hc', beq_self_eq_true, Bool.and_true, Bool.true_and, bne_iff_ne, ne_eq]
      simp [hsid]

/-- the current `Controller.analysis` -/
theorem analysis_pair_ok (A A' : Analyzer) (sid : Str) (vm : VMsg) (cm : CMsg) (o : AnalysisOut)
    (hA : AInv A) (hsid : sid ≠ []) (h : analysis A sid vm cm = .ok (A', o)) :
    instrOk sid vm cm o.vResp o.cResp = true ∧ AInv A' ∧ o.vResp.mode = o.mode ∧
    o.index < (behaviorsByMode o.mode).length :=
  analysisWith_pair_ok classify A A' sid vm cm o hA hsid h

/-- an analysis error is told to both parties as an error pair without any instruction -/
theorem analysis_error_both (A : Analyzer) (sid : Str) (vm : VMsg) (cm : CMsg) (e : ErrKind)
    (h : analysis A sid vm cm = .error e) :
    e ≠ .none ∧ errPairOk (errResp vm.tid e) (errResp cm.tid e) = true := by
  have he : e ≠ .none := by
    unfold analysis analysisWith at h
    split at h
    · cases h; simp
    · split at h
      · cases h; simp
      · cases h
  refine ⟨he, ?_⟩
  simp [errPairOk, errResp, he]

/-- f51e354: the classification loop only accepts addresses that split and whose port is a
    decimal in 1..65535 -/
theorem classifyLoop_valid (loc : List Str) : ∀ (addrs : List Str) (st st' : ClsSt),
    classifyLoop loc addrs st = some st' → ∀ a ∈ addrs, portValid a = true := by
  intro addrs
  induction addrs with
  | nil => intro st st' _ a ha; cases ha
  | cons x r ih =>
    intro st st' e a ha
    simp only [classifyLoop] at e
    split at e
    · cases e
    · next ip port hsp =>
      split at e
      · cases e
      · next pn hpn =>
        split at e
        · cases e
        · next hr =>
          have hx : portValid x = true := by
            unfold portValid
            rw [hsp]
            simp only [hpn, Bool.and_eq_true, decide_eq_true_eq]
            omega
          have hrest : ∀ a ∈ r, portValid a = true := by
            split at e
            · exact ih _ _ e
            · exact ih _ _ e
          rcases List.mem_cons.mp ha with h | h
          · subst h; exact hx
          · exact hrest a h

theorem classify_ok_valid {addrs loc : List Str} {f : Feature} (h : classify addrs loc = some f) :
    addrsValid addrs = true := by
  unfold classify at h
  split at h
  · cases h
  · split at h
    · cases h
    · next st hst =>
      exact List.all_eq_true.mpr (classifyLoop_valid loc addrs {} st hst)

/-- the loop validates EVERY entry, wherever the NAT type is decided: it fails exactly when some
    entry is not `portValid` — the running state (base IP, "IP changed", "port changed") has no
    influence on acceptance -/
theorem classifyLoop_isSome (loc : List Str) : ∀ (addrs : List Str) (st : ClsSt),
    (classifyLoop loc addrs st).isSome = addrsValid addrs := by
  intro addrs
  induction addrs with
  | nil => intro st; rfl
  | cons x r ih =>
    intro st
    have hall : addrsValid (x :: r) = (portValid x && addrsValid r) := by simp [addrsValid]
    rw [hall]
    simp only [classifyLoop, portValid]
    cases hsp : splitHostPort x with
    | none => simp
    | some ipp =>
      obtain ⟨ip, port⟩ := ipp
      simp only
      cases hpn : atoi port with
      | none => simp
      | some pn =>
        simp only
        by_cases hr : pn < 1 ∨ pn > 65535
        · have hf : (decide (1 ≤ pn) && decide (pn ≤ 65535)) = false := by
            simp only [Bool.and_eq_false_iff, decide_eq_false_iff_not]; omega
          simp [hr, hf]
        · have ht : (decide (1 ≤ pn) && decide (pn ≤ 65535)) = true := by
            simp only [Bool.and_eq_true, decide_eq_true_eq]; omega
          simp only [hr, if_false, ht, Bool.true_and]
          split <;> exact ih _

/-- `ClassifyNATFeature` succeeds exactly on lists of at least two entries ALL of which split and
    carry a decimal port in 1..65535 -/
theorem classify_some_iff (addrs loc : List Str) :
    (classify addrs loc).isSome = (decide (2 ≤ addrs.length) && addrsValid addrs) := by
  unfold classify
  by_cases hl : addrs.length ≤ 1
  · have : decide (2 ≤ addrs.length) = false := by simp only [decide_eq_false_iff_not]; omega
    simp [hl, this]
  · have : decide (2 ≤ addrs.length) = true := by simp only [decide_eq_true_eq]; omega
    simp only [hl, if_false, this, Bool.true_and]
    rw [← classifyLoop_isSome loc addrs {}]
    cases classifyLoop loc addrs {} <;> rfl

/-- any malformed / unparsable / out-of-range entry ⇒ error, at EVERY position of the list and
    whatever the entries before it decided (same address, port-only change, IP + port change) -/
theorem classify_malformed_error (pre post : List Str) (a : Str) (loc : List Str) (hbad : portValid a = false) :
    classify (pre ++ a :: post) loc = none := by
  have h := classify_some_iff (pre ++ a :: post) loc
  have hv : addrsValid (pre ++ a :: post) = false := by
    simp [addrsValid, hbad]
  rw [hv, Bool.and_false] at h
  cases hc : classify (pre ++ a :: post) loc with
  | none => rfl
  | some f => rw [hc] at h; cases h

example : classify [Str.ofString "198.51.100.7:4000", Str.ofString "198.51.100.9:4010", Str.ofString "198.51.100.9:70000"] [] = none := by
  decide +kernel
example : (classify [Str.ofString "198.51.100.7:4000", Str.ofString "198.51.100.9:4010", Str.ofString "198.51.100.9:4011"] []).map (·.behavior)
    = some .bothChanged := by decide +kernel

/-- a mapped address on either side that is malformed (does not split, port not a decimal
    integer) or, with f51e354, has a port outside 1..65535 makes the analysis fail — both
    parties then get the error pair (`analysis_error_both`), never an instruction -/
theorem analysis_malformed_error (A : Analyzer) (sid : Str) (vm : VMsg) (cm : CMsg) (a : Str)
    (hmem : a ∈ vm.mapped ∨ a ∈ cm.mapped) (hbad : portValid a = false) :
    ∃ e, analysis A sid vm cm = .error e := by
  have hcls : ∀ l loc, a ∈ l → classify l loc = none := by
    intro l loc hl
    cases hc : classify l loc with
    | none => rfl
    | some f =>
      have := List.all_eq_true.mp (classify_ok_valid hc) a hl
      rw [hbad] at this; cases this
  unfold analysis analysisWith
  rcases hmem with hv | hc
  · split
    · exact ⟨_, rfl⟩
    · rw [hcls vm.mapped _ hv]; exact ⟨_, rfl⟩
  · rw [hcls cm.mapped _ hc]; exact ⟨_, rfl⟩

theorem swapRule_cases (mode : Nat) (c : Feature) (ab : Beh × Beh) :
    swapRule mode c ab = ab ∨ swapRule mode c ab = (ab.2, ab.1) := by
  unfold swapRule
  repeat' split
  all_goals first | exact Or.inl rfl | exact Or.inr rfl

/-- what `timingOk` needs of the two behaviours `analysis()` works with -/
theorem timingOk_of_row (v c : Resp) (cB vB : Beh) (h : RowTiming cB vB)
    (hvr : v.role = vB.role) (hcr : c.role = cB.role)
    (hvd : v.sendDelayMs = vB.sendDelayMs) (hcd : c.sendDelayMs = cB.sendDelayMs)
    (hvt : v.readTimeoutMs = timeoutMsOf cB vB - vB.sendDelayMs)
    (hct : c.readTimeoutMs = timeoutMsOf cB vB - cB.sendDelayMs) : timingOk v c = true := by
  obtain ⟨h1, h2⟩ := h
  simp only [timingOk, Bool.and_eq_true, Bool.or_eq_true, bne_iff_ne, ne_eq, decide_eq_true_eq,
    effReadMs, senderHoldMs, hvr, hcr, hvd, hcd, hvt, hct]
  constructor
  · by_cases hs : vB.role = .sender
    · right
      have := (h2 hs).1
      split <;> omega
    · left; exact hs
  · by_cases hs : cB.role = .sender
    · right
      have := (h1 hs).1
      split <;> omega
    · left; exact hs

/-- instruction timing, ALL histories: whatever the analyzer has seen before, whichever table row
    is recommended (`recommand_row`) and however the swap rules assign its columns, the party that
    is not the sender is told to read for longer than the sender is held back and told to wait
    before its first detect message (by the 5 s / 35 s `analysis()` adds: `tables_timing`) -/
theorem analysisWith_timing (cls : List Str → List Str → Option Feature)
    (A A' : Analyzer) (sid : Str) (vm : VMsg) (cm : CMsg) (o : AnalysisOut)
    (hA : AInv A) (h : analysisWith cls A sid vm cm = .ok (A', o)) :
    timingOk o.vResp o.cResp = true := by
  unfold analysisWith at h
  split at h
  · cases h
  · next cf hcf =>
    split at h
    · cases h
    · next vf hvf =>
      simp only [Except.ok.injEq, Prod.mk.injEq] at h
      obtain ⟨_, ho⟩ := h
      subst ho
      have hrow : (getRecommand A (analysisKey vm vf cm cf) cf vf).2.index <
          (behaviorsByMode (getRecommand A (analysisKey vm vf cm cf) cf vf).2.mode).length := by
        rw [getRecommand_eq]; exact NatHole.recommand_row (valid_recsFor hA _ cf vf)
      have ht : RowTiming (getRecommand A (analysisKey vm vf cm cf) cf vf).2.cBeh
          (getRecommand A (analysisKey vm vf cm cf) cf vf).2.vBeh := by
        rw [getRecommand_eq] at hrow ⊢
        simp only at hrow ⊢
        have hm := tables_timing _ (byMode_mem _) _ (row_of_valid hrow)
        rcases swapRule_cases (recommand (recsFor A (analysisKey vm vf cm cf) cf vf)).2.1 cf
          (behaviorByModeAndIndex (recommand (recsFor A (analysisKey vm vf cm cf) cf vf)).2.1
            (recommand (recsFor A (analysisKey vm vf cm cf) cf vf)).2.2) with e | e
        · rw [e]; exact hm.1
        · rw [e]; exact hm.2
      apply timingOk_of_row _ _ _ _ ht <;> first | rfl | (simp only [timeoutMsOf]; split <;> rfl)

theorem analysis_timing (A A' : Analyzer) (sid : Str) (vm : VMsg) (cm : CMsg) (o : AnalysisOut)
    (hA : AInv A) (h : analysis A sid vm cm = .ok (A', o)) : timingOk o.vResp o.cResp = true :=
  analysisWith_timing classify A A' sid vm cm o hA h

/-- the response clause at full strength (over a classifier) -/
def AnalysisFullFor (cls : List Str → List Str → Option Feature) : Prop :=
  ∀ (A A' : Analyzer) (sid : Str) (vm : VMsg) (cm : CMsg) (o : AnalysisOut),
    AInv A → sid ≠ [] → analysisWith cls A sid vm cm = .ok (A', o) → fullOk sid vm cm o.vResp o.cResp = true

/-- generic core: with every mapped port inside 1..65535 the pair is fully correct, port ranges
    included -/
theorem analysis_full_partial (cls : List Str → List Str → Option Feature)
    (hdiff : ∀ l loc f, cls l loc = some f → 0 ≤ f.portsDifference)
    (A A' : Analyzer) (sid : Str) (vm : VMsg) (cm : CMsg) (o : AnalysisOut)
    (hA : AInv A) (hsid : sid ≠ []) (hv : addrsValid vm.mapped = true) (hc : addrsValid cm.mapped = true)
    (h : analysisWith cls A sid vm cm = .ok (A', o)) :
    fullOk sid vm cm o.vResp o.cResp = true := by
  have hpair := (analysisWith_pair_ok cls A A' sid vm cm o hA hsid h).1
  have htime := analysisWith_timing cls A A' sid vm cm o hA h
  have hlast : ∀ (l : List Str), addrsValid l = true →
      ∀ a, (compactZeroed l).getLast? = some a → portValid a = true ∨ splitHostPort a = none := by
    intro l hl a ha
    rcases getLast_compactZeroed ha with hm | he
    · left; exact List.all_eq_true.mp hl a hm
    · right; subst he; exact splitHostPort_nil
  unfold analysisWith at h
  split at h
  · cases h
  · next cf hcf =>
    split at h
    · cases h
    · next vf hvf =>
      simp only [Except.ok.injEq, Prod.mk.injEq] at h
      obtain ⟨_, ho⟩ := h
      subst ho
      have h1 := ports_in_range_core (compactZeroed cm.mapped) cf.portsDifference
        (getRecommand A (analysisKey vm vf cm cf) cf vf).2.vBeh.portsRangeNumber
        (by have := hdiff _ _ _ hcf; omega) (hlast _ hc)
      have h2 := ports_in_range_core (compactZeroed vm.mapped) vf.portsDifference
        (getRecommand A (analysisKey vm vf cm cf) cf vf).2.cBeh.portsRangeNumber
        (by have := hdiff _ _ _ hvf; omega) (hlast _ hv)
      simp only [fullOk, hpair, hv, hc, htime, Bool.true_and, Bool.and_true, Bool.or_eq_true]
      right
      simp only [rangesOk, List.all_eq_true, List.mem_append]
      intro r hr
      rcases hr with hr | hr
      · exact h1 r hr
      · exact h2 r hr

/-- FULL statement for the current code (f51e354), no hypothesis on the ports: every successful
    analysis was computed from validated addresses and all its port ranges are inside 1..65535
    with From ≤ To; anything else is answered with the error pair (`analysis_malformed_error`) -/
theorem analysis_full : AnalysisFullFor classify := by
  intro A A' sid vm cm o hA hsid h
  have hvc : addrsValid vm.mapped = true ∧ addrsValid cm.mapped = true := by
    have h' := h
    unfold analysisWith at h'
    split at h'
    · cases h'
    · next cf hcf =>
      split at h'
      · cases h'
      · next vf hvf => exact ⟨classify_ok_valid hvf, classify_ok_valid hcf⟩
  exact analysis_full_partial classify (fun l loc f hf => classify_diff_nonneg hf)
    A A' sid vm cm o hA hsid hvc.1 hvc.2 h

def vmW : VMsg := { tid := [118], mapped := [Str.ofString "1.2.3.4:80", Str.ofString "1.2.3.4:80"] }
def cmW : CMsg := { tid := [99], sid := [115],
                    mapped := [Str.ofString "9.9.9.9:70000", Str.ofString "9.9.9.9:70001"] }

/-- PINNED TREE (before f51e354): the full statement was false — ports 70000/70001 were
    accepted and the visitor was told to probe the range 69995..65535 -/
theorem analysis_oor_witness : ¬ AnalysisFullFor classifyOld := by
  intro h
  have hA : AInv {} := ainv_init
  have key : ∃ A' o, analysisOld {} [115] vmW cmW = .ok (A', o) ∧ fullOk [115] vmW cmW o.vResp o.cResp = false ∧
      o.vResp.candidatePorts = [(69995, 65535)] := by
    match hh : analysisOld {} [115] vmW cmW with
    | .ok (A', o) =>
      refine ⟨A', o, rfl, ?_, ?_⟩
      · have : (match analysisOld {} [115] vmW cmW with
          | .ok (_, o) => fullOk [115] vmW cmW o.vResp o.cResp | .error _ => true) = false := by decide +kernel
        rw [hh] at this; exact this
      · have : (match analysisOld {} [115] vmW cmW with
          | .ok (_, o) => o.vResp.candidatePorts | .error _ => []) = [(69995, 65535)] := by decide +kernel
        rw [hh] at this; exact this
    | .error e =>
      have : (match analysisOld {} [115] vmW cmW with | .ok _ => true | .error _ => false) = true := by decide +kernel
      rw [hh] at this; cases this
  obtain ⟨A', o, h1, h2, _⟩ := key
  have := h {} A' [115] vmW cmW o hA (by decide) h1
  rw [h2] at this; cases this

/-- … and the same input on the current code is answered with the error pair -/
theorem analysis_oor_now_error :
    (match analysis {} [115] vmW cmW with
     | .error e => decide (e = .classifyClient) | .ok _ => false) = true := by decide +kernel

/-- "two honest peers on an unfiltered network that follow the instructions find each other", on
    the logic level: the sender probes `AssistedAddrs ++ CandidateAddrs` (nathole.go MakeHole); on
    an unfiltered network the receiver is reachable at the address it reported; the instructions
    name exactly one sender, and its candidate list contains every address the receiver reported. -/
theorem honest_peers_meet (sid : Str) (vm : VMsg) (cm : CMsg) (v c : Resp)
    (h : instrOk sid vm cm v c = true) :
    ((v.role = .sender ∧ c.role = .receiver ∧ ∀ a ∈ cm.mapped, a ∈ v.assistedAddrs ++ v.candidateAddrs) ∨
     (c.role = .sender ∧ v.role = .receiver ∧ ∀ a ∈ vm.mapped, a ∈ c.assistedAddrs ++ c.candidateAddrs)) := by
  simp only [instrOk, Bool.and_eq_true, beq_iff_eq, roleCompl, Bool.or_eq_true] at h
  obtain ⟨⟨⟨⟨⟨⟨⟨⟨⟨⟨⟨⟨⟨⟨_, _⟩, _⟩, _⟩, _⟩, _⟩, hrole⟩, hvc⟩, hcc⟩, _⟩, _⟩, _⟩, _⟩, _⟩, _⟩ := h
  rcases hrole with hr | hr
  · left
    refine ⟨hr.1, hr.2, ?_⟩
    intro a ha
    rw [hvc]; exact List.mem_append_right _ ((mem_compact a _).mpr ha)
  · right
    refine ⟨hr.2, hr.1, ?_⟩
    intro a ha
    rw [hcc]; exact List.mem_append_right _ ((mem_compact a _).mpr ha)

/-! ## 6. Controller sessions: small-step model, all interleavings -/

def handlerOf : Label → Option Str
  | .notify sid | .notifyTimeout sid | .wake sid | .timeout sid | .sendV sid | .sendC sid | .sleepDone sid => some sid
  | _ => none

def phaseRank : Phase → Nat
  | .notifying _ => 6
  | .waiting => 5
  | .responding _ _ false false => 4
  | .responding _ _ true false => 3
  | .responding _ _ false true => 3
  | .responding _ _ true true => 2
  | .sleeping => 1

def rank (s : State) (sid : Str) : Nat :=
  match aget s.sessions sid with
  | none => 0
  | some x => phaseRank x.phase

theorem rank_put (s : State) (k sid : Str) (x : Session) (cf : List (Str × Cfg)) (A : Analyzer) (n : Nat) :
    rank { cfgs := cf, sessions := aput s.sessions k x, analyzer := A, nextChan := n } sid =
      if k = sid then phaseRank x.phase else rank s sid := by
  simp only [rank, aget_aput]
  by_cases e : k = sid <;> simp [e]

theorem rank_del (s : State) (k sid : Str) (cf : List (Str × Cfg)) (A : Analyzer) (n : Nat) :
    rank { cfgs := cf, sessions := adel s.sessions k, analyzer := A, nextChan := n } sid =
      if k = sid then 0 else rank s sid := by
  simp only [rank, aget_adel]
  by_cases e : k = sid <;> simp [e]

theorem finishSend_rank_v (sess : Session) (vr cr : Resp) (c : Bool) :
    phaseRank (finishSend sess vr cr true c).phase < phaseRank (.responding vr cr false c) := by
  cases c <;> simp [finishSend, phaseRank]

theorem finishSend_rank_c (sess : Session) (vr cr : Resp) (v : Bool) :
    phaseRank (finishSend sess vr cr v true).phase < phaseRank (.responding vr cr v false) := by
  cases v <;> simp [finishSend, phaseRank]

theorem rank_of_get {s : State} {sid : Str} {x : Session} (h : aget s.sessions sid = some x) :
    rank s sid = phaseRank x.phase := by simp [rank, h]

/-- every step of a session's own handler strictly lowers its rank -/
theorem handler_rank_decreases (s s' : State) (l : Label) (o : Out) (sid : Str)
    (hl : handlerOf l = some sid) (h : step s l = some (s', o)) : rank s' sid < rank s sid := by
  cases l <;> simp only [handlerOf, Option.some.injEq, reduceCtorEq] at hl
  all_goals subst hl
  all_goals simp only [step] at h
  all_goals split at h
  all_goals try (cases h; done)
  all_goals rename_i sess hsess
  all_goals rw [rank_of_get hsess]
  · -- notify
    split at h
    · split at h
      · cases h; rw [rank_put]; simp [phaseRank, *]
      · cases h
    · cases h
  · -- notifyTimeout
    split at h
    · cases h; rw [rank_del]; simp [phaseRank, *]
    · cases h
  · -- wake
    split at h
    · split at h
      · cases h; rw [rank_put]; simp [phaseRank, *]
      · cases h; rw [rank_put]; simp [phaseRank, *]
    · cases h
  · -- timeout
    split at h
    · cases h; rw [rank_del]; simp [phaseRank, *]
    · cases h
  · -- sendV
    split at h
    · next vr cr c hp => cases h; rw [rank_put, hp]; simp only [if_true]; exact finishSend_rank_v _ _ _ _
    · cases h
  · -- sendC
    split at h
    · next vr cr v t hp ht => cases h; rw [rank_put, hp]; simp only [if_true]; exact finishSend_rank_c _ _ _ _
    · cases h
  · -- sleepDone
    split at h
    · cases h; rw [rank_del]; simp [phaseRank, *]
    · cases h

theorem rank_put_ne (s : State) (k sid : Str) (x : Session) (cf : List (Str × Cfg)) (A : Analyzer) (n : Nat)
    (hne : k ≠ sid) :
    rank { cfgs := cf, sessions := aput s.sessions k x, analyzer := A, nextChan := n } sid = rank s sid := by
  rw [rank_put]; simp [hne]

theorem rank_del_ne (s : State) (k sid : Str) (cf : List (Str × Cfg)) (A : Analyzer) (n : Nat)
    (hne : k ≠ sid) :
    rank { cfgs := cf, sessions := adel s.sessions k, analyzer := A, nextChan := n } sid = rank s sid := by
  rw [rank_del]; simp [hne]

/-- no label other than the creating `visitorLookup sid …` raises the rank of `sid` -/
theorem rank_not_increased (s s' : State) (l : Label) (o : Out) (sid : Str)
    (hnl : ∀ m t u, l ≠ .visitorLookup sid m t u) (h : step s l = some (s', o)) :
    rank s' sid ≤ rank s sid := by
  by_cases hh : handlerOf l = some sid
  · exact Nat.le_of_lt (handler_rank_decreases s s' l o sid hh h)
  · cases l <;> simp only [step] at h
    case listen name sk allow =>
      split at h <;> cases h <;> exact Nat.le_refl _
    case close name => cases h; exact Nat.le_refl _
    case precheck m t u =>
      split at h
      · cases h; exact Nat.le_refl _
      · split at h <;> cases h <;> exact Nat.le_refl _
    case visitorLookup sid' m t u =>
      have hne : sid' ≠ sid := by intro e; subst e; exact hnl m t u rfl
      split at h
      · cases h
      · split at h
        · cases h; exact Nat.le_refl _
        · split at h
          · cases h; exact Nat.le_refl _
          · split at h
            · cases h; exact Nat.le_refl _
            · cases h; rw [rank_put_ne _ _ _ _ _ _ _ hne]; exact Nat.le_refl _
    case clientMsg m t =>
      split at h
      · cases h; exact Nat.le_refl _
      · next sess hsess =>
        cases h
        rw [rank_put]
        split
        · next e => subst e; rw [rank_of_get hsess]; exact Nat.le_refl _
        · exact Nat.le_refl _
    case report sid' ok =>
      split at h
      · cases h; exact Nat.le_refl _
      · split at h <;> cases h <;> exact Nat.le_refl _
    case clean key => cases h; exact Nat.le_refl _
    all_goals
      rename_i sid'
      have hne : sid' ≠ sid := by intro e; subst e; exact hh rfl
    case notify =>
      split at h
      · split at h
        · split at h
          · cases h; rw [rank_put_ne _ _ _ _ _ _ _ hne]; exact Nat.le_refl _
          · cases h
        · cases h
      · cases h
    case notifyTimeout =>
      split at h
      · split at h
        · cases h; rw [rank_del_ne _ _ _ _ _ _ hne]; exact Nat.le_refl _
        · cases h
      · cases h
    case wake =>
      split at h
      · split at h
        · split at h
          · cases h; rw [rank_put_ne _ _ _ _ _ _ _ hne]; exact Nat.le_refl _
          · cases h; rw [rank_put_ne _ _ _ _ _ _ _ hne]; exact Nat.le_refl _
        · cases h
      · cases h
    case timeout =>
      split at h
      · split at h
        · cases h; rw [rank_del_ne _ _ _ _ _ _ hne]; exact Nat.le_refl _
        · cases h
      · cases h
    case sendV =>
      split at h
      · split at h
        · cases h; rw [rank_put_ne _ _ _ _ _ _ _ hne]; exact Nat.le_refl _
        · cases h
      · cases h
    case sendC =>
      split at h
      · split at h
        · cases h; rw [rank_put_ne _ _ _ _ _ _ _ hne]; exact Nat.le_refl _
        · cases h
      · cases h
    case sleepDone =>
      split at h
      · split at h
        · cases h; rw [rank_del_ne _ _ _ _ _ _ hne]; exact Nat.le_refl _
        · cases h
      · cases h

def handlerCount (sid : Str) (ls : List Label) : Nat := (ls.filter (fun l => handlerOf l == some sid)).length

/-- bounded state, all interleavings: along any enabled label sequence that does not re-create
    `sid`, every step of `sid`'s own handler lowers its rank and nothing raises it -/
theorem sessions_deleted (sid : Str) : ∀ (ls : List Label) (s s' : State) (o : Out),
    (∀ l ∈ ls, ∀ m t u, l ≠ .visitorLookup sid m t u) → run s ls = some (s', o) →
    rank s' sid + handlerCount sid ls ≤ rank s sid := by
  intro ls
  induction ls with
  | nil => intro s s' o _ h; simp only [run] at h; cases h; simp [handlerCount]
  | cons l ls ih =>
    intro s s' o hnl h
    simp only [run] at h
    split at h
    · cases h
    · next s1 o1 hstep =>
      split at h
      · cases h
      · next s2 o2 hrun =>
        cases h
        have ih' := ih s1 s' o2 (fun l' hl' => hnl l' (List.mem_cons_of_mem _ hl')) hrun
        by_cases hh : handlerOf l = some sid
        · have := handler_rank_decreases s s1 l o1 sid hh hstep
          have hc : handlerCount sid (l :: ls) = handlerCount sid ls + 1 := by
            simp [handlerCount, List.filter, hh]
          omega
        · have := rank_not_increased s s1 l o1 sid (hnl l List.mem_cons_self) hstep
          have hc : handlerCount sid (l :: ls) = handlerCount sid ls := by
            have : (handlerOf l == some sid) = false := by simp [hh]
            simp [handlerCount, List.filter, this]
          omega

theorem rank_le_six (s : State) (sid : Str) : rank s sid ≤ 6 := by
  unfold rank
  split
  · omega
  · next x _ => cases x.phase <;> simp [phaseRank] <;> (rename_i a b <;> cases a <;> cases b <;> simp)

theorem rank_zero_iff (s : State) (sid : Str) : rank s sid = 0 ↔ aget s.sessions sid = none := by
  unfold rank
  split
  · next h => simp [h]
  · next x h =>
    simp only [h, reduceCtorEq, iff_false]
    cases x.phase <;> simp [phaseRank] <;> (rename_i a b <;> cases a <;> cases b <;> simp)

/-! ### creation, addressing, unknown sids -/

theorem get_put_ne {α : Type} (l : List (Str × α)) (k k' : Str) (v : α) (h : k ≠ k') :
    aget (aput l k v) k' = aget l k' := by rw [aget_aput]; simp [h]

/-- a session appears only through `visitorLookup` for a registered proxy name, with a correct
    signature (`SignKey = md5(sk ++ timestamp)`) AND a user on the proxy's allow list (C08 fix);
    every other label keeps the key set or shrinks it -/
theorem session_created_only_signed (s s' : State) (l : Label) (o : Out) (sid : Str)
    (h : step s l = some (s', o)) (hnew : aget s.sessions sid = none) (hs' : aget s'.sessions sid ≠ none) :
    ∃ m t u cfg, l = .visitorLookup sid m t u ∧ aget s.cfgs m.proxyName = some cfg ∧
      m.signed = authInput cfg.sk m.timestamp ∧ userAllowed cfg.allow u = true ∧ o = [] := by
  have key : ∀ (k : Str) (x : Session), aget s.sessions k ≠ none → aget (aput s.sessions k x) sid ≠ none → False := by
    intro k x hk hp
    by_cases e : k = sid
    · subst e; exact hk hnew
    · rw [get_put_ne _ _ _ _ e] at hp; exact hp hnew
  have keyd : ∀ (k : Str), aget (adel s.sessions k) sid ≠ none → False := by
    intro k hp
    rw [aget_adel] at hp
    split at hp
    · exact hp rfl
    · exact hp hnew
  cases l <;> simp only [step] at h
  case visitorLookup sid' m t u =>
    split at h
    · cases h
    · split at h
      · cases h; exact absurd hnew hs'
      · next cfg hcfg =>
        split at h
        · cases h; exact absurd hnew hs'
        · next hsig =>
          split at h
          · cases h; exact absurd hnew hs'
          · next hallow =>
            cases h
            by_cases e : sid' = sid
            · subst e
              exact ⟨m, t, u, cfg, rfl, hcfg, by simpa using hsig, by simpa using hallow, rfl⟩
            · simp only at hs'; rw [get_put_ne _ _ _ _ e] at hs'; exact absurd hnew hs'
  case listen => split at h <;> cases h <;> exact absurd hnew hs'
  case close => cases h; exact absurd hnew hs'
  case precheck =>
    split at h
    · cases h; exact absurd hnew hs'
    · split at h <;> cases h <;> exact absurd hnew hs'
  case clean => cases h; exact absurd hnew hs'
  case report =>
    split at h
    · cases h; exact absurd hnew hs'
    · split at h <;> cases h <;> exact absurd hnew hs'
  case clientMsg m t =>
    split at h
    · cases h; exact absurd hnew hs'
    · next sess hsess => cases h; exact (key m.sid _ (by simp [hsess]) hs').elim
  case notify sid' =>
    split at h
    · next sess hsess =>
      split at h
      · split at h
        · cases h; exact (key sid' _ (by simp [hsess]) hs').elim
        · cases h
      · cases h
    · cases h
  case notifyTimeout sid' =>
    split at h
    · split at h
      · cases h; exact (keyd sid' hs').elim
      · cases h
    · cases h
  case wake sid' =>
    split at h
    · next sess hsess =>
      split at h
      · split at h
        · cases h; exact (key sid' _ (by simp [hsess]) hs').elim
        · cases h; exact (key sid' _ (by simp [hsess]) hs').elim
      · cases h
    · cases h
  case timeout sid' =>
    split at h
    · split at h
      · cases h; exact (keyd sid' hs').elim
      · cases h
    · cases h
  case sendV sid' =>
    split at h
    · next sess hsess =>
      split at h
      · cases h; exact (key sid' _ (by simp [hsess]) hs').elim
      · cases h
    · cases h
  case sendC sid' =>
    split at h
    · next sess hsess =>
      split at h
      · cases h; exact (key sid' _ (by simp [hsess]) hs').elim
      · cases h
    · cases h
  case sleepDone sid' =>
    split at h
    · split at h
      · cases h; exact (keyd sid' hs').elim
      · cases h
    · cases h

/-- who may be sent something by a step: the requester of a refused / pre-check request, the
    visitor of a session whose notify send timed out (8d80cd3: an error, no sid), or — for a
    stored session — its visitor transporter (sendV) or the transporter that submitted the
    session's current NatHoleClient (sendC); the message is the response built for that party -/
def Involved (s : State) (l : Label) (t : Nat) (r : Resp) : Prop :=
  (∃ m u, l = .precheck m t u ∧ r.sid = []) ∨
  (∃ sid m u, l = .visitorLookup sid m t u ∧ r.sid = [] ∧ r.error ≠ .none) ∨
  (∃ sid sess, aget s.sessions sid = some sess ∧ l = .notifyTimeout sid ∧ t = sess.vT ∧ r.sid = [] ∧ r.error ≠ .none) ∨
  (∃ sid sess vr cr v c, aget s.sessions sid = some sess ∧ sess.phase = .responding vr cr v c ∧
     ((l = .sendV sid ∧ t = sess.vT ∧ r = vr ∧ v = false) ∨ (l = .sendC sid ∧ sess.cT = some t ∧ r = cr ∧ c = false)))

theorem responses_only_to_involved (s s' : State) (l : Label) (o : Out) (t : Nat) (r : Resp)
    (h : step s l = some (s', o)) (hm : (t, r) ∈ o) : Involved s l t r := by
  cases l <;> simp only [step] at h
  case precheck m t' u =>
    left
    split at h
    · cases h; simp only [List.mem_singleton, Prod.mk.injEq] at hm; obtain ⟨rfl, rfl⟩ := hm; exact ⟨m, u, rfl, rfl⟩
    · split at h <;> cases h <;>
        (simp only [List.mem_singleton, Prod.mk.injEq] at hm; obtain ⟨rfl, rfl⟩ := hm; exact ⟨m, u, rfl, rfl⟩)
  case visitorLookup sid m t' u =>
    right; left
    split at h
    · cases h
    · split at h
      · cases h; simp only [List.mem_singleton, Prod.mk.injEq] at hm; obtain ⟨rfl, rfl⟩ := hm
        exact ⟨sid, m, u, rfl, rfl, by simp [errResp]⟩
      · split at h
        · cases h; simp only [List.mem_singleton, Prod.mk.injEq] at hm; obtain ⟨rfl, rfl⟩ := hm
          exact ⟨sid, m, u, rfl, rfl, by simp [errResp]⟩
        · split at h
          · cases h; simp only [List.mem_singleton, Prod.mk.injEq] at hm; obtain ⟨rfl, rfl⟩ := hm
            exact ⟨sid, m, u, rfl, rfl, by simp [errResp]⟩
          · cases h; cases hm
  case listen => split at h <;> cases h <;> cases hm
  case close => cases h; cases hm
  case clean => cases h; cases hm
  case report =>
    split at h
    · cases h; cases hm
    · split at h <;> cases h <;> cases hm
  case clientMsg => split at h <;> cases h <;> cases hm
  case notify =>
    split at h
    · split at h
      · split at h
        · cases h; cases hm
        · cases h
      · cases h
    · cases h
  case notifyTimeout sid =>
    split at h
    · next sess hsess =>
      split at h
      · cases h; simp only [List.mem_singleton, Prod.mk.injEq] at hm; obtain ⟨rfl, rfl⟩ := hm
        exact Or.inr (Or.inr (Or.inl ⟨sid, sess, hsess, rfl, rfl, rfl, by simp [errResp]⟩))
      · cases h
    · cases h
  case wake =>
    split at h
    · split at h
      · split at h <;> cases h <;> cases hm
      · cases h
    · cases h
  case timeout =>
    split at h
    · split at h
      · cases h; cases hm
      · cases h
    · cases h
  case sleepDone =>
    split at h
    · split at h
      · cases h; cases hm
      · cases h
    · cases h
  case sendV sid =>
    split at h
    · next sess hsess =>
      split at h
      · next vr cr c hp =>
        cases h; simp only [List.mem_singleton, Prod.mk.injEq] at hm; obtain ⟨rfl, rfl⟩ := hm
        exact Or.inr (Or.inr (Or.inr ⟨sid, sess, r, cr, false, c, hsess, hp, Or.inl ⟨rfl, rfl, rfl, rfl⟩⟩))
      · cases h
    · cases h
  case sendC sid =>
    split at h
    · next sess hsess =>
      split at h
      · next vr cr v t' hp ht =>
        cases h; simp only [List.mem_singleton, Prod.mk.injEq] at hm; obtain ⟨rfl, rfl⟩ := hm
        exact Or.inr (Or.inr (Or.inr ⟨sid, sess, vr, r, v, false, hsess, hp, Or.inr ⟨rfl, ht, rfl, rfl⟩⟩))
      · cases h
    · cases h

/-- a client message or a report naming an unknown session id changes nothing and sends nothing -/
theorem unknown_sid_noop (s : State) (m : CMsg) (t : Nat) (b : Bool) (h : aget s.sessions m.sid = none) :
    step s (.clientMsg m t) = some (s, []) ∧ step s (.report m.sid b) = some (s, []) := by
  simp [step, h]

/-! ### progress: no handler is ever stuck (8d80cd3) -/

/-- which handler step is enabled in which phase; with 8d80cd3 the notify phase always has
    the timeout alternative — no hypothesis about the owner's channel any more.  (`cT ≠ none` in
    the responding phase is an invariant of reachable states, see `wf_run`.) -/
theorem handler_progress (s : State) (sid : Str) (x : Session) (h : aget s.sessions sid = some x) :
    (x.phase = .waiting → (step s (.timeout sid)).isSome) ∧
    (x.phase = .sleeping → (step s (.sleepDone sid)).isSome) ∧
    (∀ ch, x.phase = .notifying ch → (step s (.notifyTimeout sid)).isSome) ∧
    (∀ vr cr c, x.phase = .responding vr cr false c → (step s (.sendV sid)).isSome) ∧
    (∀ vr cr v, x.phase = .responding vr cr v false → x.cT ≠ none → (step s (.sendC sid)).isSome) := by
  refine ⟨?_, ?_, ?_, ?_, ?_⟩
  · intro hp; simp [step, h, hp]
  · intro hp; simp [step, h, hp]
  · intro ch hp; simp [step, h, hp]
  · intro vr cr c hp; simp [step, h, hp]
  · intro vr cr v hp hc
    cases hct : x.cT with
    | none => exact absurd hct hc
    | some t => simp [step, h, hp, hct]

/-- invariant of reachable states: a session whose responses are being sent has a client
    transporter, and the two "sent" flags are never both set (that state is `sleeping`) -/
def WF (s : State) : Prop :=
  ∀ sid x, aget s.sessions sid = some x →
    ∀ vr cr v c, x.phase = .responding vr cr v c → x.cT ≠ none ∧ (v = false ∨ c = false)

theorem wf_init : WF {} := by intro sid x h; simp [aget] at h

theorem wf_put {s : State} (hw : WF s) (k : Str) (x : Session) (cf : List (Str × Cfg)) (A : Analyzer) (n : Nat)
    (hx : ∀ vr cr v c, x.phase = .responding vr cr v c → x.cT ≠ none ∧ (v = false ∨ c = false)) :
    WF { cfgs := cf, sessions := aput s.sessions k x, analyzer := A, nextChan := n } := by
  intro sid y hy
  simp only [aget_aput] at hy
  split at hy
  · cases hy; exact hx
  · exact hw sid y hy

theorem wf_del {s : State} (hw : WF s) (k : Str) (cf : List (Str × Cfg)) (A : Analyzer) (n : Nat) :
    WF { cfgs := cf, sessions := adel s.sessions k, analyzer := A, nextChan := n } := by
  intro sid y hy
  simp only [aget_adel] at hy
  split at hy
  · cases hy
  · exact hw sid y hy

theorem wf_same {s : State} (hw : WF s) (cf : List (Str × Cfg)) (A : Analyzer) (n : Nat) :
    WF { cfgs := cf, sessions := s.sessions, analyzer := A, nextChan := n } := hw

theorem finishSend_wf (sess : Session) (vr cr : Resp) (v c : Bool) (hct : sess.cT ≠ none) (hvc : v = false ∨ c = false ∨ True) :
    ∀ vr' cr' v' c', (finishSend sess vr cr v c).phase = .responding vr' cr' v' c' →
      (finishSend sess vr cr v c).cT ≠ none ∧ (v' = false ∨ c' = false) := by
  intro vr' cr' v' c' hp
  unfold finishSend at hp ⊢
  cases v <;> cases c <;> simp at hp ⊢
  all_goals (obtain ⟨_, _, hv, hc⟩ := hp; subst hv; subst hc; exact ⟨hct, by simp⟩)

theorem wf_step (s s' : State) (l : Label) (o : Out) (hw : WF s) (h : step s l = some (s', o)) : WF s' := by
  cases l <;> simp only [step] at h
  case listen => split at h <;> cases h <;> exact hw
  case close => cases h; exact hw
  case precheck =>
    split at h
    · cases h; exact hw
    · split at h <;> cases h <;> exact hw
  case clean => cases h; exact hw
  case report =>
    split at h
    · cases h; exact hw
    · split at h <;> cases h <;> exact hw
  case visitorLookup sid m t u =>
    split at h
    · cases h
    · split at h
      · cases h; exact hw
      · split at h
        · cases h; exact hw
        · split at h
          · cases h; exact hw
          · cases h; exact wf_put hw _ _ _ _ _ (by intro vr cr v c hp; cases hp)
  case clientMsg m t =>
    split at h
    · cases h; exact hw
    · next sess hsess =>
      cases h
      apply wf_put hw
      intro vr cr v c hp
      exact ⟨by simp, (hw _ _ hsess vr cr v c hp).2⟩
  case notify sid =>
    split at h
    · next sess hsess =>
      split at h
      · split at h
        · cases h; exact wf_put hw _ _ _ _ _ (by intro vr cr v c hp; cases hp)
        · cases h
      · cases h
    · cases h
  case notifyTimeout sid =>
    split at h
    · split at h
      · cases h; exact wf_del hw _ _ _ _
      · cases h
    · cases h
  case wake sid =>
    split at h
    · next sess hsess =>
      split at h
      · next cm t hp hn hcm hct =>
        split at h
        · cases h
          apply wf_put hw
          intro vr cr v c hp'
          simp only [Phase.responding.injEq] at hp'
          exact ⟨by simp [hct], Or.inl hp'.2.2.1.symm⟩
        · cases h
          apply wf_put hw
          intro vr cr v c hp'
          simp only [Phase.responding.injEq] at hp'
          exact ⟨by simp [hct], Or.inl hp'.2.2.1.symm⟩
      · cases h
    · cases h
  case timeout sid =>
    split at h
    · split at h
      · cases h; exact wf_del hw _ _ _ _
      · cases h
    · cases h
  case sleepDone sid =>
    split at h
    · split at h
      · cases h; exact wf_del hw _ _ _ _
      · cases h
    · cases h
  case sendV sid =>
    split at h
    · next sess hsess =>
      split at h
      · next vr cr c hp =>
        cases h
        exact wf_put hw _ _ _ _ _ (finishSend_wf sess vr cr true c (hw _ _ hsess vr cr false c hp).1 (by simp))
      · cases h
    · cases h
  case sendC sid =>
    split at h
    · next sess hsess =>
      split at h
      · next vr cr v t hp ht =>
        cases h
        exact wf_put hw _ _ _ _ _ (finishSend_wf sess vr cr v true (by simp [ht]) (by simp))
      · cases h
    · cases h

theorem wf_run : ∀ (ls : List Label) (s s' : State) (o : Out), WF s → run s ls = some (s', o) → WF s' := by
  intro ls
  induction ls with
  | nil => intro s s' o hw h; simp only [run] at h; cases h; exact hw
  | cons l ls ih =>
    intro s s' o hw h
    simp only [run] at h
    split at h
    · cases h
    · next s1 o1 hstep =>
      split at h
      · cases h
      · next s2 o2 hrun => cases h; exact ih s1 _ o2 (wf_step s s1 l o1 hw hstep) hrun

/-- FULL progress statement for the current code: in every state reachable from the initial one
    by any label sequence, every stored session has an enabled step of its own handler — no
    hypothesis about the owner's channel.  With `sessions_deleted` (each such step lowers the rank,
    nothing raises it, rank ≤ 6): under fair scheduling of its handler every inserted session is
    deleted after at most 6 handler steps. -/
theorem handler_never_stuck (ls : List Label) (s : State) (o : Out) (sid : Str) (x : Session)
    (hr : run {} ls = some (s, o)) (hx : aget s.sessions sid = some x) :
    ∃ l, handlerOf l = some sid ∧ (step s l).isSome = true := by
  have hw := wf_run ls {} s o wf_init hr
  have hp := handler_progress s sid x hx
  cases hph : x.phase with
  | notifying ch => exact ⟨.notifyTimeout sid, rfl, hp.2.2.1 ch hph⟩
  | waiting => exact ⟨.timeout sid, rfl, hp.1 hph⟩
  | sleeping => exact ⟨.sleepDone sid, rfl, hp.2.1 hph⟩
  | responding vr cr v c =>
    have hwf := hw sid x hx vr cr v c hph
    cases v with
    | false => exact ⟨.sendV sid, rfl, hp.2.2.2.1 vr cr c hph⟩
    | true =>
      cases c with
      | false => exact ⟨.sendC sid, rfl, hp.2.2.2.2 vr cr true hph hwf.1⟩
      | true => rcases hwf.2 with h | h <;> cases h

/-! ### reports: enabled in every state, change nothing but one score list (all interleavings)

  `HandleReport` runs on its own goroutine of whichever control sent the NatHoleReport; the sid is
  known to the owner from the NatHoleSid notification on, i.e. before any analysis.  So a report
  may meet its session in EVERY phase: `notifying`, `waiting` (no NatHoleClient analysed yet),
  `responding` / `sleeping` after a successful analysis, `responding` / `sleeping` after a FAILED
  analysis (error pair, the session is kept for the report window), or not at all. -/

/-- the label is enabled in EVERY state, whatever phase the named session is in, stored or not
    (the model is total; for the real code the nat engine turns a panic into prop=FAILS) -/
theorem report_enabled (s : State) (sid : Str) (b : Bool) : (step s (.report sid b)).isSome = true := by
  simp only [step]
  split
  · rfl
  · split <;> rfl

/-- a report sends nothing and changes neither the sessions (so no rank: it can neither finish nor
    prolong a session) nor the registered proxies; in the analyzer only the score list stored under
    the key of the reported session can differ -/
theorem report_frame (s s' : State) (sid : Str) (b : Bool) (o : Out)
    (h : step s (.report sid b) = some (s', o)) :
    o = [] ∧ s'.sessions = s.sessions ∧ s'.cfgs = s.cfgs ∧ s'.nextChan = s.nextChan ∧
    ∀ k, (∀ x, aget s.sessions sid = some x → x.key ≠ k) →
      aget s'.analyzer.records k = aget s.analyzer.records k := by
  simp only [step] at h
  split at h
  · cases h; exact ⟨rfl, rfl, rfl, rfl, fun _ _ => rfl⟩
  · next sess hs =>
    split at h
    · cases h
      refine ⟨rfl, rfl, rfl, rfl, fun k hk => ?_⟩
      have hne := hk sess hs
      simp only [analyzerReport]
      split
      · rfl
      · simp only [aget_aput]
        split
        · next he => exact absurd he hne
        · rfl
    · cases h; exact ⟨rfl, rfl, rfl, rfl, fun _ _ => rfl⟩

theorem report_no_leak (s s' : State) (sid sid' : Str) (b : Bool) (o : Out)
    (h : step s (.report sid b) = some (s', o)) : rank s' sid' = rank s sid' := by
  have hf := report_frame s s' sid b o h
  simp only [rank, hf.2.1]

/-- `Success == false` is a no-op -/
theorem report_failure_noop (s : State) (sid : Str) : step s (.report sid false) = some (s, []) := by
  simp only [step]
  split
  · rfl
  · simp

/-- `ReportSuccess` only ever changes a score: the (mode, index) rows of a list stay what they are -/
theorem reportSuccess_rows (m i : Nat) : ∀ l : List Score,
    (reportSuccess m i l).map (fun s => (s.mode, s.index)) = l.map (fun s => (s.mode, s.index)) := by
  intro l
  induction l with
  | nil => rfl
  | cons a r ih =>
    simp only [reportSuccess]
    split
    · simp only [List.map_cons, ih]
    · simp only [List.map_cons]

/-- for a stored session a successful report rewrites exactly the score list of the session's key
    by `ReportSuccess(mode, index)` (if that key has a list at all) -/
theorem report_score_only (s s' : State) (sid : Str) (x : Session) (o : Out)
    (hx : aget s.sessions sid = some x) (h : step s (.report sid true) = some (s', o)) :
    aget s'.analyzer.records x.key = (aget s.analyzer.records x.key).map (reportSuccess x.mode x.index) := by
  simp only [step, hx] at h
  cases h
  simp only [analyzerReport]
  split
  · next hn => simp only [hn, Option.map_none]
  · next r hr => simp only [aget_aput, hr, Option.map_some]; simp

theorem featStr_ne_nil (f : Feature) : featStr f ≠ [] := by
  intro h
  have hl : (featStr f).length = 0 := by rw [h]; rfl
  simp only [featStr, List.length_append] at hl
  have : (if f.regular = true then Str.ofString "true" else Str.ofString "false").length ≥ 4 := by
    cases f.regular <;> decide +kernel
  omega

/-- the analysis key (what `genAnalysisKey` hashes) is never empty -/
theorem analysisKey_ne_nil (vm : VMsg) (vf : Feature) (cm : CMsg) (cf : Feature) : analysisKey vm vf cm cf ≠ [] := by
  intro h
  simp only [analysisKey, List.append_eq_nil_iff] at h
  exact featStr_ne_nil cf h.2

/-- invariant of reachable states: the analyzer holds nothing under the empty key, and a session
    carries an analysis key only once a SUCCESSFUL analysis ran for it: not while `notifying` or
    `waiting`, and not after an analysis that failed (error pair) -/
def NotAnalysed (x : Session) : Prop :=
  x.phase = .waiting ∨ (∃ ch, x.phase = .notifying ch) ∨ (∃ vr cr v c, x.phase = .responding vr cr v c ∧ vr.error ≠ .none)

def KInv (s : State) : Prop :=
  aget s.analyzer.records [] = none ∧ ∀ sid x, aget s.sessions sid = some x → NotAnalysed x → x.key = []

theorem kinv_init : KInv {} := ⟨rfl, by intro sid x h; simp [aget] at h⟩

theorem kinv_sessions {s : State} (hk : KInv s) (sess : List (Str × Session)) (cf : List (Str × Cfg)) (n : Nat)
    (h : ∀ sid x, aget sess sid = some x → NotAnalysed x → x.key = []) :
    KInv { cfgs := cf, sessions := sess, analyzer := s.analyzer, nextChan := n } := ⟨hk.1, h⟩

theorem kinv_put {s : State} (hk : KInv s) (k : Str) (x : Session)
    (hx : NotAnalysed x → x.key = []) :
    ∀ sid y, aget (aput s.sessions k x) sid = some y → NotAnalysed y → y.key = [] := by
  intro sid y hy
  simp only [aget_aput] at hy
  split at hy
  · cases hy; exact hx
  · exact hk.2 sid y hy

theorem kinv_del {s : State} (hk : KInv s) (k : Str) :
    ∀ sid y, aget (adel s.sessions k) sid = some y → NotAnalysed y → y.key = [] := by
  intro sid y hy
  simp only [aget_adel] at hy
  split at hy
  · cases hy
  · exact hk.2 sid y hy

theorem getRecommand_empty_key (A : Analyzer) (key : Str) (c v : Feature) (hk : key ≠ [])
    (h : aget A.records [] = none) : aget (getRecommand A key c v).1.records [] = none := by
  simp only [getRecommand, aget_aput]
  split
  · next he => exact absurd he hk
  · exact h

theorem kinv_step (s s' : State) (l : Label) (o : Out) (hk : KInv s) (h : step s l = some (s', o)) : KInv s' := by
  cases l <;> simp only [step] at h
  case listen => split at h <;> cases h <;> exact hk
  case close => cases h; exact hk
  case precheck =>
    split at h
    · cases h; exact hk
    · split at h <;> cases h <;> exact hk
  case clean key =>
    cases h
    refine ⟨?_, hk.2⟩
    simp only [analyzerForget, aget_adel]
    split
    · rfl
    · exact hk.1
  case report sid b =>
    split at h
    · cases h; exact hk
    · next sess hs =>
      split at h
      · cases h
        refine ⟨?_, hk.2⟩
        simp only [analyzerReport]
        split
        · exact hk.1
        · next r hr =>
          simp only [aget_aput]
          split
          · next he => rw [he, hk.1] at hr; cases hr
          · exact hk.1
      · cases h; exact hk
  case visitorLookup sid m t u =>
    split at h
    · cases h
    · split at h
      · cases h; exact hk
      · split at h
        · cases h; exact hk
        · split at h
          · cases h; exact hk
          · cases h; exact kinv_sessions hk _ _ _ (kinv_put hk _ _ (fun _ => rfl))
  case clientMsg m t =>
    split at h
    · cases h; exact hk
    · next sess hsess =>
      cases h
      exact kinv_sessions hk _ _ _ (kinv_put hk _ _ (fun hn => (hk.2 _ sess hsess hn : sess.key = [])))
  case notify sid =>
    split at h
    · next sess hsess =>
      split at h
      · next ch hp =>
        split at h
        · cases h
          exact kinv_sessions hk _ _ _ (kinv_put hk _ _ (fun _ => (hk.2 _ sess hsess (Or.inr (Or.inl ⟨ch, hp⟩)) : sess.key = [])))
        · cases h
      · cases h
    · cases h
  case notifyTimeout sid =>
    split at h
    · split at h
      · cases h; exact kinv_sessions hk _ _ _ (kinv_del hk _)
      · cases h
    · cases h
  case wake sid =>
    split at h
    · next sess hsess =>
      split at h
      · next cm t hp hn hcm hct =>
        split at h
        · next A' oo ha =>
          cases h
          refine ⟨?_, kinv_put hk _ _ ?_⟩
          · -- the analyzer after a successful analysis: the new key is not empty
            simp only [analysis, analysisWith] at ha
            split at ha
            · cases ha
            · split at ha
              · cases ha
              · simp only [Except.ok.injEq, Prod.mk.injEq] at ha
                rw [← ha.1]
                exact getRecommand_empty_key _ _ _ _ (analysisKey_ne_nil _ _ _ _) hk.1
          · -- the session is analysed now: its responses carry no error
            intro hna
            exfalso
            rcases hna with hw | ⟨ch, hc⟩ | ⟨vr, cr, v, c, hr, he⟩
            · cases hw
            · cases hc
            · simp only [Phase.responding.injEq] at hr
              simp only [analysis, analysisWith] at ha
              split at ha
              · cases ha
              · split at ha
                · cases ha
                · simp only [Except.ok.injEq, Prod.mk.injEq] at ha
                  apply he
                  rw [← hr.1, ← ha.2]
        · cases h
          exact kinv_sessions hk _ _ _ (kinv_put hk _ _ (fun _ => (hk.2 _ sess hsess (Or.inl hp) : sess.key = [])))
      · cases h
    · cases h
  case timeout sid =>
    split at h
    · split at h
      · cases h; exact kinv_sessions hk _ _ _ (kinv_del hk _)
      · cases h
    · cases h
  case sleepDone sid =>
    split at h
    · split at h
      · cases h; exact kinv_sessions hk _ _ _ (kinv_del hk _)
      · cases h
    · cases h
  case sendV sid =>
    split at h
    · next sess hsess =>
      split at h
      · next vr cr c hp =>
        cases h
        refine kinv_sessions hk _ _ _ (kinv_put hk _ _ ?_)
        intro hna
        have hkey : (finishSend sess vr cr true c).key = sess.key := by unfold finishSend; split <;> rfl
        rw [hkey]
        apply hk.2 _ _ hsess
        refine Or.inr (Or.inr ⟨vr, cr, false, c, hp, ?_⟩)
        rcases hna with hw | ⟨ch, hc⟩ | ⟨vr', cr', v', c', hr, he⟩
        · unfold finishSend at hw; split at hw <;> cases hw
        · unfold finishSend at hc; split at hc <;> cases hc
        · unfold finishSend at hr
          split at hr
          · cases hr
          · simp only [Phase.responding.injEq] at hr; rw [hr.1]; exact he
      · cases h
    · cases h
  case sendC sid =>
    split at h
    · next sess hsess =>
      split at h
      · next vr cr v t hp ht =>
        cases h
        refine kinv_sessions hk _ _ _ (kinv_put hk _ _ ?_)
        intro hna
        have hkey : (finishSend sess vr cr v true).key = sess.key := by unfold finishSend; split <;> rfl
        rw [hkey]
        apply hk.2 _ _ hsess
        refine Or.inr (Or.inr ⟨vr, cr, v, false, hp, ?_⟩)
        rcases hna with hw | ⟨ch, hc⟩ | ⟨vr', cr', v', c', hr, he⟩
        · unfold finishSend at hw; split at hw <;> cases hw
        · unfold finishSend at hc; split at hc <;> cases hc
        · unfold finishSend at hr
          split at hr
          · cases hr
          · simp only [Phase.responding.injEq] at hr; rw [hr.1]; exact he
      · cases h
    · cases h

theorem kinv_run : ∀ (ls : List Label) (s s' : State) (o : Out), KInv s → run s ls = some (s', o) → KInv s' := by
  intro ls
  induction ls with
  | nil => intro s s' o hk h; simp only [run] at h; cases h; exact hk
  | cons l ls ih =>
    intro s s' o hk h
    simp only [run] at h
    split at h
    · cases h
    · next s1 o1 hstep =>
      split at h
      · cases h
      · next s2 o2 hrun => cases h; exact ih s1 _ o2 (kinv_step s s1 l o1 hk hstep) hrun

/-- FULL statement of the clause "a report with an unknown or not-yet-analysed sid is a no-op":
    in every state reachable from the initial one by ANY label sequence (all interleavings of
    visitor, client and report messages, duplicates included), a report — successful or not — that
    names no stored session, or a session that is still `notifying` or `waiting`, or one whose
    analysis failed, changes nothing and sends nothing -/
theorem report_not_analysed_noop (ls : List Label) (s : State) (o : Out) (sid : Str) (b : Bool)
    (hr : run {} ls = some (s, o))
    (hx : ∀ x, aget s.sessions sid = some x → NotAnalysed x) :
    step s (.report sid b) = some (s, []) := by
  have hk := kinv_run ls {} s o kinv_init hr
  simp only [step]
  split
  · rfl
  · next sess hs =>
    have hkey := hk.2 sid sess hs (hx sess hs)
    split
    · simp only [analyzerReport, hkey, hk.1]
    · rfl

/-- reports never disable anything and never create work: after ANY run, a report is enabled, and
    afterwards every session has the rank it had (so `sessions_deleted` / `handler_never_stuck`
    are indifferent to reports arriving at any point of the schedule) -/
theorem run_snoc : ∀ (ls : List Label) (s s1 s2 : State) (o1 o2 : Out) (l : Label),
    run s ls = some (s1, o1) → step s1 l = some (s2, o2) → run s (ls ++ [l]) = some (s2, o1 ++ o2) := by
  intro ls
  induction ls with
  | nil => intro s s1 s2 o1 o2 l h hs; simp only [run] at h; cases h; simp [run, hs]
  | cons a ls ih =>
    intro s s1 s2 o1 o2 l h hs
    simp only [run] at h
    split at h
    · cases h
    · next sa oa hstep =>
      split at h
      · cases h
      · next sb ob hrun =>
        cases h
        simp only [List.cons_append, run, hstep, ih sa _ s2 ob o2 l hrun hs, List.append_assoc]

theorem report_any_time (ls : List Label) (s : State) (o : Out) (sid : Str) (b : Bool)
    (hr : run {} ls = some (s, o)) :
    ∃ s', run {} (ls ++ [.report sid b]) = some (s', o) ∧ s'.sessions = s.sessions ∧ s'.cfgs = s.cfgs := by
  have he := report_enabled s sid b
  cases hst : step s (.report sid b) with
  | none => rw [hst] at he; cases he
  | some r =>
    obtain ⟨s', o'⟩ := r
    have hf := report_frame s s' sid b o' hst
    refine ⟨s', ?_, hf.2.1, hf.2.2.1⟩
    have := run_snoc ls {} s s' o o' (.report sid b) hr hst
    rw [this, hf.1, List.append_nil]

/-- non-vacuity: a report meets a session in each of the not-analysed phases (before the notify,
    between notify and NatHoleClient, after a failed analysis of a malformed client address) and
    in the analysed one, where the score of the recommended row goes up -/
def rV : VMsg := { tid := [118], proxyName := [112], signed := authInput [115] 7, timestamp := 7,
                   mapped := [Str.ofString "1.2.3.4:80", Str.ofString "1.2.3.4:80"] }
def rCok : CMsg := { tid := [99], sid := [1], mapped := [Str.ofString "9.9.9.9:80", Str.ofString "9.9.9.9:80"] }
def rCbad : CMsg := { tid := [99], sid := [1], mapped := [Str.ofString "nocolon", Str.ofString "9.9.9.9:80"] }
def rPre : List Label := [.listen [112] [115] [[Str.star]], .visitorLookup [1] rV 0 []]

def reportTraces : List (List Label) :=
  [ rPre ++ [.report [1] true, .notify [1], .report [1] true, .clientMsg rCok 1, .report [1] true],
    rPre ++ [.notify [1], .clientMsg rCbad 1, .wake [1], .report [1] true, .sendV [1], .sendC [1], .report [1] true,
             .report [2] true, .clientMsg rCbad 1, .clientMsg rCok 2, .report [1] false] ]

def analyzerEmpty (ls : List Label) : Bool :=
  match run {} ls with
  | some (s, _) => s.analyzer.records.isEmpty && (aget s.sessions [1]).isSome
  | none => false

example : reportTraces.all analyzerEmpty = true := by decide +kernel

example : (match run {} (rPre ++ [.notify [1], .clientMsg rCok 1, .wake [1], .report [1] true, .report [1] true]) with
    | some (s, _) => (s.analyzer.records.map (fun p => p.2.map (·.score))) == [[3, 0, 0, 0, 0, 0, 0, 0, 0, 0]]
    | none => false) = true := by decide +kernel


/-! ### the pinned tree: the two session findings, kept as documentation (`stepOld`, `runOld`) -/

/-- PINNED TREE (before 8d80cd3): a handler blocked in `clientCfg.sidCh <- sid` on a channel
    nobody receives from had no enabled step at all: NatHoleTimeout did not cover the send -/
theorem blocked_no_handler_step (s : State) (sid : Str) (x : Session) (ch : Nat)
    (h : aget s.sessions sid = some x) (hp : x.phase = .notifying ch) (hd : chanAlive s.cfgs ch = false) :
    ∀ l, handlerOf l = some sid → stepOld s l = none := by
  intro l hl
  cases l <;> simp only [handlerOf, Option.some.injEq, reduceCtorEq] at hl
  all_goals subst hl
  all_goals simp [stepOld, step, h, hp, hd]

def mW : VMsg := { tid := [118], proxyName := [112], signed := authInput [115] 7, timestamp := 7,
                   mapped := [Str.ofString "1.2.3.4:80", Str.ofString "1.2.3.4:80"] }

/-- listen p (allowUsers = ["alice"]); a correctly signed visitor request by user "alice";
    close p — all three enabled from the initial state -/
def leakTrace : List Label :=
  [.listen [112] [115] [Str.ofString "alice"], .visitorLookup [115, 49] mW 5 (Str.ofString "alice"), .close [112]]

/-- PINNED TREE: `every session is eventually deleted` was false — after `leakTrace` the session
    s1 is stored, its handler is blocked on a dead channel, and no step of its handler is enabled. -/
theorem leak_witness :
    ∃ s x, runOld {} leakTrace = some (s, []) ∧ aget s.sessions [115, 49] = some x ∧
      x.phase = .notifying 0 ∧ chanAlive s.cfgs 0 = false ∧
      ∀ l, handlerOf l = some [115, 49] → stepOld s l = none := by
  have h : ∃ s x, runOld {} leakTrace = some (s, []) ∧ aget s.sessions [115, 49] = some x ∧
      x.phase = .notifying 0 ∧ chanAlive s.cfgs 0 = false := by
    match hr : runOld {} leakTrace with
    | some (s, o) =>
      have h1 : (match runOld {} leakTrace with
        | some (s, o) => o.isEmpty && (match aget s.sessions [115, 49] with
            | some x => decide (x.phase = .notifying 0) | none => false) && !chanAlive s.cfgs 0
        | none => false) = true := by decide +kernel
      rw [hr] at h1
      simp only [Bool.and_eq_true, Bool.not_eq_true', List.isEmpty_iff] at h1
      obtain ⟨⟨ho, hx⟩, hc⟩ := h1
      subst ho
      split at hx
      · next x hx' => exact ⟨s, x, rfl, hx', by simpa using hx, hc⟩
      · cases hx
    | none =>
      have h1 : (runOld {} leakTrace).isSome = true := by decide +kernel
      rw [hr] at h1; cases h1
  obtain ⟨s, x, h1, h2, h3, h4⟩ := h
  exact ⟨s, x, h1, h2, h3, h4, blocked_no_handler_step s _ x 0 h2 h3 h4⟩

/-- … on the current code the same trace leaves the handler with its timeout alternative, which
    deletes the session and tells the visitor -/
theorem leak_trace_now_recovers :
    (match run {} (leakTrace ++ [.notifyTimeout [115, 49]]) with
     | some (s, o) => (aget s.sessions [115, 49]).isNone && decide (o = [(5, errResp [118] .notifyTimeout)])
     | none => false) = true := by decide +kernel

def allowTrace : List Label :=
  [.listen [112] [115] [Str.ofString "alice"], .visitorLookup [115, 49] mW 5 (Str.ofString "mallory")]

/-- PINNED TREE (before the C08 fix): the non-pre-check branch of HandleVisitor did not consult
    AllowUsers — "mallory" is not in ["alice"], the pre-check refuses her, the real request created
    a session.  On the current code (`step`) the same request is refused with `notAllowed`
    (general statement: `session_created_only_signed`). -/
theorem allow_users_not_checked_witness :
    (match run {} [.listen [112] [115] [Str.ofString "alice"], .precheck mW 5 (Str.ofString "mallory")] with
     | some (_, o) => decide (o = [(5, errResp [118] .notAllowed)]) | none => false) = true ∧
    (match runOld {} allowTrace with
     | some (s, o) => o.isEmpty && (aget s.sessions [115, 49]).isSome | none => false) = true ∧
    (match run {} allowTrace with
     | some (s, o) => (aget s.sessions [115, 49]).isNone && decide (o = [(5, errResp [118] .notAllowed)])
     | none => false) = true := by
  refine ⟨?_, ?_, ?_⟩ <;> decide +kernel

/-! ## 7. Soundness of the executable predicates -/

def ErrPair (v c : Resp) : Prop :=
  v.error ≠ .none ∧ c.error ≠ .none ∧ v.sid = [] ∧ c.sid = [] ∧ v.role = .none ∧ c.role = .none ∧
  v.candidatePorts = [] ∧ c.candidatePorts = [] ∧ v.candidateAddrs = [] ∧ c.candidateAddrs = []

def Instr (sid : Str) (vm : VMsg) (cm : CMsg) (v c : Resp) : Prop :=
  v.error = .none ∧ c.error = .none ∧ sid ≠ [] ∧ v.sid = sid ∧ c.sid = sid ∧ v.mode = c.mode ∧
  ((v.role = .sender ∧ c.role = .receiver) ∨ (v.role = .receiver ∧ c.role = .sender)) ∧
  v.candidateAddrs = compact cm.mapped ∧ c.candidateAddrs = compact vm.mapped ∧
  v.assistedAddrs = compact cm.assisted ∧ c.assistedAddrs = compact vm.assisted ∧
  v.tid = vm.tid ∧ c.tid = cm.tid ∧ v.protocol = vm.protocol ∧ c.protocol = vm.protocol

def RangesIn (v c : Resp) : Prop :=
  ∀ r ∈ v.candidatePorts ++ c.candidatePorts, 1 ≤ r.1 ∧ r.1 ≤ r.2 ∧ r.2 ≤ 65535

/-- whoever is the sender: the other party's effective read timeout (nathole.go MakeHole: 5 s when
    ReadTimeoutMs is 0) is longer than the sender's hold-back at the server plus its send delay -/
def TimingFits (v c : Resp) : Prop :=
  (v.role = .sender → effReadMs c.readTimeoutMs > v.sendDelayMs + senderHoldMs) ∧
  (c.role = .sender → effReadMs v.readTimeoutMs > c.sendDelayMs + senderHoldMs)

theorem timingOk_iff (v c : Resp) : timingOk v c = true ↔ TimingFits v c := by
  simp only [timingOk, TimingFits, Bool.and_eq_true, Bool.or_eq_true, bne_iff_ne, ne_eq, decide_eq_true_eq]
  constructor
  · intro ⟨h1, h2⟩
    exact ⟨fun hs => h1.resolve_left (fun hn => hn hs), fun hs => h2.resolve_left (fun hn => hn hs)⟩
  · intro ⟨h1, h2⟩
    constructor
    · by_cases hs : v.role = .sender
      · exact Or.inr (h1 hs)
      · exact Or.inl hs
    · by_cases hs : c.role = .sender
      · exact Or.inr (h2 hs)
      · exact Or.inl hs

theorem errPairOk_iff (v c : Resp) : errPairOk v c = true ↔ ErrPair v c := by
  simp only [errPairOk, ErrPair, Bool.and_eq_true, bne_iff_ne, ne_eq, beq_iff_eq]
  constructor
  · intro h; obtain ⟨⟨⟨⟨⟨⟨⟨⟨⟨a, b⟩, c'⟩, d⟩, e⟩, f⟩, g⟩, i⟩, j⟩, k⟩ := h; exact ⟨a, b, c', d, e, f, g, i, j, k⟩
  · intro ⟨a, b, c', d, e, f, g, i, j, k⟩; exact ⟨⟨⟨⟨⟨⟨⟨⟨⟨a, b⟩, c'⟩, d⟩, e⟩, f⟩, g⟩, i⟩, j⟩, k⟩

theorem instrOk_iff (sid : Str) (vm : VMsg) (cm : CMsg) (v c : Resp) :
    instrOk sid vm cm v c = true ↔ Instr sid vm cm v c := by
  simp only [instrOk, Instr, roleCompl, Bool.and_eq_true, Bool.or_eq_true, bne_iff_ne, ne_eq, beq_iff_eq]
  constructor
  · intro h
    obtain ⟨⟨⟨⟨⟨⟨⟨⟨⟨⟨⟨⟨⟨⟨a1, a2⟩, a3⟩, a4⟩, a5⟩, a6⟩, a7⟩, a8⟩, a9⟩, a10⟩, a11⟩, a12⟩, a13⟩, a14⟩, a15⟩ := h
    exact ⟨a1, a2, a3, a4, a5, a6, a7, a8, a9, a10, a11, a12, a13, a14, a15⟩
  · intro ⟨a1, a2, a3, a4, a5, a6, a7, a8, a9, a10, a11, a12, a13, a14, a15⟩
    exact ⟨⟨⟨⟨⟨⟨⟨⟨⟨⟨⟨⟨⟨⟨a1, a2⟩, a3⟩, a4⟩, a5⟩, a6⟩, a7⟩, a8⟩, a9⟩, a10⟩, a11⟩, a12⟩, a13⟩, a14⟩, a15⟩

theorem rangesOk_iff (v c : Resp) : rangesOk v c = true ↔ RangesIn v c := by
  simp only [rangesOk, RangesIn, List.all_eq_true, rangeOk, Bool.and_eq_true, decide_eq_true_eq]
  constructor
  · intro h r hr; have := h r hr; exact ⟨this.1.1, this.1.2, this.2⟩
  · intro h r hr; have := h r hr; exact ⟨⟨this.1, this.2.1⟩, this.2.2⟩

/-- `pairOk` (what the driver evaluates on every response pair of the implementation) -/
theorem pairOk_sound (sid : Str) (vm : VMsg) (cm : CMsg) (v c : Resp) :
    pairOk sid vm cm v c = true ↔ (ErrPair v c ∨ Instr sid vm cm v c) := by
  simp only [pairOk, Bool.or_eq_true, errPairOk_iff, instrOk_iff]

/-- `fullOk` (the full clause incl. address validation and port ranges) -/
theorem fullOk_sound (sid : Str) (vm : VMsg) (cm : CMsg) (v c : Resp) :
    fullOk sid vm cm v c = true ↔
      (ErrPair v c ∨ (Instr sid vm cm v c ∧ addrsValid vm.mapped = true ∧ addrsValid cm.mapped = true ∧ RangesIn v c ∧
        TimingFits v c)) := by
  simp only [fullOk, Bool.or_eq_true, Bool.and_eq_true, errPairOk_iff, instrOk_iff, rangesOk_iff, timingOk_iff]
  constructor
  · rintro (h | ⟨⟨⟨⟨a, b⟩, c'⟩, d⟩, e⟩)
    · exact Or.inl h
    · exact Or.inr ⟨a, b, c', d, e⟩
  · rintro (h | ⟨a, b, c', d, e⟩)
    · exact Or.inl h
    · exact Or.inr ⟨⟨⟨⟨a, b⟩, c'⟩, d⟩, e⟩

/-- the model's own responses satisfy the driver predicate (ties §5 to §7) -/
theorem model_pairOk (A A' : Analyzer) (sid : Str) (vm : VMsg) (cm : CMsg) (o : AnalysisOut)
    (hA : AInv A) (hsid : sid ≠ []) (h : analysis A sid vm cm = .ok (A', o)) :
    pairOk sid vm cm o.vResp o.cResp = true := by
  simp only [pairOk, (analysis_pair_ok A A' sid vm cm o hA hsid h).1, Bool.or_true]

/-! ## 8. The client side of hole punching (nathole.go MakeHole / waitDetectMessage)

  Model: Frp/Model/NatPunch.lean.  `honest_peers_meet` (§5) says the sender's candidate list
  contains every address the receiver reported; here the two `MakeHole` runs themselves are
  followed step by step. -/
section Punch
open NatPunch

/-- datagrams the wait loop must pass over -/
def Harmless (role : Role) (sid : Str) (l : List (Str × Dgram)) : Prop :=
  ∀ p ∈ l, waitOne role sid p.2 = .skip

theorem waitLoop_skips (role : Role) (sid : Str) : ∀ (l rest : List (Str × Dgram)),
    Harmless role sid l → waitLoop role sid (l ++ rest) = waitLoop role sid rest := by
  intro l
  induction l with
  | nil => intro rest _; rfl
  | cons p l ih =>
    intro rest h
    obtain ⟨src, d⟩ := p
    have hp : waitOne role sid d = .skip := h (src, d) List.mem_cons_self
    simp only [List.cons_append, waitLoop, hp]
    exact ih rest (fun q hq => h q (List.mem_cons_of_mem _ hq))

/-- undecodable datagrams, messages of other sessions and — for a sender — non-response messages
    are harmless: exactly the three `continue`s of `waitDetectMessage` -/
theorem harmless_iff (role : Role) (sid : Str) (d : Dgram) :
    waitOne role sid d = .skip ↔
      (d = .junk ∨ (∃ s r, d = .sid s r ∧ s ≠ sid) ∨ (role = .sender ∧ d = .sid sid false)) := by
  cases d with
  | junk => simp [waitOne]
  | sid s r =>
    simp only [waitOne]
    by_cases hs : s = sid
    · subst hs
      cases r <;> by_cases hr : role = .sender <;> simp [hr]
    · simp [hs]

/-- ALL inboxes (any senders, any order, any noise): `waitDetectMessage` returns only on a
    NatHoleSid that decoded with our key and carries OUR sid; a sender only on a response; and the
    party answers (Response = true) exactly when what it accepted was not a response -/
theorem wait_accepts_only (role : Role) (sid : Str) : ∀ (inbox : List (Str × Dgram)) (a : Str) (b : Bool),
    waitLoop role sid inbox = some (a, b) →
    ∃ resp, (a, Dgram.sid sid resp) ∈ inbox ∧ (role = .sender → resp = true) ∧ b = !resp := by
  intro inbox
  induction inbox with
  | nil => intro a b h; simp [waitLoop] at h
  | cons p l ih =>
    intro a b h
    obtain ⟨src, d⟩ := p
    simp only [waitLoop] at h
    split at h
    · obtain ⟨resp, hm, h1, h2⟩ := ih a b h
      exact ⟨resp, List.mem_cons_of_mem _ hm, h1, h2⟩
    · next hw =>
      simp only [Option.some.injEq, Prod.mk.injEq] at h
      obtain ⟨rfl, rfl⟩ := h
      cases d with
      | junk => simp [waitOne] at hw
      | sid s r =>
        simp only [waitOne] at hw
        split at hw
        · cases hw
        · next hs =>
          simp only [ne_eq, Decidable.not_not] at hs
          subst hs
          cases r with
          | false =>
            refine ⟨false, List.mem_cons_self, ?_, rfl⟩
            intro hr; simp [hr] at hw
          | true => simp at hw
    · next hw =>
      simp only [Option.some.injEq, Prod.mk.injEq] at h
      obtain ⟨rfl, rfl⟩ := h
      cases d with
      | junk => simp [waitOne] at hw
      | sid s r =>
        simp only [waitOne] at hw
        split at hw
        · cases hw
        · next hs =>
          simp only [ne_eq, Decidable.not_not] at hs
          subst hs
          cases r with
          | false => by_cases hr : role = .sender <;> simp [hr] at hw
          | true => exact ⟨true, List.mem_cons_self, fun _ => rfl, rfl⟩

/-! ### no state is carried from one datagram to the next

  `waitDetectMessage` declares its decode target (`var m msg.NatHoleSid`) inside the read loop: what
  it does with a datagram depends on that datagram alone (`waitOne`), never on the ones it passed
  over before.  (`Response` is `omitempty`: a detect message carries no "response" key, and the JSON
  decoder leaves absent fields of a reused target untouched — a target that outlived an iteration
  would hand the flag of a discarded message of ANOTHER session to the next genuine one.) -/

/-- does this datagram, by itself, end the wait? — it decodes with our key, carries OUR sid and,
    for a sender, is a response -/
def decides (role : Role) (sid : Str) : Dgram → Bool
  | .junk => false
  | .sid s response => s == sid && (response || role != .sender)

/-- the specification of the wait: the first datagram that decides by itself; the party answers
    (Response = true, to that datagram's source) exactly when it was not itself a response -/
def specWait (role : Role) (sid : Str) (inbox : List (Str × Dgram)) : Option (Str × Bool) :=
  (inbox.find? (fun p => decides role sid p.2)).map
    (fun p => (p.1, match p.2 with | .sid _ response => !response | .junk => false))

theorem waitOne_skip_iff (role : Role) (sid : Str) (d : Dgram) :
    waitOne role sid d = .skip ↔ decides role sid d = false := by
  cases d with
  | junk => simp [waitOne, decides]
  | sid s r =>
    by_cases hs : s = sid
    · subst hs
      cases r <;> by_cases hr : role = .sender <;> simp [waitOne, decides, hr]
    · simp [waitOne, decides, hs]

/-- ALL inboxes: the loop is the memoryless specification -/
theorem waitLoop_eq_spec (role : Role) (sid : Str) : ∀ inbox : List (Str × Dgram),
    waitLoop role sid inbox = specWait role sid inbox := by
  intro inbox
  induction inbox with
  | nil => rfl
  | cons p l ih =>
    obtain ⟨src, d⟩ := p
    by_cases hd : decides role sid d = true
    · have hns : waitOne role sid d ≠ .skip := fun h => by
        rw [(waitOne_skip_iff role sid d).mp h] at hd; cases hd
      cases d with
      | junk => simp [decides] at hd
      | sid s r =>
        simp only [decides, Bool.and_eq_true, beq_iff_eq] at hd
        obtain ⟨hs, hr⟩ := hd
        subst hs
        cases r with
        | true => simp [waitLoop, waitOne, specWait, decides, List.find?]
        | false =>
          have hrs : role ≠ .sender := by simpa using hr
          have hb : (role != Role.sender) = true := by simpa using hrs
          simp [waitLoop, waitOne, specWait, decides, List.find?, hrs, hb]
    · have hd' : decides role sid d = false := by cases h : decides role sid d <;> simp_all
      have hs := (waitOne_skip_iff role sid d).mpr hd'
      simp only [waitLoop, hs, specWait, List.find?, hd']
      exact ih

/-- whatever the loop has passed over leaves no trace: after a prefix on which it did not return,
    it behaves exactly as if it had just started on the rest -/
theorem waitLoop_memoryless (role : Role) (sid : Str) (pre rest : List (Str × Dgram))
    (h : waitLoop role sid pre = none) : waitLoop role sid (pre ++ rest) = waitLoop role sid rest := by
  apply waitLoop_skips
  intro p hp
  induction pre with
  | nil => cases hp
  | cons q l ih =>
    obtain ⟨src, d⟩ := q
    simp only [waitLoop] at h
    split at h
    · next hw =>
      rcases List.mem_cons.mp hp with e | e
      · subst e; exact hw
      · exact ih h e
    · cases h
    · cases h

/-- a NatHoleSid of ANOTHER session — same key, well-formed, Response true or false — changes
    nothing, wherever it is queued: before the genuine detect message, after it, in between -/
theorem foreign_sid_anywhere (role : Role) (sid s : Str) (response : Bool) (src : Str)
    (l1 l2 : List (Str × Dgram)) (hs : s ≠ sid) :
    waitLoop role sid (l1 ++ (src, Dgram.sid s response) :: l2) = waitLoop role sid (l1 ++ l2) := by
  rw [waitLoop_eq_spec, waitLoop_eq_spec]
  simp only [specWait, List.find?_append, List.find?]
  have : decides role sid (Dgram.sid s response) = false := by simp [decides, hs]
  simp only [this]

/-- … and so does every datagram the loop skips (garbage, other key, truncated, other session,
    non-responses at a sender): removing them all leaves the outcome unchanged -/
theorem waitLoop_filter_harmless (role : Role) (sid : Str) (inbox : List (Str × Dgram)) :
    waitLoop role sid (inbox.filter (fun p => decides role sid p.2)) = waitLoop role sid inbox := by
  rw [waitLoop_eq_spec, waitLoop_eq_spec]
  simp only [specWait]
  congr 1
  induction inbox with
  | nil => rfl
  | cons p l ih =>
    by_cases hd : decides role sid p.2 = true
    · simp [List.filter, List.find?, hd]
    · have hd' : decides role sid p.2 = false := by cases h : decides role sid p.2 <;> simp_all
      simp only [List.filter, List.find?, hd']
      exact ih

example : waitLoop .receiver [1] [([9], .sid [2] true), ([7], .sid [1] false)] = some ([7], true) := by decide
example : waitLoop .sender [1] [([9], .sid [2] true), ([7], .sid [1] false), ([7], .sid [1] true)] = some ([7], false) := by decide

/-- the sender probes every address the receiver reported (so, on an unfiltered network, the
    address the receiver really listens on) -/
theorem sender_probes_reported (r : Resp) (a : Str) (hr : r.role = .sender) (ha : a ∈ r.candidateAddrs) :
    (probes r).contains a = true := by
  simp only [List.contains_iff_mem, probes, detectAddrs, hr, if_true, List.mem_append]
  left
  exact (mem_compact a _).mpr (List.mem_append_right _ ha)

theorem meet_oriented (sid : Str) (s r : Resp) (aS aR : Str) (nS nR : List (Str × Dgram))
    (hs : s.role = .sender) (hr : r.role = .receiver) (hss : s.sid = sid) (hrs : r.sid = sid)
    (hp : (probes s).contains aR = true)
    (hnS : Harmless .sender sid nS) (hnR : Harmless .receiver sid nR) :
    outcome true { resp := s, addr := aS, noise := nS } { resp := r, addr := aR, noise := nR } = some aR ∧
    outcome true { resp := r, addr := aR, noise := nR } { resp := s, addr := aS, noise := nS } = some aS := by
  have hearly : early true { resp := r, addr := aR, noise := nR } { resp := s, addr := aS, noise := nS } = some (aS, true) := by
    simp only [early, probeFrom, hp, if_true, hr, hrs, hss, recode, Bool.and_self]
    rw [waitLoop_skips _ _ _ _ hnR]
    simp [waitLoop, waitOne]
  constructor
  · simp only [outcome, replyFrom, hearly, if_true, hs, hss, hrs, recode, Bool.and_self]
    rw [List.append_assoc, waitLoop_skips _ _ _ _ hnS]
    have hpr : Harmless .sender sid (probeFrom true { resp := s, addr := aS, noise := nS } { resp := r, addr := aR, noise := nR }) := by
      intro p hp'
      simp only [probeFrom, recode, Bool.and_self, if_true, hrs] at hp'
      split at hp'
      · simp only [List.mem_singleton] at hp'; subst hp'; simp [waitOne]
      · cases hp'
    rw [waitLoop_skips _ _ _ _ hpr]
    simp [waitLoop, waitOne]
  · simp only [outcome, probeFrom, hp, if_true, hr, hrs, hss, recode, Bool.and_self]
    rw [List.append_assoc, waitLoop_skips _ _ _ _ hnR]
    simp [waitLoop, waitOne]

/-- FULL statement of "two honest peers on an unfiltered network that follow the instructions do
    find each other": for every pair of instructions that satisfies `instrOk` (every successful
    analysis does: `analysis_pair_ok`), parties bound at addresses they reported, holding the same
    key, with ANY harmless noise arriving first at either socket: both `MakeHole` runs return, each
    with the other party's address -/
theorem honest_peers_meet_steps (sid : Str) (vm : VMsg) (cm : CMsg) (v c : Resp) (aV aC : Str)
    (nV nC : List (Str × Dgram))
    (h : instrOk sid vm cm v c = true) (hV : aV ∈ vm.mapped) (hC : aC ∈ cm.mapped)
    (hnV : Harmless v.role sid nV) (hnC : Harmless c.role sid nC) :
    outcome true { resp := v, addr := aV, noise := nV } { resp := c, addr := aC, noise := nC } = some aC ∧
    outcome true { resp := c, addr := aC, noise := nC } { resp := v, addr := aV, noise := nV } = some aV := by
  have h' := h
  simp only [instrOk, Bool.and_eq_true, beq_iff_eq, roleCompl, Bool.or_eq_true] at h'
  obtain ⟨⟨⟨⟨⟨⟨⟨⟨⟨⟨⟨⟨⟨⟨_, _⟩, _⟩, hvs⟩, hcs⟩, _⟩, hrole⟩, hvc⟩, hcc⟩, _⟩, _⟩, _⟩, _⟩, _⟩, _⟩ := h'
  rcases hrole with hr | hr
  · rw [hr.1] at hnV; rw [hr.2] at hnC
    exact meet_oriented sid v c aV aC nV nC hr.1 hr.2 hvs hcs
      (sender_probes_reported v aC hr.1 (by rw [hvc]; exact (mem_compact aC _).mpr hC)) hnV hnC
  · rw [hr.1] at hnV; rw [hr.2] at hnC
    have := meet_oriented sid c v aC aV nC nV hr.2 hr.1 hcs hvs
      (sender_probes_reported c aV hr.2 (by rw [hcc]; exact (mem_compact aV _).mpr hV)) hnC hnV
    exact ⟨this.2, this.1⟩

/-- with different secret keys nobody ever returns (every datagram of the peer is junk) -/
theorem key_mismatch_never_meets (x y : Party) (hx : Harmless x.resp.role x.resp.sid x.noise) :
    outcome false x y = none := by
  have hp : Harmless x.resp.role x.resp.sid (probeFrom false x y) := by
    intro p hp'
    simp only [probeFrom, recode, Bool.false_and] at hp'
    split at hp'
    · simp only [List.mem_singleton] at hp'; subst hp'; simp [waitOne]
    · cases hp'
  have hr : Harmless x.resp.role x.resp.sid (replyFrom false x y) := by
    intro p hp'
    simp only [replyFrom, recode, Bool.false_and] at hp'
    split at hp'
    · split at hp'
      · simp only [List.mem_singleton] at hp'; subst hp'; simp [waitOne]
      · cases hp'
    · cases hp'
  simp only [outcome]
  rw [List.append_assoc, waitLoop_skips _ _ _ _ hx, waitLoop_skips _ _ _ _ hp]
  have : waitLoop x.resp.role x.resp.sid (replyFrom false x y ++ []) = waitLoop x.resp.role x.resp.sid [] :=
    waitLoop_skips _ _ _ _ hr
  rw [List.append_nil] at this
  rw [this]; rfl

/-! ### the hand-over of a socket's result in the many-socket modes (2 and 4)

  `honest_peers_meet_steps` follows the messages; with ListenRandomPorts > 0 the receiver's
  `MakeHole` additionally has to take the result from the goroutine of the socket that was reached.
  On the current tree that hand-over can be LOST (KNOWN_FINDINGS C20-makehole-lost-result): -/

/-- WITNESS (current code, unbuffered channel): the goroutine of socket 0 accepts the sender's probe
    and answers it — so the sender's MakeHole returns successfully — before the caller waits on
    resultCh: the result is dropped, the socket closed, and the receiver's MakeHole returns nothing
    (it ends in "wait detect message timeout") although the two parties did exchange messages -/
theorem handover_lost_witness :
    (hrun false [.deliver 0, .mainWaits]).result = none ∧
    (hrun false [.deliver 0, .mainWaits]).answered = [0] ∧
    (hrun false [.deliver 0, .mainWaits]).closed = [0] := by decide

theorem hresult_mono (b : Bool) : ∀ (ls : List HLabel) (s : HState), s.result.isSome = true →
    (ls.foldl (hstep b) s).result.isSome = true := by
  intro ls
  induction ls with
  | nil => intro s h; exact h
  | cons l ls ih =>
    intro s h
    apply ih
    obtain ⟨mw, slot, result, answered, closed⟩ := s
    cases result with
    | none => cases h
    | some r => cases l <;> cases mw <;> cases slot <;> cases b <;> simp [hstep]

theorem hmain_mono (b : Bool) : ∀ (ls : List HLabel) (s : HState), s.mainWaiting = true →
    (ls.foldl (hstep b) s).mainWaiting = true := by
  intro ls
  induction ls with
  | nil => intro s h; exact h
  | cons l ls ih =>
    intro s h
    apply ih
    obtain ⟨mw, slot, result, answered, closed⟩ := s
    simp only at h; subst h
    cases l <;> cases slot <;> cases result <;> cases b <;> simp [hstep]

theorem hanswered_mono (b : Bool) : ∀ (ls : List HLabel) (s : HState), s.answered ≠ [] →
    (ls.foldl (hstep b) s).answered ≠ [] := by
  intro ls
  induction ls with
  | nil => intro s h; exact h
  | cons l ls ih =>
    intro s h
    apply ih
    obtain ⟨mw, slot, result, answered, closed⟩ := s
    cases l <;> cases mw <;> cases slot <;> cases result <;> cases b <;> simp_all [hstep]

/-- PARTIAL (current code): if the caller reaches its select before any socket delivers, the first
    delivery is taken and MakeHole returns it -/
theorem handover_main_first_partial (c : Nat) (rest : List HLabel) :
    (hrun false (.mainWaits :: .deliver c :: rest)).result.isSome = true := by
  simp only [hrun, List.foldl_cons]
  apply hresult_mono
  simp [hstep]

/-- invariant of the REPAIRED hand-over (`make(chan result, 1)`): a buffered result is still
    untaken and the caller not yet waiting; once a socket answered, its result is buffered or taken -/
def HInv (s : HState) : Prop :=
  (s.slot.isSome = true → s.result = none ∧ s.mainWaiting = false) ∧
  (s.answered ≠ [] → s.slot.isSome = true ∨ s.result.isSome = true)

theorem hinv_step (s : HState) (l : HLabel) (h : HInv s) : HInv (hstep true s l) := by
  obtain ⟨mw, slot, result, answered, closed⟩ := s
  cases l <;> cases mw <;> cases slot <;> cases result <;> simp_all [HInv, hstep]

theorem hinv_run : ∀ (ls : List HLabel) (s : HState), HInv s → HInv (ls.foldl (hstep true) s) := by
  intro ls
  induction ls with
  | nil => intro s h; exact h
  | cons l ls ih => intro s h; exact ih _ (hinv_step s l h)

/-- FULL statement for the repaired hand-over, ALL schedules: whenever some socket accepted and
    answered a message and the caller has reached its select — in any order, any number of sockets
    delivering — MakeHole returns a result -/
theorem handover_buffered_never_lost (ls : List HLabel) (hm : HLabel.mainWaits ∈ ls)
    (hd : ∃ c, HLabel.deliver c ∈ ls) : (hrun true ls).result.isSome = true := by
  have hi : HInv (hrun true ls) := hinv_run ls {} (by simp [HInv])
  have hmw : (hrun true ls).mainWaiting = true := by
    unfold hrun
    suffices h : ∀ (ls : List HLabel) (s : HState), HLabel.mainWaits ∈ ls → (ls.foldl (hstep true) s).mainWaiting = true from h ls {} hm
    intro ls
    induction ls with
    | nil => intro s h; cases h
    | cons l ls ih =>
      intro s h
      rcases List.mem_cons.mp h with h | h
      · subst h
        simp only [List.foldl_cons]
        apply hmain_mono
        obtain ⟨mw, slot, result, answered, closed⟩ := s
        cases slot <;> cases result <;> simp [hstep]
      · simp only [List.foldl_cons]; exact ih _ h
  have han : (hrun true ls).answered ≠ [] := by
    obtain ⟨c, hc⟩ := hd
    unfold hrun
    suffices h : ∀ (ls : List HLabel) (s : HState), HLabel.deliver c ∈ ls → (ls.foldl (hstep true) s).answered ≠ [] from h ls {} hc
    intro ls
    induction ls with
    | nil => intro s h; cases h
    | cons l ls ih =>
      intro s h
      rcases List.mem_cons.mp h with h | h
      · subst h
        simp only [List.foldl_cons]
        apply hanswered_mono
        obtain ⟨mw, slot, result, answered, closed⟩ := s
        cases mw <;> cases slot <;> cases result <;> simp [hstep]
      · simp only [List.foldl_cons]; exact ih _ h
  rcases hi.2 han with h | h
  · have := (hi.1 h).2; rw [hmw] at this; cases this
  · exact h

/-- … and the repaired hand-over on the witness schedule -/
example : (hrun true [.deliver 0, .mainWaits]).result = some 0 := by decide

end Punch

end C20
end Frp
