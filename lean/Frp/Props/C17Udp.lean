import Frp.Props.C17
import Frp.Props.C17Batch
import Frp.Model.UdpPacket
/-
  C17, the lossless clause for the ADDRESSES of a udp message ("… incl. nil / zero / IPv6 UDP addresses"), stated for
  the message as the udp paths build it — `udp.NewUDPPacket` — and read it — `udp.GetContent` —, not only for a
  struct literal handed to the codec.

  * the shape (Props/C17UdpFacts.lean, kept apart so that the driver does not depend on the regenerated facts):
    net.UDPAddr has exactly the fields the model carries (`addr_fields_eq_source`, regenerated from
    GOROOT), no method of its own that would replace the member-wise JSON encoding (`addr_no_custom_codec`), an IP is a
    byte slice of 4 / 16 bytes (`ip_shape`); the constructor stores its arguments as given and every caller in the
    repository wraps the address it got from the socket / the inbound packet (`ctor_shape`, `ctor_callers`)
  * the clause: for EVERY payload and EVERY pair of addresses — nil, zero value, any IP whose text obeys the IP text
    law, any port, any zone string — the peer decodes a packet with the same content and, field by field, the same
    addresses; the only identification is IPv4 4-byte ≙ 16-byte (`packet_wire`, `packet_fields_preserved`,
    `packet_content_roundtrip`, `zone_preserved`); a second trip changes nothing (`wire_norm_fixed`)
  * the forwarders: what frps packs for a datagram of user `a` and what frpc's Forwarder packs for the answer both
    arrive with remote address `a` (`user_packet_wire`, `fwd_reply_wire`, `fwd_end_to_end`)

  Go anchors: pkg/proto/udp/udp.go NewUDPPacket / GetContent / ForwardUserConn / Forwarder, pkg/msg/msg.go UDPPacket,
  GOROOT/src/net/udpsock.go UDPAddr, net/ip.go IP.MarshalText / UnmarshalText.
-/
namespace Frp
namespace C17
open MsgObj UdpPacket

/-! ## 1. the clause -/

/-- what the peer decodes: the object encoding/json writes for the message value, read back through the regenerated
    table (JSON text level and framing: `decode_encode`, trusted text) -/
def wire (p : Packet) : Option Packet :=
  Packet.ofVal (fromObj2 schema "UDPPacket" (toObj2 schema "UDPPacket" p.toVal))

theorem udpPacket_fields : schema.fieldsOf "UDPPacket" =
    [{ goName := "Content", json := [99], omitE := true, kind := .str },
     { goName := "LocalAddr", json := [108], omitE := true, kind := .udp },
     { goName := "RemoteAddr", json := [114], omitE := true, kind := .udp }] := by decide +kernel

theorem packet_typed (p : Packet) : typed2 schema "UDPPacket" p.toVal = true := by
  simp [typed2, udpPacket_fields, Packet.toVal, typedMembers, typedF]

theorem packet_norm (p : Packet) : norm2 schema "UDPPacket" p.toVal = p.toVal := by
  simp [norm2, udpPacket_fields, Packet.toVal, normMembersF, normF]

/-- one address through `toUDP` / `ofUDP`: every field comes back, the IP in its 16-byte form -/
theorem ofUDP_toUDP (a : Addr) (h : ipLaw a.ip = true) : Addr.ofUDP a.toUDP = some a.norm := by
  simp only [ipLaw, Bool.and_eq_true, beq_iff_eq] at h
  simp [Addr.ofUDP, Addr.toUDP, Addr.norm, h.2]

theorem optAddr_toUDP (o : Option Addr) (h : addrOk o = true) : optAddr (o.map Addr.toUDP) = some (o.map Addr.norm) := by
  cases o with
  | none => rfl
  | some a => simp [optAddr, ofUDP_toUDP a h]

/-- LOSSLESS, any packet value: the peer decodes the same content and the same two addresses -/
theorem wire_eq (p : Packet) (hl : addrOk p.laddr = true) (hr : addrOk p.raddr = true) :
    wire p = some { content := p.content, laddr := p.laddr.map Addr.norm, raddr := p.raddr.map Addr.norm } := by
  unfold wire
  rw [fromObj_toObj "UDPPacket" p.toVal (packet_typed p), packet_norm]
  simp [Packet.toVal, Packet.ofVal, optAddr_toUDP _ hl, optAddr_toUDP _ hr]

/-- LOSSLESS for the message as the udp paths build it: every payload, every pair of addresses -/
theorem packet_wire (buf : Str) (l r : Option Addr) (hl : addrOk l = true) (hr : addrOk r = true) :
    wire (newUDPPacket buf l r) = some { content := Base64.encode buf, laddr := l.map Addr.norm, raddr := r.map Addr.norm } :=
  wire_eq (newUDPPacket buf l r) hl hr

/-- … spelled out field by field: a nil address stays nil; a non-nil one comes back non-nil with the same Port, the
    same Zone — whatever string it is — and the same IP (16-byte form); as local and as remote address -/
theorem packet_fields_preserved (buf : Str) (l r : Option Addr) (hl : addrOk l = true) (hr : addrOk r = true) :
    ∃ q, wire (newUDPPacket buf l r) = some q ∧
      (l = none → q.laddr = none) ∧ (r = none → q.raddr = none) ∧
      (∀ a, l = some a → ∃ b, q.laddr = some b ∧ b.ip = to16 a.ip ∧ b.port = a.port ∧ b.zone = a.zone) ∧
      (∀ a, r = some a → ∃ b, q.raddr = some b ∧ b.ip = to16 a.ip ∧ b.port = a.port ∧ b.zone = a.zone) := by
  refine ⟨_, packet_wire buf l r hl hr, ?_, ?_, ?_, ?_⟩
  · intro h; simp [h]
  · intro h; simp [h]
  · intro a h; exact ⟨a.norm, by simp [h], rfl, rfl, rfl⟩
  · intro a h; exact ⟨a.norm, by simp [h], rfl, rfl, rfl⟩

/-- the zone in particular: ANY string (the law constrains the IP only) -/
theorem zone_preserved (buf ip : Str) (port : Int) (zone : Str) (h : ipLaw ip = true) :
    (wire (newUDPPacket buf none (some ⟨ip, port, zone⟩))).map (fun q => q.raddr.map (·.zone)) = some (some zone) ∧
    (wire (newUDPPacket buf (some ⟨ip, port, zone⟩) none)).map (fun q => q.laddr.map (·.zone)) = some (some zone) := by
  constructor
  · rw [packet_wire buf none (some ⟨ip, port, zone⟩) rfl h]; rfl
  · rw [packet_wire buf (some ⟨ip, port, zone⟩) none h rfl]; rfl

/-- the payload: `GetContent` of what the peer decoded is what `NewUDPPacket` was given -/
theorem packet_content_roundtrip (buf : Str) (hb : Base64.bytes buf) (l r : Option Addr)
    (hl : addrOk l = true) (hr : addrOk r = true) :
    (wire (newUDPPacket buf l r)).bind getContent = some buf := by
  rw [packet_wire buf l r hl hr]
  exact Base64.decode_encode buf hb

theorem to16_to16 (ip : Str) : to16 (to16 ip) = to16 ip := by
  unfold to16
  by_cases h4 : ip.length = 4
  · simp [h4, IPText.v4in6]
  · simp [h4]

theorem ipLaw_to16 (ip : Str) (h : ipLaw ip = true) : ipLaw (to16 ip) = true := by
  simp only [ipLaw, Bool.and_eq_true, beq_iff_eq, Bool.or_eq_true] at h ⊢
  obtain ⟨hlen, hrt⟩ := h
  have hl : ip.length = 0 ∨ ip.length = 4 ∨ ip.length = 16 := by
    rcases hlen with (h | h) | h
    · exact Or.inl h
    · exact Or.inr (Or.inl h)
    · exact Or.inr (Or.inr h)
  have h16 := to16_to16 ip
  refine ⟨?_, ?_⟩
  · unfold to16
    by_cases h4 : ip.length = 4
    · simp [h4, IPText.v4in6]
    · simp only [h4, if_false]
      rcases hl with h | h | h
      · exact Or.inl (Or.inl h)
      · exact absurd h h4
      · exact Or.inr h
  · have ht : ipText (to16 ip) = ipText ip := by
      unfold ipText
      rw [h16]
      by_cases h4 : ip.length = 4
      · have hne : ip ≠ [] := by intro e; simp [e] at h4
        simp [to16, h4, IPText.v4in6, hne]
      · simp [to16, h4]
    rw [ht, h16, hrt]

theorem addrOk_norm (o : Option Addr) (h : addrOk o = true) : addrOk (o.map Addr.norm) = true := by
  cases o with
  | none => rfl
  | some a => exact ipLaw_to16 a.ip h

theorem norm_norm (a : Addr) : a.norm.norm = a.norm := by
  simp [Addr.norm, to16_to16 a.ip]

/-- a packet that came off the wire goes over it unchanged (re-encoding / relaying loses nothing) -/
theorem wire_norm_fixed (p q : Packet) (hl : addrOk p.laddr = true) (hr : addrOk p.raddr = true) (h : wire p = some q) :
    wire q = some q := by
  rw [wire_eq p hl hr] at h
  injection h with h
  subst h
  rw [wire_eq _ (addrOk_norm _ hl) (addrOk_norm _ hr)]
  cases hl' : p.laddr <;> cases hr' : p.raddr <;> simp_all [addrOk, norm_norm]

/-! ## 2. the forwarders -/

/-- server side (`ForwardUserConn`): the datagram `d` of user `a` reaches frpc with remote address `a` and content `d` -/
theorem user_packet_wire (a : Addr) (d : Str) (ha : ipLaw a.ip = true) :
    wire (userPacket a d) = some { content := Base64.encode d, laddr := none, raddr := some a.norm } :=
  packet_wire d none (some a) rfl ha

/-- client side (`Forwarder`): the answer to an inbound packet goes back under the remote address that packet carried -/
theorem fwd_reply_wire (req : Packet) (ans : Str) (hr : addrOk req.raddr = true) :
    wire (fwdReply req ans) = some { content := Base64.encode ans, laddr := none, raddr := req.raddr.map Addr.norm } :=
  packet_wire ans none req.raddr rfl hr

/-- both together: user `a` sends `d`, frps packs it, frpc decodes it, the local service answers `ans`, the Forwarder
    packs the answer, frps decodes it: the answer is addressed to `a` — IP, Port and Zone — and its content is `ans` -/
theorem fwd_end_to_end (a : Addr) (d ans : Str) (ha : ipLaw a.ip = true) (hb : Base64.bytes ans)
    (q : Packet) (hq : wire (userPacket a d) = some q) :
    ∃ q', wire (fwdReply q ans) = some q' ∧ q'.raddr = some a.norm ∧ q'.laddr = none ∧ getContent q' = some ans := by
  rw [user_packet_wire a d ha] at hq
  injection hq with hq
  subst hq
  refine ⟨_, fwd_reply_wire _ ans (ipLaw_to16 a.ip ha), ?_, rfl, ?_⟩
  · simp [norm_norm a]
  · exact Base64.decode_encode ans hb

/-! ## 3. the executable predicate of the driver -/

/-- `addrKept vin out`: the address that came out has, field by field, what went in -/
theorem addrKept_sound (vin out : Option Addr) (h : addrKept vin out = true) : out = vin.map Addr.norm := by
  cases vin <;> cases out <;> simp [addrKept] at h ⊢
  rename_i a b
  obtain ⟨⟨h1, h2⟩, h3⟩ := h
  cases b
  simp_all [Addr.norm]

/-- the model's own result satisfies the predicate -/
theorem model_addrKept (buf : Str) (l r : Option Addr) (hl : addrOk l = true) (hr : addrOk r = true) :
    ∃ q, wire (newUDPPacket buf l r) = some q ∧ addrKept l q.laddr = true ∧ addrKept r q.raddr = true := by
  refine ⟨_, packet_wire buf l r hl hr, ?_, ?_⟩
  · cases l <;> simp [addrKept, Addr.norm]
  · cases r <;> simp [addrKept, Addr.norm]

/-- one item of a udp batch / one packet of a forwarder run, as the harness reports it -/
structure UdpObs where
  payload : Str
  lin : Option Addr
  rin : Option Addr
  content : Str            -- GetContent of the packet the peer decoded
  lout : Option Addr       -- its LocalAddr
  rout : Option Addr       -- its RemoteAddr

def udpObsHolds (o : UdpObs) : Bool :=
  o.content == o.payload && addrKept o.lin o.lout && addrKept o.rin o.rout

/-- the predicate says what the clause says: the observed packet IS the model's decoding of the packet the
    constructor builds from what went in -/
theorem udpObsHolds_sound (o : UdpObs) (hb : Base64.bytes o.payload) (hl : addrOk o.lin = true) (hr : addrOk o.rin = true)
    (h : udpObsHolds o = true) :
    wire (newUDPPacket o.payload o.lin o.rin) = some ⟨Base64.encode o.payload, o.lout, o.rout⟩ ∧
      udpContent (udpPack o.payload) = some o.content := by
  simp only [udpObsHolds, Bool.and_eq_true, beq_iff_eq] at h
  obtain ⟨⟨hc, h1⟩, h2⟩ := h
  rw [packet_wire _ _ _ hl hr, addrKept_sound _ _ h1, addrKept_sound _ _ h2, hc]
  exact ⟨rfl, udp_content_roundtrip o.payload hb⟩

/-! ## non-vacuity: the IP text law holds for addresses of every family; zones of any kind; a lost zone is refused -/

example : ipLaw [] = true := by decide +kernel
example : ipLaw [10, 1, 2, 3] = true := by decide +kernel
example : ipLaw [0, 0, 0, 0] = true := by decide +kernel
example : ipLaw (IPText.v4in6 [192, 0, 2, 7]) = true := by decide +kernel
example : ipLaw [254, 128, 0, 0, 0, 0, 0, 0, 28, 43, 58, 255, 254, 77, 94, 111] = true := by decide +kernel
example : ipLaw [0, 0, 0, 0, 0, 0, 0, 0, 0, 0, 0, 0, 0, 0, 0, 0] = true := by decide +kernel
example : ipLaw [255, 2, 0, 0, 0, 0, 0, 0, 0, 0, 0, 0, 0, 0, 0, 251] = true := by decide +kernel
example : ipLaw [1, 2, 3] = false := by decide +kernel
example : wire (newUDPPacket [1, 2, 3] none (some ⟨[254, 128, 0, 0, 0, 0, 0, 0, 0, 0, 0, 0, 0, 0, 0, 1], 5353, [101, 116, 104, 48]⟩))
    = some ⟨[65, 81, 73, 68], none, some ⟨[254, 128, 0, 0, 0, 0, 0, 0, 0, 0, 0, 0, 0, 0, 0, 1], 5353, [101, 116, 104, 48]⟩⟩ := by
  decide +kernel
example : wire (newUDPPacket [] (some ⟨[], 0, []⟩) (some ⟨[10, 0, 0, 1], 65535, [37, 32, 34]⟩))
    = some ⟨[], some ⟨[], 0, []⟩, some ⟨IPText.v4in6 [10, 0, 0, 1], 65535, [37, 32, 34]⟩⟩ := by decide +kernel
example : addrKept (some ⟨[10, 0, 0, 1], 7, [101]⟩) (some ⟨IPText.v4in6 [10, 0, 0, 1], 7, [101]⟩) = true := by decide
example : addrKept (some ⟨[10, 0, 0, 1], 7, [101]⟩) (some ⟨IPText.v4in6 [10, 0, 0, 1], 7, []⟩) = false := by decide
example : addrKept (some ⟨[], 0, []⟩) none = false := by decide
example : addrKept none (some ⟨[], 0, []⟩) = false := by decide

end C17
end Frp
