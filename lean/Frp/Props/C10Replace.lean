import Frp.Model.SessReplace
import Frp.Props.C10
import Frp.Props.C10Drop
import Frp.Gen.ReplaceFacts
/-
  C10 — a session REPLACED by a new login with its run id, teardown of any duration (Frp/Model/SessReplace.lean).

  Clause: "end or replacement of its session … every server resource it held is released.  Consequently an identical
  registration submitted … on a new session shortly after the old one ended succeeds."

    wait_is_unbounded          the source has the modelled shape (regenerated facts Frp/Gen/ReplaceFacts.lean): between
                               ControlManager.Add and ctl.Start() RegisterControl does nothing but `oldCtl.WaitClosed()`,
                               which is the bare receive `<-ctl.doneCh`; doneCh is closed only by worker(), at top level,
                               after the walk that closes every proxy; messages are handled only after Start()
    rinv_reachable             every history of logins (any run ids, chains of replacements), attempts to end the wait,
                               registrations section by section, closes, dropped connections, walks and done-s keeps: the
                               tables consistent; a session that is not started / has walked owns nothing and has no
                               registration in flight; a started session that replaced `o` ⇒ `o` closed its doneCh
    start_pending_until_gone   an attempt to end the wait at ANY moment before the old session closed doneCh leaves
                               everything as it is (no constant can be long enough: the model has no clock)
    replaced_released          whenever the new session is started (its first message can be handled) the session it
                               replaced owns no proxy, no name, no key, has no registration in flight, counter 0
    reregister_after_replace   … so a registration that only the replaced session could stand against (its name, its keys)
                               goes through all its sections on the new session
    bounded_wait_refuses       non-vacuity: with a wait that may give up, the identical registration on the new session is
                               refused ("already exists") while the old session's worker has not yet walked
    slow_teardown_pending / slow_teardown_then_ok   the same history with the code's wait: pending, and accepted after it
-/
namespace Frp
namespace C10
namespace Replace
open Release RegSteps SessReplace

/-! ### tie to the source -/

def codeUnbounded : Bool :=
  Gen.ReplaceFacts.regCtlSeq == ["ifOld", "start"] &&
  Gen.ReplaceFacts.oldBody == ["call:oldCtl.WaitClosed"] &&
  Gen.ReplaceFacts.waitCalleeParams == 0 &&
  Gen.ReplaceFacts.waitCalleeBody == ["recv:ctl.doneCh"] &&
  Gen.ReplaceFacts.doneChClosers == ["control.go:worker"] &&
  Gen.ReplaceFacts.doneChMakers == ["control.go:NewControl"] &&
  Gen.ReplaceFacts.doneCloseAfterWalk && Gen.ReplaceFacts.walkClosesInline &&
  Gen.ReplaceFacts.workerSpawns == ["control.go:Start"] &&
  Gen.ReplaceFacts.dispatcherRunIn == ["control.go:worker"]

/-- RegisterControl waits for the replaced session without any bound -/
theorem wait_is_unbounded : codeUnbounded = true := by decide +kernel

/-! ### the invariant -/

def Quiet (c : CState) (n : Nat) : Prop := ∀ f ∈ c.flights, f.sid ≠ n
def Absent (c : CState) (n : Nat) : Prop := (∀ o ∈ c.own, o.sid ≠ n) ∧ Quiet c n

def PhOK (c : CState) (n : Nat) : Ph → Prop
  | .live => True
  | .ending => True
  | .parked => Quiet c n
  | _ => Absent c n

structure RInv (s : PState) : Prop where
  conc : Conc.Inv s.c
  phok : ∀ n, PhOK s.c n (s.ph n)
  wait : ∀ n o, s.old n = some o → (∃ b, s.ph n = .waiting b) ∨ s.ph o = .gone

theorem rinv_init (m : Nat) : RInv (PState.init m) :=
  ⟨Conc.inv_init m, fun n => by
     show Absent _ n
     exact ⟨fun o ho => (by cases ho), fun f hf => (by cases hf)⟩,
   fun n o h => by cases h⟩

theorem quiet_of_not_busy {c : CState} {n : Nat} (h : c.busy n = false) : Quiet c n := by
  intro f hf e
  unfold CState.busy at h
  have := List.any_eq_false.mp h f hf
  simp [e] at this

theorem not_busy_of_quiet {c : CState} {n : Nat} (h : Quiet c n) : c.busy n = false := by
  unfold CState.busy
  apply List.any_eq_false.mpr
  intro f hf
  simp [h f hf]

theorem phok_weaken {c : CState} {n : Nat} {p : Ph} (h : Absent c n) : PhOK c n p := by
  cases p <;> first | exact h | exact h.2 | trivial

/-- the tables after an action of session `m`: whatever is new belongs to `m` -/
theorem phok_frame {c c' : CState} {m n : Nat} {p : Ph}
    (ho : ∀ o ∈ c'.own, o ∈ c.own ∨ o.sid = m) (hf : ∀ f ∈ c'.flights, f ∈ c.flights ∨ f.sid = m)
    (hn : n ≠ m) (h : PhOK c n p) : PhOK c' n p := by
  have q : Quiet c n → Quiet c' n := fun hq f hf' => by
    rcases hf f hf' with a | a
    · exact hq f a
    · rw [a]; exact fun e => hn e.symm
  have a : Absent c n → Absent c' n := fun ha => ⟨fun o ho' => by
    rcases ho o ho' with a | a
    · exact ha.1 o a
    · rw [a]; exact fun e => hn e.symm, q ha.2⟩
  cases p <;> first | exact a h | exact q h | trivial

theorem begin_frame (c : CState) (m : Nat) (name : Str) (keys : List Key) (k : Nat) :
    (∀ o ∈ (c.begin m name keys k).1.own, o ∈ c.own ∨ o.sid = m) ∧
    (∀ f ∈ (c.begin m name keys k).1.flights, f ∈ c.flights ∨ f.sid = m) := by
  rcases Conc.begin_cases c m name keys k with ⟨_, e⟩ | ⟨_, _, e⟩ | ⟨_, _, _, e⟩ | ⟨_, _, _, e⟩
  · rw [e]; exact ⟨fun o h => .inl h, fun f h => .inl h⟩
  · rw [e]; exact ⟨fun o h => .inl h, fun f h => .inl h⟩
  · rw [e]; simp only [refund_own, charge_own, refund_flights, charge_flights]
    exact ⟨fun o h => .inl h, fun f h => .inl h⟩
  · rw [e]; simp only [charge_own, charge_flights]
    refine ⟨fun o h => .inl h, fun f h => ?_⟩
    rcases List.mem_cons.mp h with a | a
    · right; rw [a]
    · left; exact a

theorem step_frame (c : CState) (m : Nat) :
    (∀ o ∈ (c.step m).1.own, o ∈ c.own ∨ o.sid = m) ∧
    (∀ f ∈ (c.step m).1.flights, f ∈ c.flights ∨ f.sid = m) := by
  have filt : ∀ f ∈ c.flights.filter (fun g => g.sid ≠ m), f ∈ c.flights ∨ f.sid = m :=
    fun f h => .inl (List.mem_filter.mp h).1
  rcases Conc.step_cases c m with ⟨_, e⟩ | ⟨f, held', k, _, _, _, e⟩ | ⟨f, held', hf, _, _, e⟩ | ⟨f, _, _, _, e⟩ | ⟨f, _, _, _, e⟩
  · rw [e]; exact ⟨fun o h => .inl h, fun f h => .inl h⟩
  · rw [e]; simp only [refund_own, refund_flights, CState.dropFlight]
    exact ⟨fun o h => .inl h, filt⟩
  · rw [e]
    refine ⟨fun o h => .inl h, fun g h => ?_⟩
    rcases List.mem_cons.mp h with a | a
    · right; rw [a]
      have := List.find?_some hf
      simpa using this
    · exact filt g a
  · rw [e]; simp only [refund_own, refund_flights, CState.dropFlight]
    exact ⟨fun o h => .inl h, filt⟩
  · rw [e]; simp only [CState.dropFlight]
    refine ⟨fun o h => ?_, filt⟩
    rcases List.mem_cons.mp h with a | a
    · right; rw [a]
    · left; exact a

theorem close_frame (c : CState) (m : Nat) (name : Str) :
    (∀ o ∈ (c.close m name).1.own, o ∈ c.own ∨ o.sid = m) ∧
    (∀ f ∈ (c.close m name).1.flights, f ∈ c.flights ∨ f.sid = m) := by
  refine ⟨fun o h => ?_, fun f h => ?_⟩
  · rcases Conc.close_cases c m name with ⟨_, e⟩ | ⟨_, _, e⟩ | ⟨o', _, _, _, _, e⟩
    · rw [e] at h; exact .inl h
    · rw [e] at h; exact .inl h
    · rw [e] at h
      simp only [CState.dropProxy, refund_own] at h
      exact .inl (List.mem_filter.mp h).1
  · rw [Drop.close_flights] at h; exact .inl h

theorem end_frame {c : CState} (hi : Conc.Inv c) (m : Nat) :
    (∀ o ∈ (c.sessionEnd m).1.own, o ∈ c.own ∨ o.sid = m) ∧
    (∀ f ∈ (c.sessionEnd m).1.flights, f ∈ c.flights ∨ f.sid = m) := by
  refine ⟨fun o h => ?_, fun f h => ?_⟩
  · rcases Conc.sessionEnd_cases c m with ⟨_, e⟩ | ⟨hb, _⟩
    · rw [e] at h; exact .inl h
    · rw [(Conc.sessionEnd_spec hi m hb).1] at h
      exact .inl (List.mem_filter.mp h).1
  · rw [Drop.sessionEnd_flights hi] at h; exact .inl h

/-! ### phase changes -/

/-- a phase change of session `x` that keeps `PhOK` and never revives a finished wait -/
theorem rinv_setPh {s : PState} (h : RInv s) (x : Nat) (p : Ph) (hp : PhOK s.c x p)
    (hg : s.ph x ≠ .gone)
    (hw : (∃ b, s.ph x = .waiting b) → (∃ b, p = .waiting b) ∨ ∀ o, s.old x = some o → s.ph o = .gone) :
    RInv (s.setPh x p) := by
  refine ⟨h.conc, fun n => ?_, fun n o ho => ?_⟩
  · show PhOK s.c n (if n = x then p else s.ph n)
    by_cases e : n = x
    · rw [if_pos e, e]; exact hp
    · rw [if_neg e]; exact h.phok n
  · show (∃ b, (if n = x then p else s.ph n) = .waiting b) ∨ (if o = x then p else s.ph o) = .gone
    have ho' : s.old n = some o := ho
    have gone_stays : s.ph o = .gone → (if o = x then p else s.ph o) = .gone := fun g => by
      have : o ≠ x := fun e => hg (e ▸ g)
      rw [if_neg this]; exact g
    by_cases e : n = x
    · rw [if_pos e]
      by_cases w : ∃ b, s.ph x = .waiting b
      · rcases hw w with a | a
        · exact .inl a
        · exact .inr (gone_stays (a o (e ▸ ho')))
      · rcases h.wait n o ho' with a | a
        · exact absurd (e ▸ a) w
        · exact .inr (gone_stays a)
    · rw [if_neg e]
      rcases h.wait n o ho' with a | a
      · exact .inl a
      · exact .inr (gone_stays a)

theorem rinv_closeConn {s : PState} (h : RInv s) (n : Nat) : RInv (s.closeConn n) := by
  unfold PState.closeConn
  have hk := h.phok n
  split
  · rename_i b hb
    rw [hb] at hk
    exact rinv_setPh h n _ hk (by rw [hb]; intro e; cases e) (fun _ => .inl ⟨true, rfl⟩)
  · rename_i hb
    refine rinv_setPh h n _ ?_ (by rw [hb]; intro e; cases e) (fun ⟨b, e⟩ => by rw [hb] at e; cases e)
    by_cases bz : s.c.busy n = true
    · rw [if_pos bz]; trivial
    · rw [if_neg bz]; exact quiet_of_not_busy (Bool.eq_false_iff.mpr bz)
  · exact h

theorem closeConn_c (s : PState) (n : Nat) : (s.closeConn n).c = s.c := by
  unfold PState.closeConn; split <;> first | rfl | (split <;> rfl)

theorem closeConn_old (s : PState) (n : Nat) : (s.closeConn n).old = s.old := by
  unfold PState.closeConn; split <;> first | rfl | (split <;> rfl)

theorem closeConn_absent (s : PState) (n x : Nat) (hx : s.ph x = .absent) : (s.closeConn n).ph x = .absent := by
  unfold PState.closeConn
  split
  · rename_i b hb
    show (if x = n then _ else s.ph x) = _
    by_cases e : x = n
    · rw [e, hb] at hx; cases hx
    · rw [if_neg e]; exact hx
  · rename_i hb
    show (if x = n then _ else s.ph x) = _
    by_cases e : x = n
    · rw [e, hb] at hx; cases hx
    · rw [if_neg e]; exact hx
  · exact hx

theorem rinv_start {s : PState} (h : RInv s) (n : Nat) : RInv (s.start true n).1 := by
  unfold PState.start
  have hk := h.phok n
  split
  · rename_i closed hb
    rw [hb] at hk
    have hk' : Absent s.c n := hk
    by_cases may : s.mayStart true n = true
    · rw [if_pos may]
      have fin : ∀ o, s.old n = some o → s.ph o = .gone := fun o ho => by
        unfold PState.mayStart at may
        rw [ho] at may
        simpa using may
      cases closed
      · exact rinv_setPh h n .live trivial (by rw [hb]; intro e; cases e) (fun _ => .inr fin)
      · exact rinv_setPh h n .parked hk'.2 (by rw [hb]; intro e; cases e) (fun _ => .inr fin)
    · rw [if_neg may]; exact h
  · exact h

theorem rinv_closeOld {s : PState} (h : RInv s) (o : Option Nat) : RInv (s.closeOld o) := by
  cases o with
  | none => exact h
  | some o => exact rinv_closeConn h o

theorem closeOld_absent (s : PState) (o : Option Nat) (x : Nat) (hx : s.ph x = .absent) :
    (s.closeOld o).ph x = .absent := by
  cases o with
  | none => exact hx
  | some o => exact closeConn_absent s o x hx

theorem rinv_added {s1 : PState} (h1 : RInv s1) (n rid : Nat) (o : Option Nat) (a1 : s1.ph n = .absent) :
    RInv (s1.added n rid o) := by
  have hk : Absent s1.c n := by have := h1.phok n; rw [a1] at this; exact this
  refine ⟨h1.conc, fun m => ?_, fun m o' ho => ?_⟩
  · show PhOK s1.c m (if m = n then .waiting false else s1.ph m)
    by_cases e : m = n
    · rw [if_pos e, e]; exact hk
    · rw [if_neg e]; exact h1.phok m
  · show (∃ b, (if m = n then Ph.waiting false else s1.ph m) = .waiting b) ∨
         (if o' = n then Ph.waiting false else s1.ph o') = .gone
    by_cases e : m = n
    · rw [if_pos e]; exact .inl ⟨false, rfl⟩
    · rw [if_neg e]
      have ho' : s1.old m = some o' := by
        have : (if m = n then o else s1.old m) = some o' := ho
        rwa [if_neg e] at this
      rcases h1.wait m o' ho' with a | a
      · exact .inl a
      · right
        have : o' ≠ n := fun e2 => by rw [e2, a1] at a; cases a
        rw [if_neg this]; exact a

theorem rinv_login {s : PState} (h : RInv s) (n rid : Nat) : RInv (s.login true n rid).1 := by
  unfold PState.login
  by_cases hn : s.ph n ≠ .absent
  · rw [if_pos hn]; exact h
  · rw [if_neg hn]
    have hn' : s.ph n = .absent := Classical.not_not.mp hn
    exact rinv_start (rinv_added (rinv_closeOld h _) n rid _ (closeOld_absent s _ n hn')) n

theorem rinv_apply {s : PState} (h : RInv s) (op : Lbl) : RInv (s.apply true op).1 := by
  cases op with
  | login n rid => exact rinv_login h n rid
  | start n => exact rinv_start h n
  | «begin» n name keys k =>
    simp only [PState.apply]
    by_cases e : s.ph n = .live
    · rw [if_pos e]
      refine ⟨Conc.inv_begin h.conc n name keys k, fun m => ?_, h.wait⟩
      by_cases em : m = n
      · show PhOK _ m (s.ph m); rw [em, e]; trivial
      · exact phok_frame (begin_frame s.c n name keys k).1 (begin_frame s.c n name keys k).2 em (h.phok m)
    · rw [if_neg e]; exact h
  | step n =>
    simp only [PState.apply]
    by_cases e : s.ph n = .live
    · rw [if_pos e]
      refine ⟨Conc.inv_step h.conc n, fun m => ?_, h.wait⟩
      by_cases em : m = n
      · show PhOK _ m (s.ph m); rw [em, e]; trivial
      · exact phok_frame (step_frame s.c n).1 (step_frame s.c n).2 em (h.phok m)
    · rw [if_neg e]
      by_cases e2 : s.ph n = .ending
      · rw [if_pos e2]
        have base : RInv ({ s with c := (s.c.step n).1 } : PState) := by
          refine ⟨Conc.inv_step h.conc n, fun m => ?_, h.wait⟩
          by_cases em : m = n
          · show PhOK _ m (s.ph m); rw [em, e2]; trivial
          · exact phok_frame (step_frame s.c n).1 (step_frame s.c n).2 em (h.phok m)
        by_cases bz : (s.c.step n).1.busy n = true
        · simp only [bz, if_true]; exact base
        · simp only [bz, Bool.false_eq_true, if_false]
          exact rinv_setPh base n .parked (quiet_of_not_busy (Bool.eq_false_iff.mpr bz))
            (by show s.ph n ≠ .gone; rw [e2]; intro x; cases x)
            (fun ⟨b, x⟩ => by have : s.ph n = .waiting b := x; rw [e2] at this; cases this)
      · rw [if_neg e2]; exact h
  | close n name =>
    simp only [PState.apply]
    by_cases e : s.ph n = .live
    · rw [if_pos e]
      refine ⟨Conc.inv_close h.conc n name, fun m => ?_, h.wait⟩
      by_cases em : m = n
      · show PhOK _ m (s.ph m); rw [em, e]; trivial
      · exact phok_frame (close_frame s.c n name).1 (close_frame s.c n name).2 em (h.phok m)
    · rw [if_neg e]; exact h
  | drop n => exact rinv_closeConn h n
  | walk n =>
    simp only [PState.apply]
    by_cases e : s.ph n = .parked
    · rw [if_pos e]
      have hq : Quiet s.c n := by have := h.phok n; rw [e] at this; exact this
      have hb := not_busy_of_quiet hq
      have spec := Conc.sessionEnd_spec h.conc n hb
      have base : RInv ({ s with c := (s.c.sessionEnd n).1 } : PState) := by
        refine ⟨spec.2.2.2.2.2, fun m => ?_, h.wait⟩
        by_cases em : m = n
        · show PhOK _ m (s.ph m); rw [em, e]
          show Quiet _ n
          intro f hf; rw [spec.2.2.2.1] at hf; exact hq f hf
        · exact phok_frame (end_frame h.conc n).1 (end_frame h.conc n).2 em (h.phok m)
      refine rinv_setPh base n .walked ⟨fun o ho => ?_, ?_⟩
        (by show s.ph n ≠ .gone; rw [e]; intro x; cases x)
        (fun ⟨b, x⟩ => by have : s.ph n = .waiting b := x; rw [e] at this; cases this)
      · have : o ∈ (s.c.sessionEnd n).1.own := ho
        rw [spec.1] at this
        simpa using (List.mem_filter.mp this).2
      · intro f hf
        have : f ∈ (s.c.sessionEnd n).1.flights := hf
        rw [spec.2.2.2.1] at this; exact hq f this
    · rw [if_neg e]; exact h
  | done n =>
    simp only [PState.apply]
    by_cases e : s.ph n = .walked
    · rw [if_pos e]
      have hk : Absent s.c n := by have := h.phok n; rw [e] at this; exact this
      exact rinv_setPh h n .gone hk (by rw [e]; intro x; cases x) (fun ⟨b, x⟩ => by rw [e] at x; cases x)
    · rw [if_neg e]; exact h

/-- **every history**: logins with any run ids (chains of replacements), attempts to end the wait at any moment,
    registrations of all sessions section by section, closes, dropped connections, walks, done-s -/
theorem rinv_reachable (m : Nat) (ops : List Lbl) : RInv (run true (PState.init m) ops) := by
  unfold run
  suffices hh : ∀ s, RInv s → RInv (ops.foldl (fun t op => (t.apply true op).1) s) from hh _ (rinv_init m)
  induction ops with
  | nil => intro s h; exact h
  | cons op ops ih => intro s h; exact ih _ (rinv_apply h op)

/-! ### the clause -/

/-- an attempt to end the wait before the replaced session has closed its doneCh changes nothing — at any moment,
    after any number of other labels: there is no duration after which the new session starts anyway -/
theorem start_pending_until_gone (s : PState) (n o : Nat) (b : Bool) (hw : s.ph n = .waiting b)
    (ho : s.old n = some o) (hg : s.ph o ≠ .gone) : s.start true n = (s, .pending) := by
  unfold PState.start
  rw [hw]
  simp [PState.mayStart, ho, hg]

/-- **released before the new session handles anything**: in every reachable state in which a session that replaced
    `o` is started, `o` has closed its doneCh and NOTHING of it is left: no proxy in its table, no name in the name
    table, no key (port, route, listener) in any resource table, no registration in flight, quota counter 0 -/
theorem replaced_released {s : PState} (h : RInv s) {n o : Nat} (ho : s.old n = some o)
    (hs : (s.ph n).started = true) :
    s.ph o = .gone ∧ (∀ x ∈ s.c.own, x.sid ≠ o) ∧ (∀ e ∈ s.c.names, e.2 ≠ o) ∧
    (∀ e ∈ s.c.held, e.2.sid ≠ o) ∧ (∀ f ∈ s.c.flights, f.sid ≠ o) ∧ s.c.quotaOf o = 0 := by
  have hg : s.ph o = .gone := by
    rcases h.wait n o ho with ⟨b, a⟩ | a
    · rw [a] at hs; cases hs
    · exact a
  have ha : Absent s.c o := by have := h.phok o; rw [hg] at this; exact this
  refine ⟨hg, ha.1, fun e he x => ?_, fun e he x => ?_, ha.2, ?_⟩
  · obtain ⟨w, hw, a, _⟩ := h.conc.struct.namesOwned e he
    exact ha.1 w hw (a.trans x)
  · rcases h.conc.struct.holderKnown e he with ⟨w, hw, a, _⟩ | ⟨f, hf, a, _⟩
    · exact ha.1 w hw (a.trans x)
    · exact ha.2 f hf (a.trans x)
  · rw [h.conc.quota o, Conc.ownSum_none _ _ ha.1, Conc.flightSum_none]
    · unfold CState.amt; split <;> rfl
    · intro hm
      obtain ⟨f, hf, e⟩ := List.mem_map.mp hm
      exact ha.2 f hf e

/-- **the identical registration on the new session succeeds**: the new session is live and idle; nobody but (as far
    as the hypotheses go) the replaced session has the name or one of the keys; the ports fit on top of what the new
    session owns.  Then the registration passes all three sections. -/
theorem reregister_after_replace {s : PState} (h : RInv s) {n o : Nat} (ho : s.old n = some o)
    (hl : s.ph n = .live) (hb : s.c.busy n = false) (name : Str) (keys : List Key) (k : Nat) (hnd : keys.Nodup)
    (hname : ∀ e ∈ s.c.names, e.1 = name → e.2 = o)
    (hkeys : ∀ e ∈ s.c.held, e.1 ∈ keys → e.2.sid = o)
    (hfit : s.c.maxPorts = 0 ∨ ownSum s.c.own n + k ≤ s.c.maxPorts) :
    (s.c.begin n name keys k).2 = .parked .checked ∧
    ((s.c.begin n name keys k).1.step n).2 = .parked .ran ∧
    (((s.c.begin n name keys k).1.step n).1.step n).2 = .ok := by
  obtain ⟨_, _, r2, r3, _, _⟩ := replaced_released h ho (by rw [hl]; rfl)
  apply Conc.retry_succeeds h.conc n name keys k hb _ hnd _ hfit
  · apply Bool.eq_false_iff.mpr
    intro ht
    rw [Conc.nameTaken_iff] at ht
    obtain ⟨e, he, en⟩ := List.mem_map.mp ht
    exact r2 e he (hname e he en)
  · intro key hk hm
    obtain ⟨e, he, ek⟩ := List.mem_map.mp hm
    exact r3 e he (hkeys e he (ek ▸ hk))

/-! ### non-vacuity: the slow teardown -/

def pxA : Str := C10.s "a"

/-- session 1 (run id 7) registers tcp proxy `a`; session 2 logs in with run id 7; session 1's worker is held before
    its walk while other sessions go on working; the wait is attempted to end; session 2 re-submits `a` -/
def slowTeardown : List Lbl :=
  [.login 1 7, .begin 1 pxA [Conc.pA] 1, .step 1, .step 1, .login 2 7,
   .login 3 8, .begin 3 (C10.s "b") [Conc.pB] 1, .step 3, .step 3, .close 3 (C10.s "b"),
   .start 2, .begin 2 pxA [Conc.pA] 1]

/-- a wait that may give up: the new session is answered while the old one still holds everything, and its
    identical registration is refused -/
theorem bounded_wait_refuses : lastAns false (PState.init 0) slowTeardown = .r .exists_ := by decide +kernel

/-- the code's wait: the attempt to start is `pending`, the registration is not handled at all -/
theorem slow_teardown_pending :
    lastAns true (PState.init 0) (slowTeardown.take 11) = .pending ∧
    lastAns true (PState.init 0) slowTeardown = .notlive := by decide +kernel

/-- … and once the old worker has walked and closed doneCh the new session starts and the identical registration
    goes through -/
theorem slow_teardown_then_ok :
    lastAns true (PState.init 0)
      (slowTeardown.take 10 ++ [.walk 1, .done 1, .start 2, .begin 2 pxA [Conc.pA] 1, .step 2, .step 2]) = .r .ok := by
  decide +kernel

end Replace
end C10
end Frp
