import Frp.Model.HttpRewrite
import Frp.Model.HttpPool
import Frp.Model.HttpTime
import Frp.Lemmas.HttpRewrite
import Frp.Props.C01
import Frp.Lemmas.CodecPool
import Frp.Gen.CodecFacts
import Frp.Model.ConnReader
import Frp.Props.C02Faults
import Frp.Props.C02Routes
/-
  C02 — HTTP proxying preserves requests and responses apart from declared rewrites.   (partial)

  Models: Frp/Model/HttpRewrite.lean (what the backend / the user receives), Frp/Model/HttpPool.lean
  (idle backend connections), Frp/Model/HttpTime.lean (which clocks can end an exchange early).  All statements are for EVERY request, header map, route config.

  What is proved
    * request line, body and framing are not touched (`request_line_body_untouched`);
    * per header key: every key outside the declared/standard set reaches the backend unchanged
      (`request_headers_preserved`), the declared ones have exactly the declared value
      (`configured_header_spec`, `xff_spec`, `xfh_spec`, `xfp_spec`, `host_spec`), hop-by-hop
      headers and client-supplied `Forwarded` are dropped (`hop_removed`, `forwarded_stripped`);
      the order in which Go ranges over the configured map is irrelevant as long as the configured
      keys stay distinct after canonicalisation (`configured_order_irrelevant`), and it is NOT
      irrelevant otherwise (`configured_dup_witness`);
    * responses: status and body untouched, headers likewise per key (`response_*`);
    * `errorMap` is total with exactly two answers;
    * time (Frp/Model/HttpTime.lean): the only clock on an exchange is the response-header timeout —
      for every time line a header block inside the timeout means every body piece of both directions
      and every tunnel piece is relayed (`streamed_exchange_complete`, `upgrade_tunnel_transparent`,
      `connect_tunnel_transparent`), a late one means 504 exactly `timeout` after the request was
      written (`header_timeout_bounded`); any deadline on the whole exchange would cut some stream
      and some tunnel (`ctx_deadline_cuts_stream`, `ctx_deadline_cuts_tunnel`);
    * the synthetic pool host determines (domain, location, routeUser, endpoint)
      (`poolKey_injective`, `distinct_routes_distinct_keys`);
    * upgrades need a hijackable writer, and `ServeHTTP` hands the reverse proxy the server's own
      (`frp_upgrade_switches`, `upgrade_needs_hijacker`, predicate `tunnelHolds`);
    * end to end (section Tunnel, on top of Frp/Props/C01.lean): through frps' `GetRealConn` stack and
      frpc's stack the request / answer bodies arrive unchanged for every combination of
      useEncryption / useCompression / bandwidthLimit mode, every burst > 0, any framing, any write
      pattern, any chunking of the wire (`e2e_request_delivered`, `e2e_response_delivered`,
      `e2e_*_prefix`, `e2e_exchange_transparent`, `limited_write_whole`, predicate `e2eHolds`).

    * concurrent exchanges (section Concurrent, Frp/Model/CodecPool.lean): the pooled snappy reader / writer of
      compressed work connections are recycled by client/proxy/proxy.go only after `libio.Join` returned and
      never on the plugin path; under that discipline, for EVERY interleaving of work connections (plain and
      plugin path mixed) and every choice of `sync.Pool.Get`, no two live connections hold the same object and
      every Read / Write works on the stream of its own connection (`codec_exclusive`, `codec_own_stream`,
      `codec_frp_own_stream`); recycling at the return of the plugin path or twice breaks it
      (`codec_release_at_return_witness`, `codec_double_release_witness`, `codec_unsafe_breaks`); predicate
      `roundHolds` = every user of a round of simultaneous exchanges gets exactly its own answer.

    * grouping is transparent to every route option; the error answer does not wait for the request body:
      Frp/Props/C02Routes.lean (same namespace)
    * faults in the middle of an exchange and long-lived concurrent exchanges: Frp/Props/C02Faults.lean (same
      namespace; Frp/Model/HttpAbort.lean, Frp/Model/ConnLimit.lean, Gen/HttpFacts): `abort_chain_faithful`,
      `upload_chain_faithful`, `abort_source_no_recover`, `limit_unlimited_forwards_all`,
      `limit_kth_concurrent_forwarded`, `limit_source_paths_forward`, predicates `abortHolds`, `longHolds`.

  What FAILS on the code as it is (witnesses, reproduced on the real code by engine `http`)
    * `pool_stale_owner_witness`: idle backend connections survive `UnRegister`, a route
      re-registered by somebody else is served through the former owner's connection;
    * `pool_noroute_witness`: a request matching no route whose `Host` spells a synthetic pool host
      is served through that route's idle connection.
    `pool_fresh_partial` holds with the excluded case as hypothesis; `pool_fresh_fixed` is the full
    statement for the repaired model (`HttpPool.step true`, hooks/C02-fix-pool-key.patch).

  Outside (assumed, only sampled): net/http parsing/serialisation, Transport pooling, chunked and
  Content-Length framing, bodies as byte streams (a body is an opaque value here), the unparsable
  query stripping of `cleanQueryParams` (queries with ';' or a bad '%' escape are re-encoded by the
  standard library before the hook runs: excluded by `queryClean`), gzip transparency of Transport.
-/
namespace Frp
namespace C02
open Str HttpRewrite HttpPool

/-! ## requests -/

theorem xff_ne_xfh : kXFF ≠ kXFH := by decide +kernel
theorem xff_ne_xfp : kXFF ≠ kXFP := by decide +kernel
theorem xfh_ne_xfp : kXFH ≠ kXFP := by decide +kernel
theorem xfh_ne_xff : kXFH ≠ kXFF := by decide +kernel
theorem xfp_ne_xff : kXFP ≠ kXFF := by decide +kernel
theorem xfp_ne_xfh : kXFP ≠ kXFH := by decide +kernel

/-- canonical keys of the configured request headers -/
def cfgKeys (rc : Option RouteCfg) : List Str :=
  match rc with
  | some rc => rc.headers.map (fun kv => canonKey kv.1)
  | none => []

def cfgSets (rc : Option RouteCfg) : List (Str × Str) :=
  match rc with
  | some rc => rc.headers
  | none => []

/-- every header key the proxy may legitimately change on the way to the backend -/
def touched (rc : Option RouteCfg) (q : Req) : List Str :=
  cfgKeys rc ++ [kXFF, kXFH, kXFP, kForwarded, kUA, kAE] ++ connNamed q.hdr ++ hopHeaders ++ wireExcluded

theorem request_line_body_untouched (rc : Option RouteCfg) (q : Req) (peer : Option Str) (tls : Bool) :
    let o := backendSees rc q peer tls
    o.method = q.method ∧ o.absForm = q.absForm ∧ o.path = q.path ∧ o.query = q.query ∧
    o.body = q.body ∧ o.chunked = q.chunked := by
  simp [backendSees]

/-- **Host**: rewritten iff `RewriteHost` is non-empty -/
theorem host_spec (rc : Option RouteCfg) (q : Req) (peer : Option Str) (tls : Bool) :
    (backendSees rc q peer tls).host =
      match rc with
      | some c => if c.rewriteHost ≠ [] then c.rewriteHost else q.host
      | none => q.host := by
  cases rc <;> rfl

theorem lastSet_cfg_none {rc : Option RouteCfg} {k : Str} (h : k ∉ cfgKeys rc) :
    lastSet (cfgSets rc) k = none := by
  rw [lastSet_none_iff]
  intro kv hkv hk
  apply h
  cases rc with
  | none => cases hkv
  | some c => exact hk ▸ List.mem_map_of_mem (f := fun kv => canonKey kv.1) hkv

theorem rewriteHdr_eq (rc : Option RouteCfg) (q : Req) (peer : Option Str) (tls : Bool) :
    rewriteHdr rc q peer tls =
      (let h := applySets (setXForwarded q peer tls (preRewrite q)) (cfgSets rc)
       if get h kUA = [] then set h kUA [] else h) := by
  cases rc <;> rfl

/-- the header map after the hook, per key (User-Agent aside) -/
theorem get_rewriteHdr (rc : Option RouteCfg) (q : Req) (peer : Option Str) (tls : Bool) (k : Str)
    (hk : k ≠ kUA) :
    get (rewriteHdr rc q peer tls) k =
      match lastSet (cfgSets rc) k with
      | some v => [v]
      | none => get (setXForwarded q peer tls (preRewrite q)) k := by
  rw [rewriteHdr_eq]
  simp only
  split
  · rw [get_set]; simp only [hk, if_false]; exact get_applySets _ _ _
  · exact get_applySets _ _ _

theorem get_transportHdr' (m : Str) (h : Hdr) (k : Str) (h1 : k ≠ kUA) (h2 : k ≠ kAE) :
    get (transportHdr m h) k = if k ∈ wireExcluded then [] else get h k := by
  unfold transportHdr
  simp only
  by_cases hw : k ∈ wireExcluded
  · split <;> split <;> simp [get_set, get_delAll, h1, h2, hw]
  · split <;> split <;> simp [get_set, get_delAll, h1, h2, hw]

theorem get_transportHdr (m : Str) (h : Hdr) (k : Str) (h1 : k ≠ kUA) (h2 : k ≠ kAE)
    (h3 : k ∉ wireExcluded) : get (transportHdr m h) k = get h k := by
  rw [get_transportHdr' m h k h1 h2, if_neg h3]

theorem get_setXForwarded (q : Req) (peer : Option Str) (tls : Bool) (h : Hdr) (k : Str)
    (h1 : k ≠ kXFF) (h2 : k ≠ kXFH) (h3 : k ≠ kXFP) : get (setXForwarded q peer tls h) k = get h k := by
  unfold setXForwarded
  cases peer <;> simp [get_set, get_del, h1, h2, h3]

theorem get_preRewrite (q : Req) (k : Str) (h1 : k ∉ [kForwarded, kXFF, kXFH, kXFP])
    (h2 : k ∉ connNamed q.hdr ++ hopHeaders) : get (preRewrite q) k = get q.hdr k := by
  have hc1 : [kForwarded, kXFF, kXFH, kXFP].contains k = false := by
    simpa [List.contains_eq_mem] using h1
  have hc2 : (connNamed q.hdr ++ hopHeaders).contains k = false := by
    simpa [List.contains_eq_mem] using h2
  have hTe : k ≠ kTe := fun e => h2 (by subst e; simp [hopHeaders])
  have hCo : k ≠ kConnection := fun e => h2 (by subst e; simp [hopHeaders])
  have hUp : k ≠ kUpgrade := fun e => h2 (by subst e; simp [hopHeaders])
  have hconn : k ∉ connNamed q.hdr := fun m => h2 (List.mem_append_left _ m)
  have hhop : k ∉ hopHeaders := fun m => h2 (List.mem_append_right _ m)
  unfold preRewrite
  simp only [get_delAll, hc1, Bool.false_eq_true, if_false]
  split <;> split <;> simp [get_set, hTe, hCo, hUp, removeHop, get_delAll, hconn, hhop]

/-- **end-to-end request headers**: every key outside `touched` reaches the backend with exactly
    the values (and value order) the user sent -/
theorem request_headers_preserved (rc : Option RouteCfg) (q : Req) (peer : Option Str) (tls : Bool)
    (k : Str) (hk : k ∉ touched rc q) :
    get (backendSees rc q peer tls).hdr k = get q.hdr k := by
  simp only [touched, List.mem_append, List.mem_cons, List.not_mem_nil, or_false, not_or] at hk
  obtain ⟨⟨⟨⟨hcfg, hx1, hx2, hx3, hfw, hua, hae⟩, hconn⟩, hhop⟩, hwire⟩ := hk
  show get (transportHdr q.method (rewriteHdr rc q peer tls)) k = _
  rw [get_transportHdr _ _ _ hua hae hwire, get_rewriteHdr _ _ _ _ _ hua, lastSet_cfg_none hcfg]
  simp only
  rw [get_setXForwarded _ _ _ _ _ hx1 hx2 hx3, get_preRewrite]
  · simp [hfw, hx1, hx2, hx3]
  · simp [hconn, hhop]

/-- **configured request headers**: a configured key (other than the ones the Transport writes
    itself) carries exactly the configured value -/
theorem configured_header_spec (rc : Option RouteCfg) (q : Req) (peer : Option Str) (tls : Bool)
    (k v : Str) (hv : lastSet (cfgSets rc) k = some v)
    (h1 : k ≠ kUA) (h2 : k ≠ kAE) (h3 : k ∉ wireExcluded) :
    get (backendSees rc q peer tls).hdr k = [v] := by
  show get (transportHdr q.method (rewriteHdr rc q peer tls)) k = _
  rw [get_transportHdr _ _ _ h1 h2 h3, get_rewriteHdr _ _ _ _ _ h1, hv]

/-- iteration order of the configured map does not matter while keys stay distinct -/
theorem configured_order_irrelevant {s₁ s₂ : List (Str × Str)} (hp : s₁.Perm s₂)
    (hnd : (s₁.map (fun kv => canonKey kv.1)).Nodup) (h : Hdr) (k : Str) :
    get (applySets h s₁) k = get (applySets h s₂) k := applySets_perm hp hnd h k

/-- … and it does matter when two configured keys canonicalise to the same key
    (`{"X-Dup": "a", "x-dup": "b"}`): the backend sees "a" or "b" depending on map order -/
theorem configured_dup_witness :
    get (applySets [] [([88, 45, 68], [97]), ([120, 45, 100], [98])]) [88, 45, 68] ≠
    get (applySets [] [([120, 45, 100], [98]), ([88, 45, 68], [97])]) [88, 45, 68] := by decide

/-- **X-Forwarded-For** = what the user sent (all values joined) extended by the user's address -/
theorem xff_spec (rc : Option RouteCfg) (q : Req) (ip : Str) (tls : Bool) (hc : kXFF ∉ cfgKeys rc) :
    get (backendSees rc q (some ip) tls).hdr kXFF =
      [if get q.hdr kXFF ≠ [] then joinCS (get q.hdr kXFF) ++ 44 :: 32 :: ip else ip] := by
  show get (transportHdr q.method (rewriteHdr rc q (some ip) tls)) kXFF = _
  rw [get_transportHdr _ _ _ (by decide +kernel) (by decide +kernel) (by decide +kernel),
      get_rewriteHdr _ _ _ _ _ (by decide +kernel), lastSet_cfg_none hc]
  simp only [setXForwarded, get_set]
  simp [xff_ne_xfh, xff_ne_xfp]

theorem xfh_spec (rc : Option RouteCfg) (q : Req) (peer : Option Str) (tls : Bool) (hc : kXFH ∉ cfgKeys rc) :
    get (backendSees rc q peer tls).hdr kXFH = [q.host] := by
  show get (transportHdr q.method (rewriteHdr rc q peer tls)) kXFH = _
  rw [get_transportHdr _ _ _ (by decide +kernel) (by decide +kernel) (by decide +kernel),
      get_rewriteHdr _ _ _ _ _ (by decide +kernel), lastSet_cfg_none hc]
  simp only [setXForwarded, get_set]
  simp [xfh_ne_xfp]

theorem xfp_spec (rc : Option RouteCfg) (q : Req) (peer : Option Str) (hc : kXFP ∉ cfgKeys rc) :
    get (backendSees rc q peer false).hdr kXFP = [ofString "http"] := by
  show get (transportHdr q.method (rewriteHdr rc q peer false)) kXFP = _
  rw [get_transportHdr _ _ _ (by decide +kernel) (by decide +kernel) (by decide +kernel),
      get_rewriteHdr _ _ _ _ _ (by decide +kernel), lastSet_cfg_none hc]
  simp only [setXForwarded, get_set]
  simp

/-- client-supplied `Forwarded` never reaches the backend (unless configured) -/
theorem forwarded_stripped (rc : Option RouteCfg) (q : Req) (peer : Option Str) (tls : Bool)
    (hc : kForwarded ∉ cfgKeys rc) : get (backendSees rc q peer tls).hdr kForwarded = [] := by
  show get (transportHdr q.method (rewriteHdr rc q peer tls)) kForwarded = _
  rw [get_transportHdr _ _ _ (by decide +kernel) (by decide +kernel) (by decide +kernel),
      get_rewriteHdr _ _ _ _ _ (by decide +kernel), lastSet_cfg_none hc]
  simp only
  rw [get_setXForwarded _ _ _ _ _ (by decide +kernel) (by decide +kernel) (by decide +kernel)]
  simp [preRewrite, get_delAll, kForwarded]

theorem get_preRewrite_hop (q : Req) (k : Str) (hk : k ∈ connNamed q.hdr ++ hopHeaders)
    (hte : k ≠ kTe) (hup : upgradeType q.hdr = []) : get (preRewrite q) k = [] := by
  have hk' : k ∈ connNamed q.hdr ∨ k ∈ hopHeaders := List.mem_append.1 hk
  unfold preRewrite
  simp only [hup, ne_eq, not_true_eq_false, if_false, get_delAll]
  split
  · rfl
  · split <;> simp [get_set, hte, removeHop, get_delAll, hk']

/-- hop-by-hop headers (the standard list and everything named by `Connection`) are dropped;
    `Te: trailers` and the upgrade pair are the standard proxy's two exceptions -/
theorem hop_removed (rc : Option RouteCfg) (q : Req) (peer : Option Str) (tls : Bool) (k : Str)
    (hk : k ∈ connNamed q.hdr ++ hopHeaders) (hc : k ∉ cfgKeys rc)
    (h1 : k ≠ kXFF) (h2 : k ≠ kXFH) (h3 : k ≠ kXFP) (hua : k ≠ kUA) (hae : k ≠ kAE)
    (hte : k ≠ kTe) (hup : upgradeType q.hdr = []) :
    get (backendSees rc q peer tls).hdr k = [] := by
  show get (transportHdr q.method (rewriteHdr rc q peer tls)) k = _
  rw [get_transportHdr' _ _ _ hua hae]
  split
  · rfl
  · rw [get_rewriteHdr _ _ _ _ _ hua, lastSet_cfg_none hc]
    simp only
    rw [get_setXForwarded _ _ _ _ _ h1 h2 h3]
    exact get_preRewrite_hop q k hk hte hup

/-! ## the client plugins http2http / http2https / https2http / https2https -/

theorem get_copyKey (q : Req) (h : Hdr) (k k' : Str) :
    get (copyKey q h k) k' = if k' = k then get q.hdr k else get h k' := by
  unfold copyKey
  by_cases e : k' = k
  · subst e
    split
    · rename_i he; simp [get_del, he]
    · simp [HttpRewrite.get]
  · have e' : ¬ k = k' := fun x => e x.symm
    split <;> simp [HttpRewrite.get, get_del, e, e']

/-- the header map after a plugin's hook, per key (User-Agent aside) -/
theorem get_pluginHdr (fixed : Bool) (kind : PluginKind) (sets : List (Str × Str)) (q : Req)
    (peer : Option Str) (k : Str) (hk : k ≠ kUA) :
    get (pluginHdr fixed kind sets q peer) k =
      match lastSet sets k with
      | some v => [v]
      | none => get (pluginBase fixed kind q peer) k := by
  unfold pluginHdr
  simp only
  split
  · rw [get_set]; simp only [hk, if_false]; exact get_applySets _ _ _
  · exact get_applySets _ _ _

/-- **plugins, end-to-end request headers**: untouched outside the declared/standard set, for all
    four plugins -/
theorem plugin_headers_preserved (fixed : Bool) (kind : PluginKind) (hr : Str) (sets : List (Str × Str))
    (q : Req) (peer : Option Str) (k : Str)
    (hk : k ∉ sets.map (fun kv => canonKey kv.1) ++ [kXFF, kXFH, kXFP, kForwarded, kUA, kAE] ++
              connNamed q.hdr ++ hopHeaders ++ wireExcluded) :
    get (pluginSees fixed kind hr sets q peer).hdr k = get q.hdr k := by
  simp only [List.mem_append, List.mem_cons, List.not_mem_nil, or_false, not_or] at hk
  obtain ⟨⟨⟨⟨hcfg, hx1, hx2, hx3, hfw, hua, hae⟩, hconn⟩, hhop⟩, hwire⟩ := hk
  show get (transportHdr q.method (pluginHdr fixed kind sets q peer)) k = _
  have hls : lastSet sets k = none := by
    rw [lastSet_none_iff]
    intro kv hkv hkk
    exact hcfg (hkk ▸ List.mem_map_of_mem (f := fun kv => canonKey kv.1) hkv)
  rw [get_transportHdr _ _ _ hua hae hwire, get_pluginHdr _ _ _ _ _ _ hua, hls]
  have hpre : get (preRewrite q) k = get q.hdr k :=
    get_preRewrite q k (by simp [hfw, hx1, hx2, hx3]) (by simp [hconn, hhop])
  cases kind <;> cases fixed <;>
    simp [pluginBase, get_copyKey, get_setXForwarded, hx1, hx2, hx3, hpre]

/-- **http2http as it is: the user's address is lost.**  Whatever X-Forwarded-For the request
    carries when it reaches the plugin (frps has just appended the user's address), the local
    service receives none — the standard proxy strips it before the hook and the hook does not put
    it back.  Same for X-Forwarded-Host / -Proto. -/
theorem plugin_h2h_drops_forwarded (hr : Str) (sets : List (Str × Str)) (q : Req) (peer : Option Str)
    (k : Str) (hk : k = kXFF ∨ k = kXFH ∨ k = kXFP) (hc : lastSet sets k = none) :
    get (pluginSees false .h2h hr sets q peer).hdr k = [] := by
  have h1 : k ≠ kUA := by rcases hk with rfl | rfl | rfl <;> decide +kernel
  have h2 : k ≠ kAE := by rcases hk with rfl | rfl | rfl <;> decide +kernel
  have h3 : k ∉ wireExcluded := by rcases hk with rfl | rfl | rfl <;> decide +kernel
  show get (transportHdr q.method (pluginHdr false .h2h sets q peer)) k = _
  rw [get_transportHdr _ _ _ h1 h2 h3, get_pluginHdr _ _ _ _ _ _ h1, hc]
  simp only [pluginBase, Bool.false_eq_true, if_false]
  have : [kForwarded, kXFF, kXFH, kXFP].contains k = true := by
    rcases hk with rfl | rfl | rfl <;> decide +kernel
  unfold preRewrite
  simp only [get_delAll, this, if_true]

/-- concrete instance: frps forwarded `X-Forwarded-For: 203.0.113.9`, the service behind
    http2http sees no such header -/
theorem plugin_h2h_witness :
    get (pluginSees false .h2h [] []
          { method := ofString "GET", absForm := false, path := [47], query := none, host := ofString "h",
            hdr := parseHdr [(kXFF, ofString "203.0.113.9")], chunked := false, body := [] } none).hdr kXFF = [] := by
  decide +kernel

/-- http2https, and http2http once repaired, hand the forwarded headers through unchanged -/
theorem plugin_copy_keeps_forwarded (kind : PluginKind) (hk2 : kind = .h2hs ∨ kind = .h2h) (hr : Str)
    (sets : List (Str × Str)) (q : Req) (peer : Option Str)
    (k : Str) (hk : k = kXFF ∨ k = kXFH ∨ k = kXFP) (hc : lastSet sets k = none) :
    get (pluginSees true kind hr sets q peer).hdr k = get q.hdr k := by
  have h1 : k ≠ kUA := by rcases hk with rfl | rfl | rfl <;> decide +kernel
  have h2 : k ≠ kAE := by rcases hk with rfl | rfl | rfl <;> decide +kernel
  have h3 : k ∉ wireExcluded := by rcases hk with rfl | rfl | rfl <;> decide +kernel
  show get (transportHdr q.method (pluginHdr true kind sets q peer)) k = _
  rw [get_transportHdr _ _ _ h1 h2 h3, get_pluginHdr _ _ _ _ _ _ h1, hc]
  rcases hk2 with rfl | rfl <;> rcases hk with rfl | rfl | rfl <;>
    simp [pluginBase, get_copyKey, xff_ne_xfh, xff_ne_xfp, xfh_ne_xfp]

/-- https2http / https2https extend X-Forwarded-For by the peer address -/
theorem plugin_tls_xff (fixed : Bool) (kind : PluginKind) (hk2 : kind = .hs2h ∨ kind = .hs2hs) (hr : Str)
    (sets : List (Str × Str)) (q : Req) (ip : Str) (hc : lastSet sets kXFF = none) :
    get (pluginSees fixed kind hr sets q (some ip)).hdr kXFF =
      [if get q.hdr kXFF ≠ [] then joinCS (get q.hdr kXFF) ++ 44 :: 32 :: ip else ip] := by
  show get (transportHdr q.method (pluginHdr fixed kind sets q (some ip))) kXFF = _
  rw [get_transportHdr _ _ _ (by decide +kernel) (by decide +kernel) (by decide +kernel),
      get_pluginHdr _ _ _ _ _ _ (by decide +kernel), hc]
  rcases hk2 with rfl | rfl <;> simp [pluginBase, setXForwarded, get_set, xff_ne_xfh, xff_ne_xfp]

/-! ## responses -/

def cfgRespSets (rc : Option RouteCfg) : List (Str × Str) :=
  match rc with
  | some rc => rc.respHeaders
  | none => []

def respTouched (rc : Option RouteCfg) (r : Resp) : List Str :=
  (cfgRespSets rc).map (fun kv => canonKey kv.1) ++ connNamed r.hdr ++ hopHeaders ++ [kCL, kTE, kDate, kCT]

theorem modifyResponse_eq (rc : Option RouteCfg) (h : Hdr) :
    modifyResponse rc h = applySets h (cfgRespSets rc) := by
  cases rc <;> simp [modifyResponse, cfgRespSets, applySets]

/-- status untouched; body untouched (none for HEAD) -/
theorem response_status_body (rc : Option RouteCfg) (m : Str) (r : Resp) :
    (userSees rc m r).status = r.status ∧
    (userSees rc m r).body = if m = ofString "HEAD" then [] else r.body := by
  simp [userSees, serverFinish]

theorem get_ite_set (c : Prop) [Decidable c] (h : Hdr) (k v k' : Str) :
    get (if c then set h k v else h) k' = if c ∧ k' = k then [v] else get h k' := by
  by_cases hc : c <;> simp [hc, get_set]

theorem get_ite_del (c : Prop) [Decidable c] (h : Hdr) (k k' : Str) :
    get (if c then del h k else h) k' = if c ∧ k' = k then [] else get h k' := by
  by_cases hc : c <;> simp [hc, get_del]

theorem get_serverFinish (m : Str) (r : Resp) (k : Str) (h1 : k ≠ kDate) (h2 : k ≠ kCT) :
    get (serverFinish m r).hdr k = get r.hdr k := by
  unfold serverFinish
  simp only [get_ite_set, get_ite_del, h1, h2, and_false, if_false]

theorem connNamed_del_connection (h : Hdr) : connNamed (del h kConnection) = [] := by
  simp [connNamed, get_del, fields]

theorem get_removeHop_transportResp (h : Hdr) (k : Str) (hk : k ∉ connNamed h ++ hopHeaders) :
    get (removeHop (transportResp h)) k = get h k := by
  have hconn : k ∉ connNamed h := fun m => hk (List.mem_append_left _ m)
  have hhop : k ∉ hopHeaders := fun m => hk (List.mem_append_right _ m)
  have hC : k ≠ kConnection := fun e => hhop (by subst e; simp [hopHeaders])
  unfold transportResp
  split
  · simp [removeHop, get_delAll, connNamed_del_connection, hhop, get_del, hC]
  · simp [removeHop, get_delAll, hconn, hhop]

/-- **end-to-end response headers** reach the user unchanged -/
theorem response_headers_preserved (rc : Option RouteCfg) (m : Str) (r : Resp) (k : Str)
    (hk : k ∉ respTouched rc r) : get (userSees rc m r).hdr k = get r.hdr k := by
  simp only [respTouched, List.mem_append, List.mem_cons, List.not_mem_nil, or_false, not_or] at hk
  obtain ⟨⟨⟨hcfg, hconn⟩, hhop⟩, hcl, hte, hdate, hct⟩ := hk
  unfold userSees
  rw [get_serverFinish _ _ _ hdate hct]
  have hc : [kCL, kTE].contains k = false := by simp [hcl, hte]
  simp only [get_delAll, hc, Bool.false_eq_true, if_false, modifyResponse_eq, get_applySets]
  have : lastSet (cfgRespSets rc) k = none := by
    rw [lastSet_none_iff]
    intro kv hkv hkk
    exact hcfg (hkk ▸ List.mem_map_of_mem (f := fun kv => canonKey kv.1) hkv)
  rw [this]
  exact get_removeHop_transportResp r.hdr k (by simp [hconn, hhop])

/-- **configured response headers** carry exactly the configured value -/
theorem response_configured (rc : Option RouteCfg) (m : Str) (r : Resp) (k v : Str)
    (hv : lastSet (cfgRespSets rc) k = some v) (hk : k ∉ [kCL, kTE, kDate, kCT]) :
    get (userSees rc m r).hdr k = [v] := by
  simp only [List.mem_cons, List.not_mem_nil, or_false, not_or] at hk
  obtain ⟨hcl, hte, hdate, hct⟩ := hk
  unfold userSees
  rw [get_serverFinish _ _ _ hdate hct]
  have hc : [kCL, kTE].contains k = false := by simp [hcl, hte]
  simp only [get_delAll, hc, Bool.false_eq_true, if_false, modifyResponse_eq, get_applySets, hv]

/-- `Date` / `Content-Type` supplied by the backend or the configuration are kept (304 aside,
    where net/http drops Content-Type); the server only fills them in when absent -/
theorem response_date_ctype_kept (m : Str) (r : Resp) (k : Str) (hk : k = kDate ∨ k = kCT)
    (hs : r.status ≠ 304) (hp : get r.hdr k ≠ []) : get (serverFinish m r).hdr k = get r.hdr k := by
  have hne : kDate ≠ kCT := by decide +kernel
  unfold serverFinish
  simp only [get_ite_set, hs, if_false]
  rcases hk with rfl | rfl
  · simp [hne, hp]
  · simp [hne.symm, hp]

/-! ## error answers -/

theorem errorMap_total (t : Bool) :
    errorMap t = { status := 504, hdr := [], body := [] } ∨
    errorMap t = { status := 404, hdr := [], body := notFoundPage } := by
  cases t <;> simp [errorMap]

theorem errorMap_timeout : (errorMap true).status = 504 ∧ (errorMap true).body = [] := by
  simp [errorMap]

theorem errorMap_other : (errorMap false).status = 404 ∧ (errorMap false).body = notFoundPage := by
  simp [errorMap]

/-! ## pool key -/

theorem poolKey_injective {d l u e d' l' u' e' : Str}
    (hl : Base64.bytes l) (hu : Base64.bytes u) (he : Base64.bytes e)
    (hl' : Base64.bytes l') (hu' : Base64.bytes u') (he' : Base64.bytes e')
    (h : poolKey d l u e = poolKey d' l' u' e') : d = d' ∧ l = l' ∧ u = u' ∧ e = e' :=
  HttpRewrite.poolKey_injective hl hu he hl' hu' he' h

/-- requests resolved to routes that differ in (domain, location, routeUser) never share an idle
    backend connection: their pool keys differ -/
theorem distinct_routes_distinct_keys {d l u d' l' u' : Str}
    (hl : Base64.bytes l) (hu : Base64.bytes u) (hl' : Base64.bytes l') (hu' : Base64.bytes u')
    (hne : (d, l, u) ≠ (d', l', u')) : poolKey d l u [] ≠ poolKey d' l' u' [] := by
  intro h
  obtain ⟨h1, h2, h3, _⟩ := poolKey_injective hl hu Base64.bytes_nil hl' hu' Base64.bytes_nil h
  exact hne (by rw [h1, h2, h3])

/-! ## who answers: the idle pool -/

/-- the clause of C06/C10 at stake: a request is answered by the backend of the registration that
    currently owns the route the request resolves to -/
def Fresh (s : St) (host path user : Str) (out : Out) : Prop :=
  ∀ o c r, out = .answered o c r → ∃ rt, routeOf s host path user = some rt ∧ rt.payload = o

instance (s : St) (host path user : Str) (out : Out) : Decidable (Fresh s host path user out) := by
  unfold Fresh
  cases out with
  | answered o c r =>
    exact decidable_of_iff (∃ rt, routeOf s host path user = some rt ∧ rt.payload = o)
      ⟨fun h _ _ _ e => by injection e with e1; subst e1; exact h, fun h => h o c r rfl⟩
  | ok => exact isTrue (by intro _ _ _ e; cases e)
  | conflict => exact isTrue (by intro _ _ _ e; cases e)
  | notFound => exact isTrue (by intro _ _ _ e; cases e)

/-- executable form used by the driver on the implementation's own answers -/
def freshB (s : St) (host path user : Str) (owner : Nat) : Bool :=
  match routeOf s host path user with
  | some rt => rt.payload = owner
  | none => false

theorem freshB_iff (s : St) (host path user : Str) (o c : Nat) (r : Bool) :
    freshB s host path user o = true ↔ Fresh s host path user (.answered o c r) := by
  unfold freshB Fresh
  constructor
  · intro h o' c' r' e
    injection e with e1; subst e1
    cases hr : routeOf s host path user with
    | none => simp [hr] at h
    | some rt => exact ⟨rt, rfl, by simpa [hr] using h⟩
  · intro h
    obtain ⟨rt, hr, hp⟩ := h o c r rfl
    simp [hr, hp]

private def wA : Str := [97]            -- domain "a"
private def wCfg (d : Str) : Cfg :=
  { rc := { domain := d, location := [], routeUser := [], rewriteHost := [], headers := [], respHeaders := [] },
    reachable := true }

/-- ops: A registers `a`, one keep-alive request, A unregisters, B registers `a`, next request -/
def staleOps : List Op :=
  [.reg 1 (wCfg wA), .serve wA [47] [] none none 10 true, .unreg wA [] [], .reg 2 (wCfg wA)]

/-- **witness (code as it is)**: after `staleOps` the request for `a` is answered by registration 1
    although the route now belongs to registration 2 -/
theorem pool_stale_owner_witness :
    let s := (run false St.init staleOps).1
    (step false s (.serve wA [47] [] none (some 10) 11 true)).2 = .answered 1 10 true ∧
    ¬ Fresh s wA [47] [] (step false s (.serve wA [47] [] none (some 10) 11 true)).2 := by
  decide +kernel

/-- the host spelled like the synthetic pool host of route (`a`, "", "") -/
def craftedHost : Str := poolKey wA [] [] []

/-- **witness (code as it is)**: no route matches `craftedHost`, yet the request is answered by
    registration 1 through its idle connection -/
theorem pool_noroute_witness :
    let s := (run false St.init [.reg 1 (wCfg wA), .serve wA [47] [] none none 10 true]).1
    routeOf s craftedHost [47] [] = none ∧
    (step false s (.serve craftedHost [47] [] none (some 10) 11 true)).2 = .answered 1 10 true := by
  decide +kernel

/-- the same two histories on the repaired model -/
theorem pool_witnesses_fixed :
    (let s := (run true St.init staleOps).1
     (step true s (.serve wA [47] [] none (some 10) 11 true)).2 = .answered 2 11 false) ∧
    (let s := (run true St.init [.reg 1 (wCfg wA), .serve wA [47] [] none none 10 true]).1
     (step true s (.serve craftedHost [47] [] none (some 10) 11 true)).2 = .notFound) := by
  decide +kernel

theorem takeIdle_some {idle : List (Key × Conn)} {k : Key} {c : Nat} {x : Conn}
    (h : takeIdle idle k c = some x) : (k, x) ∈ idle := by
  unfold takeIdle at h
  cases hf : idle.find? (fun e => e.1 = k ∧ e.2.id = c) with
  | none => rw [hf] at h; cases h
  | some e =>
    rw [hf] at h
    simp only [Option.map_some, Option.some.injEq] at h
    have hm := List.mem_of_find?_eq_some hf
    have hp := List.find?_some hf
    simp only [decide_eq_true_eq] at hp
    obtain ⟨ek, ec⟩ := e
    simp only at hp h
    rw [← hp.1, ← h]; exact hm

/-- **partial (code as it is)**: a request is answered by the current owner provided no idle
    connection under its key belongs to somebody else — the excluded case is exactly the one the
    witnesses exhibit -/
theorem pool_fresh_partial (s : St) (host path user : Str) (via : Option (Str × Option Str))
    (reuse : Option Nat) (newId : Nat) (keep : Bool)
    (hidle : ∀ c, (keyOf false s (routeOf s host path user) host via, c) ∈ s.idle →
              ∃ rt, routeOf s host path user = some rt ∧ rt.payload = c.owner) :
    Fresh s host path user (step false s (.serve host path user via reuse newId keep)).2 := by
  intro o c r hout
  simp only [step, Bool.false_eq_true, false_and, if_false] at hout
  split at hout
  · rename_i x hx
    injection hout with h1 _ _
    cases reuse with
    | none => simp at hx
    | some n =>
      simp only [Option.bind_some] at hx
      obtain ⟨rt, hrt, hp⟩ := hidle x (takeIdle_some hx)
      exact ⟨rt, hrt, by rw [hp, h1]⟩
  · split at hout
    · cases hout
    · rename_i rt hrt
      split at hout
      · split at hout
        · injection hout with h1 _ _
          exact ⟨rt, hrt, h1⟩
        · cases hout
      · cases hout

/-- invariant of the repaired model: an idle connection sits under a key that names its owner -/
def PoolInv (s : St) : Prop := ∀ e ∈ s.idle, e.1.nonce = some e.2.owner

theorem poolInv_init : PoolInv St.init := by intro e h; cases h

theorem keyOf_fixed_nonce {s : St} {rt : Route} {host : Str} {via : Option (Str × Option Str)} {c : Cfg}
    (hc : s.cfgOf rt.payload = some c) : (keyOf true s (some rt) host via).nonce = some rt.payload := by
  simp [keyOf, hc]

/-- the repaired `serve`, case by case -/
theorem serve_fixed_cases (s : St) (host path user : Str) (via : Option (Str × Option Str))
    (reuse : Option Nat) (newId : Nat) (keep : Bool) :
    let res := step true s (.serve host path user via reuse newId keep)
    (res = (s, .notFound)) ∨
    (∃ rt x, routeOf s host path user = some rt ∧
        (keyOf true s (some rt) host via, x) ∈ s.idle ∧ res.2 = .answered x.owner x.id true ∧
        ∀ e ∈ res.1.idle, e ∈ s.idle ∨ e = (keyOf true s (some rt) host via, x)) ∨
    (∃ rt cfg, routeOf s host path user = some rt ∧ s.cfgOf rt.payload = some cfg ∧
        res.2 = .answered rt.payload newId false ∧
        ∀ e ∈ res.1.idle, e ∈ s.idle ∨ e = (keyOf true s (some rt) host via, ⟨newId, rt.payload⟩)) := by
  simp only [step, true_and]
  cases hr : routeOf s host path user with
  | none => left; simp
  | some rt =>
    simp only [reduceCtorEq, if_false]
    cases hb : reuse.bind (takeIdle s.idle (keyOf true s (some rt) host via)) with
    | some x =>
      right; left
      have hx : (keyOf true s (some rt) host via, x) ∈ s.idle := by
        cases reuse with
        | none => simp at hb
        | some n => exact takeIdle_some (by simpa using hb)
      refine ⟨rt, x, rfl, hx, rfl, ?_⟩
      intro e he
      simp only at he
      have hsub : ∀ e ∈ dropIdle s.idle (keyOf true s (some rt) host via) x.id, e ∈ s.idle := by
        intro e he; unfold dropIdle at he; exact (List.mem_filter.1 he).1
      cases keep with
      | true =>
        simp only [if_true, List.mem_cons] at he
        rcases he with rfl | he
        · exact Or.inr rfl
        · exact Or.inl (hsub e he)
      | false =>
        simp only [Bool.false_eq_true, if_false] at he
        exact Or.inl (hsub e he)
    | none =>
      simp only
      cases hc : s.cfgOf rt.payload with
      | none => left; rfl
      | some cfg =>
        simp only
        cases hre : cfg.reachable with
        | false => left; simp
        | true =>
          right; right
          refine ⟨rt, cfg, rfl, hc, by simp, ?_⟩
          intro e he
          simp only [if_true] at he
          cases keep with
          | true =>
            simp only [if_true, List.mem_cons] at he
            rcases he with rfl | he
            · exact Or.inr rfl
            · exact Or.inl he
          | false =>
            simp only [Bool.false_eq_true, if_false] at he
            exact Or.inl he

/-- one step of the repaired model keeps the invariant -/
theorem step_fixed_inv (s : St) (op : Op) (hinv : PoolInv s) : PoolInv (step true s op).1 := by
  cases op with
  | reg id c =>
    simp only [step]
    split
    · exact hinv
    · exact hinv
  | unreg d l u => exact hinv
  | serve host path user via reuse newId keep =>
    rcases serve_fixed_cases s host path user via reuse newId keep with h | ⟨rt, x, _, hx, _, hsub⟩ | ⟨rt, cfg, _, hc, _, hsub⟩
    · rw [h]; exact hinv
    · intro e he
      rcases hsub e he with h | rfl
      · exact hinv e h
      · exact hinv _ hx
    · intro e he
      rcases hsub e he with h | rfl
      · exact hinv e h
      · exact keyOf_fixed_nonce hc

/-- … and answers freshly -/
theorem serve_fixed_fresh (s : St) (hinv : PoolInv s) (host path user : Str) (via : Option (Str × Option Str))
    (reuse : Option Nat) (newId : Nat) (keep : Bool) :
    Fresh s host path user (step true s (.serve host path user via reuse newId keep)).2 := by
  intro o c r hout
  rcases serve_fixed_cases s host path user via reuse newId keep with h | ⟨rt, x, hr, hx, hres, _⟩ | ⟨rt, cfg, hr, _, hres, _⟩
  · rw [h] at hout; cases hout
  · rw [hres] at hout
    injection hout with h1 _ _
    have hown := hinv _ hx
    simp only at hown
    refine ⟨rt, hr, ?_⟩
    cases hc : s.cfgOf rt.payload with
    | none => simp [keyOf, hc] at hown
    | some cfg => rw [keyOf_fixed_nonce hc] at hown; injection hown with h; rw [h, h1]
  · rw [hres] at hout
    injection hout with h1 _ _
    exact ⟨rt, hr, h1⟩

theorem run_fixed_inv (ops : List Op) (s : St) (hinv : PoolInv s) : PoolInv (run true s ops).1 := by
  induction ops generalizing s with
  | nil => exact hinv
  | cons o os ih =>
    simp only [run]
    exact ih _ (step_fixed_inv s o hinv)

/-- **repaired model, full statement**: after ANY history of registrations, unregistrations and
    requests (any reuse choices of the Transport), every request is answered by the registration
    that currently owns the route it resolves to — in particular never by a former owner and never
    without a route -/
theorem pool_fresh_fixed (ops : List Op) (host path user : Str) (via : Option (Str × Option Str))
    (reuse : Option Nat) (newId : Nat) (keep : Bool) :
    Fresh (run true St.init ops).1 host path user
      (step true (run true St.init ops).1 (.serve host path user via reuse newId keep)).2 :=
  serve_fixed_fresh _ (run_fixed_inv ops St.init poolInv_init) _ _ _ _ _ _ _

/-! ## executable predicates for the driver (evaluated on the implementation's own results) -/

/-- all keys of a header map -/
def keysOf (h : Hdr) : List Str := h.map (·.1)

/-- the request the backend saw satisfies every request clause -/
def reqHolds (rc : Option RouteCfg) (q : Req) (ip : Str) (seen : Req) : Bool :=
  let ks := keysOf seen.hdr ++ keysOf q.hdr ++ cfgKeys rc ++ [kXFF, kXFH, kXFP, kForwarded]
  decide (seen.method = q.method ∧ seen.absForm = q.absForm ∧ seen.path = q.path ∧ seen.query = q.query ∧
          seen.body = q.body) &&
  decide (seen.host = match rc with
                      | some c => if c.rewriteHost ≠ [] then c.rewriteHost else q.host
                      | none => q.host) &&
  ks.all (fun k =>
    -- end-to-end keys unchanged
    (decide (k ∈ touched rc q) || decide (get seen.hdr k = get q.hdr k)) &&
    -- configured keys carry the configured value
    (match lastSet (cfgSets rc) k with
     | some v => decide (k = kUA ∨ k = kAE ∨ k ∈ wireExcluded) || decide (get seen.hdr k = [v])
     | none => true)) &&
  (decide (kXFF ∈ cfgKeys rc) ||
    decide (get seen.hdr kXFF = [if get q.hdr kXFF ≠ [] then joinCS (get q.hdr kXFF) ++ 44 :: 32 :: ip else ip])) &&
  (decide (kXFH ∈ cfgKeys rc) || decide (get seen.hdr kXFH = [q.host])) &&
  (decide (kXFP ∈ cfgKeys rc) || decide (get seen.hdr kXFP = [ofString "http"])) &&
  (decide (kForwarded ∈ cfgKeys rc) || decide (get seen.hdr kForwarded = []))

/-- the model's own output satisfies the predicate (so a `prop=FAILS` is never the model's doing) -/
theorem model_reqHolds (rc : Option RouteCfg) (q : Req) (ip : Str) :
    reqHolds rc q ip (backendSees rc q (some ip) false) = true := by
  unfold reqHolds
  have hl := request_line_body_untouched rc q (some ip) false
  simp only at hl
  simp only [Bool.and_eq_true, Bool.or_eq_true, decide_eq_true_eq, List.all_eq_true]
  refine ⟨⟨⟨⟨⟨⟨⟨hl.1, hl.2.1, hl.2.2.1, hl.2.2.2.1, hl.2.2.2.2.1⟩, host_spec rc q _ _⟩, ?_⟩, ?_⟩, ?_⟩, ?_⟩, ?_⟩
  · intro k _
    refine ⟨?_, ?_⟩
    · by_cases ht : k ∈ touched rc q
      · exact Or.inl ht
      · exact Or.inr (request_headers_preserved rc q _ _ k ht)
    · cases hv : lastSet (cfgSets rc) k with
      | none => rfl
      | some v =>
        simp only [Bool.or_eq_true, decide_eq_true_eq]
        by_cases hx : k = kUA ∨ k = kAE ∨ k ∈ wireExcluded
        · exact Or.inl hx
        · simp only [not_or] at hx
          exact Or.inr (configured_header_spec rc q _ _ k v hv hx.1 hx.2.1 hx.2.2)
  · by_cases hc : kXFF ∈ cfgKeys rc
    · exact Or.inl hc
    · exact Or.inr (xff_spec rc q ip false hc)
  · by_cases hc : kXFH ∈ cfgKeys rc
    · exact Or.inl hc
    · exact Or.inr (xfh_spec rc q _ false hc)
  · by_cases hc : kXFP ∈ cfgKeys rc
    · exact Or.inl hc
    · exact Or.inr (xfp_spec rc q _ hc)
  · by_cases hc : kForwarded ∈ cfgKeys rc
    · exact Or.inl hc
    · exact Or.inr (forwarded_stripped rc q _ false hc)

/-- keys a plugin may legitimately change -/
def pluginTouched (sets : List (Str × Str)) (q : Req) : List Str :=
  sets.map (fun kv => canonKey kv.1) ++ [kXFF, kXFH, kXFP, kForwarded, kUA, kAE] ++
    connNamed q.hdr ++ hopHeaders ++ wireExcluded

/-- executable predicate for the driver: what the service behind a plugin received keeps the
    request line, the body, every end-to-end header, and the X-Forwarded-For chain (handed through
    by the http2* plugins, extended by the peer address by the https2* plugins) -/
def plugHolds (kind : PluginKind) (hr : Str) (sets : List (Str × Str)) (q : Req) (ip : Str) (seen : Req) : Bool :=
  decide (seen.method = q.method ∧ seen.absForm = q.absForm ∧ seen.path = q.path ∧ seen.query = q.query ∧
          seen.body = q.body) &&
  decide (seen.host = if hr ≠ [] then hr else q.host) &&
  (keysOf seen.hdr ++ keysOf q.hdr).all (fun k =>
    decide (k ∈ pluginTouched sets q) || decide (get seen.hdr k = get q.hdr k)) &&
  (decide (lastSet sets kXFF ≠ none) ||
    (match kind with
     | .h2h => decide (get seen.hdr kXFF = get q.hdr kXFF)
     | .h2hs => decide (get seen.hdr kXFF = get q.hdr kXFF)
     | _ => decide (get seen.hdr kXFF =
              [if get q.hdr kXFF ≠ [] then joinCS (get q.hdr kXFF) ++ 44 :: 32 :: ip else ip])))

/-- the repaired plugin model satisfies the predicate for all four plugins -/
theorem model_plugHolds (kind : PluginKind) (hr : Str) (sets : List (Str × Str)) (q : Req) (ip : Str) :
    plugHolds kind hr sets q ip (pluginSees true kind hr sets q (some ip)) = true := by
  unfold plugHolds
  simp only [Bool.and_eq_true, Bool.or_eq_true, decide_eq_true_eq, List.all_eq_true]
  refine ⟨⟨⟨by simp [pluginSees], by simp [pluginSees]⟩, ?_⟩, ?_⟩
  · intro k _
    by_cases ht : k ∈ pluginTouched sets q
    · exact Or.inl ht
    · exact Or.inr (plugin_headers_preserved true kind hr sets q _ k ht)
  · cases hc : lastSet sets kXFF with
    | some v => left; simp
    | none =>
      right
      cases kind with
      | h2h => simpa using plugin_copy_keeps_forwarded .h2h (Or.inr rfl) hr sets q _ kXFF (Or.inl rfl) hc
      | h2hs => simpa using plugin_copy_keeps_forwarded .h2hs (Or.inl rfl) hr sets q _ kXFF (Or.inl rfl) hc
      | hs2h => simpa using plugin_tls_xff true .hs2h (Or.inl rfl) hr sets q ip hc
      | hs2hs => simpa using plugin_tls_xff true .hs2hs (Or.inr rfl) hr sets q ip hc

/-- the answer the user saw satisfies every response clause -/
def respHolds (rc : Option RouteCfg) (m : Str) (r : Resp) (seen : Resp) : Bool :=
  let ks := keysOf seen.hdr ++ keysOf r.hdr ++ (cfgRespSets rc).map (fun kv => canonKey kv.1)
  decide (seen.status = r.status) &&
  decide (seen.body = if m = ofString "HEAD" then [] else r.body) &&
  ks.all (fun k =>
    (decide (k ∈ respTouched rc r) || decide (get seen.hdr k = get r.hdr k)) &&
    (match lastSet (cfgRespSets rc) k with
     | some v => decide (k ∈ [kCL, kTE, kDate, kCT]) || decide (get seen.hdr k = [v])
     | none => true))

theorem model_respHolds (rc : Option RouteCfg) (m : Str) (r : Resp) :
    respHolds rc m r (userSees rc m r) = true := by
  unfold respHolds
  have hs := response_status_body rc m r
  simp only [Bool.and_eq_true, Bool.or_eq_true, decide_eq_true_eq, List.all_eq_true]
  refine ⟨⟨hs.1, hs.2⟩, ?_⟩
  intro k _
  refine ⟨?_, ?_⟩
  · by_cases ht : k ∈ respTouched rc r
    · exact Or.inl ht
    · exact Or.inr (response_headers_preserved rc m r k ht)
  · cases hv : lastSet (cfgRespSets rc) k with
    | none => rfl
    | some v =>
      simp only [Bool.or_eq_true, decide_eq_true_eq]
      by_cases hx : k ∈ [kCL, kTE, kDate, kCT]
      · exact Or.inl hx
      · exact Or.inr (response_configured rc m r k v hv hx)

/-! ## time: streamed bodies, tunnels, the response-header timeout

  Model: Frp/Model/HttpTime.lean.  `L.reqCtx = none` is what pkg/util/vhost/http.go does (the request
  context gets values, never a deadline); `frpLimits` is that instance.  The clauses are stated for
  EVERY time line: any work-connection wait, any pace of upload and download, any idle period inside
  a tunnel — in particular exchanges that last (much) longer than the response-header timeout. -/
section Time
open HttpTime

theorem deliver_none (t : Nat) (ps : List Piece) :
    deliver none t ps = (cat ps, t + dur ps, false) := by
  induction ps generalizing t with
  | nil => simp [deliver, cat, dur]
  | cons p ps ih => simp [deliver, expired, ih, cat, dur, Nat.add_assoc]

/-- the configured timeout is always a positive finite time (`<= 0` means 60 s): an exchange whose
    backend stays silent is never waited for for ever -/
theorem headerTimeout_pos (s : Int) : 0 < headerTimeoutMs s := by
  unfold headerTimeoutMs
  split
  · omega
  · omega

/-- **streamed bodies of any duration**: if the response header block arrives within the timeout,
    the backend receives every request-body byte and the user every response-body byte, in order,
    and the user's read ends at the end of the body — whatever the dial time, the pace of the upload
    and the pace of the download (nothing bounds the exchange as a whole) -/
theorem streamed_exchange_complete (L : Limits) (hL : L.reqCtx = none) (x : Exchange) (h : Nat)
    (hth : x.think = some h) (hlt : h < L.respHeader) :
    relay L x = { answer := .backend, answerAt := x.dial + dur x.upload + h, up := cat x.upload,
                  down := cat x.download, complete := true } := by
  simp [relay, hL, expired, deliver_none, hth, hlt]

/-- the same for frp's own limits, any `vhostHTTPTimeout` -/
theorem frp_streamed_exchange_complete (s : Int) (x : Exchange) (h : Nat)
    (hth : x.think = some h) (hlt : h < headerTimeoutMs s) :
    (relay (frpLimits s) x).answer = .backend ∧ (relay (frpLimits s) x).up = cat x.upload ∧
    (relay (frpLimits s) x).down = cat x.download ∧ (relay (frpLimits s) x).complete = true := by
  rw [streamed_exchange_complete (frpLimits s) rfl x h hth hlt]
  simp

/-- **response-header timeout**: a backend that does not send its header block within the timeout
    gives the 504 answer exactly `respHeader` after the request was written (bounded, no hang); the
    request body was still delivered in full -/
theorem header_timeout_bounded (L : Limits) (hL : L.reqCtx = none) (x : Exchange)
    (hth : x.think = none ∨ ∃ h, x.think = some h ∧ L.respHeader ≤ h) :
    (relay L x).answer = .gatewayTimeout ∧ (relay L x).answerAt = x.dial + dur x.upload + L.respHeader ∧
    (relay L x).up = cat x.upload ∧ (relay L x).down = [] := by
  rcases hth with hn | ⟨h, hs, hle⟩
  · simp [relay, hL, expired, deliver_none, hn, giveUpAt]
  · have : ¬ h < L.respHeader := by omega
    simp [relay, hL, expired, deliver_none, hs, this, giveUpAt]

/-- the timeout is about the header block ONLY: which of the two answers the user gets is decided
    by `think` alone -/
theorem answer_backend_iff (L : Limits) (hL : L.reqCtx = none) (x : Exchange) :
    (relay L x).answer = .backend ↔ ∃ h, x.think = some h ∧ h < L.respHeader := by
  constructor
  · intro ha
    cases hth : x.think with
    | none => rw [(header_timeout_bounded L hL x (Or.inl hth)).1] at ha; cases ha
    | some h =>
      by_cases hlt : h < L.respHeader
      · exact ⟨h, rfl, hlt⟩
      · rw [(header_timeout_bounded L hL x (Or.inr ⟨h, hth, by omega⟩)).1] at ha; cases ha
  · rintro ⟨h, hth, hlt⟩
    rw [streamed_exchange_complete L hL x h hth hlt]

/-- **why `reqCtx = none` is needed**: under ANY deadline on the request context there is an
    exchange whose header block arrives at once and whose body is nevertheless cut (a whole-exchange
    deadline is not a response-header timeout) -/
theorem ctx_deadline_cuts_stream (L : Limits) (d : Nat) (hL : L.reqCtx = some d) (hpos : 0 < L.respHeader) :
    ∃ x : Exchange, x.think = some 0 ∧ (relay L x).complete = false ∧
      (relay { L with reqCtx := none } x).complete = true := by
  refine ⟨{ dial := 0, upload := [], think := some 0, download := [⟨d, [0]⟩] }, rfl, ?_, ?_⟩
  · by_cases hd : d = 0
    · simp [relay, hL, expired, hd]
    · have h0 : ¬ d ≤ 0 := by omega
      simp [relay, hL, expired, deliver, hpos, h0]
  · rw [streamed_exchange_complete { L with reqCtx := none } rfl _ 0 rfl hpos]

theorem tunnel_none (t : Nat) (ps : List TPiece) :
    tunnel none t ps = (ps.map (fun p => (p.dir, p.data)), false) := by
  induction ps generalizing t with
  | nil => simp [tunnel]
  | cons p ps ih => simp [tunnel, expired, ih]

/-- **CONNECT tunnels** (`connectHandler`, no clock at all): every piece of either direction is
    relayed, in order, whatever the idle periods -/
theorem connect_tunnel_transparent (t : Nat) (ps : List TPiece) :
    (tunnel none t ps).1 = ps.map (fun p => (p.dir, p.data)) ∧ (tunnel none t ps).2 = false := by
  rw [tunnel_none]; exact ⟨rfl, rfl⟩

/-- **protocol upgrades**: once the 101 arrived within the timeout the tunnel relays every piece of
    either direction, in order, whatever the idle periods and however long it stays open -/
theorem upgrade_tunnel_transparent (L : Limits) (hL : L.reqCtx = none) (dial think : Nat)
    (hlt : think < L.respHeader) (ps : List TPiece) :
    upgrade L dial think ps = (.backend, ps.map (fun p => (p.dir, p.data)), false) := by
  unfold upgrade
  rw [streamed_exchange_complete L hL _ think rfl hlt]
  simp [hL, tunnel_none]

/-- under any deadline on the request context some upgraded connection is closed while in use -/
theorem ctx_deadline_cuts_tunnel (L : Limits) (d : Nat) (hL : L.reqCtx = some d) (hpos : 0 < L.respHeader) :
    ∃ ps : List TPiece, (upgrade L 0 0 ps).2.2 = true ∧
      (upgrade { L with reqCtx := none } 0 0 ps).2.2 = false := by
  refine ⟨[⟨d, .up, [0]⟩], ?_, ?_⟩
  · by_cases hd : d = 0
    · simp [upgrade, relay, hL, expired, hd]
    · have h0 : ¬ d ≤ 0 := by omega
      simp [upgrade, relay, hL, expired, deliver, hpos, h0, tunnel]
  · rw [upgrade_tunnel_transparent { L with reqCtx := none } rfl 0 0 hpos]

/-- `ServeHTTP` hands the reverse proxy a writer that can be hijacked, so an upgrade IS the model's
    `upgrade` (and not the error answer) -/
theorem frp_upgrade_switches (L : Limits) (dial think : Nat) (ps : List TPiece) :
    upgradeThrough frpRW L dial think ps = some (upgrade L dial think ps) := rfl

/-- why the capability matters: behind a writer that is not a Hijacker no upgrade ever becomes a tunnel -/
theorem upgrade_needs_hijacker (L : Limits) (dial think : Nat) (ps : List TPiece) :
    upgradeThrough { hijacker := false } L dial think ps = none := rfl

/-- executable predicate for upgrade / CONNECT ops, evaluated on the implementation's own result:
    `reached` = a backend received the handshake of THIS op (and, being the recording backend, accepted
    it with 101 / 200), `fresh` = `freshB` for that backend, `st` = the status the user got, `want` =
    101 (upgrade) or 200 (CONNECT), `upOk` / `downOk` = every tunnel byte of that direction arrived
    (len + FNV), `page` = the user got frp's not-found page.  The backend's acceptance must reach the
    user and the connection must then be a byte-transparent tunnel; without a backend the only answer
    is 404 + page. -/
def tunnelHolds (reached fresh : Bool) (st want : Nat) (upOk downOk page : Bool) : Bool :=
  if reached then fresh && decide (st = want) && upOk && downOk else decide (st = 404) && page

theorem tunnelHolds_sound (reached fresh : Bool) (st want : Nat) (upOk downOk page : Bool) :
    tunnelHolds reached fresh st want upOk downOk page = true ↔
      (reached = true → fresh = true ∧ st = want ∧ upOk = true ∧ downOk = true) ∧
      (reached = false → st = 404 ∧ page = true) := by
  cases reached <;> simp [tunnelHolds, and_assoc]

/-- the model of the code as it is meets the predicate for every time line: the 101 arrives, and what
    the tunnel relays is, per direction, exactly what was sent -/
theorem tunnelHolds_model (L : Limits) (hL : L.reqCtx = none) (dial think : Nat)
    (hlt : think < L.respHeader) (ps : List TPiece) :
    ∃ rel, upgradeThrough frpRW L dial think ps = some (.backend, rel, false) ∧
      tunnelHolds true true 101 101
        (dirData .up rel == dirData .up (ps.map (fun p => (p.dir, p.data))))
        (dirData .down rel == dirData .down (ps.map (fun p => (p.dir, p.data)))) false = true := by
  refine ⟨ps.map (fun p => (p.dir, p.data)), ?_, ?_⟩
  · rw [frp_upgrade_switches, upgrade_tunnel_transparent L hL dial think hlt]
  · simp [tunnelHolds]

/-- executable predicate for the driver, evaluated on what the implementation reported for an
    exchange with time line outcome `o` (an untimed exchange is the time line without gaps):
    `reached` = the backend recorded the complete request, `st504` = the user got 504 with an empty
    body, `reqOk` / `respOk` = `freshB` + `reqHolds` / `respHolds` (bodies byte for byte) on what the
    backend / the user received, `endOk` = the user's read ended at the end of the body.
    When the model says the backend answers in time, the backend must have been reached and the
    whole answer relayed; a 504 is acceptable only when the header block is late. -/
def timedHolds (o : Outcome) (reached st504 reqOk respOk endOk : Bool) : Bool :=
  match o.answer with
  | .backend => reached && reqOk && respOk && endOk && o.complete
  | .gatewayTimeout => st504 && (!reached || reqOk)

/-- the predicate never asks for more than the model delivers: for frp's limits and a header block
    inside the timeout it reduces to "reached, both predicates hold, body ended properly" -/
theorem timedHolds_frp (s : Int) (x : Exchange) (h : Nat) (hth : x.think = some h) (hlt : h < headerTimeoutMs s)
    (st504 reqOk respOk endOk : Bool) :
    timedHolds (relay (frpLimits s) x) true st504 reqOk respOk endOk = (reqOk && respOk && endOk) := by
  rw [streamed_exchange_complete (frpLimits s) rfl x h hth hlt]
  simp [timedHolds]

/-- non-vacuity: a download of 2.5 s under `vhostHTTPTimeout = 1` is relayed in full by the model of
    the code as it is, and is cut after the pieces of the first second under a 1 s context deadline -/
example :
    let x : Exchange := { dial := 0, upload := [⟨700, [1]⟩, ⟨700, [2]⟩], think := some 100,
                              download := [⟨0, [3]⟩, ⟨800, [4]⟩, ⟨800, [5]⟩, ⟨900, [6]⟩] }
    (relay (frpLimits 1) x).down = [3, 4, 5, 6] ∧ (relay (frpLimits 1) x).complete = true ∧
    (relay (frpLimits 1) x).up = [1, 2] ∧
    (relay { respHeader := 1000, reqCtx := some 3000 } x).down = [3, 4] ∧
    (relay { respHeader := 1000, reqCtx := some 3000 } x).complete = false ∧
    (relay (frpLimits 1) { x with think := some 1000 }).answer = .gatewayTimeout ∧
    (relay (frpLimits 1) { x with think := some 1000 }).answerAt = 2400 := by
  decide +kernel

end Time

/-! ## end to end: the exchange through the tunnel (every tunnel option, every burst)

  Between frps' `http.Transport` and the local service lies the work connection with the wrappers of
  server/proxy/http.go `GetRealConn` on one end (`Layers.httpRealConnStack`: encryption, compression,
  server-side limiter) and those of client/proxy/proxy.go `HandleTCPWorkConnection` on the other
  (`Layers.clientStack`: client-side limiter, encryption, compression).  C01 proves that pair byte
  transparent for every option combination (`C01.tunnel_down_complete`, `C01.tunnel_up_complete`; the
  limiter's part is `C01.writer_chunks`).  Composed with the body clauses above: whatever the rewrite
  hook leaves of a request / an answer is what the other side of the tunnel receives — for any lawful
  cipher / compression layers, any write pattern of the sender, any chunking of the wire, any
  framing `frame` (identity for Content-Length, chunked encoding, …: net/http's, opaque here) and any
  serialised header block `head`. -/
section Tunnel
open Layers Limit

/-- server/proxy/http.go `GetRealConn`: the wrappers frps puts on the work connection of an http
    proxy, as one layer -/
def httpServerLayer (encL compL : Layer) (burst : Nat) (o : Opts) : Layer :=
  stackLayer (instantiate encL compL burst (httpRealConnStack o))

/-- it is the stack of `handleUserTCPConnection` (same wrappers, same order) -/
theorem httpServerLayer_eq (encL compL : Layer) (burst : Nat) (o : Opts) :
    httpServerLayer encL compL burst o = C01.serverLayer encL compL burst o := rfl

/-- **request, complete**: the `Transport` writes the request of `backendSees` in any pieces `ps`; once
    the wire carried all of it, the local service has received the header block followed by the
    body the USER sent, framed as sent — for every option combination and every burst > 0 -/
theorem e2e_request_delivered {encL compL : Layer} (he : Lawful encL) (hc : Lawful compL)
    (burst : Nat) (hb : 0 < burst) (o : Opts)
    (rc : Option RouteCfg) (q : Req) (peer : Option Str) (tls : Bool)
    (head : C01Bytes) (frame : Str → C01Bytes) (ps cs : List C01Bytes)
    (hps : ps.flatten = head ++ frame (backendSees rc q peer tls).body)
    (hw : cs.flatten = ((httpServerLayer encL compL burst o).Eout ps).flatten) :
    (C01.clientLayer encL compL burst o).Dout cs = head ++ frame q.body := by
  rw [C01.tunnel_down_complete he hc burst hb o ps cs hw, hps,
      (request_line_body_untouched rc q peer tls).2.2.2.2.1]

/-- **request, at any moment**: whatever part of the wire arrived so far, in whatever chunking, what
    the local service has received is a prefix of that — never other bytes -/
theorem e2e_request_prefix {encL compL : Layer} (he : Lawful encL) (hc : Lawful compL)
    (burst : Nat) (hb : 0 < burst) (o : Opts)
    (rc : Option RouteCfg) (q : Req) (peer : Option Str) (tls : Bool)
    (head : C01Bytes) (frame : Str → C01Bytes) (ps cs : List C01Bytes)
    (hps : ps.flatten = head ++ frame (backendSees rc q peer tls).body)
    (hw : cs.flatten <+: ((httpServerLayer encL compL burst o).Eout ps).flatten) :
    (C01.clientLayer encL compL burst o).Dout cs <+: head ++ frame q.body := by
  have h := C01.tunnel_down_prefix he hc burst hb o ps cs hw
  rwa [hps, (request_line_body_untouched rc q peer tls).2.2.2.2.1] at h

/-- **answer, complete**: the local service writes its answer (header block, framed body `r.body`) in
    any pieces `rs`; once the wire carried all of it the `Transport` has read exactly that, and the
    user is given status and body of `r` -/
theorem e2e_response_delivered {encL compL : Layer} (he : Lawful encL) (hc : Lawful compL)
    (burst : Nat) (hb : 0 < burst) (o : Opts)
    (rc : Option RouteCfg) (m : Str) (r : Resp)
    (head : C01Bytes) (frame : Str → C01Bytes) (rs cs : List C01Bytes)
    (hrs : rs.flatten = head ++ frame r.body)
    (hw : cs.flatten = ((C01.clientLayer encL compL burst o).Eout rs).flatten) :
    (httpServerLayer encL compL burst o).Dout cs = head ++ frame r.body ∧
    (userSees rc m r).status = r.status ∧
    (userSees rc m r).body = if m = ofString "HEAD" then [] else r.body := by
  refine ⟨?_, response_status_body rc m r⟩
  rw [httpServerLayer_eq, C01.tunnel_up_complete he hc burst hb o rs cs hw, hrs]

theorem e2e_response_prefix {encL compL : Layer} (he : Lawful encL) (hc : Lawful compL)
    (burst : Nat) (hb : 0 < burst) (o : Opts) (r : Resp)
    (head : C01Bytes) (frame : Str → C01Bytes) (rs cs : List C01Bytes)
    (hrs : rs.flatten = head ++ frame r.body)
    (hw : cs.flatten <+: ((C01.clientLayer encL compL burst o).Eout rs).flatten) :
    (httpServerLayer encL compL burst o).Dout cs <+: head ++ frame r.body := by
  have h := C01.tunnel_up_prefix he hc burst hb o rs cs hw
  rwa [hrs] at h

/-- **the whole exchange**, all tunnel options at once: request and answer bodies cross the tunnel
    unchanged whatever `useEncryption`, `useCompression`, `bandwidthLimit` (> 0, either mode) are -/
theorem e2e_exchange_transparent {encL compL : Layer} (he : Lawful encL) (hc : Lawful compL)
    (rc : Option RouteCfg) (q : Req) (peer : Option Str) (tls : Bool) (r : Resp)
    (hq hr : C01Bytes) (frame : Str → C01Bytes) (ps rs : List C01Bytes)
    (hps : ps.flatten = hq ++ frame (backendSees rc q peer tls).body)
    (hrs : rs.flatten = hr ++ frame r.body) :
    ∀ (o : Opts) (burst : Nat), 0 < burst →
      (∀ cs, cs.flatten = ((httpServerLayer encL compL burst o).Eout ps).flatten →
        (C01.clientLayer encL compL burst o).Dout cs = hq ++ frame q.body) ∧
      (∀ cs, cs.flatten = ((C01.clientLayer encL compL burst o).Eout rs).flatten →
        (httpServerLayer encL compL burst o).Dout cs = hr ++ frame r.body) ∧
      (userSees rc q.method r).status = r.status ∧
      (q.method ≠ ofString "HEAD" → (userSees rc q.method r).body = r.body) := by
  intro o burst hb
  refine ⟨fun cs hw => e2e_request_delivered he hc burst hb o rc q peer tls hq frame ps cs hps hw,
          fun cs hw => (e2e_response_delivered he hc burst hb o rc q.method r hr frame rs cs hrs hw).1,
          (response_status_body rc q.method r).1, fun hm => ?_⟩
  rw [(response_status_body rc q.method r).2, if_neg hm]

/-- **the limiter's share**: ONE `Write` of a body of ANY size through `limit.Writer` (the 16 KiB /
    32 KiB copy buffers of `libio.Join` / `http.Transport` are larger than a small `bandwidthLimit`)
    leaves as pieces that concatenate to the body, each `WaitN` request is for the piece itself and
    never exceeds the burst (so `WaitN` cannot refuse it), and the `n` returned is `len(p)` -/
theorem limited_write_whole (b : Nat) (hb : 0 < b) (p : C01Bytes) :
    (chunks b p).flatten = p ∧ (∀ x ∈ writerTrace b p, x.1 ≤ b ∧ x.1 = x.2.length) ∧
    writerN b p = p.length :=
  ⟨C01.writer_chunks b hb p, C01.writer_requests_admissible b hb p, (C01.writer_tokens b hb p).2⟩

/-- what engine `httpe2e` observed of one exchange through a real frps + frpc pair -/
structure E2eObs where
  beOk     : Bool      -- the request reached the backend of the proxy its Host names
  tagOk    : Bool      -- the answer the user got is that backend's
  lineOk   : Bool      -- method and request target as sent
  upWant   : Str       -- request body sent (value: `len.fnv`, or the bytes themselves when short)
  upGot    : Str       -- request body the backend received
  stWant   : Nat
  st       : Nat
  downWant : Str
  downGot  : Str
  ended    : Bool      -- the user's read ended at the end of the body
deriving DecidableEq, Repr

/-- executable predicate for the driver, evaluated on the implementation's own result -/
def e2eHolds (o : E2eObs) : Bool :=
  o.beOk && o.tagOk && o.lineOk && o.upGot == o.upWant && o.st == o.stWant && o.downGot == o.downWant && o.ended

theorem e2eHolds_sound (o : E2eObs) :
    e2eHolds o = true ↔ o.beOk = true ∧ o.tagOk = true ∧ o.lineOk = true ∧ o.upGot = o.upWant ∧
      o.st = o.stWant ∧ o.downGot = o.downWant ∧ o.ended = true := by
  simp [e2eHolds, and_assoc]

/-- the predicate asks for no more than the theorems give: an observation made of what the model's
    tunnel delivers (both directions complete) satisfies it, for every option combination -/
theorem model_e2eHolds {encL compL : Layer} (he : Lawful encL) (hc : Lawful compL)
    (burst : Nat) (hb : 0 < burst) (o : Opts)
    (rc : Option RouteCfg) (q : Req) (peer : Option Str) (tls : Bool) (r : Resp)
    (ps rs : List C01Bytes)
    (hps : ps.flatten = (backendSees rc q peer tls).body) (hrs : rs.flatten = r.body) :
    e2eHolds { beOk := true, tagOk := true, lineOk := true,
               upWant := q.body,
               upGot := (C01.clientLayer encL compL burst o).Dout ((httpServerLayer encL compL burst o).Eout ps),
               stWant := r.status, st := (userSees rc q.method r).status,
               downWant := r.body,
               downGot := (httpServerLayer encL compL burst o).Dout ((C01.clientLayer encL compL burst o).Eout rs),
               ended := true } = true := by
  have h1 := e2e_request_delivered he hc burst hb o rc q peer tls [] id ps _ (by simpa using hps) rfl
  have h2 := e2e_response_delivered he hc burst hb o rc q.method r [] id rs _ (by simpa using hrs) rfl
  simp only [List.nil_append, id] at h1 h2
  simp [e2eHolds, h1, h2.1, h2.2.1]

/-- non-vacuity: cipher- and compression-shaped lawful layers exist (`C01.toyEnc`, `C01.toyComp`); a
    7-byte body written as [2 bytes][5 bytes] through encryption + compression + a server-side
    limiter of burst 3 arrives whole, and so does the answer on the way back -/
example : (C01.clientLayer C01.toyEnc C01.toyComp 3 ⟨true, true, true, false⟩).Dout
    ((httpServerLayer C01.toyEnc C01.toyComp 3 ⟨true, true, true, false⟩).Eout [[1, 2], [3, 4, 5, 6, 7]]) = [1, 2, 3, 4, 5, 6, 7] := by
  decide
example : (httpServerLayer C01.toyEnc C01.toyComp 3 ⟨true, true, false, true⟩).Dout
    ((C01.clientLayer C01.toyEnc C01.toyComp 3 ⟨true, true, false, true⟩).Eout [[1, 2, 3, 4, 5, 6, 7]]) = [1, 2, 3, 4, 5, 6, 7] := by
  decide
example : chunks 3 [1, 2, 3, 4, 5, 6, 7] = [[1, 2, 3], [4, 5, 6], [7]] ∧
    (writerTrace 3 [1, 2, 3, 4, 5, 6, 7]).map (·.1) = [3, 3, 1] := by decide

end Tunnel


/-! ## concurrent exchanges: the pooled compression objects, and who may still use them

  `useCompression` on frpc takes the snappy reader and writer of a work connection from ONE process-wide
  `sync.Pool` (golib `WithCompressionFromPool`).  An object that goes back to the pool while somebody still
  reads or writes through it is `Reset` onto the stream of the NEXT work connection: from then on the first
  user's bytes are decoded from / written into the second user's stream (hung requests, answers on another
  user's connection).  client/proxy/proxy.go `HandleTCPWorkConnection` recycles only after `libio.Join`
  returned (plain path) and NEVER on the plugin path, where `Handle` of the HTTP plugins merely queues the
  connection for the plugin's http.Server and returns (`CodecPool.frpDisc`). -/
section Concurrent
open CodecPool

/-- what client/proxy/proxy.go does is a safe discipline -/
theorem codec_frp_safe : Safe frpDisc := by decide

/-- tie to the source: the recycle sites that translate/gen_codecfacts.go reads from client/proxy/proxy.go on every
    run (`Gen.CodecFacts.disc`) are the hand-written `frpDisc` … -/
theorem codec_source_disc : Gen.CodecFacts.disc = frpDisc := by decide

/-- … so the code as it is on disk follows a safe discipline (breaks when a recycle site is added or moved) -/
theorem codec_source_safe : Safe Gen.CodecFacts.disc := by decide

/-- … and `Handle` of the four HTTP plugins only queues the connection: it stays in use after
    HandleTCPWorkConnection returned, which is why the plugin path of the model keeps it live until `done` -/
theorem codec_source_plugins_queue :
    ∀ p ∈ ["http2http", "http2https", "https2http", "https2https"], p ∈ Gen.CodecFacts.queueingPlugins := by decide

/-- **no sharing, all interleavings**: under a safe discipline, after ANY sequence of events (work connections
    of the plain and the plugin path starting, reading / writing, returning, failing, ending, in any order, any
    number of them alive at once) and for ANY choices of `sync.Pool.Get`, no two live connections hold the
    same object -/
theorem codec_exclusive (d : Disc) (hd : Safe d) (evs : List Ev) :
    exclusive (run d St.init evs).1 = true :=
  exclusive_of_inv (run_inv hd evs inv_init)

/-- **own stream, all interleavings**: every Read / Write of every connection works on that connection's stream -/
theorem codec_own_stream (d : Disc) (hd : Safe d) (evs : List Ev) :
    ownStream (run d St.init evs).2 = true :=
  run_ownStream hd evs inv_init

/-- … from any reachable state on (rounds follow rounds; the engine carries the pool from op to op) -/
theorem codec_own_stream_from (d : Disc) (hd : Safe d) (pre evs : List Ev) :
    ownStream (run d (run d St.init pre).1 evs).2 = true :=
  run_ownStream hd evs (run_inv hd pre inv_init)

/-- the code as it is -/
theorem codec_frp_own_stream (evs : List Ev) :
    ownStream (run frpDisc St.init evs).2 = true ∧ exclusive (run frpDisc St.init evs).1 = true :=
  ⟨codec_own_stream _ codec_frp_safe evs, codec_exclusive _ codec_frp_safe evs⟩

/-- **release at return on the plugin path** (a `defer` right after `WithCompressionFromPool`): connection 1 is
    queued for the plugin's server, the function returns and recycles, connection 2 takes the object out of the
    pool — the server of connection 1 now reads connection 2's stream -/
theorem codec_release_at_return_witness :
    let d : Disc := { plainRel := 1, pluginRelAtReturn := true, errRel := true }
    let evs := [Ev.start 1 true none, .ret 1, .start 2 true (some 0), .io 1]
    (run d St.init evs).2.getLast? = some (Ev.io 1, some 2) ∧
    ownStream (run d St.init evs).2 = false ∧ exclusive (run d St.init evs).1 = false := by decide

/-- **double recycle on the plain path** (a `defer` plus the call after Join): the object lies in the pool
    twice, the next two connections both get it -/
theorem codec_double_release_witness :
    let d : Disc := { plainRel := 2, pluginRelAtReturn := false, errRel := true }
    let evs := [Ev.start 1 false none, .ret 1, .start 2 false (some 0), .start 3 false (some 0), .io 2]
    (run d St.init evs).2.getLast? = some (Ev.io 2, some 3) ∧
    ownStream (run d St.init evs).2 = false ∧ exclusive (run d St.init evs).1 = false := by decide

/-- the hypothesis is needed: EVERY discipline that is not safe has a schedule on which a connection reads
    another connection's stream -/
theorem codec_unsafe_breaks (d : Disc) (hd : ¬ Safe d) : ∃ evs, ownStream (run d St.init evs).2 = false := by
  by_cases hp : d.pluginRelAtReturn = true
  · refine ⟨[Ev.start 1 true none, .ret 1, .start 2 true (some 0), .io 1], ?_⟩
    simp [CodecPool.run, CodecPool.step, findConn, ownerOf, CodecPool.St.init, hp, ownStream]
  · have h2 : 2 ≤ d.plainRel := by
      unfold Safe at hd
      have : ¬ d.plainRel ≤ 1 := fun h => hd ⟨h, by simpa using hp⟩
      omega
    obtain ⟨n, hn⟩ : ∃ n, d.plainRel = n + 2 := ⟨d.plainRel - 2, by omega⟩
    refine ⟨[Ev.start 1 false none, .ret 1, .start 2 false (some 0), .start 3 false (some 0), .io 2], ?_⟩
    simp [CodecPool.run, CodecPool.step, findConn, ownerOf, CodecPool.St.init, hn, ownStream, dropConn, List.replicate_succ]

/-- what engine `httpe2e` observed of ONE exchange of a round of simultaneous users -/
structure ConcObs where
  ex : E2eObs
  echoOk : Bool      -- the answer carries the id of THIS exchange: it is the user's own answer, nobody else's
  deriving DecidableEq, Repr

def ownAnswer (o : ConcObs) : Bool := e2eHolds o.ex && o.echoOk

/-- a round: for every user the exchanges it carried on its connection -/
def roundHolds (us : List (List ConcObs)) : Bool := us.all (·.all ownAnswer)

theorem roundHolds_sound (us : List (List ConcObs)) :
    roundHolds us = true ↔ ∀ u ∈ us, ∀ o ∈ u, e2eHolds o.ex = true ∧ o.echoOk = true := by
  simp [roundHolds, ownAnswer]

/-- the predicate asks for no more than the model gives: when every Read / Write of the round's schedule works
    on its own stream (which `codec_own_stream` gives for every schedule) each exchange is the single-exchange
    case of `model_e2eHolds`, so a round made of such observations satisfies it -/
theorem model_roundHolds (us : List (List E2eObs)) (h : ∀ u ∈ us, ∀ o ∈ u, e2eHolds o = true) :
    roundHolds (us.map (·.map fun o => { ex := o, echoOk := true })) = true := by
  rw [roundHolds_sound]
  intro u hu o ho
  obtain ⟨u', hu', rfl⟩ := List.mem_map.mp hu
  obtain ⟨o', ho', rfl⟩ := List.mem_map.mp ho
  exact ⟨h u' hu' o' ho', rfl⟩

/-! ### keep-alive on a work connection served by a client plugin (Frp/Model/ConnReader.lean) -/
open ConnReader Layers

/-- a bare (or only rate-limited) work connection: every request offered on it is answered -/
theorem plugin_raw_serves_all (o : Opts) (h : wrapperSticky o = false) (n : Nat) : pluginConnServes o n = n := by
  unfold pluginConnServes
  rw [h]
  induction n with
  | zero => rfl
  | succ n ih => simp only [serve, rstep, Bool.or_false, Bool.not_false, if_true]; omega

theorem serve_err (s : Bool) (n : Nat) : serve { sticky := s, err := true } n = 0 := by
  cases n <;> simp [serve, rstep]

/-- NOT what the property asks: with useEncryption or useCompression the plugin's server answers exactly ONE
    request per work connection, however many follow -/
theorem plugin_wrapped_serves_one (o : Opts) (h : wrapperSticky o = true) (n : Nat) :
    pluginConnServes o (n + 1) = 1 := by
  unfold pluginConnServes
  rw [h]
  simp [serve, rstep, serve_err]

/-- witness: two requests on one keep-alive connection through an https2http proxy with useCompression —
    the second is never answered -/
theorem plugin_wrapped_keepalive_witness :
    pluginConnServes { enc := false, comp := true, limSrv := false, limCli := false } 2 = 1 ∧
    pluginConnServes { enc := false, comp := false, limSrv := false, limCli := true } 2 = 2 := by decide

end Concurrent

/-! ## non-vacuity -/

private def exReq : Req :=
  { method := ofString "POST", absForm := false, path := ofString "/a%2Fb", query := some (ofString "x=1"),
    host := ofString "a.example.com",
    hdr := parseHdr [(ofString "x-custom", ofString "one"), (ofString "X-Custom", ofString "two"),
                     (ofString "Connection", ofString "X-Hop, keep-alive"), (ofString "X-Hop", ofString "h"),
                     (ofString "X-Forwarded-For", ofString "10.1.1.1"), (ofString "Cookie", ofString "a=1")],
    chunked := false, body := [1, 2, 3] }

private def exRc : RouteCfg :=
  { domain := ofString "a.example.com", location := [], routeUser := [], rewriteHost := ofString "internal",
    headers := [(ofString "x-from-where", ofString "frp")], respHeaders := [(ofString "X-Resp", ofString "1")] }

/-- a concrete request: the multi-valued mixed-case header arrives with both values in order, the
    `Connection`-named header is gone, XFF is extended, the configured header is set, Host rewritten -/
example :
    let o := backendSees (some exRc) exReq (some (ofString "127.0.0.2")) false
    get o.hdr (ofString "X-Custom") = [ofString "one", ofString "two"] ∧
    get o.hdr (ofString "X-Hop") = [] ∧
    get o.hdr kXFF = [ofString "10.1.1.1, 127.0.0.2"] ∧
    get o.hdr (ofString "X-From-Where") = [ofString "frp"] ∧
    o.host = ofString "internal" ∧ o.body = [1, 2, 3] ∧
    ofString "X-Custom" ∉ touched (some exRc) exReq ∧ ofString "Cookie" ∉ touched (some exRc) exReq := by
  decide +kernel

example : PoolInv (run true St.init staleOps).1 ∧ (run true St.init staleOps).1.idle ≠ [] :=
  ⟨run_fixed_inv _ _ poolInv_init, by decide +kernel⟩

example : Base64.bytes (ofString "/ab") := by decide +kernel

end C02
end Frp
