import Frp.Model.LockDisc
import Frp.Model.Crash
import Frp.Gen.LockFacts
import Frp.Gen.NilFacts
import Frp.Gen.MsgSchema
import Frp.Model.LockOrder
import Frp.Gen.LockOrder
import Frp.Lemmas.RegCtl
import Frp.Lemmas.UserInput
import Frp.Gen.IndexFacts
import Frp.Gen.PluginClose
import Frp.Lemmas.SshGw
import Frp.Lemmas.LockBal
import Frp.Gen.LockBalance
import Frp.Gen.MapCensus
/-
  C16 — No input or interleaving crashes or wedges frps or frpc (partial).

  The property is decomposed (DESIGN.md §6 C16):
   1. every access to a designated shared table happens under the table's own mutex
      — theorems over facts REGENERATED from /repo on every run (Gen/LockFacts.lean);
   2. message-derived numbers are validated before they size an allocation — model of NewControl;
   3. channels: every close site is guarded or a pinned single-owner site, every send on a channel that
      is closed somewhere is recover-wrapped or a pinned same-goroutine site; dispatcher totality;
   4. (exploration, engine `crash`) message storms against a real frps / frpc in a sacrificial child.
  Added (strengthening round 2):
   3d. the readers behind work / visitor connections: every use of a pointer-typed message field
       (REGENERATED Gen/NilFacts.lean) is nil-guarded or nil-tolerant; no frame on a udp work connection
       can kill frps or touch another connection (all histories);
   3e. RegisterWorkConn against the session teardown: with the deferred recover (regenerated fact) no
       interleaving of offers with the worker's closing steps kills frps; without it one does, whatever
       is tested up front.

  Added (strengthening round 3) — WEDGES, the other half of the property:
   5. lock ORDER (REGENERATED Gen/LockOrder.lean): the graph "mutex b is acquired while mutex a is held" over all
      mutexes of client/ pkg/ server/ — acquisitions through calls included — has no cycle and no self-loop, no
      function locks an expression it holds;
   6. RegisterControl: every control that enters the table is started (regenerated: no `return` between Add and
      Start), hence from every reachable state of any chain of overlapping logins with one run id every login is
      answered and every control closes; a control that is skipped when superseded wedges the run id for ever;
   7. (client) StartWorkConn addresses: an address that does not resolve reaches go-proxyproto as a typed nil and
      kills frpc when the proxy has a proxyProtocolVersion (known finding, switch `Crash.startWorkAddrIsFixed`).

  Added (strengthening round 4) — the USER side:
   8. the parsers behind the user-facing listeners (tcpmux CONNECT port, vhost http / https ports): every indexing /
      slicing expression of pkg/util/http, pkg/util/vhost, pkg/util/tcpmux (REGENERATED Gen/IndexFacts.lean) is a map
      lookup or dominated by a guard that implies Go's bounds check (judgement `IdxSite.ok`, soundness `index_ok_sound`
      for every assignment of lengths and integers); hasPort / CanonicalHost with Go's indexing explicit never panic
      and agree with the model `Host.canonicalHost` on every input;
   9. frpc teardown against ACTIVE requests of the plugins that embed an http.Server: every `Close()` of
      pkg/plugin/client (REGENERATED Gen/PluginClose.lean) makes only calls that cannot wait for a user; with such a
      Close the worker reaches the next login under every interleaving with the users, whatever is active; with a
      Shutdown without deadline, tcpMux off and one request that does not end it never does.

  Added (round 5) — the ssh tunnel gateway:
  10. pkg/ssh: the six indexing / slicing expressions (REGENERATED Gen/IndexFacts.lean `sshSites`, with HOW each bound
      was computed) under the same judgement; the request loop of TunnelServer.handleNewChannel with Go's integer
      arithmetic explicit (`SshGw.handleReq`: the type `end` is computed in and the width of `int` are parameters):
      computed in uint32 it panics exactly for an `exec` payload of more than four bytes with a length prefix
      0xFFFFFFFC … 0xFFFFFFFF (known finding), computed in a 64-bit type never; x/crypto/ssh's Unmarshal of the
      forward request never slices out of range; one ssh connection as a fold over client events.
      Switch `sshExecArith` — NOT set by hand: read from the regenerated facts (`ssh_exec_shape`), the clauses
      `ssh_exec_code` / `ssh_conn_code` / `ssh_sites_guarded_code` are valid on both trees.

  11. lock BALANCE (REGENERATED Gen/LockBalance.lean): no function body of client/ pkg/ server/ can be left with a mutex it
      locked still held (may-held set at every `return` and at the end of every body); what one such way out means for
      a session's `ctl.mu`: nothing that needs the lock is handled any more and the session is never torn down
      (`LockBal`, all message sequences), while with balanced functions everything is handled and the teardown completes.
  12. map CENSUS (REGENERATED Gen/MapCensus.lean): obligation 1 judges a designated list of shared tables — the census
      closes that list: every map-typed struct field that is written after construction is designated or pinned with its
      reason; in pkg/auth (one verifier object shared by all connection goroutines) no method assigns a map.

  Places where the code as it is in /repo violates the property are kept visible, each behind a
  switch that the integrator flips when the corresponding fix commit lands:
   * `precheckLockIsFixed`         — nathole.Controller.HandleVisitor reads clientCfgs without the mutex (§7 #6)
   * `Crash.poolCountIsFixed`      — Login.PoolCount < -10 ⇒ make(chan, negative) (§7 #4)
   * `Crash.discoverIsFixed`       — discoverConn.readLoop sends on a channel that Close closes (new)
   * `Crash.startWorkAddrIsFixed`  — HandleTCPWorkConnection discards the error of net.ResolveTCPAddr (new, round 3)
   * `Crash.udpForwardSendIsFixed` — ForwardUserConn hands a datagram over with a plain send on a channel that the udp
                                     proxy's Close closes (new, round 3; found by the storms)
-/
namespace Frp
namespace C16
open LockDisc Crash
open Frp.Gen.LockFacts
open Frp.Gen.NilFacts

/-! ## 1. Lock discipline of the shared tables -/

/-- `false` = /repo as it is (hooks/C16-fix-precheck-lock.patch not applied) -/
def precheckLockIsFixed : Bool := true

/-- §7 #6: the pre-check branch of HandleVisitor -/
def exc6 : String × String × String :=
  ("pkg/nathole/controller.go", "Controller.HandleVisitor", "pkg/nathole.Controller.clientCfgs")

/-- the full clause: every extracted access is synchronised -/
def AllGuardedFull : Prop := ∀ a ∈ accesses, a.ok = true

instance : Decidable AllGuardedFull := by unfold AllGuardedFull; infer_instance

def unguarded : List Access := accesses.filter (fun a => !a.ok)

/-- every access except (possibly) the known one is made under the table's mutex in a covering mode -/
theorem all_guarded_partial : ∀ a ∈ accesses, a.ok = true ∨ a.site = exc6 := by
  decide +kernel

/-- exactly which sites are not synchronised on this tree -/
theorem unguarded_exact :
    unguarded.map Access.site = if precheckLockIsFixed then [] else [exc6] := by
  decide +kernel

/-- the full clause holds exactly when the fix is in (so: it is FALSE on the unrepaired tree, and the
    statement to keep once `precheckLockIsFixed` is flipped is `all_guarded`) -/
theorem all_guarded_status : AllGuardedFull ↔ precheckLockIsFixed = true := by
  decide +kernel

theorem all_guarded (h : precheckLockIsFixed = true) : ∀ a ∈ accesses, a.ok = true :=
  all_guarded_status.mpr h

/-- witness on the unrepaired tree: an unlocked READ of clientCfgs in HandleVisitor while
    ListenClient / CloseClient write it under the lock -/
theorem all_guarded_witness (h : precheckLockIsFixed = false) :
    ∃ a ∈ accesses, a.site = exc6 ∧ a.kind = .read ∧ a.held = .none ∧ a.ok = false := by
  have hu := unguarded_exact
  simp only [h] at hu
  revert hu
  decide +kernel

/-! ### the extractor is not blind: pinned sites and counts -/

def Access.key (a : Access) : String × String × Kind := (a.fn, a.obj, a.kind)

def keys : List (String × String × Kind) := accesses.map Access.key

def objCount (o : String) : Nat := (accesses.filter (fun a => a.obj == o)).length

def guardedCount (o : String) (n : Need) : Nat :=
  (accesses.filter (fun a => a.obj == o && a.kind.need == n && a.ctx != .ctor && covers a.held a.kind.need)).length

/-- at least one known site per designated table, with the kind the code has there -/
theorem known_sites_present :
    [ ("ControlManager.Add", "server.ControlManager.ctlsByRunID", Kind.write),
      ("ControlManager.Del", "server.ControlManager.ctlsByRunID", .delete),
      ("ControlManager.GetByID", "server.ControlManager.ctlsByRunID", .read),
      ("ControlManager.Close", "server.ControlManager.ctlsByRunID", .range),
      ("Control.worker", "server.Control.proxies", .range),
      ("Control.RegisterProxy", "server.Control.proxies", .write),
      ("Control.CloseProxy", "server.Control.proxies", .delete),
      ("Manager.Add", "server/proxy.Manager.pxys", .write),
      ("Manager.Del", "server/proxy.Manager.pxys", .delete),
      ("Manager.GetByName", "server/proxy.Manager.pxys", .read),
      ("Routers.Add", "pkg/util/vhost.Routers.indexByDomain", .write),
      ("Routers.Get", "pkg/util/vhost.Routers.indexByDomain", .read),
      ("Routers.Add", "pkg/util/vhost.Routers.exist()", .callR),
      ("Manager.Listen", "server/visitor.Manager.listeners", .write),
      ("Manager.NewConn", "server/visitor.Manager.listeners", .read),
      ("Manager.CloseListener", "server/visitor.Manager.listeners", .delete),
      ("Controller.ListenClient", "pkg/nathole.Controller.clientCfgs", .write),
      ("Controller.CloseClient", "pkg/nathole.Controller.clientCfgs", .delete),
      ("Controller.HandleVisitor", "pkg/nathole.Controller.clientCfgs", .read),
      ("Controller.HandleVisitor", "pkg/nathole.Controller.sessions", .write),
      ("Controller.HandleVisitor", "pkg/nathole.Controller.sessions", .delete),
      ("Controller.HandleClient", "pkg/nathole.Controller.sessions", .read),
      ("Analyzer.GetRecommandBehaviors", "pkg/nathole.Analyzer.records", .write),
      ("Analyzer.Clean", "pkg/nathole.Analyzer.records", .delete),
      ("transporterImpl.DispatchWithType", "pkg/transport.transporterImpl.registry", .read),
      ("transporterImpl.registerMsgChan", "pkg/transport.transporterImpl.registry", .write),
      ("TCPGroupCtl.Listen", "server/group.TCPGroupCtl.groups", .write),
      ("TCPGroup.CloseListener", "server/group.?.groups", .delete),
      ("TCPGroup.CloseListener", "server/group.TCPGroup.lns", .assign),
      ("HTTPGroupController.Register", "server/group.HTTPGroupController.groups", .write),
      ("HTTPGroup.Register", "server/group.HTTPGroup.createFuncs", .write),
      ("HTTPGroup.createConn", "server/group.HTTPGroup.createFuncs", .read),
      ("TCPMuxGroupCtl.Listen", "server/group.TCPMuxGroupCtl.groups", .write),
      ("TCPMuxGroup.CloseListener", "server/group.TCPMuxGroup.lns", .assign),
      ("Manager.Acquire", "server/ports.Manager.usedPorts", .write),
      ("Manager.Acquire", "server/ports.Manager.freePorts", .delete),
      ("Manager.Release", "server/ports.Manager.usedPorts", .delete),
      ("Manager.cleanReservedPortsWorker", "server/ports.Manager.reservedPorts", .delete),
      ("Manager.UpdateAll", "client/proxy.Manager.proxies", .write),
      ("Manager.HandleWorkConn", "client/proxy.Manager.proxies", .read),
      ("Manager.UpdateAll", "client/visitor.Manager.cfgs", .write),
      ("Manager.startVisitor", "client/visitor.Manager.visitors", .write),
      ("Manager.UpdateAll", "client/visitor.Manager.startVisitor()", .callW),
      ("Manager.TransferConn", "client/visitor.Manager.visitors", .read)
    ].all (fun k => keys.contains k) = true := by
  decide +kernel

/-- pinned lower bounds: an extractor that loses sites makes this fail -/
theorem counts_pinned :
    140 ≤ accesses.length ∧
    7 ≤ objCount "server.ControlManager.ctlsByRunID" ∧
    4 ≤ objCount "server.Control.proxies" ∧
    5 ≤ objCount "server/proxy.Manager.pxys" ∧
    5 ≤ objCount "pkg/util/vhost.Routers.indexByDomain" ∧
    4 ≤ objCount "server/visitor.Manager.listeners" ∧
    5 ≤ objCount "pkg/nathole.Controller.clientCfgs" ∧
    4 ≤ objCount "pkg/nathole.Controller.sessions" ∧
    6 ≤ objCount "pkg/nathole.Analyzer.records" ∧
    3 ≤ objCount "pkg/transport.transporterImpl.registry" ∧
    20 ≤ objCount "server/ports.Manager.freePorts" + objCount "server/ports.Manager.usedPorts"
          + objCount "server/ports.Manager.reservedPorts" ∧
    10 ≤ objCount "client/proxy.Manager.proxies" ∧
    11 ≤ objCount "client/visitor.Manager.cfgs" + objCount "client/visitor.Manager.visitors" := by
  decide +kernel

/-- every designated map is both WRITTEN under the write lock and READ under a lock somewhere:
    the theorem above is not about tables nobody shares -/
theorem tables_are_shared :
    [ "server.ControlManager.ctlsByRunID", "server.Control.proxies", "server/proxy.Manager.pxys",
      "pkg/util/vhost.Routers.indexByDomain", "server/visitor.Manager.listeners",
      "pkg/nathole.Controller.clientCfgs", "pkg/nathole.Controller.sessions", "pkg/nathole.Analyzer.records",
      "pkg/transport.transporterImpl.registry", "server/group.TCPGroupCtl.groups",
      "server/group.HTTPGroupController.groups", "server/group.TCPMuxGroupCtl.groups",
      "server/group.HTTPGroup.createFuncs", "server/ports.Manager.usedPorts", "server/ports.Manager.freePorts",
      "server/ports.Manager.reservedPorts", "client/proxy.Manager.proxies", "client/visitor.Manager.cfgs",
      "client/visitor.Manager.visitors"
    ].all (fun o => decide (1 ≤ guardedCount o .w) && decide (1 ≤ guardedCount o .r)) = true := by
  decide +kernel

/-- the "caller holds the lock" table the extractor used, and the only constructor context -/
theorem helpers_pinned :
    helpers = [("pkg/util/vhost", "Routers.exist", "R"), ("client/visitor", "Manager.startVisitor", "W")] ∧
    ((accesses.filter (fun a => a.ctx == .ctor)).all (fun a => a.file == "server/ports/ports.go" && a.fn == "NewManager")) = true ∧
    ((accesses.filter (fun a => a.ctx == .helper)).all (fun a => a.fn == "Routers.exist" || a.fn == "Manager.startVisitor")) = true := by
  decide +kernel

/-! ## 3a. Channels: close sites and sends on closable channels -/

/-- close sites without a syntactic guard that are single-owner by construction (read from the code):
    the closing function runs once per object -/
def closeOwners : List (String × String × String) :=
  [ ("client/control.go", "Control.worker", "ctl.doneCh"),                 -- worker: one goroutine per Control (Run)
    ("client/proxy/proxy_wrapper.go", "Wrapper.Stop", "pw.closeCh"),       -- Stop: once, by Manager.Close/UpdateAll after removal from the map (under Manager.mu)
    ("client/proxy/proxy_wrapper.go", "Wrapper.Stop", "pw.healthNotifyCh"),
    ("pkg/msg/handler.go", "Dispatcher.readLoop", "d.doneCh"),             -- one readLoop per Dispatcher; closes and returns
    ("pkg/nathole/discovery.go", "discoverConn.Close", "c.messageChan"),   -- deferred once by Discover (but see sendExc)
    ("pkg/util/net/udp.go", "ListenUDP", "l.acceptCh"),                    -- the reader goroutine closes and returns
    ("pkg/util/net/udp.go", "ListenUDP", "l.writeCh"),
    ("pkg/util/vhost/vhost.go", "Listener.Close", "l.accept"),             -- once per proxy Close (BaseProxy.Close)
    ("server/control.go", "Control.worker", "ctl.workConnCh"),             -- worker: one goroutine per Control (Start)
    ("server/control.go", "Control.worker", "ctl.doneCh"),
    ("server/group/tcp.go", "TCPGroup.CloseListener", "tg.acceptCh"),      -- last member leaves, under ctl.mu+tg.mu, group removed in the same section (8556715)
    ("server/group/tcp.go", "TCPGroupListener.Close", "ln.closeCh"),       -- once per proxy Close
    ("server/group/tcpmux.go", "TCPMuxGroup.CloseListener", "tmg.acceptCh"),
    ("server/group/tcpmux.go", "TCPMuxGroupListener.Close", "ln.closeCh") ]

/-- sends without recover on a channel that is closed somewhere, where sender and closer are the
    same goroutine / the same function -/
def sendOwners : List (String × String × String) :=
  [ ("client/visitor/xtcp.go", "XTCPVisitor.openTunnel", "immediateTrigger"),  -- local, send precedes the deferred close
    ("pkg/util/net/kcp.go", "ListenKcp", "l.acceptCh"),                        -- the accept goroutine closes, then returns
    ("pkg/util/net/udp.go", "ListenUDP", "l.acceptCh") ]

/-- finding (round 1): the reader goroutine's plain send races with (and, when blocked on the full buffer,
    deterministically loses against) the `close(c.messageChan)` of the deferred Close -/
def sendExc : String × String × String :=
  ("pkg/nathole/discovery.go", "discoverConn.readLoop", "c.messageChan")

/-- finding (round 3): the reader of a udp proxy's user socket hands a datagram over with a plain send on the
    channel its caller closes (server/proxy/udp.go UDPProxy.Close, client/visitor/sudp.go SUDPVisitor.Close) -/
def sendExcUdp : String × String × String :=
  ("pkg/proto/udp/udp.go", "ForwardUserConn", "sendCh")

/-- the unguarded sends expected on this tree, by switch -/
def sendExcs : List (String × String × String) :=
  (if discoverIsFixed then [] else [sendExc]) ++ (if udpForwardSendIsFixed then [] else [sendExcUdp])

def ClosesOk : Prop := ∀ c ∈ closes, c.okWith closeOwners = true
def SendsOkFull : Prop := ∀ s ∈ sends, s.okWith sendOwners = true
instance : Decidable ClosesOk := by unfold ClosesOk; infer_instance
instance : Decidable SendsOkFull := by unfold SendsOkFull; infer_instance

/-- every close( site: once / closed-flag / select-default / local channel, or a pinned single owner -/
theorem closes_guarded : ∀ c ∈ closes, c.okWith closeOwners = true := by
  decide +kernel

theorem sends_guarded_partial : ∀ s ∈ sends, s.okWith sendOwners = true ∨ s.site = sendExc ∨ s.site = sendExcUdp := by
  decide +kernel

/-- exactly which sends are neither recover-wrapped nor same-goroutine on this tree -/
theorem sends_unguarded_exact :
    ((sends.filter (fun s => !s.okWith sendOwners)).map SendSite.site) = sendExcs := by
  decide +kernel

theorem sends_guarded_status : SendsOkFull ↔ (discoverIsFixed = true ∧ udpForwardSendIsFixed = true) := by
  decide +kernel

theorem sends_guarded (h : discoverIsFixed = true ∧ udpForwardSendIsFixed = true) : ∀ s ∈ sends, s.okWith sendOwners = true :=
  sends_guarded_status.mpr h

/-- the sites the property text names are there, with the guard the code has -/
theorem channel_sites_present :
    38 ≤ closes.length ∧ 20 ≤ sends.length ∧
    (closes.map CloseSite.site).contains ("server/control.go", "Control.worker", "ctl.workConnCh") = true ∧
    (closes.map CloseSite.site).contains ("server/group/tcp.go", "TCPGroup.CloseListener", "tg.acceptCh") = true ∧
    (closes.map CloseSite.site).contains ("pkg/util/vhost/vhost.go", "Listener.Close", "l.accept") = true ∧
    (closes.map (fun c => (c.site, c.guard))).contains
        (("server/proxy/xtcp.go", "XTCPProxy.Close", "pxy.closeCh"), CloseGuard.once) = true ∧
    (closes.map (fun c => (c.site, c.guard))).contains
        (("pkg/util/net/listener.go", "InternalListener.Close", "l.acceptCh"), CloseGuard.flag) = true ∧
    (sends.map (fun s => (s.site, s.guard))).contains
        (("server/control.go", "Control.RegisterWorkConn", "ctl.workConnCh"), SendGuard.deferRecover) = true ∧
    (sends.map (fun s => (s.site, s.guard))).contains
        (("server/group/tcp.go", "TCPGroup.worker", "tg.acceptCh"), SendGuard.panicToError) = true ∧
    (sends.map (fun s => (s.site, s.guard))).contains
        (("server/group/tcpmux.go", "TCPMuxGroup.worker", "tmg.acceptCh"), SendGuard.panicToError) = true ∧
    (sends.map (fun s => (s.site, s.guard))).contains
        (("pkg/util/vhost/vhost.go", "Muxer.handle", "l.accept"), SendGuard.panicToError) = true ∧
    (sends.map (fun s => (s.site, s.guard))).contains
        (("pkg/util/net/listener.go", "InternalListener.PutConn", "l.acceptCh"), SendGuard.panicToError) = true ∧
    (sends.map (fun s => (s.site, s.guard))).contains
        (("pkg/transport/message.go", "transporterImpl.DispatchWithType", "ch"), SendGuard.panicToError) = true ∧
    (sends.map (fun s => (s.site, s.guard))).contains
        (("pkg/proto/udp/udp.go", "Forwarder", "sendCh"), SendGuard.panicToError) = true ∧
    (sends.map SendSite.site).contains sendExcUdp = true := by
  decide +kernel

/-! ## 2. Message-derived numbers are validated before they size an allocation (NewControl) -/

/-- the model is the code: the statements of NewControl in front of the allocation, as they are in /repo -/
theorem newcontrol_source :
    newControlPre =
      (if poolCountIsFixed then
        ["poolCount := loginMsg.PoolCount",
         "if poolCount > int(serverCfg.Transport.MaxPoolCount) { poolCount = int(serverCfg.Transport.MaxPoolCount) }",
         "if poolCount < 0 { poolCount = 0 }"]
      else
        ["poolCount := loginMsg.PoolCount",
         "if poolCount > int(serverCfg.Transport.MaxPoolCount) { poolCount = int(serverCfg.Transport.MaxPoolCount) }"]) ∧
    workConnChCap = "poolCount + 10" := by
  decide +kernel

/-- the full clause, for whichever variant `fixed` selects -/
def ChanCapFull (fixed : Bool) : Prop :=
  ∀ maxPool login : Int, 0 ≤ maxPool → 0 ≤ chanCap fixed maxPool login

theorem chanCap_le {fixed : Bool} {maxPool login : Int} (hmax : 0 ≤ maxPool) :
    chanCap fixed maxPool login ≤ maxPool + 10 := by
  unfold chanCap poolCount
  cases fixed <;> simp only [Bool.false_and, Bool.true_and, Bool.false_eq_true, if_false, decide_eq_true_eq] <;>
    (repeat' split) <;> omega

/-- as the code is: non-negative only for PoolCount ≥ -10 -/
theorem chanCap_nonneg_partial {maxPool login : Int} (hmax : 0 ≤ maxPool) (h : -10 ≤ login) :
    0 ≤ chanCap false maxPool login := by
  unfold chanCap poolCount
  simp only [Bool.false_and, Bool.false_eq_true, if_false]
  split <;> omega

/-- §7 #4: every PoolCount below -10 makes the capacity negative, whatever maxPoolCount is -/
theorem chanCap_negative {maxPool login : Int} (hmax : 0 ≤ maxPool) (h : login < -10) :
    chanCap false maxPool login < 0 := by
  unfold chanCap poolCount
  simp only [Bool.false_and, Bool.false_eq_true, if_false]
  split <;> omega

theorem chanCap_witness : ¬ ChanCapFull false := by
  intro h
  have := h 5 (-11) (by decide)
  revert this
  decide

/-- … and then frps dies: the panic is raised in a goroutine that has no recover -/
theorem login_kills_frps {maxPool login : Int} (hmax : 0 ≤ maxPool) :
    loginOutcome false maxPool login = .processDies ↔ login < -10 := by
  unfold loginOutcome makechanPanics
  constructor
  · intro h
    by_cases hl : login < -10
    · exact hl
    · have := chanCap_nonneg_partial hmax (by omega : -10 ≤ login)
      simp only [decide_eq_true_eq] at h
      split at h
      · omega
      · cases h
  · intro h
    have := chanCap_negative hmax h
    simp only [decide_eq_true_eq]
    rw [if_pos this]

/-- repaired: non-negative (and bounded by maxPool + 10) for EVERY PoolCount -/
theorem chanCap_nonneg_fixed : ChanCapFull true := by
  intro maxPool login hmax
  unfold chanCap poolCount
  simp only [Bool.true_and, decide_eq_true_eq]
  (repeat' split) <;> omega

theorem login_never_kills_fixed {maxPool login : Int} (hmax : 0 ≤ maxPool) :
    loginOutcome true maxPool login = .alive := by
  unfold loginOutcome makechanPanics
  have := chanCap_nonneg_fixed maxPool login hmax
  simp only [decide_eq_true_eq]
  rw [if_neg (by omega)]

/-- the statement for the tree as selected by the switch -/
theorem chanCap_status : ChanCapFull poolCountIsFixed ↔ poolCountIsFixed = true := by
  cases h : poolCountIsFixed
  · simp only [Bool.false_eq_true, iff_false]; exact chanCap_witness
  · simp only [iff_true]; exact chanCap_nonneg_fixed

/-! ### the same unvalidated number bounds the work-connection loop (found by the storms)

  `GetWorkConnFromPool` tries `poolCount+1` connections; for a negative poolCount it tries none and
  returns `(nil, nil)`.  So PoolCount ∈ [-10, -1] does not trip `makechan` but kills frps at the first
  use of any proxy of that session. -/

theorem attempts_pos_partial {maxPool login : Int} (hmax : 0 ≤ maxPool) (h : 0 ≤ login) :
    1 ≤ workConnAttempts false maxPool login := by
  unfold workConnAttempts poolCount
  simp only [Bool.false_and, Bool.false_eq_true, if_false]
  split <;> omega

theorem negative_pool_nil_workconn {maxPool login : Int} (hmax : 0 ≤ maxPool) (h : login < 0) :
    getWorkConnReturnsNil false maxPool login = true := by
  unfold getWorkConnReturnsNil workConnAttempts poolCount
  simp only [Bool.false_and, Bool.false_eq_true, if_false, decide_eq_true_eq]
  split <;> omega

theorem attempts_pos_fixed {maxPool login : Int} (hmax : 0 ≤ maxPool) :
    1 ≤ workConnAttempts true maxPool login := by
  unfold workConnAttempts poolCount
  simp only [Bool.true_and, decide_eq_true_eq]
  (repeat' split) <;> omega

/-- every negative PoolCount is fatal for the unrepaired frps, one way or the other … -/
theorem negative_pool_kills_frps {maxPool login : Int} (hmax : 0 ≤ maxPool) (h : login < 0) :
    loginOutcome false maxPool login = .processDies ∨ proxyUseOutcome false maxPool login = .processDies := by
  right
  unfold proxyUseOutcome
  rw [negative_pool_nil_workconn hmax h]
  rfl

/-- … and none is for the repaired one -/
theorem pool_safe_fixed {maxPool login : Int} (hmax : 0 ≤ maxPool) :
    loginOutcome true maxPool login = .alive ∧ proxyUseOutcome true maxPool login = .alive := by
  refine ⟨login_never_kills_fixed hmax, ?_⟩
  unfold proxyUseOutcome getWorkConnReturnsNil
  have := attempts_pos_fixed (login := login) hmax
  simp only [decide_eq_true_eq]
  rw [if_neg (by omega)]

theorem pool_safe_partial {maxPool login : Int} (hmax : 0 ≤ maxPool) (h : 0 ≤ login) :
    loginOutcome false maxPool login = .alive ∧ proxyUseOutcome false maxPool login = .alive := by
  constructor
  · cases hl : loginOutcome false maxPool login with
    | alive => rfl
    | processDies => have := (login_kills_frps hmax).mp hl; omega
  · unfold proxyUseOutcome getWorkConnReturnsNil
    have := attempts_pos_partial hmax h
    simp only [decide_eq_true_eq]
    rw [if_neg (by omega)]

/-! ## 3b. Dispatcher totality: what one frame can do -/

/-- a type nobody registered is read and dropped without any effect on the session -/
theorem unhandled_no_effect {hs : List String} {s : Sess} {t : String} (h : hs.contains t = false) :
    readLoopStep hs s (.known t) = s := by
  unfold readLoopStep
  split
  · rfl
  · simp only [h, Bool.false_eq_true, if_false]

/-- only registered types ever reach a handler -/
theorem handled_only_registered {hs : List String} {s : Sess} {f : Frame} :
    ∀ t ∈ (readLoopStep hs s f).handled, t ∈ s.handled ∨ hs.contains t = true := by
  intro t ht
  unfold readLoopStep at ht
  split at ht
  · exact Or.inl ht
  · cases f with
    | bad => exact Or.inl ht
    | known u =>
      simp only at ht
      split at ht
      · rename_i hc
        simp only [List.mem_cons] at ht
        rcases ht with rfl | ht
        · exact Or.inr hc
        · exact Or.inl ht
      · exact Or.inl ht

/-- a malformed frame / unknown type byte ends the session it arrived on … -/
theorem bad_ends_session {hs : List String} {s : Sess} :
    (readLoopStep hs s .bad).alive = false ∧ (readLoopStep hs s .bad).handled = s.handled := by
  unfold readLoopStep
  cases h : s.alive <;> simp [h]

theorem dead_stays_dead {hs : List String} {s : Sess} {f : Frame} (h : s.alive = false) :
    readLoopStep hs s f = s := by
  unfold readLoopStep
  simp [h]

theorem deliver_length {hs : List String} : ∀ (ss : List Sess) (i : Nat) (f : Frame),
    (deliver hs ss i f).length = ss.length
  | [], _, _ => rfl
  | _ :: _, 0, _ => rfl
  | _ :: rest, i + 1, f => by simp only [deliver, List.length_cons, deliver_length rest i f]

/-- … and ONLY that session: whatever arrives on session i, every other session is untouched -/
theorem frame_confined {hs : List String} : ∀ (ss : List Sess) (i j : Nat) (f : Frame), i ≠ j →
    (deliver hs ss i f)[j]? = ss[j]?
  | [], _, _, _, _ => rfl
  | _ :: _, 0, 0, _, h => absurd rfl h
  | _ :: _, 0, _ + 1, _, _ => rfl
  | _ :: _, _ + 1, 0, _, _ => rfl
  | _ :: rest, i + 1, j + 1, f, h => by
    simp only [deliver, List.getElem?_cons_succ]
    exact frame_confined rest i j f (by omega)

/-- for every history of frames: a session that received nothing is exactly as it was -/
theorem history_confined {hs : List String} (j : Nat) :
    ∀ (evs : List (Nat × Frame)) (ss : List Sess), (∀ e ∈ evs, e.1 ≠ j) → (run hs ss evs)[j]? = ss[j]? := by
  intro evs
  induction evs with
  | nil => intro ss _; rfl
  | cons e rest ih =>
    intro ss h
    have h1 : e.1 ≠ j := h e (List.mem_cons_self ..)
    have h2 : ∀ e' ∈ rest, e'.1 ≠ j := fun e' he => h e' (List.mem_cons_of_mem _ he)
    show (run hs (deliver hs ss e.1 e.2) rest)[j]? = ss[j]?
    rw [ih (deliver hs ss e.1 e.2) h2, frame_confined ss e.1 j e.2 h1]

/-- the first message of a connection: anything but the three session-opening types closes it -/
theorem firstMsg_total (f : Frame) :
    firstMsg f = .closed ∨ f = .known "Login" ∨ f = .known "NewWorkConn" ∨ f = .known "NewVisitorConn" := by
  cases f with
  | bad => exact Or.inl rfl
  | known t =>
    by_cases h1 : t = "Login"
    · exact Or.inr (Or.inl (by rw [h1]))
    · by_cases h2 : t = "NewWorkConn"
      · exact Or.inr (Or.inr (Or.inl (by rw [h2])))
      · by_cases h3 : t = "NewVisitorConn"
        · exact Or.inr (Or.inr (Or.inr (by rw [h3])))
        · left
          unfold firstMsg
          split <;> first | rfl | (rename_i heq; cases heq; contradiction)

/-- the model's handler tables are the code's: regenerated facts, pinned -/
theorem dispatch_facts :
    serverHandlers = [("NewProxy", false), ("Ping", false), ("NatHoleVisitor", true), ("NatHoleClient", true),
                      ("NatHoleReport", true), ("CloseProxy", false)] ∧
    clientHandlers = [("ReqWorkConn", true), ("NewProxyResp", false), ("NatHoleResp", false), ("Pong", false)] ∧
    serverHandlersDefault = false ∧ clientHandlersDefault = false ∧
    firstMsgCases = ["Login", "NewWorkConn", "NewVisitorConn"] ∧ firstMsgDefaultCloses = true ∧
    (serverHandlers.all (fun h => (Frp.Gen.MsgSchema.registry.map Prod.snd).contains h.1)) = true ∧
    (clientHandlers.all (fun h => (Frp.Gen.MsgSchema.registry.map Prod.snd).contains h.1)) = true ∧
    (firstMsgCases.all (fun t => (Frp.Gen.MsgSchema.registry.map Prod.snd).contains t)) = true ∧
    Frp.Gen.MsgSchema.registry.length = 18 := by
  decide +kernel

/-- every registered message type is, on an established frps session, either handled or ignored
    without effect (12 of the 18 are ignored) -/
theorem every_type_handled_or_ignored (s : Sess) (hs : s.alive = true) :
    ∀ t ∈ Frp.Gen.MsgSchema.registry.map Prod.snd,
      let s' := readLoopStep (serverHandlers.map Prod.fst) s (.known t)
      s'.alive = true ∧ (s' = s ∨ s'.handled = t :: s.handled) := by
  intro t _
  simp only [readLoopStep, hs, Bool.not_true, Bool.false_eq_true, if_false]
  split
  · refine ⟨?_, Or.inr rfl⟩
    rfl
  · exact ⟨hs, Or.inl rfl⟩

/-! ## 3d. Readers of work / visitor connections: pointer-typed message fields -/

/-- methods that are written for nil receivers, read from the Go source:
    net/udpsock.go `func (a *UDPAddr) String() string { if a == nil { return "<nil>" } … }` -/
def nilSafeMethods : List (String × String) := [("*net.UDPAddr", "String")]

/-- callees that test the address before using it, read from the Go source:
    net/udpsock_posix.go `func (c *UDPConn) writeTo(b, addr) { … if addr == nil { return 0, errMissingAddress } … }`
    (WriteToUDP passes its argument straight to writeTo) -/
def nilTolerantCallees : List String := ["udpConn.WriteToUDP"]

def PtrUsesOk : Prop := ∀ u ∈ ptrUses, u.okWith nilSafeMethods nilTolerantCallees = true
instance : Decidable PtrUsesOk := by unfold PtrUsesOk; infer_instance

/-- every use of a pointer-typed message field anywhere in client/ pkg/ server/ is under a nil guard,
    or is a nil-safe method / nil-tolerant callee / a copy / a comparison with nil — over the facts
    regenerated from the tree on this run -/
theorem ptr_uses_guarded : ∀ u ∈ ptrUses, u.okWith nilSafeMethods nilTolerantCallees = true := by
  decide +kernel

/-- the extractor is not blind: the pointer fields are the two addresses of UDPPacket and the known
    uses in both forwarders are there with the shape the code has -/
theorem ptr_sites_present :
    msgPtrFields = [("UDPPacket", "LocalAddr", "*net.UDPAddr"), ("UDPPacket", "RemoteAddr", "*net.UDPAddr")] ∧
    7 ≤ ptrUses.length ∧
    [ ("ForwardUserConn", "udpMsg.RemoteAddr", PtrUseKind.arg "udpConn.WriteToUDP" 1),
      ("Forwarder", "udpMsg.RemoteAddr", .method "String"),
      ("Forwarder", "udpMsg.RemoteAddr", .argFollowed "writerFn" 0),
      ("Forwarder>writerFn", "raddr <- writerFn", .method "String"),
      ("Forwarder>writerFn", "raddr <- writerFn", .argFollowed "NewUDPPacket" 2),
      ("Forwarder>writerFn>NewUDPPacket", "raddr <- NewUDPPacket", .store),
      ("SUDPProxy.InWorkConn", "m.RemoteAddr", .method "String"),
      ("SUDPProxy.InWorkConn", "m.LocalAddr", .method "String")
    ].all (fun k => (ptrUses.map (fun u => (u.fn, u.expr, u.kind))).contains k) = true := by
  decide +kernel

/-- an accepted use never kills, whatever the packet carries -/
theorem ok_use_never_kills {ns : List (String × String)} {tol : List String} {u : PtrUse}
    (h : u.okWith ns tol = true) (p : UdpPkt) : useOutcome ns tol u p = .alive := by
  unfold useOutcome
  unfold PtrUse.okWith at h
  cases hg : u.guarded <;> cases hd : u.derefs ns tol <;> simp_all

/-- … and a load through the field outside a guard does, as soon as the peer leaves the field out
    (this is what `udpMsg.RemoteAddr.Port` in a reader amounts to) -/
theorem unguarded_deref_kills {ns : List (String × String)} {tol : List String} {u : PtrUse} {p : UdpPkt}
    (hd : u.derefs ns tol = true) (hg : u.guarded = false) (hn : p.isNil u.field = true) :
    useOutcome ns tol u p = .processDies := by
  unfold useOutcome
  simp [hd, hg, hn]

theorem consume_total {ns : List (String × String)} {tol : List String} {uses : List PtrUse}
    (h : ∀ u ∈ uses, u.okWith ns tol = true) (p : UdpPkt) : consume ns tol uses p = .alive := by
  unfold consume
  have : uses.any (fun u => useOutcome ns tol u p == .processDies) = false := by
    rw [List.any_eq_false]
    intro u hu
    rw [ok_use_never_kills (h u hu) p]
    decide
  rw [this]
  rfl

/-- for EVERY packet (absent / null / zero / out-of-range addresses, undecodable content): consuming it
    cannot kill the process — all listed uses taken as reached -/
theorem forward_total (p : UdpPkt) : consume nilSafeMethods nilTolerantCallees ptrUses p = .alive :=
  consume_total ptr_uses_guarded p

/-- ForwardUserConn as written: a packet without address is never written to the socket and never fatal -/
theorem forwardUserOne_nil (p : UdpPkt) (h : p.raddr = none) : forwardUserOne p ≠ .written := by
  unfold forwardUserOne
  rw [h]
  cases p.contentOk <;> simp

/-- the udp work-connection reader: a malformed frame closes THIS connection and asks for a new one;
    Ping and every other registered type are dropped; only UDPPacket is queued -/
theorem udp_reader_step (w : UdpWork) (h : w.open_ = true) (f : WFrame) :
    (f = .bad → (udpReaderStep w f).open_ = false ∧ (udpReaderStep w f).queued = w.queued ∧
                (udpReaderStep w f).renew = w.renew + 1) ∧
    (f = .ping → udpReaderStep w f = w) ∧
    (∀ t, f = .other t → udpReaderStep w f = w) ∧
    (∀ p, f = .udp p → (udpReaderStep w f).open_ = true ∧ (udpReaderStep w f).queued = w.queued ++ [p]) := by
  refine ⟨?_, ?_, ?_, ?_⟩
  · intro hf; subst hf; simp [udpReaderStep, h]
  · intro hf; subst hf; simp [udpReaderStep, h]
  · intro t hf; subst hf; simp [udpReaderStep, h]
  · intro p hf; subst hf; simp [udpReaderStep, h]

theorem udp_reader_closed_stays (w : UdpWork) (h : w.open_ = false) (f : WFrame) : udpReaderStep w f = w := by
  unfold udpReaderStep
  simp [h]

theorem deliverW_confined : ∀ (ws : List UdpWork) (j k : Nat) (f : WFrame), j ≠ k →
    (deliverW ws j f)[k]? = ws[k]?
  | [], _, _, _, _ => rfl
  | _ :: _, 0, 0, _, h => absurd rfl h
  | _ :: _, 0, _ + 1, _, _ => rfl
  | _ :: _, _ + 1, 0, _, _ => rfl
  | _ :: rest, j + 1, k + 1, f, h => by
    simp only [deliverW, List.getElem?_cons_succ]
    exact deliverW_confined rest j k f (by omega)

section srv
variable {hs : List String} {ns : List (String × String)} {tol : List String} {uses : List PtrUse}

theorem srvStep_alive (hu : ∀ p, consume ns tol uses p = .alive) (s : Srv) (e : Ev) (h : s.alive = true) :
    (srvStep hs ns tol uses s e).alive = true := by
  cases e with
  | ctl i f => simp [srvStep, h]
  | bytes k => simp [srvStep, h]
  | work j f =>
    cases f with
    | udp p => simp [srvStep, h, hu p]
    | ping => simp [srvStep, h]
    | other t => simp [srvStep, h]
    | bad => simp [srvStep, h]

/-- all histories of frames on control connections, udp work connections and relayed connections:
    the process stays alive, provided every listed use is accepted -/
theorem srvRun_alive (hu : ∀ p, consume ns tol uses p = .alive) :
    ∀ (evs : List Ev) (s : Srv), s.alive = true → (srvRun hs ns tol uses s evs).alive = true := by
  intro evs
  induction evs with
  | nil => intro s h; exact h
  | cons e rest ih =>
    intro s h
    exact ih (srvStep hs ns tol uses s e) (srvStep_alive hu s e h)

/-- frames on work / relayed connections never touch a control session … -/
theorem srvStep_work_keeps_ctls (s : Srv) (e : Ev) (he : ∀ i f, e ≠ .ctl i f) :
    (srvStep hs ns tol uses s e).ctls = s.ctls := by
  unfold srvStep
  split
  · rfl
  · cases e with
    | ctl i f => exact absurd rfl (he i f)
    | bytes k => rfl
    | work j f =>
      cases f with
      | udp p => simp only; split <;> rfl
      | ping => rfl
      | other t => rfl
      | bad => rfl

/-- … and frames on control connections never touch a work connection's reader -/
theorem srvStep_ctl_keeps_works (s : Srv) (i : Nat) (f : Frame) :
    (srvStep hs ns tol uses s (.ctl i f)).works = s.works := by
  unfold srvStep
  split <;> rfl

theorem srvRun_work_keeps_ctls :
    ∀ (evs : List Ev) (s : Srv), (∀ e ∈ evs, ∀ i f, e ≠ .ctl i f) → (srvRun hs ns tol uses s evs).ctls = s.ctls := by
  intro evs
  induction evs with
  | nil => intro s _; rfl
  | cons e rest ih =>
    intro s h
    have h1 := h e (List.mem_cons_self ..)
    have h2 : ∀ e' ∈ rest, ∀ i f, e' ≠ .ctl i f := fun e' he => h e' (List.mem_cons_of_mem _ he)
    show (srvRun hs ns tol uses (srvStep hs ns tol uses s e) rest).ctls = s.ctls
    rw [ih _ h2, srvStep_work_keeps_ctls s e h1]

/-- a frame on udp work connection j leaves every other work connection as it was -/
theorem srvStep_work_confined (s : Srv) (j k : Nat) (f : WFrame) (h : j ≠ k) :
    (srvStep hs ns tol uses s (.work j f)).works[k]? = s.works[k]? := by
  unfold srvStep
  split
  · rfl
  · cases f with
    | udp p => simp only; split <;> exact deliverW_confined s.works j k _ h
    | ping => exact deliverW_confined s.works j k _ h
    | other t => exact deliverW_confined s.works j k _ h
    | bad => exact deliverW_confined s.works j k _ h

end srv

/-- the statement for the tree as it is: no history of frames — on control sessions, on udp work
    connections (Ping, UDPPacket with any combination of absent addresses, other types, malformed frames),
    on pooled / relayed connections — kills frps -/
theorem frames_never_kill (evs : List Ev) (s : Srv) (h : s.alive = true) :
    (srvRun (serverHandlers.map Prod.fst) nilSafeMethods nilTolerantCallees ptrUses s evs).alive = true :=
  srvRun_alive forward_total evs s h

/-- what a single unguarded load would do (the model is not vacuous): with `udpMsg.RemoteAddr.Port` among
    the consumer's uses, ONE address-less packet on an open udp work connection ends the process -/
theorem unguarded_load_witness :
    (srvRun [] nilSafeMethods nilTolerantCallees
      [⟨"pkg/proto/udp/udp.go", "ForwardUserConn", 46, "udpMsg.RemoteAddr", "UDPPacket.RemoteAddr", "*net.UDPAddr", .fieldSel "Port", false⟩]
      { works := [{}] } [.work 0 (.udp ⟨true, none, none⟩)]).alive = false := by
  decide

/-! ## 3e. RegisterWorkConn against the session's teardown -/

theorem register_recover_never_panics (v : RegVariant) (h : v.recover_ = true) (c : Ctl) :
    (registerWorkConn v c).2 ≠ .panics := by
  unfold registerWorkConn
  repeat' split
  all_goals simp_all

theorem tstep_alive (v : RegVariant) (h : v.recover_ = true) (c : Ctl) (l : TLabel) :
    (tstep v (c, .alive) l).2 = .alive := by
  cases l with
  | offer =>
    simp only [tstep]
    have := register_recover_never_panics v h c
    simp [this]
  | _ => rfl

/-- ALL interleavings (every order of the worker's closing steps and any number of offers at any
    point — a superset of the real schedules): with the deferred recover frps survives -/
theorem trun_from_alive (v : RegVariant) (h : v.recover_ = true) :
    ∀ (ls : List TLabel) (c : Ctl), (ls.foldl (tstep v) (c, .alive)).2 = .alive := by
  intro ls
  induction ls with
  | nil => intro c; rfl
  | cons l rest ih =>
    intro c
    simp only [List.foldl_cons]
    have h1 := tstep_alive v h c l
    have h2 : tstep v (c, .alive) l = ((tstep v (c, .alive) l).1, .alive) :=
      Prod.ext rfl h1
    rw [h2]
    exact ih _

/-- ALL interleavings (every order of the worker's closing steps and any number of offers at any
    point — a superset of the real schedules): with the deferred recover frps survives -/
theorem teardown_offer_safe (v : RegVariant) (h : v.recover_ = true) (ls : List TLabel) (c : Ctl) :
    (trun v c ls).2 = .alive :=
  trun_from_alive v h ls c

/-- without it, an offer handled after `close(workConnCh)` and before `close(doneCh)` kills frps —
    whether or not doneCh is tested up front -/
theorem teardown_unrecovered_dies (doneCheck : Bool) (n : Nat) (c : Ctl) (hc : c.inTable = true) (hd : c.doneOpen = true) :
    (trun ⟨false, doneCheck⟩ c ([.closeCh, .offer] ++ List.replicate n .offer)).2 = .processDies := by
  have h2 : (trun ⟨false, doneCheck⟩ c [.closeCh, .offer]).2 = .processDies := by
    simp [trun, tstep, registerWorkConn, hc, hd]
  have hstay : ∀ (m : Nat) (st : Ctl × Outcome), st.2 = .processDies →
      ((List.replicate m TLabel.offer).foldl (tstep ⟨false, doneCheck⟩) st).2 = .processDies := by
    intro m
    induction m with
    | zero => intro st h; exact h
    | succ k ih =>
      intro st h
      simp only [List.replicate_succ, List.foldl_cons]
      apply ih
      simp only [tstep, h]
  unfold trun at *
  rw [List.foldl_append]
  exact hstay n _ h2

theorem teardown_unrecovered_witness :
    (trun ⟨false, true⟩ {} (tearSchedule "drained" 1)).2 = .processDies ∧
    (trun ⟨false, true⟩ {} (tearSchedule "beforeDone" 1)).2 = .processDies ∧
    (trun ⟨false, true⟩ {} (tearSchedule "dispDone" 3)).2 = .alive ∧
    (trun ⟨false, true⟩ {} (tearSchedule "beforeDel" 3)).2 = .alive ∧
    (trun ⟨false, false⟩ {} (tearSchedule "beforeDel" 1)).2 = .processDies := by
  decide

/-- how RegisterWorkConn IS written, from the regenerated channel facts -/
def regRecover : Bool :=
  (sends.map (fun s => (s.site, s.guard))).contains
    (("server/control.go", "Control.RegisterWorkConn", "ctl.workConnCh"), SendGuard.deferRecover)

theorem register_recover_fact : regRecover = true := by
  decide +kernel

/-- the tree as it is: no interleaving of work-connection offers with a session's teardown kills frps -/
theorem teardown_safe_as_is (doneCheck : Bool) (ls : List TLabel) (c : Ctl) :
    (trun ⟨regRecover, doneCheck⟩ c ls).2 = .alive :=
  teardown_offer_safe ⟨regRecover, doneCheck⟩ register_recover_fact ls c

/-! ## 3f. the reader of a udp proxy's user socket against the proxy's Close -/

theorem fstep_recovered_alive (f : Fwd) (l : FLabel) : (fstep true (f, .alive) l).2 = .alive := by
  cases l <;> simp only [fstep] <;> (repeat' split) <;> first | rfl | (exfalso; simp_all)

/-- ALL interleavings of datagrams with the two closing steps: with the recover-wrapped send nothing dies -/
theorem forward_send_recovered_safe : ∀ (ls : List FLabel) (f : Fwd), (frun true f ls).2 = .alive := by
  intro ls
  unfold frun
  induction ls with
  | nil => intro f; rfl
  | cons l rest ih =>
    intro f
    simp only [List.foldl_cons]
    have h1 := fstep_recovered_alive f l
    have h2 : fstep true (f, .alive) l = ((fstep true (f, .alive) l).1, .alive) := Prod.ext rfl h1
    rw [h2]
    exact ih _

/-- as the code is: a datagram read before the socket is closed and handed over after the channel is closed kills
    the process — whatever else happens in between or afterwards -/
theorem forward_send_unrecovered_dies (pre post : List FLabel) (f : Fwd)
    (hf : f.running = true ∧ f.inHand = false ∧ f.sockOpen = true)
    (hpre : ∀ l ∈ pre, l = .closeSock ∨ l = .closeCh) :
    (frun false f ([.recv] ++ pre ++ [.closeCh, .send] ++ post)).2 = .processDies := by
  have hstay : ∀ (ls : List FLabel) (st : Fwd × Outcome), st.2 = .processDies →
      (ls.foldl (fstep false) st).2 = .processDies := by
    intro ls
    induction ls with
    | nil => intro st h; exact h
    | cons l rest ih =>
      intro st h
      simp only [List.foldl_cons]
      apply ih
      cases l <;> simp only [fstep] <;> (repeat' split) <;> first | exact h | rfl
  have hmid : ∀ (ls : List FLabel) (st : Fwd × Outcome), (∀ l ∈ ls, l = .closeSock ∨ l = .closeCh) →
      st.1.running = true → st.1.inHand = true → st.2 = .alive →
      let r := ls.foldl (fstep false) st
      r.1.running = true ∧ r.1.inHand = true ∧ r.2 = .alive := by
    intro ls
    induction ls with
    | nil => intro st _ h1 h2 h3; exact ⟨h1, h2, h3⟩
    | cons l rest ih =>
      intro st h h1 h2 h3
      simp only [List.foldl_cons]
      apply ih
      · exact fun l' hl' => h l' (List.mem_cons_of_mem _ hl')
      · rcases h l (List.mem_cons_self ..) with rfl | rfl <;> exact h1
      · rcases h l (List.mem_cons_self ..) with rfl | rfl <;> exact h2
      · rcases h l (List.mem_cons_self ..) with rfl | rfl <;> exact h3
  unfold frun
  rw [List.foldl_append, List.foldl_append, List.foldl_append]
  apply hstay
  have h0 : List.foldl (fstep false) (f, Outcome.alive) [FLabel.recv] = ({ f with inHand := true }, .alive) := by
    simp [fstep, hf.1, hf.2.1, hf.2.2]
  rw [h0]
  have hm := hmid pre ({ f with inHand := true }, .alive) hpre hf.1 rfl rfl
  generalize List.foldl (fstep false) ({ f with inHand := true }, Outcome.alive) pre = st at hm
  obtain ⟨c, o⟩ := st
  simp only at hm
  simp [fstep, hm.1, hm.2.1, hm.2.2]

theorem forward_send_witness : (frun false {} [.recv, .closeSock, .closeCh, .send]).2 = .processDies ∧
    (frun true {} [.recv, .closeSock, .closeCh, .send, .recv]) = ({ sockOpen := false, chOpen := false, inHand := false, running := false }, .alive) ∧
    (frun false {} [.closeSock, .closeCh, .recv, .send]).2 = .alive := by
  decide

/-- how the hand-over IS written, from the regenerated channel facts -/
def udpForwardRecovered : Bool :=
  (sends.map (fun s => (s.site, s.guard))).contains (sendExcUdp, SendGuard.panicToError)

theorem forward_send_fact : udpForwardRecovered = udpForwardSendIsFixed := by
  decide +kernel

/-- the statement for the tree as selected by the switch -/
theorem forward_send_status :
    (∀ (ls : List FLabel) (f : Fwd), (frun udpForwardSendIsFixed f ls).2 = .alive) ↔ udpForwardSendIsFixed = true := by
  cases h : udpForwardSendIsFixed
  · simp only [Bool.false_eq_true, iff_false]
    intro hall
    have := hall [.recv, .closeSock, .closeCh, .send] {}
    revert this
    decide
  · simp only [iff_true]
    exact forward_send_recovered_safe

/-! ## 3c. discoverConn (client side) -/

theorem discover_safe_partial {sent reqs : Nat} (h : sent ≤ reqs + discoverBuf) :
    discoverMayDie false sent reqs = false := by
  unfold discoverMayDie readerBlockedAtClose
  simp only [Bool.not_false, Bool.true_and, decide_eq_false_iff_not]
  omega

/-- one request, twelve datagrams in answer: the reader sits in its send when Close closes the channel -/
theorem discover_witness : discoverMayDie false 12 1 = true := by decide

theorem discover_fixed (sent reqs : Nat) : discoverMayDie true sent reqs = false := rfl

/-! ## 5. Lock order: no cycle, no self-deadlock (facts regenerated by translate/gen_lockorder.go) -/

section lockorder
open LockOrd
open Frp.Gen.LockOrder

/-- every "b acquired while a is held" goes forward in the emitted order — self-loops cannot -/
theorem lock_order_respected : respects order edges = true := by
  decide +kernel

/-- no chain of goroutines, each holding a mutex and waiting for the next one's, closes into a cycle;
    in particular no call path re-acquires (at the level of the declared mutex) what it holds -/
theorem lock_order_acyclic (m : String) : ¬ Path edges m m :=
  no_cycle lock_order_respected m

/-- no function locks a lock expression it already holds, and every lock call was named -/
theorem no_relock : relocks = [] ∧ unresolved = [] := by
  decide +kernel

/-- a cycle defeats EVERY order: the check cannot be satisfied by a clever witness -/
theorem cycle_defeats_order {es : List Edge} {a : String} (p : Path es a a) (ord : List String) :
    respects ord es = false := by
  cases h : respects ord es with
  | false => rfl
  | true => exact absurd p (no_cycle h a)

/-- what a leave that takes the group lock before the controller lock amounts to (one reversed edge):
    no order exists any more -/
theorem reversed_edge_witness (ord : List String) :
    respects ord (⟨"server/group.TCPMuxGroup.mu", "server/group.TCPMuxGroupCtl.mu", "server/group/tcpmux.go",
                    "TCPMuxGroup.CloseListener", 0, "call TCPMuxGroupCtl.RemoveGroup"⟩ :: edges) = false := by
  apply cycle_defeats_order (a := "server/group.TCPMuxGroup.mu")
  refine .cons ⟨_, List.mem_cons_self .., rfl, rfl⟩ (.one ?_)
  have h : (edges.map Edge.pair).contains ("server/group.TCPMuxGroupCtl.mu", "server/group.TCPMuxGroup.mu") = true := by
    decide +kernel
  rcases List.mem_map.mp (List.contains_iff_mem.mp h) with ⟨e, he, hp⟩
  refine ⟨e, List.mem_cons_of_mem _ he, ?_, ?_⟩
  · exact congrArg Prod.fst hp
  · exact congrArg Prod.snd hp

/-- … and a callee that takes the controller lock under the controller lock (a self-loop) -/
theorem self_loop_witness (ord : List String) :
    respects ord (⟨"server/group.TCPGroupCtl.mu", "server/group.TCPGroupCtl.mu", "server/group/tcp.go",
                    "TCPGroupCtl.Listen", 0, "call TCPGroup.Listen"⟩ :: edges) = false :=
  cycle_defeats_order (.one ⟨_, List.mem_cons_self .., rfl, rfl⟩) ord

/-- the extractor is not blind: the mutexes and the nestings the code is known to have are there -/
theorem lock_sites_present :
    120 ≤ lockSites ∧ 35 ≤ mutexes.length ∧ order.length = mutexes.length ∧
    (mutexes.all (fun m => order.contains m)) = true ∧
    [ ("server/group.TCPGroupCtl.mu", "server/group.TCPGroup.mu"),
      ("server/group.TCPGroup.mu", "server/ports.Manager.mu"),
      ("server/group.TCPMuxGroupCtl.mu", "server/group.TCPMuxGroup.mu"),
      ("server/group.TCPMuxGroup.mu", "pkg/util/vhost.Routers.mutex"),
      ("server/group.HTTPGroupController.mu", "server/group.HTTPGroup.mu"),
      ("server/group.HTTPGroup.mu", "pkg/util/vhost.Routers.mutex"),
      ("server.Control.mu", "server/proxy.Manager.mu"),
      ("client/proxy.Manager.mu", "client/proxy.Wrapper.mu"),
      ("client.Service.ctlMu", "client/proxy.Manager.mu")
    ].all (fun p => (edges.map Edge.pair).contains p) = true ∧
    [ "server.ControlManager.mu", "server.Control.mu", "pkg/nathole.Controller.mu", "pkg/transport.transporterImpl.mu",
      "server/visitor.Manager.mu", "server/ports.Manager.mu", "pkg/util/vhost.Routers.mutex", "client/visitor.Manager.mu"
    ].all (fun m => mutexes.contains m) = true := by
  decide +kernel

end lockorder

/-! ## 6. RegisterControl: every control that enters the table is started or closed -/

section regctl
open RegCtl
open Frp.Gen.LockOrder

/-- how RegisterControl IS written, from the regenerated fact: no way from `ctlManager.Add` around `ctl.Start()` -/
def startAlways : Bool := decide (regCtlReturnsBeforeStart = 0)

/-- the statements between Add and Start as they are in /repo (the model's `proceed` is this code) -/
theorem register_control_fact :
    regCtlReturnsBeforeStart = 0 ∧ startAlways = true ∧
    regCtlBetween =
      ["if oldCtl := svr.ctlManager.Add(loginMsg.RunID, ctl); oldCtl != nil { verifhook.At(\"ctl.beforeWait\", loginMsg.RunID, loginMsg.Hostname) oldCtl.WaitClosed() }",
       "verifhook.At(\"ctl.beforeStart\", loginMsg.RunID, loginMsg.Hostname)"] := by
  decide +kernel

/-- ALL chains of overlapping logins with one run id, all interleavings of the RegisterControl goroutines, the
    workers, the connection drops and the table removals: from every reachable state, once every peer has hung up
    and every goroutine has run, every login HAS BEEN ANSWERED and every control has closed its doneCh — no
    reachable state is a wedge -/
theorem every_login_answered (ls : List Label) :
    settled (run startAlways (run startAlways {} ls) (drain (run startAlways {} ls))) = true := by
  rw [register_control_fact.2.1]
  exact relogin_never_wedged ls

/-- a control only ever waits for an OLDER control (the wait-for relation of RegisterControl is well-founded) -/
theorem control_waits_on_older (b : Bool) (ls : List Label) (k j : Nat) (c : RegCtl.Ctl) :
    (run b {} ls).ctls[k]? = some c → c.stat = .waiting (some j) → j < k :=
  waits_on_older b ls k j c

/-- as the code is, no control is ever left in the table without having been started -/
theorem no_control_abandoned (ls : List Label) (k : Nat) (c : RegCtl.Ctl) :
    (run startAlways {} ls).ctls[k]? = some c → c.stat ≠ .abandoned := by
  rw [register_control_fact.2.1]
  exact startAlways_never_abandons ls k c

/-- the other way of writing it — a control that finds itself superseded after the wait returns without Start —
    wedges the run id FOR EVER after three overlapping logins: login 2 and every later login with that run id is
    never answered, whatever happens afterwards -/
theorem superseded_skip_wedges_forever (ls : List Label) (k : Nat) (c : RegCtl.Ctl) :
    2 ≤ k → (run false {} (wedgeWitness ++ ls)).ctls[k]? = some c → c.answered = false :=
  superseded_skip_wedges ls k c

theorem superseded_skip_witness :
    (run false {} wedgeWitness).ctls.map RegCtl.Ctl.stat = [.closed, .abandoned, .waiting (some 1)] ∧
    (run true {} wedgeWitness).ctls.map RegCtl.Ctl.stat = [.closed, .started, .waiting (some 1)] := by
  decide

/-- with NOBODY hanging up: once the goroutines have run, every login of every reachable state is answered (the
    connections of superseded controls are closed by the server itself: Replaced) -/
theorem every_login_answered_unattended (ls : List Label) (i : Nat) (c : RegCtl.Ctl) :
    (run startAlways (run startAlways {} ls) (settleFrom 0 (run startAlways {} ls).ctls.length)).ctls[i]? = some c →
    c.answered = true := by
  rw [register_control_fact.2.1]
  exact settle_answers_all ls i c

/-- the schedules the engine op `relogin` forces — any number of overlapping logins, any release order: the last
    login, which nobody superseded, gets its LoginResp (the model's answer to every `relogin` op is `done`) … -/
theorem relogin_op_answered (k : Nat) (order : List Nat) :
    lastAnswered (run startAlways {} (reloginSchedule k order)) = true := by
  rw [register_control_fact.2.1]
  exact relogin_schedule_answered k order

/-- … and with the skipping variant it never does as soon as two logins overlap the closing session, whatever
    the release order -/
theorem relogin_op_wedged (k : Nat) (order : List Nat) (hk : 2 ≤ k) :
    lastAnswered (run false {} (reloginSchedule k order)) = false :=
  relogin_schedule_wedged k order hk

end regctl

/-! ## 7. StartWorkConn addresses on the client (HandleTCPWorkConnection → go-proxyproto) -/

section startwork
open Frp.Gen.LockOrder

/-- the full clause: nothing the server puts into StartWorkConn kills frpc -/
def StartWorkSafeFull (fixed : Bool) : Prop :=
  ∀ (ver : PPVer) (srcGiven srcHasDot : Bool) (src dst : AddrRes),
    handleStartWork fixed ver srcGiven srcHasDot src dst ≠ .crash

/-- as the code is: frpc dies exactly when a header is to be written (v1 or v2, source given) and one of the two
    addresses did not resolve -/
theorem startwork_crash_iff (ver : PPVer) (srcGiven srcHasDot : Bool) (src dst : AddrRes) :
    handleStartWork false ver srcGiven srcHasDot src dst = .crash ↔
      srcGiven = true ∧ (ver = .v1 ∨ ver = .v2) ∧ (src = .bad ∨ dst = .bad) := by
  cases ver <;> cases srcGiven <;> cases srcHasDot <;> cases src <;> cases dst <;> decide

theorem startwork_safe_partial (ver : PPVer) (srcGiven srcHasDot : Bool) (src dst : AddrRes)
    (h : src ≠ .bad ∧ dst ≠ .bad) : handleStartWork false ver srcGiven srcHasDot src dst ≠ .crash := by
  intro hc
  have := (startwork_crash_iff ver srcGiven srcHasDot src dst).mp hc
  rcases this with ⟨_, _, h1 | h1⟩
  · exact h.1 h1
  · exact h.2 h1

theorem startwork_witness : ¬ StartWorkSafeFull false := by
  intro h
  exact h .v1 true true .bad .v4 (by decide)

/-- repaired: an unresolved address stays an untyped nil, the header is refused, the work connection closed -/
theorem startwork_fixed : StartWorkSafeFull true := by
  intro ver srcGiven srcHasDot src dst
  cases ver <;> cases srcGiven <;> cases srcHasDot <;> cases src <;> cases dst <;> decide

/-- the repair changes nothing for addresses that resolve -/
theorem startwork_fixed_agrees (ver : PPVer) (srcGiven srcHasDot : Bool) (src dst : AddrRes)
    (h : src ≠ .bad ∧ dst ≠ .bad) :
    handleStartWork true ver srcGiven srcHasDot src dst = handleStartWork false ver srcGiven srcHasDot src dst := by
  cases src <;> cases dst <;> first | rfl | (exfalso; first | exact h.1 rfl | exact h.2 rfl)

theorem startwork_status : StartWorkSafeFull startWorkAddrIsFixed ↔ startWorkAddrIsFixed = true := by
  cases h : startWorkAddrIsFixed
  · simp only [Bool.false_eq_true, iff_false]; exact startwork_witness
  · simp only [iff_true]; exact startwork_fixed

/-- the model is the code: both results of net.ResolveTCPAddr are stored, and the error is discarded exactly in the
    unrepaired variant (regenerated from client/proxy/proxy.go) -/
theorem startwork_resolve_fact :
    resolveCalls.map Prod.fst = ["srcAddr", "dstAddr"] ∧
    (resolveCalls.all (fun r => r.2 == !startWorkAddrIsFixed)) = true := by
  decide +kernel

end startwork

/-! ## 4. The predicate the `crash` engine evaluates on the implementation's observation -/

/-- what the parent process saw after an operation against the sacrificial child -/
inductive Obs
  | alive          -- the child is running and answered
  | crash          -- the child exited: unrecovered panic or fatal runtime error
  | wedge          -- the child runs but the watchdog login + tunnel does not work any more
  deriving DecidableEq, Repr

def holdsOn : Obs → Bool
  | .alive => true
  | _ => false

theorem holdsOn_sound (o : Obs) : holdsOn o = true ↔ o = .alive := by
  cases o <;> simp [holdsOn]

/-- the model's verdict for a login, as an observation -/
def obsOfLogin (fixed : Bool) (maxPool login : Int) : Obs :=
  match loginOutcome fixed maxPool login with
  | .alive => .alive
  | .processDies => .crash

theorem model_holdsOn_login {maxPool login : Int} (hmax : 0 ≤ maxPool) :
    holdsOn (obsOfLogin false maxPool login) = true ↔ -10 ≤ login := by
  unfold obsOfLogin
  have h := login_kills_frps (login := login) hmax
  cases hl : loginOutcome false maxPool login with
  | alive =>
    simp only [holdsOn, true_iff]
    by_cases hc : login < -10
    · rw [h.mpr hc] at hl; cases hl
    · omega
  | processDies =>
    simp only [holdsOn, Bool.false_eq_true, false_iff]
    have := h.mp hl
    omega

theorem model_holdsOn_login_fixed {maxPool login : Int} (hmax : 0 ≤ maxPool) :
    holdsOn (obsOfLogin true maxPool login) = true := by
  unfold obsOfLogin
  rw [login_never_kills_fixed hmax]
  rfl


/-! ## 8. User-facing parsers: index / slice sites, CanonicalHost -/

open Frp.UserIn in
/-- every `x[i]` / `x[a:b]` in pkg/util/http, pkg/util/vhost, pkg/util/tcpmux is a map lookup or is dominated by guards
    that the judgement accepts for its shape — over the facts regenerated from the tree on this run; an operand whose
    type the extractor cannot resolve, a bound it cannot read and a guard that was invalidated by an assignment all
    count as NOT guarded -/
theorem index_sites_guarded : ∀ s ∈ Frp.Gen.IndexFacts.sites, s.ok = true := by
  decide +kernel

open Frp.UserIn in
/-- what the judgement means: at an accepted site Go's run-time bounds check passes, for EVERY assignment of
    lengths and integers under which the extracted guards hold (in particular for every byte string a user sends) -/
theorem index_ok_sound : ∀ s ∈ Frp.Gen.IndexFacts.sites, s.opKind = .seq →
    ∀ ρ : Env, (∀ f ∈ s.facts, f.holds ρ) → s.shape.safe ρ s.operand :=
  fun s hs hk _ hf => IdxSite.ok_safe hk (index_sites_guarded s hs) hf

open Frp.UserIn in
/-- the extractor is not blind: hasPort's `host[0]` is there as an index 0 into a sequence under `1 ≤ len(host)`
    (two or more colons were counted), both basic-auth parsers and both wildcard walks are there, and the map
    lookups of the three host extractors are recognised as maps -/
theorem index_sites_present :
    [ ("hasPort", "host[0]", OpKind.seq, Shape.index (.const 0)),
      ("ParseBasicAuth", "auth[:len(prefix)]", .seq, .slice none (some (.lenOf "prefix"))),
      ("ParseBasicAuth", "cs[s+1:]", .seq, .slice (some (.varPlus "s" 1)) none),
      ("parseBasicAuth", "cs[:s]", .seq, .slice none (some (.var "s"))),
      ("Muxer.getListener", "domainSplit[0]", .seq, .index (.const 0)),
      ("HTTPReverseProxy.getVhost", "domainSplit[1:]", .seq, .slice (some (.const 1)) none),
      ("Muxer.handle", "reqInfoMap[\"Host\"]", .map, .index (.other "\"Host\"")),
      ("HTTPConnectTCPMuxer.getHostFromHTTPConnect", "reqInfoMap[\"Host\"]", .map, .index (.other "\"Host\"")),
      ("GetHTTPSHostname", "reqInfoMap[\"Host\"]", .map, .index (.other "\"Host\""))
    ].all (fun k => (Frp.Gen.IndexFacts.sites.map (fun s => (s.fn, s.expr, s.opKind, s.shape))).contains k) = true ∧
    13 ≤ (Frp.Gen.IndexFacts.sites.filter (fun s => s.opKind = .seq)).length := by
  decide +kernel

open Frp.UserIn in
/-- a site without its guard is rejected: `host[0]` with nothing known, and with a guard on ANOTHER variable -/
theorem index_unguarded_rejected :
    (IdxSite.mk "f.go" "f" 1 "host[0]" "host" .seq (.index (.const 0)) []).ok = false ∧
    (IdxSite.mk "f.go" "f" 1 "host[0]" "host" .seq (.index (.const 0)) [.lenGe "other" 1]).ok = false ∧
    (IdxSite.mk "f.go" "f" 1 "host[len(host)-1]" "host" .seq (.index (.lenMinus "host" 1)) []).ok = false ∧
    (IdxSite.mk "f.go" "f" 1 "m[k]" "m" .unknown (.index (.var "k")) []).ok = false ∧
    (IdxSite.mk "f.go" "f" 1 "host[0]" "host" .seq (.index (.const 0)) [.lenGe "host" 1]).ok = true := by
  decide

/-- … and the rejection is right: with no guard there is an assignment (the empty string) under which Go panics -/
theorem index_unguarded_panics :
    ¬ UserIn.Shape.safe ⟨fun _ => 0, fun _ => 0⟩ "host" (.index (.const 0)) := by
  intro h
  simp only [UserIn.Shape.safe, UserIn.Bound.eval] at h
  obtain ⟨n, hn, h0, h1⟩ := h
  simp only [Option.some.injEq] at hn
  simp only [Int.natCast_zero] at h1
  omega

/-- pkg/util/http hasPort as written (with `host[0]` able to panic) never panics and is the model's hasPort -/
theorem hasPort_never_panics (h : Str) : UserIn.hasPortG h = .ok (Host.hasPort h) := UserIn.hasPortG_total h

/-- CanonicalHost never panics, on any byte string, and computes `Host.canonicalHost` (the model C06 routes with) -/
theorem canonicalHost_never_panics (host : Str) : UserIn.canonicalHostG host = .ok (Host.canonicalHost host) :=
  UserIn.canonicalHostG_total host

/-- why the extractor drops a guard at every assignment: a host that passed `host != ""` can be empty after
    strings.TrimSuffix(host, "."), and indexing it then panics -/
theorem guard_does_not_survive_trim : ∃ h : Str, h ≠ [] ∧ UserIn.goIndex (Host.trimDot h) 0 = .panic :=
  UserIn.guard_does_not_survive_trim

/-! ## 9. frpc teardown against active plugin requests -/

/-- callees of a plugin's Close that were read by hand: pkg/vnet/controller.go UnregisterServerConn → serverRouter.delConn:
    a mutex and a map delete -/
def closeCalleesPinned : List String := ["VnetController.UnregisterServerConn"]

open Frp.UserIn in
/-- every `Close()` of pkg/plugin/client makes only calls that cannot wait for a user: (*http.Server).Close,
    the package's Listener.Close, mutexes, close(ch), pinned callees — no Shutdown without deadline, no receive, no
    Wait (regenerated on this run) -/
theorem plugin_close_nonblocking : ∀ f ∈ Frp.Gen.PluginClose.closeFacts, f.nonBlocking closeCalleesPinned = true := by
  decide +kernel

open Frp.UserIn in
/-- the extractor is not blind: the six plugins that embed an http.Server stop it in Close -/
theorem plugin_close_present :
    ["HTTP2HTTPPlugin", "HTTP2HTTPSPlugin", "HTTPS2HTTPPlugin", "HTTPS2HTTPSPlugin", "HTTPProxy", "StaticFilePlugin"].all
      (fun r => Frp.Gen.PluginClose.closeFacts.any (fun f => f.recv = r &&
        f.calls.any (fun c => c = .srvClose || c = .shutdown true || c = .shutdown false))) = true := by
  decide +kernel

open Frp.UserIn in
/-- with a Close that cannot wait, frpc logs in again after at most four turns of the worker goroutine — for every
    number of active requests, tcpMux on or off, and EVERY interleaving with requests that end by themselves -/
theorem teardown_relogs {cs : List CloseCall} (h : ∀ c ∈ cs, c.mayWait closeCalleesPinned = false)
    (mux : Bool) (active : Nat) (ls : List PLabel) (hw : 4 ≤ workerTicks ls) :
    (prun mux cs { active := active } ls).pc = 4 := by
  rw [prun_pc h mux ls _ (Nat.zero_le _)]
  simp only
  omega

open Frp.UserIn in
/-- … in particular with every Close method of the tree as it is -/
theorem teardown_relogs_as_is : ∀ f ∈ Frp.Gen.PluginClose.closeFacts, ∀ (mux : Bool) (active : Nat) (ls : List PLabel),
    4 ≤ workerTicks ls → (prun mux f.calls { active := active } ls).pc = 4 := by
  intro f hf mux active ls hw
  have hnb := plugin_close_nonblocking f hf
  unfold CloseFact.nonBlocking at hnb
  rw [List.all_eq_true] at hnb
  apply teardown_relogs (cs := f.calls) _ mux active ls hw
  intro c hc
  have := hnb c hc
  simpa using this

open Frp.UserIn in
/-- a Close that calls Shutdown without a deadline: with tcpMux off (work connections outlive the session) and one
    request that does not end, the worker never leaves pm.Close(), however often it is scheduled: no close(doneCh),
    no login, for ever -/
theorem shutdown_wedges_forever (pre post : List CloseCall) (hpre : ∀ c ∈ pre, c ≠ .srvClose)
    (active : Nat) (ha : 0 < active) (n : Nat) :
    (prun false (pre ++ .shutdown false :: post) { active := active } (List.replicate n .worker)).pc ≤ 1 := by
  have hc : ∀ a, 0 < a → closeRun (pre ++ .shutdown false :: post) a = none := by
    intro a
    induction pre generalizing a with
    | nil =>
      intro h0
      have : a ≠ 0 := by omega
      simp [closeRun, callStep, this]
    | cons c cs ih =>
      intro h0
      have hne : c ≠ .srvClose := hpre c (List.mem_cons_self ..)
      have hrest : ∀ c ∈ cs, c ≠ .srvClose := fun c hc => hpre c (List.mem_cons_of_mem _ hc)
      simp only [List.cons_append, closeRun]
      cases c with
      | srvClose => exact absurd rfl hne
      | lnClose => simp only [callStep]; exact ih hrest a h0
      | mutex => simp only [callStep]; exact ih hrest a h0
      | chanClose => simp only [callStep]; exact ih hrest a h0
      | shutdown dl =>
        cases dl with
        | true => simp only [callStep]; exact ih hrest a h0
        | false =>
          have : a ≠ 0 := by omega
          simp [callStep, this]
      | wait w => simp [callStep]
      | other o => simp only [callStep]; exact ih hrest a h0
  exact (prun_wedged false rfl hc (List.replicate n .worker) (fun l hl => (List.mem_replicate.mp hl).2)
    { active := active } (Nat.zero_le _) ha).1

open Frp.UserIn in
/-- the same Close with tcpMux ON: closeSession takes the work connections down first, Shutdown finds nothing active -/
theorem shutdown_mux_relogs (active : Nat) :
    (prun true [.shutdown false] { active := active } [.worker, .worker, .worker, .worker]).pc = 4 := by
  simp [prun, pstep, closeRun, callStep]

open Frp.UserIn in
theorem shutdown_witness :
    (prun false [.shutdown false, .lnClose] { active := 1 } (List.replicate 12 .worker)).pc = 1 ∧
    (prun false [.srvClose, .lnClose] { active := 1 } (List.replicate 4 .worker)).pc = 4 ∧
    (prun false [.shutdown false] { active := 1 } [.worker, .worker, .userFinishes, .worker, .worker, .worker]).pc = 4 := by
  decide

/-! ## 10. The ssh tunnel gateway: request payloads chosen by the ssh client (pkg/ssh) -/

section sshgw
open Frp.UserIn Frp.SshGw Frp.Gen.IndexFacts

/-- the type `end` is computed in, AS THE SOURCE HAS IT (regenerated on every run): `.u32` while handleNewChannel adds
    the peer's uint32 to 4 in uint32, `.wide` once the sum is made in a 64-bit type.  An extractor that finds no such
    definition leaves `.u32` — and `ssh_exec_shape` fails -/
def sshExecArith : NumT :=
  match sshExecEnd with
  | [.defPlus _ _ t] => t
  | _ => .u32

/-- tie: `end := 4 + E` with E a big-endian uint32 of the payload, one definition, in the type the model runs with -/
theorem ssh_exec_shape : sshExecEnd = [.defPlus "end" 4 sshExecArith] := by
  decide +kernel

/-- the extractor is not blind: the six indexing / slicing expressions of pkg/ssh, three of them on sequences -/
theorem ssh_sites_present :
    sshSites.map (fun s => (s.fn, s.expr, s.opKind)) =
      [ ("NewGateway>func", "authorizedKeysMap[string(key.Marshal())]", .map),
        ("loadAuthorizedKeysFromFile", "authorizedKeysMap[string(pubKey.Marshal())]", .map),
        ("TunnelServer.Run", "sshConn.Permissions.Extensions[\"user\"]", .map),
        ("TunnelServer.parseClientAndProxyConfigurer", "args[0]", .seq),
        ("TunnelServer.handleNewChannel", "req.Payload[:4]", .seq),
        ("TunnelServer.handleNewChannel", "req.Payload[4:end]", .seq) ] := by
  decide +kernel

/-- which sites of pkg/ssh the judgement does NOT accept: none once `end` is computed without wrap-around, exactly
    `req.Payload[4:end]` while it is computed in uint32 (`4 ≤ end` does not follow from `end := 4 + E`) -/
theorem ssh_sites_unguarded_exact :
    (sshSites.filter (fun s => !s.ok)).map (·.expr) =
      if sshExecArith = .wide then [] else ["req.Payload[4:end]"] := by
  decide +kernel

/-- **the clause for the code at hand** (valid on the unchanged tree, where it says "violated", and on the repaired one,
    where it says "holds"): every index / slice expression of pkg/ssh is a map lookup or dominated by guards that imply
    Go's bounds check -/
theorem ssh_sites_guarded_code :
    (sshExecArith = .wide → ∀ s ∈ sshSites, s.ok = true) ∧
    (sshExecArith = .u32 → ¬ ∀ s ∈ sshSites, s.ok = true) := by
  decide +kernel

/-- what acceptance means (same soundness lemma as for the user-facing parsers) -/
theorem ssh_index_ok_sound : ∀ s ∈ sshSites, s.opKind = .seq → s.ok = true →
    ∀ ρ : Env, (∀ f ∈ s.facts, f.holds ρ) → s.shape.safe ρ s.operand :=
  fun _ _ hk hok _ hf => IdxSite.ok_safe hk hok hf

/-- … and the rejection is right: the guards of the unchanged code (`end := 4 + E` in uint32, `len ≥ 5`,
    `end ≤ len`) are satisfied by len = 5, E = 0xFFFFFFFC, end = 0 — and `p[4:0]` fails Go's check -/
theorem ssh_end_rejection_right :
    ∃ ρ : Env, (∀ f ∈ [GFact.defPlus "end" 4 .u32, .lenGe "req.Payload" 5, .varLeLen "end" "req.Payload"], f.holds ρ) ∧
      ¬ Shape.safe ρ "req.Payload" (.slice (some (.const 4)) (some (.var "end"))) := by
  refine ⟨⟨fun _ => 5, fun _ => 0⟩, ?_, ?_⟩
  · intro f hf
    simp only [List.mem_cons, List.mem_nil_iff, or_false] at hf
    rcases hf with rfl | rfl | rfl
    · exact ⟨4294967292, by decide, by decide⟩
    · simp [GFact.holds]
    · simp [GFact.holds]
  · intro h
    simp only [Shape.safe, Bound.eval] at h
    obtain ⟨a, b, ha, hb, _, hab, _⟩ := h
    simp only [Option.some.injEq] at ha hb
    omega

/-- the same judgement with the sum made in a 64-bit type accepts the site -/
theorem ssh_end_wide_accepted :
    (IdxSite.mk "pkg/ssh/server.go" "TunnelServer.handleNewChannel" 316 "req.Payload[4:end]" "req.Payload" .seq
      (.slice (some (.const 4)) (some (.var "end")))
      [.defPlus "end" 4 .wide, .lenGe "req.Payload" 5, .varLeLen "end" "req.Payload"]).ok = true ∧
    (IdxSite.mk "pkg/ssh/server.go" "TunnelServer.handleNewChannel" 316 "req.Payload[4:end]" "req.Payload" .seq
      (.slice (some (.const 4)) (some (.var "end")))
      [.defPlus "end" 4 .u32, .lenGe "req.Payload" 5, .varLeLen "end" "req.Payload"]).ok = false ∧
    (IdxSite.mk "pkg/ssh/server.go" "TunnelServer.handleNewChannel" 316 "req.Payload[4:end]" "req.Payload" .seq
      (.slice (some (.const 4)) (some (.var "end")))
      [.defPlus "end" 4 .wide, .lenGe "req.Payload" 5]).ok = false := by
  decide

/-- the full clause for the request loop: no payload of any request makes a slice expression fail Go's check -/
def SshExecSafeFull (t : NumT) : Prop :=
  ∀ (typ p : Str) (cap : Nat), p.length ≤ cap → handleReq t .i64 typ p cap ≠ .panic

/-- repaired arithmetic: holds for every request type, payload and buffer capacity (and on 32-bit builds as well) -/
theorem ssh_exec_wide_never_panics (w : IntW) (typ p : Str) (cap : Nat) (h : p.length ≤ cap) :
    handleReq .wide w typ p cap ≠ .panic := handleReq_wide_never_panics w typ p cap h

/-- as the code is: frps dies exactly for an `exec` request of more than four bytes whose length prefix is
    0xFFFFFFFC … 0xFFFFFFFF -/
theorem ssh_exec_u32_panics_iff (typ p : Str) (cap : Nat) (h : p.length ≤ cap) :
    handleReq .u32 .i64 typ p cap = .panic ↔ (typ = execType ∧ 4 < p.length ∧ 4294967292 ≤ be32 p) :=
  handleReq_u32_panics_iff typ p cap h

/-- the same code on a 32-bit build: from 0x7FFFFFFC on -/
theorem ssh_exec_u32_int32_panics_iff (typ p : Str) (cap : Nat) (h : p.length ≤ cap) (h31 : p.length < 2147483648) :
    handleReq .u32 .i32 typ p cap = .panic ↔ (typ = execType ∧ 4 < p.length ∧ 2147483644 ≤ be32 p) :=
  handleReq_u32_int32_panics_iff typ p cap h h31

theorem ssh_exec_safe_partial (typ p : Str) (cap : Nat) (h : p.length ≤ cap) (hn : be32 p < 4294967292) :
    handleReq .u32 .i64 typ p cap ≠ .panic := by
  intro hc
  have := (handleReq_u32_panics_iff typ p cap h).mp hc
  omega

/-- five bytes: FF FF FF FC 'x' -/
theorem ssh_exec_witness : ¬ SshExecSafeFull .u32 := by
  intro h
  exact h execType [255, 255, 255, 252, 120] 5 (by decide) (by decide)

theorem ssh_exec_fixed : SshExecSafeFull .wide :=
  fun typ p cap h => handleReq_wide_never_panics .i64 typ p cap h

/-- the repair changes nothing for prefixes below the wrap -/
theorem ssh_exec_agree (typ p : Str) (cap : Nat) (hn : be32 p < 4294967292) :
    handleReq .u32 .i64 typ p cap = handleReq .wide .i64 typ p cap := handleReq_agree typ p cap hn

theorem ssh_exec_extra_spec (w : IntW) (typ p : Str) (cap : Nat) (s : Str) (h : handleReq .wide w typ p cap = .extra s) :
    typ = execType ∧ s = (p.drop 4).take (be32 p) ∧ s.length = be32 p := handleReq_extra_spec w typ p cap s h

/-- **the clause for the code at hand**, with the arithmetic read from the source -/
theorem ssh_exec_code :
    (sshExecArith = .wide → SshExecSafeFull sshExecArith) ∧ (sshExecArith = .u32 → ¬ SshExecSafeFull sshExecArith) := by
  cases h : sshExecArith
  · exact ⟨fun hc => (by cases hc), fun _ => ssh_exec_witness⟩
  · exact ⟨fun _ => ssh_exec_fixed, fun hc => (by cases hc)⟩

/-- ssh.Unmarshal into tcpipForward{Host string; Port uint32} (x/crypto/ssh's parseString / parseUint32 with their
    slice expressions explicit) returns a value or an error for every payload -/
theorem ssh_unmarshal_never_panics (data : Str) : unmarshalForwardG data ≠ .panic := unmarshalForwardG_total data

/-- tie: the one Unmarshal call of pkg/ssh has exactly this target, and its error is tested and leaves; the loop of
    handleNewChannel is started with `go` and no function of the package calls recover() -/
theorem ssh_unmarshal_fact :
    sshUnmarshals = [("TunnelServer.waitForwardAddrAndExtraPayload", "tcpipForward", ["string", "uint32"], true)] ∧
    sshGoStmts.contains ("TunnelServer.waitForwardAddrAndExtraPayload", "s.handleNewChannel") = true ∧
    sshGoStmts.contains ("Gateway.Run", "g.handleConn") = true ∧ sshRecoverCalls = 0 := by
  decide +kernel

/-- one ssh connection, ANY sequence of global requests, channel opens of any type, channel requests with any payload,
    closes and a disconnect: with the repaired arithmetic the process is alive after it -/
theorem ssh_conn_never_dies_fixed (evs : List SshGw.Ev) (c : SshGw.Conn) : (runConn .wide c evs).2 = .alive :=
  run_wide_alive evs (c, .alive) rfl

/-- as the code is: alive as long as no exec request carries a wrapping prefix -/
theorem ssh_conn_alive_partial (evs : List SshGw.Ev) (c : SshGw.Conn) (hw : ∀ e ∈ evs, wrapsReq e = false) :
    (runConn .u32 c evs).2 = .alive :=
  run_u32_alive evs (c, .alive) rfl hw

/-- as the code is: one channel of any type and one request end the process, whatever else is sent before or after
    (NoClientAuth: no key needed) -/
theorem ssh_conn_witness :
    (runConn .u32 {} [.openCh [120], .chanReq 0 execType [255, 255, 255, 252, 120] 0]).2 = .processDies ∧
    (runConn .u32 {} [.global forwardType [0, 0, 0, 0, 0, 0, 0, 80], .openCh [115], .chanReq 0 execType [0, 0, 0, 1, 116] 3,
      .chanReq 0 execType [255, 255, 255, 255, 0, 0, 0, 0, 0] 0, .disconnect]).2 = .processDies ∧
    (runConn .wide {} [.openCh [120], .chanReq 0 execType [255, 255, 255, 252, 120] 0]) = ({ chans := 1 }, .alive) ∧
    (runConn .u32 {} [.openCh [120], .disconnect, .chanReq 0 execType [255, 255, 255, 252, 120] 0]).2 = .alive := by
  decide

theorem ssh_conn_code :
    (sshExecArith = .wide → ∀ (evs : List SshGw.Ev) (c : SshGw.Conn), (runConn sshExecArith c evs).2 = .alive) ∧
    (sshExecArith = .u32 → ∃ evs : List SshGw.Ev, (runConn sshExecArith {} evs).2 = .processDies) := by
  cases h : sshExecArith
  · exact ⟨fun hc => (by cases hc), fun _ => ⟨_, ssh_conn_witness.1⟩⟩
  · exact ⟨fun _ => ssh_conn_never_dies_fixed, fun hc => (by cases hc)⟩

end sshgw

/-! ## 11. Lock balance: every function that takes a mutex gives it back on every way out -/

section lockbal

/-- functions whose contract is "returns with the lock held" (file, function, lock) — none in the tree -/
def lockHandOvers : List (String × String × String) := []

def lockLeaksOpen : List (String × String × Nat × String × String) :=
  Frp.Gen.LockBalance.leaks.filter (fun l => !lockHandOvers.contains (l.1, l.2.1, l.2.2.2.1))

/-- over the facts regenerated on this run: no function body of client/ pkg/ server/ can be left — by a `return` or by
    running off its end, on ANY path — with a mutex it locked still held (may-held analysis: a lock held on one branch
    counts) -/
theorem lock_balance : lockLeaksOpen = [] := by
  decide +kernel

/-- the extractor is not blind: it followed more than a thousand bodies, more than a hundred of them lock something,
    among them the two synchronous handlers of a session and the worker's teardown, all on `ctl.mu` -/
theorem lock_balance_present :
    1000 ≤ Frp.Gen.LockBalance.bodies ∧ 100 ≤ Frp.Gen.LockBalance.lockingFuncs.length ∧
    ["Control.RegisterProxy", "Control.CloseProxy", "Control.worker"].all (fun f =>
      Frp.Gen.LockBalance.lockingFuncs.any (fun l => l.1 = "server/control.go" && l.2.1 = f && l.2.2.contains "ctl.mu")) = true := by
  decide +kernel

/-- with lock-balanced functions (`lock_balance`) every message of a live session is handled — every sequence of NewProxy
    (within or above max_ports_per_client), CloseProxy and Ping, every limit — -/
theorem session_handles_all (max : Nat) (ms : List LockBal.Msg) (s : LockBal.Sess) (h : s.muHeld = false ∧ s.stuck = false)
    (hg : s.gone = false) (hnd : ∀ m ∈ ms, m ≠ .drop) :
    (LockBal.run false max s ms).handled = s.handled + ms.length ∧ (LockBal.run false max s ms).gone = false :=
  LockBal.balanced_handles_all max ms s h hg hnd

/-- … and when its connection goes the session is torn down completely (ports released, run id free) -/
theorem session_teardown_closes (max : Nat) (ms : List LockBal.Msg) (s : LockBal.Sess) (h : s.muHeld = false ∧ s.stuck = false)
    (hg : s.gone = false) (hnd : ∀ m ∈ ms, m ≠ .drop) : (LockBal.run false max s (ms ++ [.drop])).closed = true :=
  LockBal.balanced_teardown_closes max ms s h hg hnd

/-- one way out that leaves `ctl.mu` locked: from then on the session is NEVER torn down, whatever is sent and whether
    or not the connection goes — its ports stay bound, a login with its run id waits for ever -/
theorem lock_leak_never_closes (leak : Bool) (max : Nat) (ms : List LockBal.Msg) (s : LockBal.Sess)
    (h : s.muHeld = true ∧ s.closed = false) :
    (LockBal.run leak max s ms).closed = false ∧ (LockBal.run leak max s ms).muHeld = true :=
  LockBal.leak_never_closes leak max ms s h

/-- the refusal itself is enough: one NewProxy above the limit on a variant whose refusal branch keeps the lock -/
theorem lock_leak_after_one_refusal (max : Nat) (hmax : 0 < max) (s : LockBal.Sess)
    (hs : s.muHeld = false ∧ s.stuck = false ∧ s.gone = false ∧ s.closed = false)
    (n : Nat) (hn : max < s.used + n) (ms : List LockBal.Msg) :
    (LockBal.run true max s (.newProxy n :: ms)).closed = false :=
  LockBal.leak_after_one_refusal max hmax s hs n hn ms

theorem lock_leak_witness :
    (LockBal.run true 2 {} (LockBal.opSchedule 2 [.closeProxy 1, .newProxy 1, .ping])) =
      { muHeld := true, stuck := true, used := 2, handled := 3, refused := 1, gone := true, closed := false } ∧
    (LockBal.run false 2 {} (LockBal.opSchedule 2 [.closeProxy 1, .newProxy 1, .ping])) =
      { used := 2, handled := 6, refused := 1, gone := true, closed := true } ∧
    (LockBal.run true 0 {} (LockBal.opSchedule 2 [.closeProxy 1, .newProxy 1, .ping])).closed = true :=
  LockBal.leak_witness

end lockbal

/-! ## 12. Census of map-typed struct fields: the list of designated shared tables is closed -/

section mapcensus
open Frp.Gen.MapCensus

/-- map fields that are written after construction and are NOT shared tables judged by obligation 1, each with the
    reason (read by hand).  A prefix ending in `/` or `.` stands for everything below it -/
def mapFieldsPinned : List (String × String) :=
  [ ("pkg/config/", "configuration value objects: filled while ONE goroutine loads a file / converts a message, handed on afterwards"),
    ("pkg/metrics/mem.ServerStatistics.", "only reached through serverMetrics, whose every method holds serverMetrics.mu"),
    ("pkg/metrics/mem.ServerStats.ProxyTypeCounts", "a fresh copy built by serverMetrics.GetServer under serverMetrics.mu and returned"),
    ("pkg/msg.Dispatcher.msgHandlers", "RegisterHandler runs before Dispatcher.Run starts the read loop; read-only afterwards"),
    ("pkg/vnet.clientRouter.routes", "own RWMutex taken in addRoute / findConn / delRoute, no other access"),
    ("pkg/vnet.serverRouter.", "own RWMutex taken in addConn / findConnBySrc / registerSrcIP / delConn, no other access") ]

def mapFieldPinned (obj : String) : Bool :=
  mapFieldsPinned.any (fun p => p.1 = obj || ((p.1.endsWith "/" || p.1.endsWith ".") && obj.startsWith p.1))

def mapFieldDesignated (obj : String) : Bool := (accesses.map (·.obj)).contains obj

/-- every map-typed struct field of client/ pkg/ server/ that some statement outside a constructor writes is one of the
    designated shared tables (every access to it is judged by `all_guarded…` over LockFacts) or pinned with its reason —
    over the census regenerated on this run: a NEW map that is written at run time has to be argued for -/
theorem map_census_closed :
    ∀ f ∈ mapFields, f.2.1 = 0 ∨ mapFieldDesignated f.1 = true ∨ mapFieldPinned f.1 = true := by
  decide +kernel

/-- the extractor is not blind: the session table, a session's proxies, the nat-hole tables, the port manager's sets
    are in the census as written after construction -/
theorem map_census_present :
    40 ≤ mapFields.length ∧
    ["server.ControlManager.ctlsByRunID", "server.Control.proxies", "pkg/nathole.Controller.clientCfgs", "pkg/nathole.Controller.sessions",
     "server/ports.Manager.usedPorts", "server/proxy.Manager.pxys", "pkg/util/vhost.Routers.indexByDomain", "client/proxy.Manager.proxies"].all
      (fun o => mapFields.any (fun f => f.1 = o && f.2.1 != 0 && f.2.2.1) && mapFieldDesignated o) = true := by
  decide +kernel

/-- pkg/auth (the verifier is ONE object shared by every connection's goroutine): the only field a method assigns is
    `OidcAuthConsumer.subjectsFromLogin`, and it is a SLICE — an unsynchronised append can lose an update (DESIGN 7 #18, a
    note) but cannot end the process; a map there would (`fatal error: concurrent map writes`) -/
theorem auth_field_writes_pinned :
    authFieldWrites = [("pkg/auth.OidcAuthConsumer.subjectsFromLogin", "slice", "OidcAuthConsumer.VerifyLogin")] ∧
    authFieldWrites.all (fun w => w.2.1 != "map") = true := by
  decide +kernel

end mapcensus

/-! ## non-vacuity -/

example : chanCap false 5 1 = 11 := by decide
example : chanCap false 5 1000000 = 15 := by decide
example : chanCap false 5 (-10) = 0 := by decide
example : chanCap false 5 (-11) = -1 := by decide
example : chanCap true 5 (-11) = 10 := by decide
example : loginOutcome false 5 (-9223372036854775808) = .processDies := by decide
example : loginOutcome false 5 (-1) = .alive ∧ proxyUseOutcome false 5 (-1) = .processDies := by decide
example : proxyUseOutcome true 5 (-1) = .alive := by decide
example : (run ["Ping"] [{}, {}] [(0, .bad), (1, .known "Ping"), (0, .known "Ping"), (1, .known "Pong")])
    = [{ alive := false }, { handled := ["Ping"] }] := by decide
example : firstMsg (.known "Ping") = .closed := by decide
example : ptrUses.length ≠ 0 := by decide +kernel
example : forwardUserOne ⟨true, none, none⟩ = .writeErr ∧ forwardUserOne ⟨false, none, none⟩ = .skipped ∧
    forwardUserOne ⟨true, none, some ⟨4, 53⟩⟩ = .written ∧ forwardUserOne ⟨true, none, some ⟨0, 0⟩⟩ = .writeErr := by decide
example : (srvRun ["Ping"] nilSafeMethods nilTolerantCallees ptrUses { ctls := [{}], works := [{}, {}] }
    [.work 0 (.udp ⟨true, none, none⟩), .work 0 .bad, .work 0 (.udp ⟨true, none, none⟩), .work 1 .ping, .ctl 0 (.known "Ping"),
     .bytes .relay]) =
    { ctls := [{ handled := ["Ping"] }], works := [{ open_ := false, queued := [⟨true, none, none⟩], renew := 1 }, {}] } := by
  decide +kernel
example : (trun ⟨true, false⟩ {} (tearSchedule "drained" 2)) = ({ chOpen := false, doneOpen := false, inTable := false }, .alive) := by
  decide
example : accesses.length ≠ 0 := by decide +kernel
example : Frp.Gen.LockOrder.edges.length ≠ 0 := by decide +kernel
example : RegCtl.settled (RegCtl.run true {} (RegCtl.reloginSchedule 3 [3, 1, 0, 2] ++ RegCtl.drain (RegCtl.run true {} (RegCtl.reloginSchedule 3 [3, 1, 0, 2])))) = true := by
  decide
example : handleStartWork false .v1 true true .bad .v4 = .crash ∧ handleStartWork true .v1 true true .bad .v4 = .closed ∧
    handleStartWork false .v2 true true .v4 .v6 = .closed ∧ handleStartWork false .v2 true false .v6 .v4 = .hdr ∧
    handleStartWork false .unset true true .bad .bad = .nohdr ∧ handleStartWork false .v1 false true .bad .bad = .nohdr := by decide

example : Frp.Gen.IndexFacts.sites.length ≠ 0 := by decide +kernel
example : Frp.Gen.IndexFacts.sshSites.length ≠ 0 := by decide +kernel
example : SshGw.handleReq .u32 .i64 SshGw.execType [0, 0, 0, 3, 116, 99, 112, 33] 8 = .extra [116, 99, 112] ∧
    SshGw.handleReq .u32 .i64 SshGw.execType [0, 0, 0, 9, 116] 5 = .ignored ∧
    SshGw.handleReq .u32 .i64 SshGw.execType [255, 255, 255, 251, 116] 5 = .ignored ∧
    SshGw.handleReq .u32 .i64 SshGw.execType [255, 255, 255, 252, 116] 5 = .panic ∧
    SshGw.handleReq .wide .i64 SshGw.execType [255, 255, 255, 252, 116] 5 = .ignored ∧
    SshGw.handleReq .u32 .i32 SshGw.execType [127, 255, 255, 252, 116] 5 = .panic ∧
    SshGw.handleReq .u32 .i64 [115] [255, 255, 255, 252, 116] 5 = .ignored := by decide
example : SshGw.unmarshalForwardG [0, 0, 0, 1, 120, 0, 0, 0, 80] = .ok (some ([120], 80)) ∧
    SshGw.unmarshalForwardG [255, 255, 255, 255, 120, 0, 0, 0, 80] = .ok none ∧ SshGw.unmarshalForwardG [] = .ok none ∧
    SshGw.unmarshalForwardG [0, 0, 0, 0, 0, 0, 0, 80, 1] = .ok none := by decide
example : Frp.Gen.PluginClose.closeFacts.length ≠ 0 := by decide +kernel
example : UserIn.canonicalHostG [46] = .ok (some []) ∧ UserIn.canonicalHostG [46, 58, 56, 48] = .ok (some []) ∧
    UserIn.canonicalHostG [91, 58, 58, 49, 93] = .ok (some [91, 58, 58, 49, 93]) ∧ UserIn.canonicalHostG [58, 58] = .ok (some [58, 58]) ∧
    UserIn.canonicalHostG [91] = .ok (some [91]) ∧ UserIn.canonicalHostG [] = .ok (some []) := by decide

end C16
end Frp
