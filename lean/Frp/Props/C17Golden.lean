/-
  GOLDEN wire table for C17 — hand-pinned copy of the control protocol of the pinned frp release
  (commit c9fd674, pkg/msg/msg.go): type bytes, message structs, and per struct the
  (goField, jsonName, goType, omitempty) rows.  These are "the field names of the released protocol".
  NEVER regenerate this file from the tree under test: `Frp.C17.schema_eq_golden` proves that the
  table regenerated from today's source equals this one, so a renamed JSON tag, a changed type byte,
  a changed field type, a dropped `omitempty`, an added/removed/reordered field breaks a theorem.
  (A deliberate protocol change is made by editing this file in the same commit.)
-/
namespace Frp.C17.Golden

abbrev Field := String × String × String × Bool

/-- `msgTypeMap`: (type byte, struct name), sorted by type byte -/
def registry : List (Nat × String) :=
  [ (49, "LoginResp")
  , (50, "NewProxyResp")
  , (51, "NewVisitorConnResp")
  , (52, "Pong")
  , (53, "NatHoleSid")
  , (54, "NatHoleReport")
  , (99, "CloseProxy")
  , (104, "Ping")
  , (105, "NatHoleVisitor")
  , (109, "NatHoleResp")
  , (110, "NatHoleClient")
  , (111, "Login")
  , (112, "NewProxy")
  , (114, "ReqWorkConn")
  , (115, "StartWorkConn")
  , (117, "UDPPacket")
  , (118, "NewVisitorConn")
  , (119, "NewWorkConn") ]

/-- every struct of msg.go reachable from the registry, sorted by name: (name, fields sorted by JSON name) -/
def structs : List (String × List Field) :=
  [ ("ClientSpec",
      [("AlwaysAuthPass", "always_auth_pass", "bool", true),
       ("Type", "type", "string", true)])
  , ("CloseProxy",
      [("ProxyName", "proxy_name", "string", true)])
  , ("Login",
      [("Arch", "arch", "string", true),
       ("ClientSpec", "client_spec", "ClientSpec", true),
       ("Hostname", "hostname", "string", true),
       ("Metas", "metas", "map[string]string", true),
       ("Os", "os", "string", true),
       ("PoolCount", "pool_count", "int", true),
       ("PrivilegeKey", "privilege_key", "string", true),
       ("RunID", "run_id", "string", true),
       ("Timestamp", "timestamp", "int64", true),
       ("User", "user", "string", true),
       ("Version", "version", "string", true)])
  , ("LoginResp",
      [("Error", "error", "string", true),
       ("RunID", "run_id", "string", true),
       ("Version", "version", "string", true)])
  , ("NatHoleClient",
      [("AssistedAddrs", "assisted_addrs", "[]string", true),
       ("MappedAddrs", "mapped_addrs", "[]string", true),
       ("ProxyName", "proxy_name", "string", true),
       ("Sid", "sid", "string", true),
       ("TransactionID", "transaction_id", "string", true)])
  , ("NatHoleDetectBehavior",
      [("CandidatePorts", "candidate_ports", "[]PortsRange", true),
       ("ListenRandomPorts", "listen_random_ports", "int", true),
       ("Mode", "mode", "int", true),
       ("ReadTimeoutMs", "read_timeout", "int", true),
       ("Role", "role", "string", true),
       ("SendDelayMs", "send_delay_ms", "int", true),
       ("SendRandomPorts", "send_random_ports", "int", true),
       ("TTL", "ttl", "int", true)])
  , ("NatHoleReport",
      [("Sid", "sid", "string", true),
       ("Success", "success", "bool", true)])
  , ("NatHoleResp",
      [("AssistedAddrs", "assisted_addrs", "[]string", true),
       ("CandidateAddrs", "candidate_addrs", "[]string", true),
       ("DetectBehavior", "detect_behavior", "NatHoleDetectBehavior", true),
       ("Error", "error", "string", true),
       ("Protocol", "protocol", "string", true),
       ("Sid", "sid", "string", true),
       ("TransactionID", "transaction_id", "string", true)])
  , ("NatHoleSid",
      [("Nonce", "nonce", "string", true),
       ("Response", "response", "bool", true),
       ("Sid", "sid", "string", true),
       ("TransactionID", "transaction_id", "string", true)])
  , ("NatHoleVisitor",
      [("AssistedAddrs", "assisted_addrs", "[]string", true),
       ("MappedAddrs", "mapped_addrs", "[]string", true),
       ("PreCheck", "pre_check", "bool", true),
       ("Protocol", "protocol", "string", true),
       ("ProxyName", "proxy_name", "string", true),
       ("SignKey", "sign_key", "string", true),
       ("Timestamp", "timestamp", "int64", true),
       ("TransactionID", "transaction_id", "string", true)])
  , ("NewProxy",
      [("AllowUsers", "allow_users", "[]string", true),
       ("Annotations", "annotations", "map[string]string", true),
       ("BandwidthLimit", "bandwidth_limit", "string", true),
       ("BandwidthLimitMode", "bandwidth_limit_mode", "string", true),
       ("CustomDomains", "custom_domains", "[]string", true),
       ("Group", "group", "string", true),
       ("GroupKey", "group_key", "string", true),
       ("Headers", "headers", "map[string]string", true),
       ("HostHeaderRewrite", "host_header_rewrite", "string", true),
       ("HTTPPwd", "http_pwd", "string", true),
       ("HTTPUser", "http_user", "string", true),
       ("Locations", "locations", "[]string", true),
       ("Metas", "metas", "map[string]string", true),
       ("Multiplexer", "multiplexer", "string", true),
       ("ProxyName", "proxy_name", "string", true),
       ("ProxyType", "proxy_type", "string", true),
       ("RemotePort", "remote_port", "int", true),
       ("ResponseHeaders", "response_headers", "map[string]string", true),
       ("RouteByHTTPUser", "route_by_http_user", "string", true),
       ("Sk", "sk", "string", true),
       ("SubDomain", "subdomain", "string", true),
       ("UseCompression", "use_compression", "bool", true),
       ("UseEncryption", "use_encryption", "bool", true)])
  , ("NewProxyResp",
      [("Error", "error", "string", true),
       ("ProxyName", "proxy_name", "string", true),
       ("RemoteAddr", "remote_addr", "string", true)])
  , ("NewVisitorConn",
      [("ProxyName", "proxy_name", "string", true),
       ("RunID", "run_id", "string", true),
       ("SignKey", "sign_key", "string", true),
       ("Timestamp", "timestamp", "int64", true),
       ("UseCompression", "use_compression", "bool", true),
       ("UseEncryption", "use_encryption", "bool", true)])
  , ("NewVisitorConnResp",
      [("Error", "error", "string", true),
       ("ProxyName", "proxy_name", "string", true)])
  , ("NewWorkConn",
      [("PrivilegeKey", "privilege_key", "string", true),
       ("RunID", "run_id", "string", true),
       ("Timestamp", "timestamp", "int64", true)])
  , ("Ping",
      [("PrivilegeKey", "privilege_key", "string", true),
       ("Timestamp", "timestamp", "int64", true)])
  , ("Pong",
      [("Error", "error", "string", true)])
  , ("PortsRange",
      [("From", "from", "int", true),
       ("To", "to", "int", true)])
  , ("ReqWorkConn",
      [])
  , ("StartWorkConn",
      [("DstAddr", "dst_addr", "string", true),
       ("DstPort", "dst_port", "uint16", true),
       ("Error", "error", "string", true),
       ("ProxyName", "proxy_name", "string", true),
       ("SrcAddr", "src_addr", "string", true),
       ("SrcPort", "src_port", "uint16", true)])
  , ("UDPPacket",
      [("Content", "c", "string", true),
       ("LocalAddr", "l", "*net.UDPAddr", true),
       ("RemoteAddr", "r", "*net.UDPAddr", true)]) ]

end Frp.C17.Golden
