import Frp.Model.GroupPorts
import Frp.Lemmas.Ports
import Frp.Gen.PortFacts
/-
  C13 — tcp groups over the REAL port manager tables (Frp/Model/GroupPorts.lean).

  Clauses: "the group's endpoint exists exactly as long as it has members: it disappears with the last member and
  can be created again immediately … with fixed and server-chosen ports"; and, because the endpoint is a port
  of a shared manager: one owner's bookkeeping never damages another owner's port.
-/
namespace Frp
namespace C13Ports
open Ports GroupPorts

/-! ## Executable predicates evaluated by the driver on the implementation's own results -/

/-- an ACCEPTED join / plain registration that reports port `p`, judged on the state before it.
    `grpPort` = the port of the populated group it joined (none: it creates the listener).
    A creator is given an allowed port that is the requested one (unless the server was to choose), that
    nobody holds and that NO OTHER OWNER IS ACCOUNTED FOR (nothing is overwritten); a later member is told the
    port its group listens on. -/
def grantHolds (allowed : List Nat) (s : St) (grpPort : Option Nat) (req p : Nat) : Bool :=
  match grpPort with
  | some q => p == q
  | none => decide (p ∈ allowed) && (req == 0 || req == p) && !s.bound p && (s.pm.usedBy p).isNone

/-- a REFUSED creation (first member of a group without members / plain proxy), judged on the state before it:
    "can be created (again) immediately".  Fixed port: it must be granted if it is free and nobody holds it.
    Server-chosen port: it must be granted iff some allowed port is free — the only legitimate refusal is
    "no available port", and only when the (at most five) random tries could all hit ports held by somebody
    and the caller's reserved port is held as well.  `grab` (a process bound the port between Acquire and Listen)
    excuses everything. -/
def refusalHolds (s : St) (name : Str) (req : Nat) (grab : Bool) (cls : String) : Bool :=
  if grab then true
  else if req = 0 then
    if s.pm.free.any s.avail then
      cls == "noavailable" && s.pm.randomMayFail s.avail &&
        !(match s.pm.reserved.lookup name with | some rp => s.avail rp | none => false)
    else true
  else !(decide (req ∈ s.pm.free) && s.avail req)

/-- one dump of the real manager (`free`, `used` with owner names, and the ports of the block that are bound at
    the OS level): every used entry names THE owner of the listener frps holds on that port, every listener of
    frps is accounted for under its owner, accounted = bound by frps, free / used partition the allowed set -/
def viewHolds (allowed : List Nat) (s : St) (free : List Nat) (used : List (Nat × String)) (bound : List Nat) : Bool :=
  let own := bound.filter (fun p => !s.ext.contains p)
  used.all (fun e => s.lns.any (fun l => l.port == e.1 && Str.toString l.owner == e.2)) &&
  s.lns.all (fun l => used.any (fun e => e.1 == l.port && e.2 == Str.toString l.owner)) &&
  own.all (fun p => used.any (fun e => e.1 == p)) && used.all (fun e => own.contains e.1) &&
  allowed.all (fun p => free.contains p != used.any (fun e => e.1 == p)) &&
  free.all (fun p => decide (p ∈ allowed)) && used.all (fun e => decide (e.1 ∈ allowed))

/-- a user connection to port `p`: answered by a member of the listener that sits there, by the foreign
    process that holds it, or refused when nobody does -/
def connHolds (s : St) (p : Nat) (got : Option Str) (squat refused : Bool) : Bool :=
  match s.lns.find? (fun l => l.port == p) with
  | some l => (match got with | some m => l.members.contains m | none => false)
  | none => if s.ext.contains p then squat else refused


/-! ## The invariant: the manager's books and the sockets agree, owner by owner -/

structure Inv (A : List Nat) (s : St) : Prop where
  pmInv : PMInv A s.pm
  /-- every listener of frps is accounted for, under the name of ITS owner -/
  own   : ∀ l ∈ s.lns, s.pm.usedBy l.port = some l.owner
  /-- every used entry names the owner of a listener that exists -/
  acct  : ∀ p n, s.pm.usedBy p = some n → ∃ l ∈ s.lns, l.port = p ∧ l.owner = n
  /-- one listener per port -/
  excl  : s.lns.Pairwise (fun a b => a.port ≠ b.port)
  /-- the OS never lets a foreign process and frps hold the same port -/
  os    : ∀ p ∈ s.ext, ∀ l ∈ s.lns, l.port ≠ p
  /-- a listener exists only as long as it has members -/
  pop   : ∀ l ∈ s.lns, l.members ≠ []

theorem avail_iff (s : St) (p : Nat) :
    s.avail p = true ↔ p ∉ s.ext ∧ ∀ l ∈ s.lns, l.port ≠ p := by
  unfold St.avail St.bound
  constructor
  · intro h
    have h' : (s.ext.contains p || s.lns.any (fun l => l.port == p)) = false := by
      cases hb : (s.ext.contains p || s.lns.any (fun l => l.port == p)) with
      | false => rfl
      | true => rw [hb] at h; exact absurd h (by decide)
    rw [Bool.or_eq_false_iff] at h'
    refine ⟨?_, ?_⟩
    · intro hm
      have : s.ext.contains p = true := List.contains_iff_mem.mpr hm
      rw [h'.1] at this; exact absurd this (by decide)
    · intro l hl e
      have : s.lns.any (fun l => l.port == p) = true :=
        List.any_eq_true.mpr ⟨l, hl, by simpa using e⟩
      rw [h'.2] at this; exact absurd this (by decide)
  · rintro ⟨h1, h2⟩
    have a : s.ext.contains p = false := by
      cases hc : s.ext.contains p with
      | false => rfl
      | true => exact absurd (List.contains_iff_mem.mp hc) h1
    have b : s.lns.any (fun l => l.port == p) = false := by
      cases hc : s.lns.any (fun l => l.port == p) with
      | false => rfl
      | true =>
        obtain ⟨l, hl, e⟩ := List.any_eq_true.mp hc
        exact absurd (by simpa using e) (h2 l hl)
    rw [a, b]; rfl

theorem bound_false_of_avail {s : St} {p : Nat} (h : s.avail p = true) : s.bound p = false := by
  unfold St.avail at h
  cases hb : s.bound p with
  | false => rfl
  | true => rw [hb] at h; exact absurd h (by decide)

/-- a port nobody holds has no owner in the books (no stale entry) -/
theorem unused_of_avail {A : List Nat} {s : St} (h : Inv A s) {q : Nat} (ha : s.avail q = true) :
    s.pm.usedBy q = none := by
  cases hu : s.pm.usedBy q with
  | none => rfl
  | some n =>
    obtain ⟨l, hl, hp, _⟩ := h.acct q n hu
    exact absurd hp (((avail_iff s q).mp ha).2 l hl)

/-- an allowed port nobody holds is in the free table -/
theorem free_of_avail {A : List Nat} {s : St} (h : Inv A s) {q : Nat} (hq : q ∈ A) (ha : s.avail q = true) :
    q ∈ s.pm.free := by
  rcases h.pmInv.cover q hq with hf | hu
  · exact hf
  · have := (usedBy_isSome_iff s.pm q).mpr hu
    rw [unused_of_avail h ha] at this
    exact absurd this (by decide)

/-- shape of every outcome of the creator's path (`TCPGroup.Listen` first member / `TCPProxy.Run`): refused by the
    manager with nothing changed; or port `q` — probed free of any holder, and free in the books or the caller's
    own reservation — was acquired and either lost to a process that bound it before the owner's Listen (released
    again) or is now listened on by the new owner.  Without a grab the owner's Listen never fails. -/
theorem openLn_cases (s : St) (name : Str) (req : Nat) (grp : Option GInfo) (choice : Option Nat) (grab : Bool) :
    (∃ e, s.openLn name req grp choice grab = (s, .error (.acquire e))) ∨
    (∃ q, s.avail q = true ∧
        ((q ∈ s.pm.free ∧ (req = 0 ∨ req = q)) ∨ (req = 0 ∧ s.pm.reserved.lookup name = some q)) ∧
        ((grab = true ∧ s.openLn name req grp choice grab =
            ({ s with pm := (s.pm.take name q).release q, ext := q :: s.ext }, .error .listen)) ∨
         (grab = false ∧ s.openLn name req grp choice grab =
            ({ s with pm := s.pm.take name q,
                      lns := { port := q, owner := name, grp := grp, members := [name] } :: s.lns }, .ok q)))) := by
  unfold St.openLn
  rcases acquire_cases s.pm name req s.avail choice with ⟨e, he⟩ | ⟨q, hq, ha, hsrc⟩
  · left; exact ⟨e, by rw [he]⟩
  · right
    refine ⟨q, ha, hsrc, ?_⟩
    rw [hq]
    have hb := bound_false_of_avail ha
    cases grab with
    | true => left; simp
    | false => right; simp [hb]

theorem inv_new (A : List Nat) : Inv A (St.new A) := by
  refine ⟨new_inv A, ?_, ?_, ?_, ?_, ?_⟩
  · intro l hl; simp [St.new] at hl
  · intro p n hu; simp [St.new, PM.new, PM.usedBy] at hu
  · simp [St.new]
  · intro p hp; simp [St.new] at hp
  · intro l hl; simp [St.new] at hl

theorem inv_openLn {A : List Nat} {s : St} (h : Inv A s) (name : Str) (req : Nat) (grp : Option GInfo)
    (choice : Option Nat) (grab : Bool) : Inv A (s.openLn name req grp choice grab).1 := by
  rcases openLn_cases s name req grp choice grab with ⟨e, he⟩ | ⟨q, ha, hsrc, hres⟩
  · rw [he]; exact h
  · have hqA : q ∈ A := by
      rcases hsrc with ⟨hf, _⟩ | ⟨_, hr⟩
      · exact h.pmInv.freeA q hf
      · exact h.pmInv.resA name q (str_mem_of_lookup hr)
    obtain ⟨hne, hnl⟩ := (avail_iff s q).mp ha
    rcases hres with ⟨_, hr⟩ | ⟨_, hr⟩
    · rw [hr]
      refine ⟨release_inv (take_inv h.pmInv name hqA) q, ?_, ?_, h.excl, ?_, h.pop⟩
      · intro l hl
        have hlq : l.port ≠ q := hnl l hl
        show ((s.pm.take name q).release q).usedBy l.port = some l.owner
        rw [usedBy_release_other _ hlq, usedBy_take_other _ _ hlq]
        exact h.own l hl
      · intro p n hu
        have hu' : ((s.pm.take name q).release q).usedBy p = some n := hu
        by_cases e : p = q
        · subst e; rw [usedBy_release_self] at hu'; exact absurd hu' (by simp)
        · rw [usedBy_release_other _ e, usedBy_take_other _ _ e] at hu'
          exact h.acct p n hu'
      · intro p hp l hl
        have hp' : p ∈ q :: s.ext := hp
        rcases List.mem_cons.mp hp' with e | hm
        · subst e; exact hnl l hl
        · exact h.os p hm l hl
    · rw [hr]
      refine ⟨take_inv h.pmInv name hqA, ?_, ?_, ?_, ?_, ?_⟩
      · intro l hl
        have hl' : l ∈ ({ port := q, owner := name, grp := grp, members := [name] } : Ln) :: s.lns := hl
        show (s.pm.take name q).usedBy l.port = some l.owner
        rcases List.mem_cons.mp hl' with e | hm
        · subst e; exact usedBy_take_self _ _ _
        · rw [usedBy_take_other _ _ (hnl l hm)]; exact h.own l hm
      · intro p n hu
        have hu' : (s.pm.take name q).usedBy p = some n := hu
        by_cases e : p = q
        · subst e
          rw [usedBy_take_self] at hu'
          refine ⟨_, List.mem_cons_self, rfl, ?_⟩
          exact Option.some.inj hu'
        · rw [usedBy_take_other _ _ e] at hu'
          obtain ⟨l, hl, hp, ho⟩ := h.acct p n hu'
          exact ⟨l, List.mem_cons_of_mem _ hl, hp, ho⟩
      · show List.Pairwise _ (_ :: s.lns)
        rw [List.pairwise_cons]
        exact ⟨fun l hl e => hnl l hl e.symm, h.excl⟩
      · intro p hp l hl
        have hl' : l ∈ ({ port := q, owner := name, grp := grp, members := [name] } : Ln) :: s.lns := hl
        rcases List.mem_cons.mp hl' with e | hm
        · subst e; intro e2
          have e3 : q = p := e2
          exact hne (by rw [e3]; exact hp)
        · exact h.os p hp l hm
      · intro l hl
        have hl' : l ∈ ({ port := q, owner := name, grp := grp, members := [name] } : Ln) :: s.lns := hl
        rcases List.mem_cons.mp hl' with e | hm
        · subst e; simp
        · exact h.pop l hm


/-- one listener per port: two listeners on the same port are the same listener -/
theorem eq_of_same_port {l : List Ln} (h : l.Pairwise (fun a b => a.port ≠ b.port)) {x y : Ln}
    (hx : x ∈ l) (hy : y ∈ l) (e : x.port = y.port) : x = y := by
  induction l with
  | nil => cases hx
  | cons a as ih =>
    rw [List.pairwise_cons] at h
    rcases List.mem_cons.mp hx with hx1 | hx2
    · rcases List.mem_cons.mp hy with hy1 | hy2
      · rw [hx1, hy1]
      · rw [hx1] at e; exact absurd e (h.1 y hy2)
    · rcases List.mem_cons.mp hy with hy1 | hy2
      · rw [hy1] at e; exact absurd e.symm (h.1 x hx2)
      · exact ih h.2 hx2 hy2

/-- a listener found by `find?` is one of the listeners -/
theorem mem_of_find {s : St} {f : Ln → Bool} {l : Ln} (h : s.lns.find? f = some l) : l ∈ s.lns :=
  List.mem_of_find?_eq_some h

/-- replacing the member list of one listener (a later member joins, a member that is not the last leaves):
    ports, owners and the manager are untouched -/
theorem inv_setMembers {A : List Nat} {s : St} (h : Inv A s) {l : Ln} (hl : l ∈ s.lns) (ms : List Str)
    (hms : ms ≠ []) :
    Inv A { s with lns := { l with members := ms } :: s.lns.filter (fun x => x.port ≠ l.port) } := by
  refine ⟨h.pmInv, ?_, ?_, ?_, ?_, ?_⟩
  · intro x hx
    have hx' : x ∈ ({ l with members := ms } : Ln) :: s.lns.filter (fun x => x.port ≠ l.port) := hx
    rcases List.mem_cons.mp hx' with e | hm
    · subst e; exact h.own l hl
    · exact h.own x (List.mem_filter.mp hm).1
  · intro p n hu
    obtain ⟨x, hx, hp, ho⟩ := h.acct p n hu
    by_cases e : x.port = l.port
    · have hxl : x = l := eq_of_same_port h.excl hx hl e
      subst hxl
      exact ⟨{ x with members := ms }, List.mem_cons_self, hp, ho⟩
    · exact ⟨x, List.mem_cons_of_mem _ (List.mem_filter.mpr ⟨hx, by simpa using e⟩), hp, ho⟩
  · show List.Pairwise _ (_ :: _)
    rw [List.pairwise_cons]
    refine ⟨?_, h.excl.filter _⟩
    intro x hx e
    have := (List.mem_filter.mp hx).2
    simp at this
    exact this e.symm
  · intro p hp x hx
    have hx' : x ∈ ({ l with members := ms } : Ln) :: s.lns.filter (fun x => x.port ≠ l.port) := hx
    rcases List.mem_cons.mp hx' with e | hm
    · subst e; exact h.os p hp l hl
    · exact h.os p hp x (List.mem_filter.mp hm).1
  · intro x hx
    have hx' : x ∈ ({ l with members := ms } : Ln) :: s.lns.filter (fun x => x.port ≠ l.port) := hx
    rcases List.mem_cons.mp hx' with e | hm
    · subst e; exact hms
    · exact h.pop x (List.mem_filter.mp hm).1


theorem inv_join {A : List Nat} {s : St} (h : Inv A s) (m : Str) (gi : GInfo) (choice : Option Nat) (grab : Bool) :
    Inv A (s.join m gi choice grab).1 := by
  unfold St.join
  split
  · exact h
  · split
    · exact inv_openLn h _ _ _ _ _
    · rename_i l hg
      split
      · exact h
      · split
        · exact h
        · split
          · exact h
          · exact inv_setMembers h (mem_of_find hg) _ (by simp)

theorem inv_take {A : List Nat} {s : St} (h : Inv A s) (n : Str) (req : Nat) (choice : Option Nat) (grab : Bool) :
    Inv A (s.take n req choice grab).1 := by
  unfold St.take
  split
  · exact h
  · exact inv_openLn h _ _ _ _ _

/-- the last member out: socket closed, `Release(realPort)` -/
theorem inv_dissolve {A : List Nat} {s : St} (h : Inv A s) (l : Ln) :
    Inv A { s with pm := s.pm.release l.port, lns := s.lns.filter (fun x => x.port ≠ l.port) } := by
  refine ⟨release_inv h.pmInv _, ?_, ?_, h.excl.filter _, ?_, ?_⟩
  · intro x hx
    have hx' := List.mem_filter.mp hx
    have hne : x.port ≠ l.port := by simpa using hx'.2
    show (s.pm.release l.port).usedBy x.port = some x.owner
    rw [usedBy_release_other _ hne]; exact h.own x hx'.1
  · intro p n hu
    have hu' : (s.pm.release l.port).usedBy p = some n := hu
    by_cases e : p = l.port
    · rw [e, usedBy_release_self] at hu'; exact absurd hu' (by simp)
    · rw [usedBy_release_other _ e] at hu'
      obtain ⟨x, hx, hp, ho⟩ := h.acct p n hu'
      exact ⟨x, List.mem_filter.mpr ⟨hx, by rw [← hp] at e; simpa using e⟩, hp, ho⟩
  · intro p hp x hx; exact h.os p hp x (List.mem_filter.mp hx).1
  · intro x hx; exact h.pop x (List.mem_filter.mp hx).1

theorem close_eq (s : St) (m : Str) :
    (s.lnOf m = none ∧ s.close m = s) ∨
    (∃ l, s.lnOf m = some l ∧ l.members.erase m = [] ∧
        s.close m = { s with pm := s.pm.release l.port, lns := s.lns.filter (fun x => x.port ≠ l.port) }) ∨
    (∃ l, s.lnOf m = some l ∧ l.members.erase m ≠ [] ∧
        s.close m = { s with lns := { l with members := l.members.erase m } ::
                                      s.lns.filter (fun x => x.port ≠ l.port) }) := by
  unfold St.close
  cases hf : s.lnOf m with
  | none => left; exact ⟨rfl, rfl⟩
  | some l =>
    right
    by_cases hms : l.members.erase m = []
    · left; exact ⟨l, rfl, hms, by simp [hms]⟩
    · right; exact ⟨l, rfl, hms, by simp [hms]⟩

theorem inv_close {A : List Nat} {s : St} (h : Inv A s) (m : Str) : Inv A (s.close m) := by
  rcases close_eq s m with ⟨_, e⟩ | ⟨l, hf, _, e⟩ | ⟨l, hf, hms, e⟩
  · rw [e]; exact h
  · rw [e]; exact inv_dissolve h l
  · rw [e]; exact inv_setMembers h (mem_of_find hf) _ hms

theorem inv_squat {A : List Nat} {s : St} (h : Inv A s) (p : Nat) : Inv A (s.squat p) := by
  unfold St.squat
  split
  · exact h
  · rename_i hb
    have ha : s.avail p = true := by unfold St.avail; simp [hb]
    obtain ⟨_, hnl⟩ := (avail_iff s p).mp ha
    refine ⟨h.pmInv, h.own, h.acct, h.excl, ?_, h.pop⟩
    intro q hq l hl
    have hq' : q ∈ p :: s.ext := hq
    rcases List.mem_cons.mp hq' with e | hm
    · rw [e]; exact hnl l hl
    · exact h.os q hm l hl

theorem inv_unsquat {A : List Nat} {s : St} (h : Inv A s) (p : Nat) : Inv A (s.unsquat p) := by
  refine ⟨h.pmInv, h.own, h.acct, h.excl, ?_, h.pop⟩
  intro q hq l hl
  exact h.os q (List.mem_filter.mp hq).1 l hl

theorem inv_apply {A : List Nat} {s : St} (h : Inv A s) (op : Op) : Inv A (apply s op) := by
  cases op with
  | join m gi c g => exact inv_join h m gi c g
  | take n r c g => exact inv_take h n r c g
  | close m => exact inv_close h m
  | squat p => exact inv_squat h p
  | unsquat p => exact inv_unsquat h p

/-- the invariant holds after EVERY history -/
theorem inv_run (A : List Nat) (ops : List Op) : Inv A (run A ops) := by
  unfold run
  have gen : ∀ (ops : List Op) (s : St), Inv A s → Inv A (ops.foldl apply s) := by
    intro ops
    induction ops with
    | nil => intro s hs; exact hs
    | cons o os ih => intro s hs; exact ih _ (inv_apply hs o)
  exact gen ops _ (inv_new A)


/-! ## The property, for every history

  `run A ops` ranges over every history of group joins / leaves (fixed and server-chosen ports), plain
  proxies, foreign processes, failed listens and random choices. -/

/-- `usedPorts[p]` ALWAYS NAMES THE ONE OWNER THAT HOLDS THE LISTENER ON p: an entry exists iff frps listens
    there, and the name is that listener's owner (the group's founder / the plain proxy) -/
theorem used_names_the_holder (A : List Nat) (ops : List Op) (p : Nat) (n : Str) :
    (run A ops).pm.usedBy p = some n ↔ ∃ l ∈ (run A ops).lns, l.port = p ∧ l.owner = n := by
  have h := inv_run A ops
  constructor
  · exact h.acct p n
  · rintro ⟨l, hl, hp, ho⟩
    rw [← hp, ← ho]; exact h.own l hl

/-- … and there is exactly one such listener, which no foreign process shares -/
theorem one_listener_per_port (A : List Nat) (ops : List Op) {x y : Ln}
    (hx : x ∈ (run A ops).lns) (hy : y ∈ (run A ops).lns) (e : x.port = y.port) : x = y :=
  eq_of_same_port (inv_run A ops).excl hx hy e

theorem listener_not_foreign (A : List Nat) (ops : List Op) {l : Ln} (hl : l ∈ (run A ops).lns) :
    l.port ∉ (run A ops).ext :=
  fun hm => (inv_run A ops).os _ hm l hl rfl

/-- a group exists only while it has members (the endpoint disappears with the last one) -/
theorem listener_has_members (A : List Nat) (ops : List Op) {l : Ln} (hl : l ∈ (run A ops).lns) :
    l.members ≠ [] := (inv_run A ops).pop l hl

/-- NO OVERWRITE: whatever a creator (group founder or plain proxy) asks for — a number, the server's choice, its
    own old reservation — and whatever becomes of its Listen, the entry of a port that has an owner is unchanged -/
theorem openLn_no_overwrite {A : List Nat} {s : St} (h : Inv A s) (name : Str) (req : Nat) (grp : Option GInfo)
    (choice : Option Nat) (grab : Bool) {p : Nat} {n : Str} (hu : s.pm.usedBy p = some n) :
    (s.openLn name req grp choice grab).1.pm.usedBy p = some n := by
  rcases openLn_cases s name req grp choice grab with ⟨e, he⟩ | ⟨q, ha, _, hres⟩
  · rw [he]; exact hu
  · have hpq : p ≠ q := by
      intro e; rw [e, unused_of_avail h ha] at hu; exact absurd hu (by simp)
    rcases hres with ⟨_, hr⟩ | ⟨_, hr⟩
    · rw [hr]
      show ((s.pm.take name q).release q).usedBy p = some n
      rw [usedBy_release_other _ hpq, usedBy_take_other _ _ hpq]; exact hu
    · rw [hr]
      show (s.pm.take name q).usedBy p = some n
      rw [usedBy_take_other _ _ hpq]; exact hu

theorem join_no_overwrite {A : List Nat} {s : St} (h : Inv A s) (m : Str) (gi : GInfo) (choice : Option Nat)
    (grab : Bool) {p : Nat} {n : Str} (hu : s.pm.usedBy p = some n) :
    (s.join m gi choice grab).1.pm.usedBy p = some n := by
  unfold St.join
  split
  · exact hu
  · split
    · exact openLn_no_overwrite h _ _ _ _ _ hu
    · split
      · exact hu
      · split
        · exact hu
        · split
          · exact hu
          · exact hu

theorem take_no_overwrite {A : List Nat} {s : St} (h : Inv A s) (nm : Str) (req : Nat) (choice : Option Nat)
    (grab : Bool) {p : Nat} {n : Str} (hu : s.pm.usedBy p = some n) :
    (s.take nm req choice grab).1.pm.usedBy p = some n := by
  unfold St.take
  split
  · exact hu
  · exact openLn_no_overwrite h _ _ _ _ _ hu

/-- ONE OWNER'S BOOKKEEPING DOES NOT DAMAGE ANOTHER OWNER'S PORT: after any join (accepted or refused, also with
    a failed listen) every listener that existed is still there on its port, under its owner, and accounted -/
theorem join_keeps_owners {A : List Nat} {s : St} (h : Inv A s) (m : Str) (gi : GInfo) (choice : Option Nat)
    (grab : Bool) {l : Ln} (hl : l ∈ s.lns) :
    (s.join m gi choice grab).1.pm.usedBy l.port = some l.owner ∧
    ∃ l' ∈ (s.join m gi choice grab).1.lns, l'.port = l.port ∧ l'.owner = l.owner := by
  have hu := join_no_overwrite h m gi choice grab (h.own l hl)
  exact ⟨hu, (inv_join h m gi choice grab).acct _ _ hu⟩

/-- a leave (`close`) releases at most the port of the leaver's own listener -/
theorem close_touches_own_port_only (s : St) (m : Str) {p : Nat} (hp : ∀ l, s.lnOf m = some l → p ≠ l.port) :
    (s.close m).pm.usedBy p = s.pm.usedBy p := by
  rcases close_eq s m with ⟨_, e⟩ | ⟨l, hf, _, e⟩ | ⟨l, _, _, e⟩
  · rw [e]
  · rw [e]; exact usedBy_release_other _ (hp l hf)
  · rw [e]

/-- the last member out: the port is free in the books at once, has no owner, nobody listens on it -/
theorem last_leave_frees {A : List Nat} {s : St} (h : Inv A s) {m : Str} {l : Ln} (hf : s.lnOf m = some l)
    (hlast : l.members.erase m = []) :
    l.port ∈ (s.close m).pm.free ∧ (s.close m).pm.usedBy l.port = none ∧ (s.close m).avail l.port = true := by
  have hl : l ∈ s.lns := mem_of_find hf
  rcases close_eq s m with ⟨hn, _⟩ | ⟨l', hf', _, e⟩ | ⟨l', hf', hne, _⟩
  · rw [hf] at hn; exact absurd hn (by simp)
  · rw [hf] at hf'; have e' : l = l' := Option.some.inj hf'; subst e'
    rw [e]
    refine ⟨?_, usedBy_release_self _ _, ?_⟩
    · exact release_free (by rw [h.own l hl]; rfl)
    · rw [avail_iff]
      refine ⟨fun hm => h.os _ hm l hl rfl, ?_⟩
      intro x hx
      have := (List.mem_filter.mp hx).2
      simpa using this
  · rw [hf] at hf'; have e' : l = l' := Option.some.inj hf'; subst e'
    exact absurd hlast hne

/-- what a creator is granted: an allowed port that was free in the books, held by nobody, owned by nobody,
    and the one it asked for unless the server was to choose -/
theorem create_granted_free {A : List Nat} {s : St} (h : Inv A s) (name : Str) (req : Nat) (grp : Option GInfo)
    (choice : Option Nat) (grab : Bool) {rp : Nat} (hr : (s.openLn name req grp choice grab).2 = .ok rp) :
    rp ∈ A ∧ rp ∈ s.pm.free ∧ s.avail rp = true ∧ s.pm.usedBy rp = none ∧ (req = 0 ∨ req = rp) := by
  rcases openLn_cases s name req grp choice grab with ⟨e, he⟩ | ⟨q, ha, hsrc, hres⟩
  · rw [he] at hr; exact absurd hr (by simp)
  · rcases hres with ⟨_, hq⟩ | ⟨_, hq⟩
    · rw [hq] at hr; exact absurd hr (by simp)
    · rw [hq] at hr
      have e : q = rp := by simpa using hr
      subst e
      have hqA : q ∈ A := by
        rcases hsrc with ⟨hf, _⟩ | ⟨_, hres⟩
        · exact h.pmInv.freeA q hf
        · exact h.pmInv.resA name q (str_mem_of_lookup hres)
      refine ⟨hqA, free_of_avail h hqA ha, ha, unused_of_avail h ha, ?_⟩
      rcases hsrc with ⟨_, hreq⟩ | ⟨hreq, _⟩
      · exact hreq
      · exact Or.inl hreq

theorem acquire_zero_ok (pm : PM) (name : Str) (avail : Nat → Bool) {k : Nat} (hk : k ∈ pm.free)
    (ha : avail k = true) :
    ∃ q, pm.acquire name 0 avail (some k) = (pm.take name q, .ok q) ∧ avail q = true := by
  unfold PM.acquire
  rw [if_pos rfl]
  split
  · rename_i rp _
    split
    · rename_i har; exact ⟨rp, rfl, har⟩
    · refine ⟨k, ?_, ha⟩
      simp only []
      rw [if_pos ⟨hk, ha⟩]
  · refine ⟨k, ?_, ha⟩
    simp only []
    rw [if_pos ⟨hk, ha⟩]

/-- server-chosen port: with a random pick that lands on a free port nobody holds, the creation succeeds
    (whatever the caller's reservation says: a reservation that somebody else holds by now is skipped) -/
theorem create_port0_good_choice (s : St) (name : Str) (grp : Option GInfo) {k : Nat} (hk : k ∈ s.pm.free)
    (ha : s.avail k = true) : ∃ rp, (s.openLn name 0 grp (some k) false).2 = .ok rp := by
  obtain ⟨q, hq, haq⟩ := acquire_zero_ok s.pm name s.avail hk ha
  refine ⟨q, ?_⟩
  unfold St.openLn
  rw [hq]
  simp [bound_false_of_avail haq]

/-- SERVER-CHOSEN PORT: a creation (nobody grabs the port in between) can succeed IFF some allowed port is free
    and held by nobody — in every state the invariant describes, i.e. after the last leave plus ANY history of
    other owners -/
theorem create_port0_iff {A : List Nat} {s : St} (h : Inv A s) (name : Str) (grp : Option GInfo) :
    (∃ choice rp, (s.openLn name 0 grp choice false).2 = .ok rp) ↔ ∃ p ∈ s.pm.free, s.avail p = true := by
  constructor
  · rintro ⟨choice, rp, hr⟩
    obtain ⟨_, hf, ha, _, _⟩ := create_granted_free h name 0 grp choice false hr
    exact ⟨rp, hf, ha⟩
  · rintro ⟨p, hf, ha⟩
    exact ⟨some p, create_port0_good_choice s name grp hf ha⟩

/-- FIXED PORT: granted iff it is free in the books and held by nobody -/
theorem create_fixed_iff {A : List Nat} {s : St} (h : Inv A s) (name : Str) (grp : Option GInfo)
    (choice : Option Nat) {req : Nat} (hreq : req ≠ 0) :
    (s.openLn name req grp choice false).2 = .ok req ↔ (req ∈ s.pm.free ∧ s.avail req = true) := by
  constructor
  · intro hr
    obtain ⟨_, hf, ha, _, _⟩ := create_granted_free h name req grp choice false hr
    exact ⟨hf, ha⟩
  · rintro ⟨hf, ha⟩
    unfold St.openLn PM.acquire
    rw [if_neg hreq, if_pos hf, if_pos ha]
    simp [bound_false_of_avail ha]

/-- a join that meets no populated group of that name is the creator's path -/
theorem join_creates {s : St} {m : Str} {gi : GInfo} (hl : s.isLive m = false) (hg : s.groupOf gi.g = none)
    (choice : Option Nat) (grab : Bool) :
    s.join m gi choice grab = s.openLn m gi.req (some gi) choice grab := by
  unfold St.join
  simp [hl, hg]

/-- RE-CREATION, SERVER-CHOSEN PORT, AFTER ANY HISTORY: a group without members can be created (again) with
    remotePort 0 iff some allowed port is free — whoever took the group's old port meanwhile -/
theorem recreate_port0 (A : List Nat) (ops : List Op) (m : Str) (gi : GInfo) (hreq : gi.req = 0)
    (hl : (run A ops).isLive m = false) (hg : (run A ops).groupOf gi.g = none) :
    (∃ choice rp, ((run A ops).join m gi choice false).2 = .ok rp) ↔
      ∃ p ∈ (run A ops).pm.free, (run A ops).avail p = true := by
  have e : ∀ choice, (run A ops).join m gi choice false = (run A ops).openLn m 0 (some gi) choice false := by
    intro choice; rw [join_creates hl hg, hreq]
  simp only [e]
  exact create_port0_iff (inv_run A ops) m (some gi)

/-- RE-CREATION, FIXED PORT, AFTER ANY HISTORY -/
theorem recreate_fixed (A : List Nat) (ops : List Op) (m : Str) (gi : GInfo) (choice : Option Nat)
    (hreq : gi.req ≠ 0) (hl : (run A ops).isLive m = false) (hg : (run A ops).groupOf gi.g = none) :
    ((run A ops).join m gi choice false).2 = .ok gi.req ↔
      (gi.req ∈ (run A ops).pm.free ∧ (run A ops).avail gi.req = true) := by
  rw [join_creates hl hg]
  exact create_fixed_iff (inv_run A ops) m (some gi) choice hreq

/-- IMMEDIATELY after the last member has left, the very port the group had can be acquired again by number -/
theorem recreate_after_last_leave {A : List Nat} {s : St} (h : Inv A s) {m : Str} {l : Ln}
    (hf : s.lnOf m = some l) (hlast : l.members.erase m = []) (hp : l.port ≠ 0)
    (name : Str) (grp : Option GInfo) (choice : Option Nat) :
    ((s.close m).openLn name l.port grp choice false).2 = .ok l.port := by
  obtain ⟨hfree, _, ha⟩ := last_leave_frees h hf hlast
  exact (create_fixed_iff (inv_close h m) name grp choice hp).mpr ⟨hfree, ha⟩


/-! ## Why the bind probe on the reserved-port path is needed (witness)

  A reservation is NOT set aside: `Release` returns the port to the free table and anybody may take it by number.
  `openLnR true` is the creator's path over a manager whose reserved-port path hands the caller's old port back
  without `isPortAvailable`.  History: m1 founds G with remotePort 0 and gets port 1; the last member leaves;
  proxy h takes port 1 by number; m1 creates G again with remotePort 0. -/

/-- `Acquire(name, 0)` with the reserved-port path taken WITHOUT the bind probe when `unprobed` -/
def acquireR (unprobed : Bool) (pm : PM) (name : Str) (avail : Nat → Bool) (choice : Option Nat) :
    PM × Except AcqErr Nat :=
  match pm.reserved.lookup name with
  | some rp => if unprobed || avail rp then (pm.take name rp, .ok rp) else pm.acquire name 0 avail choice
  | none => pm.acquire name 0 avail choice

/-- with the probe it is the modelled `Acquire` -/
theorem acquireR_probed (pm : PM) (name : Str) (avail : Nat → Bool) (choice : Option Nat) :
    acquireR false pm name avail choice = pm.acquire name 0 avail choice := by
  unfold acquireR PM.acquire
  rw [if_pos rfl]
  cases hr : pm.reserved.lookup name with
  | none => rfl
  | some rp =>
    cases ha : avail rp with
    | true => simp [ha]
    | false => simp [ha]

/-- the creator's path (server-chosen port) over `acquireR` -/
def openLnR (unprobed : Bool) (s : St) (name : Str) (grp : Option GInfo) (choice : Option Nat) :
    St × Except RegErr Nat :=
  match acquireR unprobed s.pm name s.avail choice with
  | (_, .error e) => (s, .error (.acquire e))
  | (pm', .ok p) =>
    if s.bound p = true then ({ s with pm := pm'.release p }, .error .listen)
    else ({ s with pm := pm', lns := { port := p, owner := name, grp := grp, members := [name] } :: s.lns }, .ok p)

def wM1 : Str := [109, 49]
def wH : Str := [104]
def wG : GInfo := { g := [71], key := [107], req := 0 }

/-- m1 founds G (port 1), leaves, h takes port 1 by number -/
def wBefore : St :=
  (((St.new [1, 2, 3]).join wM1 wG (some 1) false).1.close wM1).take wH 1 none false |>.1

def isListen (r : Except RegErr Nat) : Bool := match r with | .error .listen => true | _ => false
def isOkNe (r : Except RegErr Nat) (p : Nat) : Bool := match r with | .ok q => q != p | _ => false

/-- the unprobed reserved path: m1's re-creation of G with remotePort 0 is refused (listen on h's port), h's port
    is afterwards FREE in the books and has NO owner while h listens on it, and a retry is refused the same way —
    although two allowed ports are free; with the probe m1 is given another port and h's entry is untouched -/
theorem unprobed_reservation_witness :
    let r1 := openLnR true wBefore wM1 (some wG) (some 2)
    let r2 := openLnR true r1.1 wM1 (some wG) (some 2)
    let r := openLnR false wBefore wM1 (some wG) (some 2)
    wBefore.pm.usedBy 1 = some wH ∧
    isListen r1.2 = true ∧ r1.1.pm.usedBy 1 = none ∧ (1 ∈ r1.1.pm.free) ∧ r1.1.lns.any (fun l => l.port == 1) = true ∧
    isListen r2.2 = true ∧
    isOkNe r.2 1 = true ∧ r.1.pm.usedBy 1 = some wH := by
  decide


/-! ## The tie to the source: the shape of `Manager.Acquire` (Frp/Gen/PortFacts.lean, regenerated from
    server/ports/ports.go by translate/gen_portfacts.go) -/

/-- **every write to `usedPorts` sits directly under the bind probe of the very port it writes** — the model's
    `avail q = true` in every successful outcome (`Ports.acquire_cases`), on which `unused_of_avail` (no owner is
    overwritten) and `create_granted_free` rest -/
theorem code_take_probed :
    Gen.PortFacts.takeSites.all (fun s => s.2.1.getLast? == some ("pm.isPortAvailable(" ++ s.1 ++ ")")) = true := by
  decide +kernel

/-- **and the three writes are the three paths of `PM.acquire`**: the caller's reservation (server-chosen port
    only; no look at the free table), a port ranged over the free table, the requested port found in the free table -/
theorem code_take_paths :
    (Gen.PortFacts.takeSites.map (fun s => (s.1, s.2.1.dropLast)) ==
      [("ctx.Port", ["port == 0", "ctx, ok := pm.reservedPorts[name]; ok"]),
       ("k", ["port == 0", "k := range pm.freePorts"]),
       ("port", ["!(port == 0)", "_, ok = pm.freePorts[port]; ok"])]) = true := by
  decide +kernel

end C13Ports
end Frp
