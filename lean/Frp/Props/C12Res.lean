import Frp.Props.C12
/-
  C12, clause "a second registration of a live name is refused AND THE INCUMBENT KEEPS WORKING".

  The name-keyed resources behind a proxy — the visitor listener of an stcp / sudp proxy
  (server/visitor/visitor.go Manager.listeners) and the nat hole client entry of an xtcp proxy
  (pkg/nathole/controller.go Controller.clientCfgs) — are part of the session model (`St.vis`, `St.nat`,
  Model/Sess.lean): `Run` creates the entry unless the name has one, `Close` deletes the entry BY NAME.
  Proved here, for every interleaving (`Reachable`):
    * an entry is held by a live session with an open proxy object of that name (`VInv`, Lemmas/Sess.lean);
    * an entry stays exactly as it is unless the session that holds it closes that proxy itself;
    * a refused registration — at the Exist check, at `Run` (entry repeated), at the `Add` — changes no entry of
      any other session, no other session's record, no table of names or run ids; a failed `Run` changes no
      table at all;
    * a session that has closed its done channel holds no entry (nothing leaks past the teardown), hence a
      re-login is acknowledged only after every rendez-vous entry of its predecessors is gone.
-/
namespace Frp
namespace C12
open Sess

theorem vinv_run {ls : List Label} :
    ∀ {S S' : St}, run S ls = some S' → NInv S → VInv S → NInv S' ∧ VInv S' := by
  induction ls with
  | nil =>
    intro S S' h hn hv
    simp only [run, Option.some.injEq] at h
    subst h
    exact ⟨hn, hv⟩
  | cons l ls ih =>
    intro S S' h hn hv
    simp only [run] at h
    split at h
    · cases h
    · rename_i S1 h1
      exact ih h (ninv_step hn h1) (vinv_step hn hv h1)

theorem reachable_vinv {S : St} (h : Reachable S) : VInv S := by
  obtain ⟨ls, h⟩ := h
  exact (vinv_run h ninv_init vinv_init).2

/-- session `t` holds the rendez-vous entry of name `p` (visitor listener or nat hole client entry) -/
def HoldsEntry (S : St) (t p : Nat) : Prop := S.vis.get p = some t ∨ S.nat.get p = some t

/-- **who stands in the rendez-vous tables**: a live (acknowledged, not torn down) session that has an open proxy
    object of that name — in flight between `Run` and the own-table insert, or registered and not closed -/
theorem entry_holder_open {S : St} {t p : Nat} (hR : Reachable S) (h : HoldsEntry S t p) :
    (S.s t).phase.live = true ∧ ObjOpen (S.s t) p := by
  have hV := reachable_vinv hR t p
  have hN := (reachable_inv hR).1 t p
  simp only [VGood] at hV
  simp only [NGood] at hN
  have ho : ObjOpen (S.s t) p := by
    rcases h with h | h
    · exact hV.2.2.1 (hV.1.mp h)
    · exact hV.2.2.2 (hV.2.1.mp h)
  refine ⟨?_, ho⟩
  rcases ho with ho | ho | ho
  · have := hN.1 (by rw [ho]; simp); simp [this, Phase.live]
  · have := hN.1 (by rw [ho]; simp); simp [this, Phase.live]
  · exact ho.2.2.1

/-- the registered proxy of the name table and the holder of the listener under that name are the same session
    whenever that session's proxy is of a rendez-vous kind: the incumbent's listener IS the entry -/
theorem incumbent_owns_entry {S : St} {t p : Nat} (hR : Reachable S) :
    (p ∈ (S.s t).vres → S.vis.get p = some t) ∧ (p ∈ (S.s t).nres → S.nat.get p = some t) := by
  have hV := reachable_vinv hR t p
  simp only [VGood] at hV
  exact ⟨hV.1.mpr, hV.2.1.mpr⟩

/-! ### an entry changes only by an action of its holder -/

/-- **the incumbent keeps its listener**: an entry `p ↦ t` of the visitor-listener table stays as it is unless
    session `t` itself closes that proxy (CloseProxy, its teardown, or the rollback of its OWN refused Add);
    it is never overwritten and never removed by another session -/
theorem vis_entry_stable {S S' : St} {l : Label} {p t : Nat} (hR : Reachable S)
    (h : step S l = some S') (hv : S.vis.get p = some t) :
    S'.vis.get p = some t ∨ (S'.vis.get p = none ∧ l.sid = t) := by
  have hV := reachable_vinv hR
  cases l with
  | closeProxy n q =>
    simp only [step] at h
    split at h
    · cases h
      have a := hV n q
      simp only [VGood] at a
      by_cases hq : p = q
      · subst hq
        by_cases hm : p ∈ (S.s n).vres
        · have := a.1.mpr hm; rw [hv] at this
          simp [relVis, hm, Label.sid, Option.some.inj this]
        · simp [relVis, hm, hv]
      · by_cases hm : q ∈ (S.s n).vres <;> simp [relVis, hm, hq, hv]
    · cases h
  | closeReq n q =>
    simp only [step] at h
    split at h
    · split at h
      · cases h
        have a := hV n q
        simp only [VGood] at a
        by_cases hq : p = q
        · subst hq
          by_cases hm : p ∈ (S.s n).vres
          · have := a.1.mpr hm; rw [hv] at this
            simp [relVis, hm, Label.sid, Option.some.inj this]
          · simp [relVis, hm, hv]
        · by_cases hm : q ∈ (S.s n).vres <;> simp [relVis, hm, hq, hv]
      · cases h; exact Or.inl hv
    · cases h
  | regAdd n q =>
    simp only [step] at h
    split at h
    · split at h
      · cases h
        have a := hV n q
        simp only [VGood] at a
        by_cases hq : p = q
        · subst hq
          by_cases hm : p ∈ (S.s n).vres
          · have := a.1.mpr hm; rw [hv] at this
            simp [relVis, hm, Label.sid, Option.some.inj this]
          · simp [relVis, hm, hv]
        · by_cases hm : q ∈ (S.s n).vres <;> simp [relVis, hm, hq, hv]
      · cases h; exact Or.inl hv
    · cases h
  | regRun n q k ok =>
    simp only [step] at h
    split at h
    · cases k <;> dsimp only at h
      · cases h; exact Or.inl hv
      · split at h
        · cases h; exact Or.inl hv
        · rename_i hf
          cases h
          by_cases hq : p = q
          · subst hq; simp [hv] at hf
          · simp [hq, hv]
      · split at h <;> (cases h; exact Or.inl hv)
    · cases h
  | login n r f => simp only [step] at h; (repeat' split at h) <;> (try cases h) <;> exact Or.inl hv
  | add n => simp only [step] at h; (repeat' split at h) <;> (try cases h) <;> exact Or.inl hv
  | waitOld n => simp only [step] at h; (repeat' split at h) <;> (try cases h) <;> exact Or.inl hv
  | start n => simp only [step] at h; (repeat' split at h) <;> (try cases h) <;> exact Or.inl hv
  | connClose n => simp only [step] at h; (repeat' split at h) <;> (try cases h) <;> exact Or.inl hv
  | dispDone n => simp only [step] at h; (repeat' split at h) <;> (try cases h) <;> exact Or.inl hv
  | drain n => simp only [step] at h; (repeat' split at h) <;> (try cases h) <;> exact Or.inl hv
  | done n => simp only [step] at h; (repeat' split at h) <;> (try cases h) <;> exact Or.inl hv
  | del n => simp only [step] at h; (repeat' split at h) <;> (try cases h) <;> exact Or.inl hv
  | regExist n q => simp only [step] at h; (repeat' split at h) <;> (try cases h) <;> exact Or.inl hv
  | regOwn n q => simp only [step] at h; (repeat' split at h) <;> (try cases h) <;> exact Or.inl hv
  | closeFin n q => simp only [step] at h; (repeat' split at h) <;> (try cases h) <;> exact Or.inl hv

/-- the same for the nat hole client table (xtcp) -/
theorem nat_entry_stable {S S' : St} {l : Label} {p t : Nat} (hR : Reachable S)
    (h : step S l = some S') (hv : S.nat.get p = some t) :
    S'.nat.get p = some t ∨ (S'.nat.get p = none ∧ l.sid = t) := by
  have hV := reachable_vinv hR
  cases l with
  | closeProxy n q =>
    simp only [step] at h
    split at h
    · cases h
      have a := hV n q
      simp only [VGood] at a
      by_cases hq : p = q
      · subst hq
        by_cases hm : p ∈ (S.s n).nres
        · have := a.2.1.mpr hm; rw [hv] at this
          simp [relNat, hm, Label.sid, Option.some.inj this]
        · simp [relNat, hm, hv]
      · by_cases hm : q ∈ (S.s n).nres <;> simp [relNat, hm, hq, hv]
    · cases h
  | closeReq n q =>
    simp only [step] at h
    split at h
    · split at h
      · cases h
        have a := hV n q
        simp only [VGood] at a
        by_cases hq : p = q
        · subst hq
          by_cases hm : p ∈ (S.s n).nres
          · have := a.2.1.mpr hm; rw [hv] at this
            simp [relNat, hm, Label.sid, Option.some.inj this]
          · simp [relNat, hm, hv]
        · by_cases hm : q ∈ (S.s n).nres <;> simp [relNat, hm, hq, hv]
      · cases h; exact Or.inl hv
    · cases h
  | regAdd n q =>
    simp only [step] at h
    split at h
    · split at h
      · cases h
        have a := hV n q
        simp only [VGood] at a
        by_cases hq : p = q
        · subst hq
          by_cases hm : p ∈ (S.s n).nres
          · have := a.2.1.mpr hm; rw [hv] at this
            simp [relNat, hm, Label.sid, Option.some.inj this]
          · simp [relNat, hm, hv]
        · by_cases hm : q ∈ (S.s n).nres <;> simp [relNat, hm, hq, hv]
      · cases h; exact Or.inl hv
    · cases h
  | regRun n q k ok =>
    simp only [step] at h
    split at h
    · cases k <;> dsimp only at h
      · cases h; exact Or.inl hv
      · split at h <;> (cases h; exact Or.inl hv)
      · split at h
        · cases h; exact Or.inl hv
        · rename_i hf
          cases h
          by_cases hq : p = q
          · subst hq; simp [hv] at hf
          · simp [hq, hv]
    · cases h
  | login n r f => simp only [step] at h; (repeat' split at h) <;> (try cases h) <;> exact Or.inl hv
  | add n => simp only [step] at h; (repeat' split at h) <;> (try cases h) <;> exact Or.inl hv
  | waitOld n => simp only [step] at h; (repeat' split at h) <;> (try cases h) <;> exact Or.inl hv
  | start n => simp only [step] at h; (repeat' split at h) <;> (try cases h) <;> exact Or.inl hv
  | connClose n => simp only [step] at h; (repeat' split at h) <;> (try cases h) <;> exact Or.inl hv
  | dispDone n => simp only [step] at h; (repeat' split at h) <;> (try cases h) <;> exact Or.inl hv
  | drain n => simp only [step] at h; (repeat' split at h) <;> (try cases h) <;> exact Or.inl hv
  | done n => simp only [step] at h; (repeat' split at h) <;> (try cases h) <;> exact Or.inl hv
  | del n => simp only [step] at h; (repeat' split at h) <;> (try cases h) <;> exact Or.inl hv
  | regExist n q => simp only [step] at h; (repeat' split at h) <;> (try cases h) <;> exact Or.inl hv
  | regOwn n q => simp only [step] at h; (repeat' split at h) <;> (try cases h) <;> exact Or.inl hv
  | closeFin n q => simp only [step] at h; (repeat' split at h) <;> (try cases h) <;> exact Or.inl hv

/-! ### a refused registration leaves everybody else's resources alone -/

/-- `pxy.Run()` fails (visitor listener / nat hole entry repeated, or no port …): NOTHING changes but the caller's
    program counter — no table, no other session, not the caller's own table.  (stcp / sudp / xtcp `Run` return at
    once on the error; there is nothing of the new proxy to release, and what is stored under the name is the
    incumbent's.) -/
theorem reg_run_refused {S S' : St} {n p : Nat} {k : Kind} {ok : Bool}
    (h : step S (.regRun n p k ok) = some S') (hr : res S (.regRun n p k ok) = .refused) :
    S'.names = S.names ∧ S'.vis = S.vis ∧ S'.nat = S.nat ∧ S'.byRun = S.byRun ∧ S'.closed = S.closed ∧
      (∀ m, m ≠ n → S'.s m = S.s m) ∧
      (S'.s n).own = (S.s n).own ∧ (S'.s n).vres = (S.s n).vres ∧ (S'.s n).nres = (S.s n).nres ∧
      (S'.s n).hp = .idle := by
  simp only [step] at h
  split at h
  · cases k <;> dsimp only [res] at h hr
    · cases ok
      · cases h
        refine ⟨rfl, rfl, rfl, rfl, rfl, ?_, ?_, ?_, ?_, ?_⟩ <;> first | (intro m hm; simp [hm]) | simp
      · simp at hr
    · split at h
      · cases h
        refine ⟨rfl, rfl, rfl, rfl, rfl, ?_, ?_, ?_, ?_, ?_⟩ <;> first | (intro m hm; simp [hm]) | simp
      · rename_i hf; simp [hf] at hr
    · split at h
      · cases h
        refine ⟨rfl, rfl, rfl, rfl, rfl, ?_, ?_, ?_, ?_, ?_⟩ <;> first | (intro m hm; simp [hm]) | simp
      · rename_i hf; simp [hf] at hr
  · cases h

/-- `Run` of a rendez-vous proxy is refused ⇔ the name has an entry in that table -/
theorem reg_run_refused_iff_occupied (S : St) (n p : Nat) (ok : Bool) :
    (res S (.regRun n p .vis ok) = .refused ↔ ∃ t, S.vis.get p = some t) ∧
    (res S (.regRun n p .nat ok) = .refused ↔ ∃ t, S.nat.get p = some t) := by
  simp only [res]
  constructor
  · cases h : S.vis.get p <;> simp
  · cases h : S.nat.get p <;> simp

/-- `Run` on a free name creates the entry for the caller and touches no other name -/
theorem reg_run_free {S S' : St} {n p : Nat} {ok : Bool}
    (h : step S (.regRun n p .vis ok) = some S') (hf : S.vis.get p = none) :
    S'.vis.get p = some n ∧ (∀ q, q ≠ p → S'.vis.get q = S.vis.get q) ∧ S'.nat = S.nat ∧ S'.names = S.names := by
  simp only [step] at h
  split at h
  · simp only [hf, Option.isSome_none, Bool.false_eq_true, if_false, Option.some.injEq] at h
    subst h
    refine ⟨by simp, ?_, rfl, rfl⟩
    intro q hq; simp [hq]
  · cases h

/-- the registration actions of a NewProxy -/
def isReg : Label → Bool
  | .regExist _ _ | .regRun _ _ _ _ | .regAdd _ _ => true
  | _ => false

/-- **a refused registration and the incumbent** (Exist check, Run, Add — whichever refuses): the name table and
    the run-id table are unchanged, no other session's record changes, and every rendez-vous entry held by ANOTHER
    session is exactly as before.  (The only entries that may go are the caller's own: the rollback `pxy.Close()`
    of the proxy it has just run.) -/
theorem refused_reg_frame {S S' : St} {l : Label} (hR : Reachable S) (h : step S l = some S')
    (hl : isReg l = true) (hr : res S l = .refused) :
    S'.names = S.names ∧ S'.byRun = S.byRun ∧ (∀ m, m ≠ l.sid → S'.s m = S.s m) ∧
      (∀ q t, t ≠ l.sid → S.vis.get q = some t → S'.vis.get q = some t) ∧
      (∀ q t, t ≠ l.sid → S.nat.get q = some t → S'.nat.get q = some t) := by
  refine ⟨?_, ?_, fun m hm => step_frame h hm, ?_, ?_⟩
  · cases l <;> simp only [isReg] at hl <;> try cases hl
    · rename_i n p
      simp only [res] at hr
      have : (S.names.get p).isSome = true := by
        cases hg : (S.names.get p).isSome <;> simp [hg] at hr ⊢
      rw [reg_exist_refused h this]
    · exact (reg_run_refused h hr).1
    · rename_i n p
      simp only [res] at hr
      have : (S.names.get p).isSome = true := by
        cases hg : (S.names.get p).isSome <;> simp [hg] at hr ⊢
      exact (reg_add_refused h this).1
  · cases l <;> simp only [isReg] at hl <;> try cases hl
    · rename_i n p
      simp only [res] at hr
      have : (S.names.get p).isSome = true := by
        cases hg : (S.names.get p).isSome <;> simp [hg] at hr ⊢
      rw [reg_exist_refused h this]
    · exact (reg_run_refused h hr).2.2.2.1
    · rename_i n p
      simp only [res] at hr
      have : (S.names.get p).isSome = true := by
        cases hg : (S.names.get p).isSome <;> simp [hg] at hr ⊢
      exact (reg_add_refused h this).2.1
  · intro q t ht hv
    rcases vis_entry_stable hR h hv with h1 | ⟨_, h2⟩
    · exact h1
    · exact absurd h2.symm ht
  · intro q t ht hv
    rcases nat_entry_stable hR h hv with h1 | ⟨_, h2⟩
    · exact h1
    · exact absurd h2.symm ht

/-! ### nothing leaks past the teardown -/

/-- a session that has closed its done channel holds no visitor listener, no nat hole entry (and no name) -/
theorem teardown_releases_all {S : St} {t : Nat} (hR : Reachable S) (hd : (S.s t).phase = .done) (p : Nat) :
    S.vis.get p ≠ some t ∧ S.nat.get p ≠ some t ∧ S.names.get p ≠ some t := by
  refine ⟨?_, ?_, ?_⟩
  · intro hv
    have := (entry_holder_open hR (Or.inl hv)).1
    simp [hd, Phase.live] at this
  · intro hv
    have := (entry_holder_open hR (Or.inr hv)).1
    simp [hd, Phase.live] at this
  · intro hv
    have := (named_is_live hR hv).1
    simp [hd, Phase.live] at this

/-- **re-login**: when session `n` is acknowledged, no earlier session of its run id holds a visitor listener
    or a nat hole entry any more — the client's own earlier stcp / sudp / xtcp registrations cannot make the
    `Run` of its new ones fail -/
theorem ack_after_entries_released {S : St} {n k : Nat} (hR : Reachable S)
    (hs : (S.s n).phase.started = true) (hk : (S.s k).phase.isAdded = true)
    (hr : (S.s k).rid = (S.s n).rid) (hlt : (S.s k).stamp < (S.s n).stamp) (p : Nat) :
    ¬ HoldsEntry S k p := by
  have hd := (ack_after_all_earlier hR hs hk hr hlt).1
  have := teardown_releases_all hR hd p
  rintro (h | h)
  · exact this.1 h
  · exact this.2.1 h

/-! ### the model satisfies the executable clause `resOn` -/

/-- an entry of the visitor-listener table that was not there before the label belongs to the acting session -/
theorem vis_entry_new {S S' : St} {l : Label} {p t : Nat}
    (h : step S l = some S') (hv : S'.vis.get p = some t) :
    S.vis.get p = some t ∨ t = l.sid := by
  cases l with
  | closeProxy n q =>
    simp only [step] at h
    split at h
    · cases h
      by_cases hm : q ∈ (S.s n).vres <;> by_cases hq : p = q <;> simp_all [relVis]
    · cases h
  | closeReq n q =>
    simp only [step] at h
    split at h
    · split at h
      · cases h
        by_cases hm : q ∈ (S.s n).vres <;> by_cases hq : p = q <;> simp_all [relVis]
      · cases h; exact Or.inl hv
    · cases h
  | regAdd n q =>
    simp only [step] at h
    split at h
    · split at h
      · cases h
        by_cases hm : q ∈ (S.s n).vres <;> by_cases hq : p = q <;> simp_all [relVis]
      · cases h; exact Or.inl hv
    · cases h
  | regRun n q k ok =>
    simp only [step] at h
    split at h
    · cases k <;> dsimp only at h
      · cases h; exact Or.inl hv
      · split at h
        · cases h; exact Or.inl hv
        · cases h
          by_cases hq : p = q <;> simp_all [Label.sid]
      · split at h <;> (cases h; exact Or.inl hv)
    · cases h
  | login n r f => simp only [step] at h; (repeat' split at h) <;> (try cases h) <;> exact Or.inl hv
  | add n => simp only [step] at h; (repeat' split at h) <;> (try cases h) <;> exact Or.inl hv
  | waitOld n => simp only [step] at h; (repeat' split at h) <;> (try cases h) <;> exact Or.inl hv
  | start n => simp only [step] at h; (repeat' split at h) <;> (try cases h) <;> exact Or.inl hv
  | connClose n => simp only [step] at h; (repeat' split at h) <;> (try cases h) <;> exact Or.inl hv
  | dispDone n => simp only [step] at h; (repeat' split at h) <;> (try cases h) <;> exact Or.inl hv
  | drain n => simp only [step] at h; (repeat' split at h) <;> (try cases h) <;> exact Or.inl hv
  | done n => simp only [step] at h; (repeat' split at h) <;> (try cases h) <;> exact Or.inl hv
  | del n => simp only [step] at h; (repeat' split at h) <;> (try cases h) <;> exact Or.inl hv
  | regExist n q => simp only [step] at h; (repeat' split at h) <;> (try cases h) <;> exact Or.inl hv
  | regOwn n q => simp only [step] at h; (repeat' split at h) <;> (try cases h) <;> exact Or.inl hv
  | closeFin n q => simp only [step] at h; (repeat' split at h) <;> (try cases h) <;> exact Or.inl hv

theorem nat_entry_new {S S' : St} {l : Label} {p t : Nat}
    (h : step S l = some S') (hv : S'.nat.get p = some t) :
    S.nat.get p = some t ∨ t = l.sid := by
  cases l with
  | closeProxy n q =>
    simp only [step] at h
    split at h
    · cases h
      by_cases hm : q ∈ (S.s n).nres <;> by_cases hq : p = q <;> simp_all [relNat]
    · cases h
  | closeReq n q =>
    simp only [step] at h
    split at h
    · split at h
      · cases h
        by_cases hm : q ∈ (S.s n).nres <;> by_cases hq : p = q <;> simp_all [relNat]
      · cases h; exact Or.inl hv
    · cases h
  | regAdd n q =>
    simp only [step] at h
    split at h
    · split at h
      · cases h
        by_cases hm : q ∈ (S.s n).nres <;> by_cases hq : p = q <;> simp_all [relNat]
      · cases h; exact Or.inl hv
    · cases h
  | regRun n q k ok =>
    simp only [step] at h
    split at h
    · cases k <;> dsimp only at h
      · cases h; exact Or.inl hv
      · split at h <;> (cases h; exact Or.inl hv)
      · split at h
        · cases h; exact Or.inl hv
        · cases h
          by_cases hq : p = q <;> simp_all [Label.sid]
    · cases h
  | login n r f => simp only [step] at h; (repeat' split at h) <;> (try cases h) <;> exact Or.inl hv
  | add n => simp only [step] at h; (repeat' split at h) <;> (try cases h) <;> exact Or.inl hv
  | waitOld n => simp only [step] at h; (repeat' split at h) <;> (try cases h) <;> exact Or.inl hv
  | start n => simp only [step] at h; (repeat' split at h) <;> (try cases h) <;> exact Or.inl hv
  | connClose n => simp only [step] at h; (repeat' split at h) <;> (try cases h) <;> exact Or.inl hv
  | dispDone n => simp only [step] at h; (repeat' split at h) <;> (try cases h) <;> exact Or.inl hv
  | drain n => simp only [step] at h; (repeat' split at h) <;> (try cases h) <;> exact Or.inl hv
  | done n => simp only [step] at h; (repeat' split at h) <;> (try cases h) <;> exact Or.inl hv
  | del n => simp only [step] at h; (repeat' split at h) <;> (try cases h) <;> exact Or.inl hv
  | regExist n q => simp only [step] at h; (repeat' split at h) <;> (try cases h) <;> exact Or.inl hv
  | regOwn n q => simp only [step] at h; (repeat' split at h) <;> (try cases h) <;> exact Or.inl hv
  | closeFin n q => simp only [step] at h; (repeat' split at h) <;> (try cases h) <;> exact Or.inl hv

/-- **the model satisfies the executable clause**: for a reachable state `P`, a label `l` with `step P l = some S`,
    and dumps that are the model's own tables before and after, `ResSpec` holds -/
theorem model_resSpec {P S : St} {l : Label} (hR : Reachable P) (h : step P l = some S)
    (pv v pn n : List Nat) (names own : List (Nat × Nat)) (run prevRun prevNames : List (Nat × Nat)) (acked : List Nat)
    (hpv : ∀ p ∈ pv, ∃ t, P.vis.get p = some t) (hv : ∀ p, p ∈ v ↔ ∃ t, S.vis.get p = some t)
    (hpn : ∀ p ∈ pn, ∃ t, P.nat.get p = some t) (hn : ∀ p, p ∈ n ↔ ∃ t, S.nat.get p = some t)
    (hpv' : ∀ p, (∃ t, P.vis.get p = some t) → p ∈ pv) (hpn' : ∀ p, (∃ t, P.nat.get p = some t) → p ∈ pn)
    (hnm : ∀ p m, S.names.get p = some m → (p, m) ∈ names)
    (how : ∀ e ∈ own, e.2 ∈ (S.s e.1).own) :
    ResSpec { S := S, actor := l.sid, actorRid := 0, isDel := false, prevRun := prevRun, prevNames := prevNames,
              run := run, names := names, acked := acked, P := P, prevVis := pv, vis := v, prevNat := pn, nat := n,
              own := own } := by
  have hS := reachable_step hR h
  refine ⟨?_, ?_, ?_, ?_, ?_, ?_, ?_⟩
  · intro p hp
    obtain ⟨t, ht⟩ := hpv p hp
    rcases vis_entry_stable hR h ht with h1 | ⟨_, h2⟩
    · exact Or.inl ((hv p).mpr ⟨t, h1⟩)
    · exact Or.inr (by rw [ht, h2])
  · intro p hp
    obtain ⟨t, ht⟩ := hpn p hp
    rcases nat_entry_stable hR h ht with h1 | ⟨_, h2⟩
    · exact Or.inl ((hn p).mpr ⟨t, h1⟩)
    · exact Or.inr (by rw [ht, h2])
  · intro p hp
    obtain ⟨t, ht⟩ := (hv p).mp hp
    rcases vis_entry_new h ht with h1 | h2
    · exact Or.inl (hpv' p ⟨t, h1⟩)
    · exact Or.inr (by rw [ht, h2])
  · intro p hp
    obtain ⟨t, ht⟩ := (hn p).mp hp
    rcases nat_entry_new h ht with h1 | h2
    · exact Or.inl (hpn' p ⟨t, h1⟩)
    · exact Or.inr (by rw [ht, h2])
  · intro p hp
    obtain ⟨t, ht⟩ := (hv p).mp hp
    exact ⟨t, ht, (entry_holder_open hS (Or.inl ht)).1⟩
  · intro p hp
    obtain ⟨t, ht⟩ := (hn p).mp hp
    exact ⟨t, ht, (entry_holder_open hS (Or.inr ht)).1⟩
  · intro e he hph hc
    have hN := (reachable_inv hS).1 e.1 e.2
    simp only [NGood] at hN
    exact hnm _ _ (hN.2.2.2.1 (how e he) hph hc)

/-! ### non-vacuity -/

/-- two sessions race for one stcp name between the Exist check and the Add: the second `Run` is refused and the
    first one's listener entry is untouched; after the winner's Add the loser's next attempt is stopped at Exist -/
example :
    (run init [.login 1 1 true, .add 1, .start 1, .login 2 2 true, .add 2, .start 2,
               .regExist 1 5, .regExist 2 5, .regRun 1 5 .vis true, .regRun 2 5 .vis true, .regAdd 1 5, .regOwn 1 5,
               .regExist 2 5]).map (fun S => (S.vis.get 5, S.names.get 5, (S.s 2).hp, (S.s 2).vres, (S.s 1).vres)) =
      some (some 1, some 1, HP.idle, [], [5]) := by decide

/-- session 1 registered the name as tcp, session 2 passed Exist before and runs an stcp proxy under it: its
    Add is refused and the rollback removes ITS listener entry (the only one under that name) -/
example :
    (run init [.login 1 1 true, .add 1, .start 1, .login 2 2 true, .add 2, .start 2,
               .regExist 1 5, .regExist 2 5, .regRun 1 5 .plain true, .regAdd 1 5, .regRun 2 5 .vis true,
               .regAdd 2 5]).map (fun S => (S.vis.get 5, S.names.get 5, (S.s 2).hp, (S.s 2).vres)) =
      some (none, some 1, HP.idle, []) := by decide

/-- `HoldsEntry` is inhabited -/
example : HoldsEntry ((run init [.login 1 1 true, .add 1, .start 1, .regExist 1 5, .regRun 1 5 .nat true]).getD init) 1 5 :=
  Or.inr (by decide)

/-- what the clause excludes: a `Run` that, on failure, closes "its" proxy — i.e. deletes the entry under the
    name — would remove the INCUMBENT's listener in a reachable state -/
def runFailClosesByName (S : St) (p : Nat) : St := { S with vis := S.vis.set p none }

theorem run_fail_close_witness :
    let S := (run init [.login 1 1 true, .add 1, .start 1, .login 2 2 true, .add 2, .start 2,
                        .regExist 1 5, .regExist 2 5, .regRun 1 5 .vis true]).getD init
    S.vis.get 5 = some 1 ∧ res S (.regRun 2 5 .vis true) = .refused ∧
      ((step S (.regRun 2 5 .vis true)).map (·.vis.get 5)) = some (some 1) ∧
      (runFailClosesByName S 5).vis.get 5 = none := by decide

end C12
end Frp
