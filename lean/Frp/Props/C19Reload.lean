import Frp.Props.C14Heal
/-
  C19, Part F — the reload diff looks at EVERY field, and Part S — the configuration a session is
  started with after a loss of the connection.

  Part F.  `Wrapper.Cfg` collapses all fields of a proxy configuration other than the name into
  `variant`; the harness builds `variant` as an injective code of one value per field of
  v1.ProxyBaseConfig (whole transport block, metadatas, annotations, load balancer, health check,
  backend, plugin) and of the type's own struct (harness/eng_client_fields.go), so "some field
  differs" is "the configurations differ".  The two theorems restate the reload theorems of Part R per
  running proxy: ANY difference ⇒ exactly one CloseProxy, then the registration of a NEW wrapper
  object that carries the new configuration; NO difference ⇒ no message at all and the very same
  wrapper object.

  Part S.  The service model is C14's `Rereg` (Frp/Model/Rereg.lean, client/service.go
  loopLoginUntilSuccess / UpdateAllConfigurer / keepControllerWorking) over this property's
  `Reconcile.updateAll`; C14 proves `healed_run` / `login_sends_all` about it.  Here the C19 clause is
  stated on top: "the proxies the client has registered converge to exactly those of the LAST LOADED
  configuration" across losses of the session — `lastLoaded` is read off the history syntactically.
-/
namespace Frp
namespace C19
open Wrapper Reconcile

section F

/-- ANY DIFFERENCE ⇒ STOP + START WITH THE NEW CONFIGURATION.  A running proxy whose configured
    entry `c` (the last one of its name in the loaded list) differs from what the wrapper carries —
    in whatever field — gets exactly one CloseProxy; its wrapper object is gone; exactly one NewProxy
    follows (none while health-gated); and whatever runs under that name afterwards is a new object
    that carries `c`. -/
theorem reload_changed_restarts (m : Mgr) (cfgs : List Cfg) (now : Nat) (h : Inv m) (w : W) (hw : w ∈ m.proxies)
    (c : Cfg) (hc : lookupLast cfgs w.cfg.name = some c) (hne : c ≠ w.cfg) :
    (updateAll m cfgs now).2.2.count (w.cfg.name, Msg.closeProxy) = 1 ∧
    (updateAll m cfgs now).2.2.count (w.cfg.name, Msg.newProxy) = startCount (some c) ∧
    w ∉ (updateAll m cfgs now).1.proxies ∧
    ∀ w' ∈ (updateAll m cfgs now).1.proxies, w'.cfg.name = w.cfg.name → w'.cfg = c ∧ w'.id = m.nextId := by
  have hk : keeps cfgs w = false := by
    simp only [keeps, hc]
    simpa using hne
  have hnk : hasName (m.proxies.filter (keeps cfgs)) w.cfg.name = false := by
    cases hh : hasName (m.proxies.filter (keeps cfgs)) w.cfg.name with
    | false => rfl
    | true =>
      obtain ⟨x, hx, hn⟩ := (hasName_iff _ _).mp hh
      have hx' := List.mem_filter.mp hx
      have := nodup_same_name h.1 hx'.1 hw hn
      subst this
      rw [hk] at hx'; cases hx'.2
  refine ⟨?_, ?_, update_changed_gone m cfgs now h w hw hk, ?_⟩
  · rw [update_close_count m cfgs now h]
    have : m.proxies.any (fun x => x.cfg.name == w.cfg.name && !keeps cfgs x) = true :=
      List.any_eq_true.mpr ⟨w, hw, by simp [hk]⟩
    simp [this]
  · rw [update_new_count, hnk, hc]
    simp
  · intro w' hw' hn
    have hl := update_running_cfgs m cfgs now w' hw'
    rw [hn, hc] at hl
    refine ⟨(Option.some.inj hl).symm, ?_⟩
    rcases update_new_wrappers m cfgs now w' hw' with ⟨hold, hkeep⟩ | ⟨hid, _, _⟩
    · have := nodup_same_name h.1 hold hw hn
      subst this
      rw [hk] at hkeep; cases hkeep
    · exact hid

/-- NO DIFFERENCE ⇒ NOTHING.  A running proxy whose configured entry equals what the wrapper
    carries gets no message at all and stays the very same wrapper object (same status, same
    clocks): no re-registration, no interruption. -/
theorem reload_unchanged_silent (m : Mgr) (cfgs : List Cfg) (now : Nat) (h : Inv m) (w : W) (hw : w ∈ m.proxies)
    (hc : lookupLast cfgs w.cfg.name = some w.cfg) :
    (updateAll m cfgs now).2.2.count (w.cfg.name, Msg.closeProxy) = 0 ∧
    (updateAll m cfgs now).2.2.count (w.cfg.name, Msg.newProxy) = 0 ∧
    w ∈ (updateAll m cfgs now).1.proxies := by
  have hk : keeps cfgs w = true := by simp [keeps, hc]
  refine ⟨?_, ?_, update_kept_same_wrapper m cfgs now w hw hk⟩
  · rw [update_close_count m cfgs now h]
    have : m.proxies.any (fun x => x.cfg.name == w.cfg.name && !keeps cfgs x) = false := by
      rw [List.any_eq_false]
      intro x hx
      by_cases hn : x.cfg.name = w.cfg.name
      · have := nodup_same_name h.1 hx hw hn
        subst this
        simp [hk]
      · simp [hn]
    simp [this]
  · rw [update_new_count]
    have : hasName (m.proxies.filter (keeps cfgs)) w.cfg.name = true :=
      (hasName_iff _ _).mpr ⟨w, List.mem_filter.mpr ⟨hw, hk⟩, rfl⟩
    simp [this]

-- one field of proxy 1 differs (variant 7 instead of 5): CloseProxy, then NewProxy; proxy 2 is not touched
example : (updateAll (updateAll Reconcile.init [⟨1, 5, false, false⟩, ⟨2, 9, false, false⟩] 0).1
    [⟨1, 7, false, false⟩, ⟨2, 9, false, false⟩] 10).2.2 = [(1, .closeProxy), (1, .newProxy)] := by decide

end F

section S
open Rereg

/-- the configuration in force after a history of the service: the list of its last reload, the
    initial one if there was none -/
def lastLoaded (store0 : List Cfg) : List Rereg.Ev → List Cfg
  | [] => store0
  | .reload cfgs :: es => lastLoaded cfgs es
  | .sessionEnd :: es => lastLoaded store0 es
  | .loopStart :: es => lastLoaded store0 es
  | .loginRun :: es => lastLoaded store0 es
  | .loginSwap :: es => lastLoaded store0 es

theorem step_store (s : Rereg.St) (now : Nat) (e : Rereg.Ev) :
    (Rereg.step s now e).1.store = lastLoaded s.store [e] := by
  cases e <;> simp only [Rereg.step, lastLoaded] <;> (try split) <;> rfl

/-- what the service has stored is the last loaded configuration, after every history -/
theorem store_run (now : Nat) : ∀ (es : List Rereg.Ev) (s : Rereg.St),
    (Rereg.run s now es).store = lastLoaded s.store es := by
  intro es
  induction es with
  | nil => intro s; rfl
  | cons e es ih =>
    intro s
    show (Rereg.run (Rereg.step s now e).1 now es).store = _
    rw [ih, step_store]
    cases e <;> rfl

theorem early_run (now : Nat) : ∀ (es : List Rereg.Ev) (s : Rereg.St), (Rereg.run s now es).early = s.early := by
  intro es
  induction es with
  | nil => intro s; rfl
  | cons e es ih =>
    intro s
    show (Rereg.run (Rereg.step s now e).1 now es).early = _
    rw [ih, C14.early_step]

/-- CONVERGENCE ACROSS SESSION LOSSES.  After ANY history of reloads (while connected, during an
    outage, between two login attempts), connection losses, login-loop entries and successful logins:
    whenever a control is live, the names it runs are exactly the names of the LAST LOADED
    configuration and every wrapper carries that configuration's entry of its name.  (Hypothesis:
    no reload between the two adjacent statements `ctl.Run(…)` and `svr.ctl = ctl` of one loginFunc
    call — C14 `reload_in_window_witness`.) -/
theorem reconnect_runs_last_loaded (now : Nat) (store0 : List Cfg) (es : List Rereg.Ev)
    (hadm : C14.admissible { store := store0 } now es = true) (c : Rereg.Ctl)
    (hc : (Rereg.run { store := store0 } now es).ctl = some c) (ha : c.alive = true) :
    C14.Synced (lastLoaded store0 es) c.pm := by
  have hh := C14.healed_run now es { store := store0 } rfl (C14.healed_init store0) hadm
  have := hh.1 c hc ha
  rwa [store_run] at this

/-- …and what the re-login puts on the NEW session: for every name exactly one NewProxy iff the last
    loaded configuration has an entry of that name that is not health-gated — reloads that arrived
    while the server was unreachable included —, and no CloseProxy -/
theorem relogin_registers_last_loaded (now : Nat) (store0 : List Cfg) (es : List Rereg.Ev) (n : Nat) :
    (Rereg.step (Rereg.run { store := store0 } now es) now .loginRun).2.count (n, Msg.newProxy)
      = startCount (lookupLast (lastLoaded store0 es) n) ∧
    (Rereg.step (Rereg.run { store := store0 } now es) now .loginRun).2.count (n, Msg.closeProxy) = 0 := by
  have he : (Rereg.run { store := store0 } now es).early = false := by rw [early_run]
  have := C14.login_sends_all (Rereg.run { store := store0 } now es) now he n
  rwa [store_run] at this

/-- nothing reaches the server from a control whose session is over: a reload during an outage is
    silent on the wire (it is stored, and registered by the next login) -/
theorem outage_reload_silent (s : Rereg.St) (now : Nat) (cfgs : List Cfg)
    (hd : ∀ c, s.ctl = some c → c.alive = false) :
    (Rereg.step s now (.reload cfgs)).2 = [] ∧ (Rereg.step s now (.reload cfgs)).1.store = cfgs := by
  simp only [Rereg.step]
  cases hc : s.ctl with
  | none => exact ⟨rfl, rfl⟩
  | some c => simp [hd c hc]

/-- the same for the snapshot point found in the source (translate/gen_sessfacts.go: the stored
    configuration is read inside loginFunc, after `svr.login()`, and `ctl.Run` gets that snapshot) -/
theorem reconnect_code (now : Nat) (store0 : List Cfg) (es : List Rereg.Ev)
    (hadm : C14.admissible { early := C14.codeEarly, store := store0 } now es = true) (c : Rereg.Ctl)
    (hc : (Rereg.run { early := C14.codeEarly, store := store0 } now es).ctl = some c) (ha : c.alive = true) :
    C14.Synced (lastLoaded store0 es) c.pm := by
  have hh := C14.healed_run_code now store0 es hadm
  have := hh.1 c hc ha
  rwa [store_run] at this

/-- the theorems notice where the snapshot is taken: with the snapshot taken when the login loop is
    entered, a reload during the outage is lost — after the re-login the live control does not run the
    last loaded configuration -/
theorem reconnect_early_witness :
    let a : Cfg := ⟨1, 1, false, false⟩
    let b : Cfg := ⟨2, 1, false, false⟩
    let hist : List Rereg.Ev :=
      [.loopStart, .loginRun, .loginSwap, .sessionEnd, .loopStart, .reload [b], .loginRun, .loginSwap]
    lastLoaded [a] hist = [b] ∧
    ((Rereg.run { early := true, store := [a] } 0 hist).ctl.map (fun c => Rereg.view c.pm)) = some [(1, 1)] ∧
    ((Rereg.run { early := false, store := [a] } 0 hist).ctl.map (fun c => Rereg.view c.pm)) = some [(2, 1)] := by
  decide

/-! ### executable predicates for the engine `svc` -/

/-- the registrations a new session has received (name, variant): all of the stored configuration,
    nothing else, each name once -/
def sessionRegOK (store : List Cfg) (regs : List (Nat × Nat)) : Bool :=
  C14.regHolds store regs && (regs.map (·.1)).eraseDups.length == regs.length

/-- the model's own new session satisfies it (proxies that are not health-gated) -/
theorem model_sessionRegOK (store : List Cfg) (now : Nat) :
    C14.regHolds store (Rereg.view (updateAll Reconcile.init store now).1) = true :=
  C14.model_regHolds store _ (C14.updateAll_synced _ _ _)

end S
end C19
end Frp
