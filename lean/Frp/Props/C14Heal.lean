import Frp.Model.SessEnd
import Frp.Model.Rereg
import Frp.Props.C19
import Frp.Gen.SessFacts
/-
  C14, parts D and E (imported by Frp/Props/C14.lean).

  Part D: the end of a server session releases everything the session registered — for every
          interleaving of the peer, the read loop, the NewProxy handler, the heartbeat watchdog and
          `worker()`, including a registration that is in flight when the connection ends.
  Part E: the configuration a (re-)login registers is the one in force when the login succeeds — for
          every history of reloads, session ends, refused and successful logins (client/service.go);
          the reload diff itself is C19's `Reconcile.updateAll`, whose theorems are used here.
-/
namespace Frp
namespace C14

section PartD
open SessEnd

/-! ## Part D — a torn-down session holds nothing (server/control.go, pkg/msg/handler.go) -/

/-- a port of `n` is bound by a handler that has not yet put the proxy into `ctl.proxies` -/
def inflightBound (rd : Reader) (n : Nat) : Prop :=
  rd = .handling ⟨n, .ran⟩ ∨ rd = .handling ⟨n, .added⟩

def inflightMgr (rd : Reader) (n : Nat) : Prop := rd = .handling ⟨n, .added⟩

/-- every bound port / taken name is reachable by the walk of `worker()` (it is in `ctl.proxies` and
    the walk has not happened yet) or belongs to the handler running inside the read loop -/
def Own (t : Res) (torn : Bool) (rd : Reader) : Prop :=
  (∀ n ∈ t.bound, (torn = false ∧ n ∈ t.ctlPx) ∨ inflightBound rd n) ∧
  (∀ n ∈ t.mgr, (torn = false ∧ n ∈ t.ctlPx) ∨ inflightMgr rd n)

/-- the reader the session is left with after one handler step -/
def nextReader : Option Reg → Reader
  | some r2 => .handling r2
  | none => .idle

theorem own_quiet {t : Res} {rd : Reader} (h : Own t false rd)
    (hq : ∀ n, ¬ inflightBound rd n) (rd' : Reader) : Own t false rd' := by
  constructor
  · intro n hn
    rcases h.1 n hn with h1 | h1
    · exact Or.inl h1
    · exact absurd h1 (hq n)
  · intro n hn
    rcases h.2 n hn with h1 | h1
    · exact Or.inl h1
    · exact absurd (Or.inr h1) (hq n)

theorem quiet_idle (n : Nat) : ¬ inflightBound .idle n := by
  intro h; rcases h with h | h <;> cases h

theorem quiet_exited (n : Nat) : ¬ inflightBound .exited n := by
  intro h; rcases h with h | h <;> cases h

theorem own_adv (t : Res) (r : Reg) (f : Bool) (h : Own t false (.handling r)) :
    Own (adv t r f).1 false (nextReader (adv t r f).2) := by
  obtain ⟨n, ph⟩ := r
  obtain ⟨hb, hm⟩ := h
  cases ph with
  | plug =>
    have hq : Own t false .idle := own_quiet ⟨hb, hm⟩ (by intro k h; rcases h with h | h <;> cases h) _
    simp only [adv]
    split
    · exact hq
    · exact own_quiet hq quiet_idle _
  | checked =>
    have hq : Own t false .idle := own_quiet ⟨hb, hm⟩ (by intro k h; rcases h with h | h <;> cases h) _
    simp only [adv]
    split
    · exact hq
    · constructor
      · intro k hk
        simp only [List.mem_cons] at hk
        rcases hk with rfl | hk
        · exact Or.inr (Or.inl rfl)
        · rcases hq.1 k hk with h1 | h1
          · exact Or.inl h1
          · exact absurd h1 (quiet_idle k)
      · intro k hk
        rcases hq.2 k hk with h1 | h1
        · exact Or.inl h1
        · cases h1
  | ran =>
    have hb' : ∀ k ∈ t.bound, k ≠ n → k ∈ t.ctlPx := by
      intro k hk hne
      rcases hb k hk with h | h
      · exact h.2
      · rcases h with h | h
        · simp only [Reader.handling.injEq, Reg.mk.injEq, and_true] at h; exact absurd h.symm hne
        · cases h
    have hm' : ∀ k ∈ t.mgr, k ∈ t.ctlPx := by
      intro k hk
      rcases hm k hk with h | h
      · exact h.2
      · cases h
    simp only [adv]
    split
    · constructor
      · intro k hk
        simp only [List.mem_filter, bne_iff_ne, ne_eq] at hk
        exact Or.inl ⟨rfl, hb' k hk.1 hk.2⟩
      · intro k hk; exact Or.inl ⟨rfl, hm' k hk⟩
    · constructor
      · intro k hk
        by_cases hkn : k = n
        · subst hkn; exact Or.inr (Or.inr rfl)
        · exact Or.inl ⟨rfl, hb' k hk hkn⟩
      · intro k hk
        simp only [List.mem_cons] at hk
        rcases hk with rfl | hk
        · exact Or.inr rfl
        · exact Or.inl ⟨rfl, hm' k hk⟩
  | added =>
    simp only [adv]
    constructor
    · intro k hk
      refine Or.inl ⟨rfl, ?_⟩
      simp only [List.mem_cons]
      rcases hb k hk with h | h
      · exact Or.inr h.2
      · rcases h with h | h
        · cases h
        · simp only [Reader.handling.injEq, Reg.mk.injEq, and_true] at h; exact Or.inl h.symm
    · intro k hk
      refine Or.inl ⟨rfl, ?_⟩
      simp only [List.mem_cons]
      rcases hm k hk with h | h
      · exact Or.inr h.2
      · unfold inflightMgr at h
        simp only [Reader.handling.injEq, Reg.mk.injEq, and_true] at h; exact Or.inl h.symm

theorem own_closePx (t : Res) (n : Nat) (h : Own t false .idle) : Own (closePx t n) false .idle := by
  have hb' : ∀ k ∈ t.bound, k ∈ t.ctlPx := by
    intro k hk
    rcases h.1 k hk with h1 | h1
    · exact h1.2
    · exact absurd h1 (quiet_idle k)
  have hm' : ∀ k ∈ t.mgr, k ∈ t.ctlPx := by
    intro k hk
    rcases h.2 k hk with h1 | h1
    · exact h1.2
    · cases h1
  unfold closePx
  split
  · constructor
    · intro k hk
      simp only [List.mem_filter, bne_iff_ne, ne_eq] at hk
      exact Or.inl ⟨rfl, by simp only [List.mem_filter, bne_iff_ne, ne_eq]; exact ⟨hb' k hk.1, hk.2⟩⟩
    · intro k hk
      simp only [List.mem_filter, bne_iff_ne, ne_eq] at hk
      exact Or.inl ⟨rfl, by simp only [List.mem_filter, bne_iff_ne, ne_eq]; exact ⟨hm' k hk.1, hk.2⟩⟩
  · exact h

theorem own_tear (t : Res) (h : Own t false .exited) : Own (tear t) true .exited := by
  constructor
  · intro k hk
    simp only [tear, List.mem_filter, Bool.not_eq_true', List.contains_eq_mem, decide_eq_false_iff_not] at hk
    rcases h.1 k hk.1 with h1 | h1
    · exact absurd h1.2 hk.2
    · exact absurd h1 (quiet_exited k)
  · intro k hk
    simp only [tear, List.mem_filter, Bool.not_eq_true', List.contains_eq_mem, decide_eq_false_iff_not] at hk
    rcases h.2 k hk.1 with h1 | h1
    · exact absurd h1.2 hk.2
    · cases h1

/-- the invariant of a session whose NewProxy handler runs inside the read loop -/
structure SInv (s : St) : Prop where
  sync : s.async = false
  noFly : s.flying = []
  doneExited : s.dispDone = true ↔ s.reader = .exited
  tornDone : s.torn = true → s.dispDone = true
  own : Own s.res s.torn s.reader

theorem sinv_init : SInv (SessEnd.init false) := by
  refine ⟨rfl, rfl, ?_, ?_, ?_⟩
  · simp [SessEnd.init]
  · simp [SessEnd.init]
  · constructor <;> simp [SessEnd.init]

theorem not_done_of {s : St} (h : SInv s) (hr : s.reader ≠ .exited) : s.dispDone = false ∧ s.torn = false := by
  have hnd : s.dispDone = false := by
    cases hd : s.dispDone with
    | false => rfl
    | true => exact absurd (h.doneExited.1 hd) hr
  refine ⟨hnd, ?_⟩
  cases ht : s.torn with
  | false => rfl
  | true => have := h.tornDone ht; rw [hnd] at this; cases this

theorem sinv_step (s : St) (l : Lbl) (h : SInv s) : SInv (step s l) := by
  cases l with
  | send m =>
    simp only [step]
    split
    · exact ⟨h.sync, h.noFly, h.doneExited, h.tornDone, h.own⟩
    · exact h
  | cut => exact ⟨h.sync, h.noFly, h.doneExited, h.tornDone, h.own⟩
  | read err =>
    simp only [step]
    cases hr : s.reader with
    | handling r => exact h
    | exited => exact h
    | idle =>
      obtain ⟨hnd, hnt⟩ := not_done_of h (by rw [hr]; intro hx; cases hx)
      have hown : Own s.res false .idle := by have := h.own; rw [hnt, hr] at this; exact this
      simp only
      cases err with
      | true =>
        simp only [if_true]
        split
        · exact h
        · refine ⟨h.sync, h.noFly, ⟨fun _ => rfl, fun _ => rfl⟩, ?_, ?_⟩
          · intro ht; simp only at ht; simp [hnt] at ht
          · simp only; rw [hnt]; exact own_quiet hown quiet_idle _
      | false =>
        simp only [Bool.false_eq_true, if_false]
        cases hi : s.inbox with
        | nil => exact h
        | cons m rest =>
          cases m with
          | newProxy n =>
            simp only [h.sync, Bool.false_eq_true, if_false]
            refine ⟨rfl, h.noFly, ?_, h.tornDone, ?_⟩
            · simp only; rw [hnd]; constructor <;> (intro hx; cases hx)
            · simp only; rw [hnt]; exact own_quiet hown quiet_idle _
          | closeProxy n =>
            simp only
            refine ⟨h.sync, h.noFly, ?_, h.tornDone, ?_⟩
            · simp only; (try rw [hnd]); (try rw [hr]); constructor <;> (intro hx; cases hx)
            · simp only; (try rw [hnt]); (try rw [hr]); exact own_closePx _ _ hown
          | other =>
            simp only
            refine ⟨h.sync, h.noFly, ?_, h.tornDone, ?_⟩
            · simp only; (try rw [hnd]); (try rw [hr]); constructor <;> (intro hx; cases hx)
            · simp only; (try rw [hnt]); (try rw [hr]); exact hown
  | adv f =>
    simp only [step]
    cases hr : s.reader with
    | idle => exact h
    | exited => exact h
    | handling r =>
      obtain ⟨hnd, hnt⟩ := not_done_of h (by rw [hr]; intro hx; cases hx)
      have hown : Own s.res false (.handling r) := by have := h.own; rw [hnt, hr] at this; exact this
      have key := own_adv s.res r f hown
      simp only
      refine ⟨h.sync, h.noFly, ?_, h.tornDone, ?_⟩
      · simp only; rw [hnd]
        constructor
        · intro hx; cases hx
        · intro hx; split at hx <;> cases hx
      · simp only; rw [hnt]
        unfold nextReader at key
        exact key
  | advFly i f =>
    simp only [step, h.noFly, List.getElem?_nil]
    exact h
  | teardown =>
    simp only [step]
    split
    · rename_i hc
      simp only [Bool.and_eq_true, Bool.not_eq_true'] at hc
      have hex := h.doneExited.1 hc.1
      refine ⟨h.sync, h.noFly, h.doneExited, fun _ => hc.1, ?_⟩
      simp only
      have := h.own
      rw [hc.2, hex] at this
      rw [hex]
      exact own_tear _ this
    · exact h

theorem sinv_run (ls : List Lbl) : ∀ (s : St), SInv s → SInv (run s ls) := by
  induction ls with
  | nil => intro s h; exact h
  | cons l ls ih => intro s h; exact ih _ (sinv_step s l h)

/-- in a state satisfying the invariant, a finished teardown means: nothing is held -/
theorem sinv_released (s : St) (h : SInv s) (ht : s.torn = true) : Released s := by
  have hd := h.tornDone ht
  have hex := h.doneExited.1 hd
  have hown := h.own
  rw [ht, hex] at hown
  constructor
  · cases hb : s.res.bound with
    | nil => rfl
    | cons k rest =>
      rcases hown.1 k (by rw [hb]; exact List.mem_cons_self) with h1 | h1
      · cases h1.1
      · exact absurd h1 (quiet_exited k)
  · cases hb : s.res.mgr with
    | nil => rfl
    | cons k rest =>
      rcases hown.2 k (by rw [hb]; exact List.mem_cons_self) with h1 | h1
      · cases h1.1
      · cases h1

/-- **A torn-down session holds nothing, and never will.**  For EVERY schedule of the peer
    (messages, cut), the heartbeat watchdog (cut), the read loop, the NewProxy handler (with any
    refusals) and `worker()`: once `worker()` has walked `ctl.proxies`, no remote port and no proxy
    name of the session is left — in particular not those of a registration that was in flight when
    the connection ended; since every extension of a schedule is a schedule, nothing is acquired
    later either. -/
theorem teardown_releases (ls : List Lbl) :
    (run (SessEnd.init false) ls).torn = true → Released (run (SessEnd.init false) ls) :=
  sinv_released _ (sinv_run ls _ sinv_init)

/-- the same for any continuation of a torn-down session -/
theorem released_forever (ls more : List Lbl)
    (ht : (run (SessEnd.init false) ls).torn = true) :
    Released (run (run (SessEnd.init false) ls) more) := by
  have hi := sinv_run more _ (sinv_run ls _ sinv_init)
  refine sinv_released _ hi ?_
  -- `torn` is never reset
  have mono : ∀ (ms : List Lbl) (s : St), s.torn = true → (run s ms).torn = true := by
    intro ms
    induction ms with
    | nil => intro s h; exact h
    | cons m ms ih =>
      intro s h
      refine ih _ ?_
      cases m with
      | send m => simp only [step]; split <;> exact h
      | cut => exact h
      | read e =>
        simp only [step]
        split
        · split
          · split <;> exact h
          · split
            · exact h
            · split <;> exact h
            · exact h
            · exact h
        · exact h
      | adv f =>
        simp only [step]
        split
        · split <;> exact h
        · exact h
      | advFly i f =>
        simp only [step]
        split
        · split <;> exact h
        · exact h
      | teardown => simp only [step]; split <;> simp_all
  exact mono more _ ht

/-- **The property depends on the handler running inside the read loop.**  Were NewProxy
    registered through `msg.AsyncHandler` (as the NatHole handlers are), this schedule — NewProxy
    read, connection cut, teardown, and only then the registration finishing — leaves the port bound
    and the name taken in a dead session for ever. -/
theorem async_leak_witness :
    let s := run (SessEnd.init true)
      [.send (.newProxy 1), .read false, .cut, .read true, .teardown,
       .advFly 0 false, .advFly 0 false, .advFly 0 false, .advFly 0 false]
    s.torn = true ∧ s.res.bound = [1] ∧ s.res.mgr = [1] ∧ s.flying = [] := by decide

/-! ### no deadlock: the teardown is reached in a bounded number of the session's own steps -/

def phaseLeft : Phase → Nat
  | .plug => 4 | .checked => 3 | .ran => 2 | .added => 1

def readerLeft : Reader → Nat
  | .handling r => phaseLeft r.ph
  | _ => 0

/-- number of steps of the read loop / handler / worker that are at most needed to finish -/
def work (s : St) : Nat :=
  (if s.torn then 0 else 1) + (if s.dispDone then 0 else 1) + 5 * s.inbox.length + readerLeft s.reader

/-- the completion schedule: finish the handler, (the connection has ended) ReadMsg fails, walk -/
def finish (r : Reader) : List Lbl :=
  List.replicate (readerLeft r) (.adv false) ++ [.read true, .teardown]

theorem adv_left (t : Res) (r : Reg) (f : Bool) :
    readerLeft (nextReader (adv t r f).2) + 1 ≤ phaseLeft r.ph := by
  obtain ⟨n, ph⟩ := r
  cases ph <;> simp only [adv] <;> (try split) <;> simp [nextReader, readerLeft, phaseLeft]

theorem step_adv_conn (s : St) (f : Bool) : (step s (.adv f)).connOpen = s.connOpen := by
  simp only [step]
  split <;> rfl

theorem finish_torn : ∀ (k : Nat) (s : St), SInv s → s.connOpen = false → readerLeft s.reader ≤ k →
    (run s (List.replicate k (.adv false) ++ [.read true, .teardown])).torn = true := by
  intro k
  induction k with
  | zero =>
    intro s h hc hk
    simp only [List.replicate, List.nil_append, run]
    cases hr : s.reader with
    | handling r =>
      rw [hr] at hk; obtain ⟨n, ph⟩ := r
      cases ph <;> simp [readerLeft, phaseLeft] at hk
    | idle =>
      simp only [step, hr, hc, if_true, Bool.false_eq_true, if_false]
      by_cases ht : s.torn = true
      · simp [ht]
      · simp [ht]
    | exited =>
      have hd : s.dispDone = true := h.doneExited.2 hr
      simp only [step, hr, hd]
      by_cases ht : s.torn = true
      · simp [ht]
      · simp [ht]
  | succ k ih =>
    intro s h hc hk
    simp only [List.replicate, List.cons_append, run]
    refine ih _ (sinv_step s (.adv false) h) ?_ ?_
    · rw [step_adv_conn]; exact hc
    · cases hr : s.reader with
      | idle => simp [step, hr, readerLeft]
      | exited => simp [step, hr, readerLeft]
      | handling r =>
        have := adv_left s.res r false
        rw [hr] at hk
        simp only [readerLeft] at hk
        simp only [step, hr]
        show readerLeft (nextReader (adv s.res r false).2) ≤ k
        omega

/-- **Bounded teardown.**  From every reachable state of a plain-handler session whose
    connection has ended, the session's own goroutines reach the end of `worker()` in at most
    4 + 2 steps (finish the registration in flight, fail the read, walk) — nothing else is waited
    for, and afterwards nothing is held. -/
theorem teardown_reached (s : St) (h : SInv s) (hc : s.connOpen = false) :
    (run s (finish s.reader)).torn = true ∧ Released (run s (finish s.reader)) ∧
      (finish s.reader).length ≤ 6 := by
  have ht := finish_torn _ s h hc (Nat.le_refl _)
  refine ⟨ht, sinv_released _ (sinv_run _ _ h) ht, ?_⟩
  simp only [finish, List.length_append, List.length_replicate, List.length_cons, List.length_nil]
  cases hr : s.reader with
  | handling r => obtain ⟨n, ph⟩ := r; cases ph <;> simp [readerLeft, phaseLeft]
  | idle => simp [readerLeft]
  | exited => simp [readerLeft]

/-- … in particular from every state any schedule reaches -/
theorem teardown_reached_run (ls : List Lbl) :
    let s := run (SessEnd.init false) (ls ++ [.cut])
    (run s (finish s.reader)).torn = true ∧ Released (run s (finish s.reader)) := by
  intro s
  have hs : SInv s := sinv_run _ _ sinv_init
  have hc : s.connOpen = false := by
    have : ∀ (ms : List Lbl) (s0 : St), (run s0 (ms ++ [.cut])).connOpen = false := by
      intro ms
      induction ms with
      | nil => intro s0; rfl
      | cons m ms ih => intro s0; exact ih _
    exact this ls _
  exact ⟨(teardown_reached s hs hc).1, (teardown_reached s hs hc).2.1⟩

/-! ### tie to the source: how the handlers are registered (regenerated by translate/gen_sessfacts.go) -/

/-- the `async` parameter as the code has it: NewProxy (or CloseProxy, which the model also runs inside
    the read loop) registered through `msg.AsyncHandler`, or a read loop that spawns its handlers -/
def codeAsync : Bool :=
  !Gen.SessFacts.readLoopInline || (Gen.SessFacts.handlers.lookup "NewProxy").getD true ||
    (Gen.SessFacts.handlers.lookup "CloseProxy").getD true

/-- in the source as it is: both handlers are plain, the read loop runs handlers inline,
    `AsyncHandler` is the only spawner, and `worker()` waits for `Done()` before its walk -/
theorem code_handlers_plain :
    codeAsync = false ∧ Gen.SessFacts.workerWaitsDone = true ∧ Gen.SessFacts.asyncSpawns = true := by
  decide +kernel

/-- `teardown_releases` for the registration mode found in the source -/
theorem teardown_releases_code (ls : List Lbl) :
    (run (SessEnd.init codeAsync) ls).torn = true → Released (run (SessEnd.init codeAsync) ls) := by
  rw [code_handlers_plain.1]
  exact teardown_releases ls

end PartD

section PartE
open Wrapper Reconcile Rereg

/-! ## Part E — a (re-)login registers the configuration in force (client/service.go) -/

/-- the manager runs exactly the configured proxies: the running names are the configured names,
    and every running wrapper carries the configured entry of its name (`lo.KeyBy`: the last one) -/
def Synced (store : List Cfg) (pm : Mgr) : Prop :=
  (∀ n, hasName pm.proxies n = true ↔ ∃ c ∈ store, c.name = n) ∧
  (∀ w ∈ pm.proxies, lookupLast store w.cfg.name = some w.cfg)

/-- `pm.UpdateAll(cfgs)` makes ANY manager run exactly `cfgs` (C19 `update_names`, `update_running_cfgs`) -/
theorem updateAll_synced (m : Mgr) (cfgs : List Cfg) (now : Nat) : Synced cfgs (updateAll m cfgs now).1 :=
  ⟨fun n => C19.update_names m cfgs now n, fun w hw => C19.update_running_cfgs m cfgs now w hw⟩

/-- the live control, and a control that loginFunc is about to install, run the stored configuration -/
def Healed (s : Rereg.St) : Prop :=
  (∀ c, s.ctl = some c → c.alive = true → Synced s.store c.pm) ∧
  (∀ p, s.pend = some p → Synced s.store p.pm)

def isReload : Rereg.Ev → Bool
  | .reload _ => true
  | _ => false

/-- no reload falls between `ctl.Run(snapshot)` and `svr.ctl = ctl` of one loginFunc call (two
    adjacent statements without a blocking operation) -/
def admissible (s : Rereg.St) (now : Nat) : List Rereg.Ev → Bool
  | [] => true
  | e :: es => (!(isReload e) || s.pend.isNone) && admissible (Rereg.step s now e).1 now es

theorem healed_init (store : List Cfg) : Healed { store := store } := by
  constructor <;> intro c h <;> cases h

theorem early_step (s : Rereg.St) (now : Nat) (e : Rereg.Ev) : (Rereg.step s now e).1.early = s.early := by
  cases e <;> simp only [Rereg.step] <;> (try split) <;> rfl

/-- **One step.**  Whatever the event — reload (connected or not), end of the session, entry of
    the login loop, successful login, installation of the new control — the live control and the
    control about to be installed run exactly the configuration stored in the service. -/
theorem healed_step (s : Rereg.St) (now : Nat) (e : Rereg.Ev) (he : s.early = false) (h : Healed s)
    (hadm : isReload e = true → s.pend = none) : Healed (Rereg.step s now e).1 := by
  obtain ⟨hc, hp⟩ := h
  cases e with
  | reload cfgs =>
    have hpn := hadm rfl
    simp only [Rereg.step]
    cases hctl : s.ctl with
    | none =>
      simp only
      constructor
      · intro c h; simp only at h; cases h
      · intro p h; simp only at h; rw [hpn] at h; cases h
    | some c =>
      simp only
      constructor
      · intro c' h _
        simp only [Option.some.injEq] at h
        subst h
        exact updateAll_synced _ _ _
      · intro p h; simp only at h; rw [hpn] at h; cases h
  | sessionEnd =>
    simp only [Rereg.step]
    cases hctl : s.ctl with
    | none => exact ⟨hc, hp⟩
    | some c =>
      simp only
      constructor
      · intro c' h ha
        simp only [Option.some.injEq] at h
        subst h
        cases ha
      · exact hp
  | loopStart => exact ⟨hc, hp⟩
  | loginRun =>
    simp only [Rereg.step, he, Bool.false_eq_true, if_false]
    constructor
    · exact hc
    · intro p h
      simp only [Option.some.injEq] at h
      subst h
      exact updateAll_synced _ _ _
  | loginSwap =>
    simp only [Rereg.step]
    cases hpend : s.pend with
    | none => exact ⟨hc, hp⟩
    | some p =>
      simp only
      constructor
      · intro c h _
        simp only [Option.some.injEq] at h
        subst h
        exact hp _ hpend
      · intro q h; cases h

/-- **All histories.**  After ANY sequence of reloads, connection losses, refused logins (no
    event), loop entries and successful logins — reloads during an outage included — whenever a
    control is live it runs exactly the configuration currently stored: every configured proxy is
    registered with its current settings, nothing else is. -/
theorem healed_run (now : Nat) : ∀ (es : List Rereg.Ev) (s : Rereg.St), s.early = false → Healed s →
    admissible s now es = true → Healed (Rereg.run s now es) := by
  intro es
  induction es with
  | nil => intro s _ h _; exact h
  | cons e es ih =>
    intro s he h hadm
    simp only [admissible, Bool.and_eq_true, Bool.or_eq_true, Bool.not_eq_true', Option.isNone_iff_eq_none] at hadm
    refine ih _ (by rw [early_step]; exact he) (healed_step s now e he h ?_) hadm.2
    intro hr
    rcases hadm.1 with h1 | h1
    · rw [hr] at h1; cases h1
    · exact h1

/-- **A successful login announces every configured proxy.**  The messages `loginFunc` puts on
    the new connection contain, for every name, exactly one NewProxy iff the stored configuration has
    an entry of that name that is not health-gated (and no CloseProxy at all). -/
theorem login_sends_all (s : Rereg.St) (now : Nat) (he : s.early = false) (n : Nat) :
    (Rereg.step s now .loginRun).2.count (n, Msg.newProxy) = C19.startCount (lookupLast s.store n) ∧
    (Rereg.step s now .loginRun).2.count (n, Msg.closeProxy) = 0 := by
  simp only [Rereg.step, he, Bool.false_eq_true, if_false]
  constructor
  · rw [C19.update_new_count]
    simp [Reconcile.init, hasName]
  · rw [C19.update_close_count _ _ _ C19.inv_init]
    simp [Reconcile.init]

/-- what the driver evaluates on the set of registrations the real server side has seen -/
def regHolds (store : List Cfg) (v : List (Nat × Nat)) : Bool :=
  v.all (fun x => (lookupLast store x.1).map (·.variant) == some x.2) &&
  store.all (fun c => v.any (fun x => x.1 == c.name))

/-- a synced manager's view satisfies the predicate -/
theorem model_regHolds (store : List Cfg) (pm : Mgr) (h : Synced store pm) :
    regHolds store (Rereg.view pm) = true := by
  simp only [regHolds, Rereg.view, Bool.and_eq_true, List.all_eq_true, List.any_eq_true, List.mem_map,
    beq_iff_eq]
  constructor
  · rintro x ⟨w, hw, rfl⟩
    simp only
    rw [h.2 w hw]
    rfl
  · intro c hc
    have := (h.1 c.name).2 ⟨c, hc, rfl⟩
    rw [C19.hasName_iff] at this
    obtain ⟨w, hw, hn⟩ := this
    exact ⟨(w.cfg.name, w.cfg.variant), ⟨w, hw, rfl⟩, hn⟩

/-- the predicate is not trivially true: a view missing a configured proxy, or carrying a stale
    variant, or an unconfigured name, fails it -/
theorem regHolds_sensitive :
    let a1 : Cfg := ⟨1, 1, false, false⟩
    let b1 : Cfg := ⟨2, 1, false, false⟩
    let a2 : Cfg := ⟨1, 2, false, false⟩
    regHolds [a1, b1] [(1, 1)] = false ∧ regHolds [a2] [(1, 1)] = false ∧
    regHolds [a1] [(1, 1), (2, 1)] = false ∧ regHolds [a1, b1] [(2, 1), (1, 1)] = true := by decide

/-- **The micro-window of loginFunc (finding candidate, not reproduced on the real code).**  A
    reload that falls between `ctl.Run(proxyCfgs, …)` and `svr.ctl = ctl` updates the OLD control;
    the new control keeps the snapshot: proxy 2 is configured and not registered. -/
theorem reload_in_window_witness :
    let a : Cfg := ⟨1, 1, false, false⟩
    let b : Cfg := ⟨2, 1, false, false⟩
    let s := Rereg.run { store := [a] } 0 [.loopStart, .loginRun, .reload [a, b], .loginSwap]
    s.store = [a, b] ∧ (s.ctl.map (fun c => Rereg.view c.pm)) = some [(1, 1)] ∧
      (s.ctl.map (fun c => regHolds s.store (Rereg.view c.pm))) = some false := by decide

/-- **The theorems notice where the snapshot is taken.**  With the snapshot taken when the login
    loop is entered (`early`), a reload during the outage is lost: after the re-login proxy 2 is
    configured and not registered. -/
theorem early_snapshot_witness :
    let a : Cfg := ⟨1, 1, false, false⟩
    let b : Cfg := ⟨2, 1, false, false⟩
    let hist : List Rereg.Ev :=
      [.loopStart, .loginRun, .loginSwap, .sessionEnd, .loopStart, .reload [a, b], .loginRun, .loginSwap]
    let bad := Rereg.run { early := true, store := [a] } 0 hist
    let good := Rereg.run { early := false, store := [a] } 0 hist
    (bad.ctl.map (fun c => regHolds bad.store (Rereg.view c.pm))) = some false ∧
    (good.ctl.map (fun c => Rereg.view c.pm)) = some [(1, 1), (2, 1)] ∧
    admissible { early := false, store := [a] } 0 hist = true := by decide

/-! ### tie to the source: where loginFunc reads the configuration (translate/gen_sessfacts.go) -/

/-- the `early` parameter as the code has it: the stored configuration is read somewhere else than
    inside loginFunc after `svr.login()`, or `ctl.Run` is not given that snapshot -/
def codeEarly : Bool :=
  !(Gen.SessFacts.snapshotInLoginFunc && Gen.SessFacts.snapshotAfterLogin && Gen.SessFacts.runUsesSnapshot)

theorem code_snapshot_at_login : codeEarly = false := by decide +kernel

/-- `healed_run` for the snapshot point found in the source -/
theorem healed_run_code (now : Nat) (store : List Cfg) (es : List Rereg.Ev)
    (hadm : admissible { early := codeEarly, store := store } now es = true) :
    Healed (Rereg.run { early := codeEarly, store := store } now es) := by
  have h0 : Healed ({ early := codeEarly, store := store } : Rereg.St) := by
    constructor <;> intro c h <;> cases h
  exact healed_run now es _ code_snapshot_at_login h0 hadm

end PartE

end C14
end Frp
