import Frp.Model.CtlReg
import Frp.Props.C19
/-
  C19, Part C — the Control's message handlers between the control connection and the proxy manager,
  against a server that holds what it accepted: "the proxies the client has registered at the server
  are exactly the configured-and-healthy ones" for ALL reply schedules.

  Model: Frp/Model/CtlReg.lean (client/control.go handleNewProxyResp, proxy_manager.go StartProxy,
  the server's NewProxy / CloseProxy handling).  `Reg` is one proxy name: the wrapper registered under
  it, whether the server holds a proxy of that name, the last message on the wire.  An action is a
  worker iteration / monitor callback, a reload removing or adding the name, or a NewProxyResp — ANY
  reply at ANY time: late, duplicated, reordered, after the proxy was stopped, success after error.

   * all schedules (no hypothesis): a reply that meets a wrapper that is not waiting changes nothing
     and sends nothing (`reply_outside_wait_silent`), a reply for a name that is not configured
     likewise (`reply_unconfigured_silent`); status and wire stay in step — in particular the last
     message about a proxy reported `running` is NewProxy: the client never closes a proxy it reports
     running (`ctl_sync_run`, `running_never_closed`); every CloseProxy leaves the name not running
     (`close_leaves_not_running`).
   * server's table (`RegInv`): running ⇒ held, start error / check failed / new / not configured ⇒
     not held.  It is inductive over every action whose replies, WHEN THEY MEET A WAITING WRAPPER,
     say what the server holds at that moment (`Truthful`): `reg_inv_step`, `reg_inv_run`; at
     quiescence (nothing waiting) held ⇔ running (`quiescent_held_iff_running`).  Every schedule of a
     server that answers in order in which no second request for the name is outstanding is of that
     kind, and so are the two schedules with two requests outstanding that matter in practice:
     registration, withdrawal and registration again before the first answer, both accepted
     (`flap_unanswered_converges`); a request repeated after waitResponseTimeout, answered success and
     "already exists" (`resend_converges`).
   * convergence per name against an accepting server: healthy ⇒ one worker iteration after the deadlines
     plus its answer make it running AND held (`converge_registers`), unhealthy ⇒ not held and neither waiting
     nor running (`converge_unhealthy_withdrawn`), removed by a reload ⇒ released (`remove_releases`).
   * FINDING (code as it is; the reply carries nothing but the name): an answer that is applied to a
     LATER registration of the name than the one it answers can contradict the server's table for
     good — accepted, withdrawn, refused the second time: the first answer makes the client report
     `running` for a proxy the server does not hold, and nothing ever corrects it
     (`stale_reply_witness`); `truthful_needed` states it as the failure of `RegInv`.
   * sensitivity: a handler that sends CloseProxy whenever StartProxy returns an error breaks
     `running_never_closed` and `quiescent_held_iff_running` on the duplicated-answer schedule
     (`closing_glue_witness`).
-/
namespace Frp
namespace C19
open Wrapper Reconcile CtlReg

section C

open Lean Parser Tactic in
local macro "crunch" "[" ls:simpLemma,* "]" : tactic => `(tactic| (
  simp only [step, wantsStart]
  all_goals (repeat' split)
  all_goals (try simp_all [$ls,*])
  all_goals (try (repeat' split))
  all_goals (try simp_all [$ls,*])))

theorem lastMsg_nil (p : Option Msg) : lastMsg p [] = p := rfl
theorem lastMsg_single (p : Option Msg) (m : Msg) : lastMsg p [m] = some m := rfl

/-! ## executable predicates (also run by the driver on the implementation's answers)

  Both invariants below are stated through a Boolean function of what an observer sees of one name —
  the reported status (`none` = not configured) and the last message on the wire / the server's table —
  so that the very same function judges the implementation's answers. -/

/-- status vs. the last message on the wire: running / wait start ⇒ NewProxy; check failed ⇒
    CloseProxy; new (never started, possibly the successor of a stopped wrapper) and not configured ⇒
    nothing or CloseProxy; a closed wrapper is never registered -/
def syncObsOK (ph : Option Phase) (last : Option Msg) : Bool :=
  match ph with
  | none => last != some .newProxy
  | some .running | some .waitStart => last == some .newProxy
  | some .checkFailed => last == some .closeProxy
  | some .new => last != some .newProxy
  | some .startErr => true
  | some .closed => false

/-- status vs. the server's table: running ⇒ held; start error / check failed / new / not configured
    ⇒ not held; waiting ⇒ either -/
def tableObsOK (ph : Option Phase) (held : Bool) : Bool :=
  match ph with
  | some .running => held
  | some .waitStart => true
  | some .closed => false
  | _ => !held

/-! ## all schedules -/

/-- A REPLY THAT MEETS A WRAPPER THAT IS NOT WAITING IS IGNORED: nothing changes, nothing is sent
    (SetRunningStatus returns "status not wait start", the handler only logs) -/
theorem reply_outside_wait_silent (s : Reg) (w : W) (hw : s.w = some w) (hp : w.phase ≠ .waitStart)
    (now : Nat) (respErr acc : Bool) :
    regStep s (.reply now respErr) acc = s ∧ (actOut onStartResult s.w (.reply now respErr)).2 = [] := by
  obtain ⟨sw, held, last⟩ := s
  simp only at hw
  subst hw
  simp [regStep, regStepG, actOut, onStartResult, step, hp, srv1, lastMsg]

/-- a reply for a name that is not configured (any more) is ignored as well -/
theorem reply_unconfigured_silent (s : Reg) (hw : s.w = none) (now : Nat) (respErr acc : Bool) :
    regStep s (.reply now respErr) acc = s := by
  obtain ⟨sw, held, last⟩ := s
  simp only at hw
  subst hw
  simp [regStep, regStepG, actOut, onStartResult, srv1, lastMsg]

/-- status and wire in step for one name -/
def CtlSync (s : Reg) : Prop := syncObsOK (s.w.map (·.phase)) s.last = true

theorem ctl_sync_step (s : Reg) (a : Act) (acc : Bool) (h : CtlSync s) : CtlSync (regStep s a acc) := by
  obtain ⟨sw, held, last⟩ := s
  cases sw with
  | none =>
    simp only [CtlSync, Option.map_none, syncObsOK] at h
    cases a with
    | ev e => simpa [CtlSync, regStep, regStepG, actOut, lastMsg, syncObsOK] using h
    | reply now e => simpa [CtlSync, regStep, regStepG, actOut, onStartResult, lastMsg, syncObsOK] using h
    | remove => simpa [CtlSync, regStep, regStepG, actOut, lastMsg, syncObsOK] using h
    | add c id now =>
      obtain ⟨cn, cv, ch, cr⟩ := c
      cases ch <;>
        simp_all [CtlSync, regStep, regStepG, actOut, start, mk, step, wantsStart, lastMsg, syncObsOK]
  | some w =>
    obtain ⟨cfg, id, phase, health, ls, le⟩ := w
    simp only [CtlSync, Option.map_some] at h
    cases a with
    | ev e =>
      cases e with
      | tick now =>
        by_cases hh : health = 0 <;> by_cases h1 : ls + waitResponseTimeout < now <;>
          by_cases h2 : le + startErrTimeout < now <;> cases phase <;>
          simp [CtlSync, regStep, regStepG, actOut, WEv.toEvent, step, wantsStart, lastMsg, syncObsOK, hh, h1, h2] at h ⊢ <;>
          (try simp_all)
      | healthUp => cases phase <;> simp_all [CtlSync, regStep, regStepG, actOut, WEv.toEvent, step, lastMsg, syncObsOK]
      | healthDown => cases phase <;> simp_all [CtlSync, regStep, regStepG, actOut, WEv.toEvent, step, lastMsg, syncObsOK]
      | inWorkConn => cases phase <;> simp_all [CtlSync, regStep, regStepG, actOut, WEv.toEvent, step, lastMsg, syncObsOK]
    | reply now e =>
      cases e <;> cases hr : cfg.runFails <;> cases phase <;>
        simp_all [CtlSync, regStep, regStepG, actOut, onStartResult, step, lastMsg, syncObsOK]
    | remove =>
      cases phase <;> simp_all [CtlSync, regStep, regStepG, actOut, step, lastMsg, syncObsOK]
    | add c id now =>
      simpa [CtlSync, regStep, regStepG, actOut, lastMsg] using h

/-- FOR EVERY SCHEDULE of worker iterations, health changes, reloads and replies — late, duplicated,
    reordered, for names that are gone — status and wire stay in step -/
theorem ctl_sync_run (as : List (Act × Bool)) : ∀ (s : Reg), CtlSync s → CtlSync (regRun s as) := by
  induction as with
  | nil => intro s h; simpa [regRun, regRunG] using h
  | cons a as ih =>
    intro s h
    obtain ⟨a, acc⟩ := a
    simp only [regRun, regRunG]
    exact ih _ (ctl_sync_step s a acc h)

theorem ctlSync_init : CtlSync {} := by simp [CtlSync, syncObsOK]

/-- THE CLIENT NEVER CLOSES A PROXY IT REPORTS RUNNING: whatever happened, in whatever order, the last
    message about a proxy whose status is `running` (or `wait start`) is NewProxy -/
theorem running_never_closed (as : List (Act × Bool)) (w : W) (h : (regRun {} as).w = some w)
    (hp : w.phase = .running ∨ w.phase = .waitStart) : (regRun {} as).last = some .newProxy := by
  have := ctl_sync_run as {} ctlSync_init
  simp only [CtlSync, h, Option.map_some] at this
  rcases hp with hp | hp <;> simpa [syncObsOK, hp] using this

/-- whenever CloseProxy is the last message about a name, the name is neither running nor waiting -/
theorem close_leaves_not_running (as : List (Act × Bool)) (h : (regRun {} as).last = some .closeProxy) :
    ∀ w, (regRun {} as).w = some w → w.phase ≠ .running ∧ w.phase ≠ .waitStart := by
  intro w hw
  constructor <;> intro hp
  · have := running_never_closed as w hw (Or.inl hp); rw [h] at this; cases this
  · have := running_never_closed as w hw (Or.inr hp); rw [h] at this; cases this

/-- a name that is not configured (any more) is closed at the server or was never announced -/
theorem unconfigured_closed (as : List (Act × Bool)) (h : (regRun {} as).w = none) :
    (regRun {} as).last ≠ some .newProxy := by
  have := ctl_sync_run as {} ctlSync_init
  simp only [CtlSync, h, Option.map_none, syncObsOK] at this
  simpa using this

/-! ## the server's table -/

/-- running ⇒ held;  start error / check failed / new / not configured ⇒ not held -/
def RegInv (s : Reg) : Prop := tableObsOK (s.w.map (·.phase)) s.held = true

/-- the reply, if it meets a waiting wrapper, says what the server holds for the name right now -/
def truthful (s : Reg) : Act → Bool
  | .reply _ respErr =>
    match s.w with
    | some w => w.phase != .waitStart || respErr == !s.held
    | none => true
  | _ => true

def Truthful (s : Reg) (a : Act) : Prop := truthful s a = true

instance (s : Reg) : Decidable (RegInv s) := by unfold RegInv; infer_instance
instance (s : Reg) : Decidable (CtlSync s) := by unfold CtlSync; infer_instance
instance (s : Reg) (a : Act) : Decidable (Truthful s a) := by unfold Truthful; infer_instance

theorem reg_inv_step (s : Reg) (a : Act) (acc : Bool) (h : RegInv s) (ht : Truthful s a) :
    RegInv (regStep s a acc) := by
  obtain ⟨sw, held, last⟩ := s
  cases sw with
  | none =>
    simp only [RegInv, Option.map_none, tableObsOK] at h
    cases a with
    | ev e => simp_all [RegInv, regStep, regStepG, actOut, srv1, tableObsOK]
    | reply now e => simp_all [RegInv, regStep, regStepG, actOut, onStartResult, srv1, tableObsOK]
    | remove => simp_all [RegInv, regStep, regStepG, actOut, srv1, tableObsOK]
    | add c id now =>
      obtain ⟨cn, cv, ch, cr⟩ := c
      cases ch <;> simp_all [RegInv, regStep, regStepG, actOut, start, mk, step, wantsStart, srv1, tableObsOK]
  | some w =>
    obtain ⟨cfg, id, phase, health, ls, le⟩ := w
    simp only [RegInv, Option.map_some] at h
    cases a with
    | ev e =>
      cases e with
      | tick now =>
        by_cases hh : health = 0 <;> by_cases h1 : ls + waitResponseTimeout < now <;>
          by_cases h2 : le + startErrTimeout < now <;> cases phase <;>
          simp [RegInv, regStep, regStepG, actOut, WEv.toEvent, step, wantsStart, srv1, tableObsOK, hh, h1, h2] at h ⊢ <;>
          (try simp_all)
      | healthUp => cases phase <;> simp_all [RegInv, regStep, regStepG, actOut, WEv.toEvent, step, srv1, tableObsOK]
      | healthDown => cases phase <;> simp_all [RegInv, regStep, regStepG, actOut, WEv.toEvent, step, srv1, tableObsOK]
      | inWorkConn => cases phase <;> simp_all [RegInv, regStep, regStepG, actOut, WEv.toEvent, step, srv1, tableObsOK]
    | reply now e =>
      simp only [Truthful, truthful] at ht
      cases e <;> cases hr : cfg.runFails <;> cases phase <;>
        simp_all [RegInv, regStep, regStepG, actOut, onStartResult, step, srv1, tableObsOK]
    | remove =>
      cases phase <;> simp_all [RegInv, regStep, regStepG, actOut, step, srv1, tableObsOK]
    | add c id now =>
      simpa [RegInv, regStep, regStepG, actOut, srv1] using h

/-- every action of the run is truthful in the state it meets -/
def truthfulRun : Reg → List (Act × Bool) → Bool
  | _, [] => true
  | s, (a, acc) :: rest => truthful s a && truthfulRun (regStep s a acc) rest

def TruthfulRun (s : Reg) (as : List (Act × Bool)) : Prop := truthfulRun s as = true

instance (s : Reg) (as : List (Act × Bool)) : Decidable (TruthfulRun s as) := by unfold TruthfulRun; infer_instance

/-- FOR EVERY SCHEDULE whose replies, when they meet a waiting wrapper, agree with the server's table:
    running ⇒ held, start error / check failed / new / not configured ⇒ not held -/
theorem reg_inv_run (as : List (Act × Bool)) : ∀ (s : Reg), RegInv s → TruthfulRun s as → RegInv (regRun s as) := by
  induction as with
  | nil => intro s h _; simpa [regRun, regRunG] using h
  | cons a as ih =>
    intro s h ht
    obtain ⟨a, acc⟩ := a
    simp only [TruthfulRun, truthfulRun, Bool.and_eq_true] at ht
    simp only [regRun, regRunG]
    exact ih _ (reg_inv_step s a acc h ht.1) ht.2

theorem regInv_init : RegInv {} := by simp [RegInv, tableObsOK]

/-- AT QUIESCENCE (no wrapper of the name waiting for an answer) THE SERVER HOLDS THE PROXY IFF THE
    CLIENT REPORTS IT RUNNING -/
theorem quiescent_held_iff_running (as : List (Act × Bool)) (ht : TruthfulRun {} as)
    (hq : ∀ w, (regRun {} as).w = some w → w.phase ≠ .waitStart) :
    (regRun {} as).held = true ↔ ∃ w, (regRun {} as).w = some w ∧ w.phase = .running := by
  have hi := reg_inv_run as {} regInv_init ht
  generalize regRun {} as = s at hi hq
  obtain ⟨sw, held, last⟩ := s
  cases sw with
  | none => simp only [RegInv, Option.map_none, tableObsOK] at hi; simp_all
  | some w =>
    simp only [RegInv, Option.map_some] at hi
    have hq' := hq w rfl
    obtain ⟨cfg, id, phase, health, ls, le⟩ := w
    cases phase <;> simp_all [tableObsOK]

/-- a request sent while the server holds nothing for the name and answered by what the server did
    with it is truthful: accepted ⇒ held and success, refused ⇒ not held and error -/
theorem own_reply_truthful (s : Reg) (w : W) (hw : s.w = some w) (now : Nat) (acc : Bool)
    (hwant : wantsStart w now = true) (hh : w.health = 0) (hfree : s.held = false) :
    (regStep s (.ev (.tick now)) acc).held = acc ∧
    Truthful (regStep s (.ev (.tick now)) acc) (.reply now (!acc)) := by
  obtain ⟨sw, held, last⟩ := s
  simp only at hw hfree
  subst hw hfree
  simp [regStep, regStepG, actOut, WEv.toEvent, step, hh, hwant, srv1, Truthful, truthful]

/-! ## convergence to configured ∧ healthy -/

/-- CONVERGENCE TO configured ∧ healthy, per name, against a server that accepts: from any state that
    satisfies the table invariant with no answer outstanding and the wrapper not waiting, a healthy
    proxy whose local start works is, one worker iteration after the deadlines and the (truthful) answer
    later, running AND held -/
theorem converge_registers (s : Reg) (w : W) (hw : s.w = some w) (hi : RegInv s)
    (hp : w.phase = .new ∨ w.phase = .checkFailed ∨ w.phase = .startErr)
    (hh : w.health = 0) (hr : w.cfg.runFails = false) (now : Nat) (h2 : w.lastErr + startErrTimeout < now) :
    let s1 := regStep s (.ev (.tick now)) true
    let s2 := regStep s1 (.reply now false) true
    Truthful s1 (.reply now false) ∧ s2.held = true ∧ s2.w.map (·.phase) = some .running ∧
    s2.last = some .newProxy := by
  obtain ⟨sw, held, last⟩ := s
  simp only at hw
  subst hw
  obtain ⟨cfg, id, phase, health, ls, le⟩ := w
  simp only at hh hr h2 hp
  subst hh
  simp only [RegInv, Option.map_some] at hi
  rcases hp with hp | hp | hp <;> subst hp <;>
    simp_all [regStep, regStepG, actOut, onStartResult, WEv.toEvent, step, wantsStart, srv1, lastMsg,
      Truthful, truthful, tableObsOK]

/-- … and an unhealthy one is, one worker iteration later, neither waiting nor running and NOT held -/
theorem converge_unhealthy_withdrawn (s : Reg) (w : W) (hw : s.w = some w) (hi : RegInv s)
    (hh : w.health ≠ 0) (now : Nat) (acc : Bool) :
    let s1 := regStep s (.ev (.tick now)) acc
    s1.held = false ∧ ∀ w1, s1.w = some w1 → w1.phase ≠ .running ∧ w1.phase ≠ .waitStart := by
  obtain ⟨sw, held, last⟩ := s
  simp only at hw
  subst hw
  obtain ⟨cfg, id, phase, health, ls, le⟩ := w
  simp only at hh
  simp only [RegInv, Option.map_some] at hi
  cases phase <;>
    simp_all [regStep, regStepG, actOut, WEv.toEvent, step, srv1, tableObsOK]

/-- a name that a reload removes is released at the server -/
theorem remove_releases (s : Reg) (acc : Bool) (hi : RegInv s) :
    (regStep s .remove acc).held = false ∧ (regStep s .remove acc).w = none := by
  obtain ⟨sw, held, last⟩ := s
  cases sw with
  | none => simp only [RegInv, Option.map_none, tableObsOK] at hi; simp_all [regStep, regStepG, actOut, srv1]
  | some w =>
    obtain ⟨cfg, id, phase, health, ls, le⟩ := w
    simp only [RegInv, Option.map_some] at hi
    cases phase <;> simp_all [regStep, regStepG, actOut, step, srv1, tableObsOK]

/-! ## the two schedules with two requests outstanding -/

def plainCfg : Cfg := ⟨1, 0, false, false⟩
def healthCfg : Cfg := ⟨1, 10, true, false⟩

/-- registration, withdrawal and registration again while the first request is unanswered; the
    server accepts both and answers both: the first answer makes the proxy running, the second one
    is ignored; held and running -/
def flapSchedule : List (Act × Bool) :=
  [(.add healthCfg 1 0, true), (.ev .healthUp, true), (.ev (.tick 600), true),       -- NewProxy (accepted)
   (.ev .healthDown, true), (.ev (.tick 700), true),                                  -- CloseProxy
   (.ev .healthUp, true), (.ev (.tick 800), true),                                    -- NewProxy (accepted)
   (.reply 900 false, true), (.reply 901 false, true)]

theorem flap_unanswered_converges :
    TruthfulRun {} flapSchedule ∧ (regRun {} flapSchedule).held = true ∧
    ((regRun {} flapSchedule).w.map (·.phase)) = some .running ∧
    (regRun {} flapSchedule).last = some .newProxy := by
  decide +kernel

/-- a request repeated after waitResponseTimeout; the server accepts the first and refuses the second
    ("already exists", the registration stays); success, then the error: held and running -/
def resendSchedule : List (Act × Bool) :=
  [(.add plainCfg 1 0, true), (.ev (.tick 20001), true), (.reply 20500 false, true), (.reply 20501 true, true)]

theorem resend_converges :
    TruthfulRun {} resendSchedule ∧ (regRun {} resendSchedule).held = true ∧
    ((regRun {} resendSchedule).w.map (·.phase)) = some .running := by
  decide +kernel

/-! ## finding: the answer to an earlier request is applied to a later one -/

/-- accepted, withdrawn (health), registered again and REFUSED (say the remote port was taken in
    between); the server answers in order: success, error.  The success meets the second wait: the
    client reports `running`; the error is then ignored.  The server holds nothing -/
def staleSchedule : List (Act × Bool) :=
  [(.add healthCfg 1 0, true), (.ev .healthUp, true), (.ev (.tick 600), true),       -- NewProxy, accepted
   (.ev .healthDown, true), (.ev (.tick 700), true),                                  -- CloseProxy
   (.ev .healthUp, true), (.ev (.tick 800), false),                                   -- NewProxy, refused
   (.reply 900 false, true), (.reply 901 true, true)]

theorem stale_reply_witness :
    (regRun {} staleSchedule).held = false ∧
    ((regRun {} staleSchedule).w.map (·.phase)) = some .running ∧
    -- and no later worker iteration changes that
    ((regRun {} (staleSchedule ++ [(.ev (.tick 100000), true)])).w.map (·.phase)) = some .running ∧
    (regRun {} (staleSchedule ++ [(.ev (.tick 100000), true)])).held = false := by
  decide +kernel

/-- without the hypothesis `TruthfulRun` the table invariant does not hold for the code as it is -/
theorem truthful_needed : ¬ (∀ as : List (Act × Bool), RegInv (regRun {} as)) := by
  intro h
  have := h staleSchedule
  revert this
  decide +kernel

/-! ## sensitivity: a handler that closes on every start error -/

/-- with `onStartResultClosing` as the handler's reaction the duplicated-answer schedule of
    `flap_unanswered_converges` (truthful) ends with a proxy reported running, closed at the server -/
theorem closing_glue_witness :
    (regRunG onStartResultClosing {} flapSchedule).held = false ∧
    ((regRunG onStartResultClosing {} flapSchedule).w.map (·.phase)) = some .running ∧
    (regRunG onStartResultClosing {} flapSchedule).last = some .closeProxy := by
  decide +kernel

/-! ## the manager-level handler is the per-name action -/

theorem find_map_replace (n : Nat) (w w' : W) (hn : (w'.cfg.name == n) = true) : ∀ (ws : List W),
    ws.find? (fun x => x.cfg.name == n) = some w →
    (ws.map (fun x => if (x.cfg.name == n) = true then w' else x)).find? (fun x => x.cfg.name == n) = some w' := by
  intro ws
  induction ws with
  | nil => intro hf; simp at hf
  | cons x xs ih =>
    intro hf
    by_cases hx : (x.cfg.name == n) = true
    · rw [List.map_cons, if_pos hx, List.find?_cons]
      simp only [hn]
    · have hx' : (x.cfg.name == n) = false := by simpa using hx
      rw [List.find?_cons] at hf
      simp only [hx'] at hf
      rw [List.map_cons, if_neg hx, List.find?_cons]
      simp only [hx']
      exact ih hf

theorem handleResp_eq_act (glue : Option Res → List Msg) (m : Mgr) (n now : Nat) (respErr : Bool) :
    (handleResp glue m n now respErr).2.1 = (actOut glue (Reconcile.find m n) (.reply now respErr)).2 ∧
    Reconcile.find (handleResp glue m n now respErr).1 n =
      ((actOut glue (Reconcile.find m n) (.reply now respErr)).1) := by
  unfold handleResp deliver
  cases hf : Reconcile.find m n with
  | none => simp [actOut, hf]
  | some w =>
    have hf' : m.proxies.find? (fun w => w.cfg.name == n) = some w := hf
    have hwn : (w.cfg.name == n) = true := by simpa using List.find?_some hf'
    have hcfg : ((step w (.startResp now respErr)).1.cfg.name == n) = true := by
      rw [(step_cfg w _).1]; exact hwn
    refine ⟨rfl, ?_⟩
    exact find_map_replace n w _ hcfg _ hf'

theorem contains_filter_ne (held : List Nat) (n n' : Nat) (h : n' ≠ n) :
    (held.filter (· != n')).contains n = held.contains n := by
  induction held with
  | nil => rfl
  | cons y ys ih =>
    by_cases hy : y = n'
    · subst hy
      have e1 : (y != y) = false := by simp
      have e2 : (n == y) = false := by simpa using h.symm
      rw [List.filter_cons]
      simp only [e1, Bool.false_eq_true, if_false, List.contains_cons, e2, Bool.false_or]
      exact ih
    · have e1 : (y != n') = true := by simpa using hy
      rw [List.filter_cons]
      simp only [e1, if_true, List.contains_cons, ih]

theorem contains_filter_self (held : List Nat) (n : Nat) : (held.filter (· != n)).contains n = false := by
  induction held with
  | nil => rfl
  | cons y ys ih =>
    by_cases hy : y = n
    · subst hy
      have e1 : (y != y) = false := by simp
      rw [List.filter_cons]
      simp only [e1, Bool.false_eq_true, if_false]
      exact ih
    · have e1 : (y != n) = true := by simpa using hy
      have e2 : (n == y) = false := by simpa using (fun e => hy e.symm : ¬ n = y)
      rw [List.filter_cons]
      simp only [e1, if_true, List.contains_cons, e2, Bool.false_or]
      exact ih

/-- the server's table for one name is `srv1` of that name's messages -/
theorem srvRecvAll_held (acc : Bool) (n : Nat) (ms : List Msg) : ∀ (held : List Nat),
    (srvRecvAll acc held (ms.map (fun x => (n, x)))).1.contains n = srv1 acc (held.contains n) ms := by
  induction ms with
  | nil => intro held; rfl
  | cons x xs ih =>
    intro held
    cases x with
    | newProxy =>
      simp only [List.map_cons, srvRecvAll, srvRecv, srv1]
      by_cases hc : held.contains n = true
      · rw [if_pos hc, ih, hc]; rfl
      · have hc' : held.contains n = false := by simpa using hc
        rw [if_neg hc]
        cases acc
        · simp only [Bool.false_eq_true, if_false]
          rw [ih, hc']; rfl
        · simp only [if_true]
          rw [ih, hc']
          simp
    | closeProxy =>
      simp only [List.map_cons, srvRecvAll, srvRecv, srv1]
      rw [ih, contains_filter_self]

/-- messages about other names do not touch the entry -/
theorem srvRecv_other (acc : Bool) (held : List Nat) (n n' : Nat) (x : Msg) (h : n' ≠ n) :
    (srvRecv acc held (n', x)).1.contains n = held.contains n := by
  cases x with
  | newProxy =>
    simp only [srvRecv]
    by_cases hc : held.contains n' = true
    · rw [if_pos hc]
    · rw [if_neg hc]
      cases acc
      · simp
      · have e : (n == n') = false := by simpa using h.symm
        simp only [if_true, List.contains_cons, e, Bool.false_or]
  | closeProxy =>
    simp only [srvRecv]
    exact contains_filter_ne held n n' h
/-! ## the model's own runs satisfy the executable predicates -/

theorem model_syncObsOK (as : List (Act × Bool)) :
    syncObsOK ((regRun {} as).w.map (·.phase)) (regRun {} as).last = true :=
  ctl_sync_run as {} ctlSync_init

theorem model_tableObsOK (as : List (Act × Bool)) (ht : TruthfulRun {} as) :
    tableObsOK ((regRun {} as).w.map (·.phase)) (regRun {} as).held = true :=
  reg_inv_run as {} regInv_init ht

end C

end C19
end Frp
