import Frp.Props.C19Visitors
import Frp.Model.VisitorKeeper
import Frp.Gen.C19Facts
/-
  C19, Part VK — the visitor manager's keeper goroutine is alive in every reachable state, hence a
  configured visitor whose start failed is started by the next tick once the obstacle is gone —
  after ANY history of reloads (also to zero visitors and back), failing starts, addresses taken and
  released, and ticks.
-/
namespace Frp
namespace C19
open VisitorMgr VisitorKeeper

/-- the shape of the source the model rests on, regenerated on every run: the keeper's `for` has no
    condition and its ONLY exits are the two `return`s under `case <-vm.stopCh` (the outer select and the
    re-check once the lock is held); the goroutine is started from UpdateAll alone, through the Once,
    whenever the list is not empty; nobody re-arms the Once -/
theorem keeper_source_shape :
    Gen.C19Facts.keeperLoopUnconditional = true ∧
    Gen.C19Facts.keeperExits = [("return", ["recv vm.stopCh"]), ("return", ["recv ticker.C", "recv vm.stopCh"])] ∧
    Gen.C19Facts.keeperStarts = [("UpdateAll", true, ["if len(cfgs) > 0"])] ∧
    Gen.C19Facts.keeperOnceReassigned = false := by decide +kernel

/-- every exit of the loop is guarded, innermost, by a receive from the stop channel -/
theorem keeper_exits_only_on_stop :
    Gen.C19Facts.keeperExits.all (fun e => e.2.getLast? == some "recv vm.stopCh") = true := by decide +kernel

/-! ### lemmas about the manager's `closed` flag and stored entries -/

theorem startVisitor_closed (m : Mgr) (c : VCfg) : (startVisitor m c).closed = m.closed := by
  unfold startVisitor; split <;> rfl

theorem tryStart_closed (m : Mgr) (n : Nat) : (tryStart m n).closed = m.closed := by
  unfold tryStart
  split
  · rfl
  · split
    · rfl
    · exact startVisitor_closed _ _

theorem activePass_eq_pass (order : List Nat) : ∀ (m : Mgr), m.closed = false → activePass m order = pass m order := by
  induction order with
  | nil => intro m _; rfl
  | cons n rest ih =>
    intro m h
    show activePass (activeTryStart m n) rest = pass (tryStart m n) rest
    have e : activeTryStart m n = tryStart m n := by simp [activeTryStart, tryStartFixed, h]
    rw [e]
    exact ih _ (by rw [tryStart_closed]; exact h)

theorem addLoop_closed (cs : List VCfg) : ∀ (m : Mgr), (addLoop m cs).closed = m.closed := by
  induction cs with
  | nil => intro m; rfl
  | cons c cs ih =>
    intro m
    simp only [addLoop]
    split
    · exact ih m
    · rw [ih, startVisitor_closed]

theorem activeUpdateAll_closed (m : Mgr) (cfgs : List VCfg) : (activeUpdateAll m cfgs).closed = m.closed := by
  simp only [activeUpdateAll, updateAllFixed]
  rw [addLoop_closed]

theorem activeUpdateAll_nil (m : Mgr) : (activeUpdateAll m []).cfgs = [] := by
  simp [activeUpdateAll, updateAllFixed, addLoop, keeps, lookupLast]

theorem activeTryStart_cfgs (m : Mgr) (n : Nat) : (activeTryStart m n).cfgs = m.cfgs := by
  simp only [activeTryStart, tryStartFixed]
  split
  · rfl
  · exact vm_tryStart_cfgs m n

theorem activePass_cfgs (order : List Nat) : ∀ (m : Mgr), (activePass m order).cfgs = m.cfgs := by
  induction order with
  | nil => intro m; rfl
  | cons n rest ih =>
    intro m
    show (activePass (activeTryStart m n) rest).cfgs = m.cfgs
    rw [ih, activeTryStart_cfgs]

theorem activePass_closed (order : List Nat) : ∀ (m : Mgr), (activePass m order).closed = m.closed := by
  induction order with
  | nil => intro m; rfl
  | cons n rest ih =>
    intro m
    show (activePass (activeTryStart m n) rest).closed = m.closed
    rw [ih]
    simp only [activeTryStart, tryStartFixed]
    split
    · rfl
    · exact tryStart_closed m n

theorem activePass_inv (order : List Nat) : ∀ (m : Mgr), VInv m → VInv (activePass m order) := by
  induction order with
  | nil => intro m h; exact h
  | cons n rest ih =>
    intro m h
    show VInv (activePass (activeTryStart m n) rest)
    apply ih
    simp only [activeTryStart, tryStartFixed]
    split
    · exact h
    · exact vm_inv_tryStart m n h

/-! ### the keeper is alive in every reachable state -/

/-- whenever something is configured the Once has fired; once it has fired and the manager is not
    closed the goroutine is inside its loop; the manager's own invariant -/
structure KInv (s : KM) : Prop where
  cfgOnce : s.m.cfgs ≠ [] → s.once = true
  alive : s.once = true → s.m.closed = false → s.k = .alive
  vinv : VInv s.m

theorem keeper_inv_init : KInv VisitorKeeper.init :=
  ⟨fun h => absurd rfl h, fun h => (by cases h), vm_inv_init⟩

theorem keeper_inv_step (s : KM) (e : VisitorKeeper.Ev) (h : KInv s) : KInv (VisitorKeeper.step s e) := by
  obtain ⟨h1, h2, h3⟩ := h
  cases e with
  | upd cfgs =>
    simp only [VisitorKeeper.step, stepG, VisitorKeeper.upd]
    by_cases hc : cfgs = []
    · subst hc
      simp only [List.isEmpty_nil, Bool.not_true, Bool.false_and, Bool.false_eq_true, if_false]
      refine ⟨fun hne => absurd (activeUpdateAll_nil s.m) hne, ?_, ?_⟩
      · intro ho hcl
        rw [activeUpdateAll_closed] at hcl
        exact h2 ho hcl
      · exact vm_inv_updateAllFixed s.m [] h3
    · have hne : cfgs.isEmpty = false := by cases cfgs with | nil => exact absurd rfl hc | cons _ _ => rfl
      by_cases ho : s.once = true
      · simp only [hne, ho, Bool.not_true, Bool.and_false, Bool.false_eq_true, if_false]
        refine ⟨fun _ => rfl, ?_, vm_inv_updateAllFixed s.m cfgs h3⟩
        intro _ hcl
        rw [activeUpdateAll_closed] at hcl
        exact h2 ho hcl
      · have ho' : s.once = false := by cases hx : s.once with | true => exact absurd hx ho | false => rfl
        simp only [hne, ho', Bool.not_false, Bool.and_self, if_true]
        refine ⟨fun _ => rfl, ?_, vm_inv_updateAllFixed s.m cfgs h3⟩
        intro _ hcl
        rw [activeUpdateAll_closed] at hcl
        simp [hcl]
  | tick order =>
    simp only [VisitorKeeper.step, stepG, VisitorKeeper.tick]
    split
    · split
      · rename_i hcl
        exact ⟨h1, fun _ hc => (by simp only at hc; rw [hcl] at hc; cases hc), h3⟩
      · simp only [Bool.false_and, Bool.false_eq_true, if_false]
        rename_i hk hcl
        refine ⟨fun hne => h1 (by rw [activePass_cfgs] at hne; exact hne), fun _ _ => hk, activePass_inv order _ h3⟩
    · exact ⟨h1, h2, h3⟩
  | squat p =>
    simp only [VisitorKeeper.step, stepG]
    refine ⟨fun hne => h1 (by rw [vm_step_cfgs _ _ rfl] at hne; exact hne), ?_, vm_inv_step _ _ h3⟩
    intro ho hcl
    apply h2 ho
    simp only [VisitorMgr.step] at hcl
    split at hcl <;> exact hcl
  | free p =>
    simp only [VisitorKeeper.step, stepG]
    refine ⟨fun hne => h1 (by rw [vm_step_cfgs _ _ rfl] at hne; exact hne), ?_, vm_inv_step _ _ h3⟩
    intro ho hcl
    exact h2 ho hcl
  | close =>
    simp only [VisitorKeeper.step, stepG]
    refine ⟨fun hne => h1 hne, ?_, vm_inv_close _ h3⟩
    intro _ hcl
    simp [VisitorMgr.close] at hcl

theorem keeper_inv_run (es : List VisitorKeeper.Ev) : ∀ (s : KM), KInv s → KInv (VisitorKeeper.run s es) := by
  induction es with
  | nil => intro s h; exact h
  | cons e es ih => intro s h; exact ih _ (keeper_inv_step s e h)

/-- THE KEEPER IS ALIVE: after every history, if anything is configured and the manager has not been
    closed, the goroutine is inside its loop -/
theorem keeper_alive (es : List VisitorKeeper.Ev) (hcl : (VisitorKeeper.run VisitorKeeper.init es).m.closed = false)
    (hc : (VisitorKeeper.run VisitorKeeper.init es).m.cfgs ≠ []) :
    (VisitorKeeper.run VisitorKeeper.init es).k = .alive := by
  have h := keeper_inv_run es _ keeper_inv_init
  exact h.alive (h.cfgOnce hc) hcl

/-- CONVERGENCE WITHIN ONE TICK, FOR EVERY HISTORY (reloads to zero visitors and back, failing starts,
    addresses taken and released, any number of ticks in between): on a manager that has not been
    closed, the next firing of the ticker — whatever order Go's map iteration takes, as long as it
    visits every stored name — leaves every configured entry running or unstartable in the state it
    ends in (its address is taken, or its configuration can never start) -/
theorem keeper_tick_settles (es : List VisitorKeeper.Ev) (order : List Nat)
    (hcl : (VisitorKeeper.run VisitorKeeper.init es).m.closed = false) :
    ∀ c ∈ (VisitorKeeper.run VisitorKeeper.init es).m.cfgs, c.name ∈ order →
      vmSettled (VisitorKeeper.step (VisitorKeeper.run VisitorKeeper.init es) (.tick order)).m c := by
  intro c hc hn
  have h := keeper_inv_run es _ keeper_inv_init
  have hne : (VisitorKeeper.run VisitorKeeper.init es).m.cfgs ≠ [] := by
    intro e; rw [e] at hc; cases hc
  have hk := h.alive (h.cfgOnce hne) hcl
  simp only [VisitorKeeper.step, stepG, VisitorKeeper.tick, hk, hcl, Bool.false_and, Bool.false_eq_true, if_false]
  rw [activePass_eq_pass order _ hcl]
  exact vm_pass_complete order _ h.vinv c hc hn

/-- … so if the obstacle is gone — the entry can start in the state the tick ends in — it is running -/
theorem keeper_obstacle_gone_running (es : List VisitorKeeper.Ev) (order : List Nat)
    (hcl : (VisitorKeeper.run VisitorKeeper.init es).m.closed = false)
    (c : VCfg) (hc : c ∈ (VisitorKeeper.run VisitorKeeper.init es).m.cfgs) (hn : c.name ∈ order)
    (hcan : canStart (VisitorKeeper.step (VisitorKeeper.run VisitorKeeper.init es) (.tick order)).m c = true) :
    hasVisitor (VisitorKeeper.step (VisitorKeeper.run VisitorKeeper.init es) (.tick order)).m.visitors c.name = true := by
  rcases keeper_tick_settles es order hcl c hc hn with h | h
  · exact h
  · rw [hcan] at h; cases h

/-! ### the theorems discriminate: a loop that also ends when nothing is configured -/

def kA : VCfg := ⟨1, 0, 1, false⟩
def kB : VCfg := ⟨2, 0, 1, false⟩

/-- load a visitor, reload to zero visitors, one tick, the address is taken, reload adding a visitor on
    it (its start fails), the address is released -/
def emptyEpisode : List VisitorKeeper.Ev := [.upd [kA], .upd [], .tick [], .squat 1, .upd [kB], .free 1]

/-- in the variant the goroutine is gone, the Once is spent: the configured, startable visitor is not
    running and no tick will ever start it … -/
theorem keeper_exit_on_empty_witness :
    (runG true VisitorKeeper.init emptyEpisode).k = .exited ∧
    (runG true VisitorKeeper.init emptyEpisode).m.cfgs = [kB] ∧
    canStart (runG true VisitorKeeper.init emptyEpisode).m kB = true ∧
    ∀ order, (stepG true (runG true VisitorKeeper.init emptyEpisode) (.tick order)).m.visitors = [] := by
  refine ⟨by decide, by decide, by decide, ?_⟩
  intro order
  have hk : (runG true VisitorKeeper.init emptyEpisode).k = .exited := by decide
  have hv : (runG true VisitorKeeper.init emptyEpisode).m.visitors = [] := by decide
  simp only [stepG, VisitorKeeper.tick, hk]
  exact hv

/-- … while the code as it is starts it at the next tick -/
theorem keeper_empty_episode_code :
    (VisitorKeeper.run VisitorKeeper.init emptyEpisode).k = .alive ∧
    hasVisitor (VisitorKeeper.step (VisitorKeeper.run VisitorKeeper.init emptyEpisode) (.tick [2])).m.visitors 2 = true := by
  decide

end C19
end Frp
