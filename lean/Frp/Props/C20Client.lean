import Frp.Props.C20
import Frp.Model.NatSign
import Frp.Gen.NatClientFacts
/-
  C20, round 5 — two places where the earlier models were right but not TIED to the code tightly enough:

  §A the signature a visitor supplies, as a string (Model/NatSign.lean).  `HandleVisitor` compares the WHOLE supplied
     SignKey with the whole expected one — hex(md5(secret ++ timestamp)), computed here with a real MD5 — through
     `subtle.ConstantTimeCompare`, whose first step is the length test.  For EVERY supplied string: accepted ⇔ equal
     byte for byte (`sigOk_iff`); a proper prefix (down to one character), an extension, any string whose length is not
     32 is refused (`sig_prefix_or_extension_refused`, `sig_wrong_length_refused`); a session is stored only for the
     exact signature, over all histories of wire-level messages (`session_created_only_exact_signature`,
     `sessions_exact_signature_all_histories`); the wire-level critical section refines the abstract one, so every
     theorem about `NatHole.step` carries over (`visitorLookupW_refines`).  A comparison of the overlapping part only
     is NOT enough: `overlap_compare_witness`.
     Regenerated tie: `sig_compare_shape`, `visitor_critical_shape` (Gen/NatClientFacts.lean, from controller.go / util.go).

  §B which addresses of the instruction `MakeHole` probes one by one.  The model's `detectAddrs` IS the term
     regenerated from nathole.go by symbolic execution (`makehole_plan_shape`, `detectAddrs_is_source`): no slicing,
     no truncation, no early exit between the instruction and the send loop; hence for address lists of ANY length
     every address the instruction names is sent to, from every socket (`instructed_addrs_all_probed`,
     `send_plan_complete`), and every candidate IP x every port of every range (`range_addrs_complete`).  A plan that
     keeps a bounded number of addresses loses the peer's mapped address: `truncated_plan_witness`.
-/
namespace Frp
namespace C20
open NatBeh NatHole NatPunch NatSign

/-! ## A. The signature, byte for byte -/

theorem nat_xor_eq_zero (a b : Nat) : a ^^^ b = 0 ↔ a = b := by
  constructor
  · intro h
    apply Nat.eq_of_testBit_eq
    intro i
    have := congrArg (fun n => n.testBit i) h
    simp only [Nat.testBit_xor, Nat.zero_testBit] at this
    cases ha : a.testBit i <;> cases hb : b.testBit i <;> simp_all
  · intro h; subst h; exact Nat.xor_self a

theorem ctAcc_eq_zero_iff : ∀ (x y : Str) (v : Nat), x.length = y.length →
    (ctAcc x y v = 0 ↔ v = 0 ∧ x = y)
  | [], [], v, _ => by simp [ctAcc]
  | a :: x, b :: y, v, h => by
    have hl : x.length = y.length := by simpa using h
    simp only [ctAcc]
    rw [ctAcc_eq_zero_iff x y _ hl, Nat.or_eq_zero_iff, nat_xor_eq_zero]
    constructor
    · intro ⟨⟨hv, hab⟩, hxy⟩
      exact ⟨hv, by rw [hab, hxy]⟩
    · intro ⟨hv, hc⟩
      cases hc
      exact ⟨⟨hv, rfl⟩, rfl⟩
  | [], _ :: _, _, h => by simp at h
  | _ :: _, [], _, h => by simp at h

/-- `subtle.ConstantTimeCompare` answers 1 exactly for equal byte strings — of ANY lengths -/
theorem ctCompare_eq_one_iff (x y : Str) : ctCompare x y = 1 ↔ x = y := by
  unfold ctCompare
  by_cases hl : x.length = y.length
  · simp only [hl, ne_eq, not_true_eq_false, if_false]
    have := ctAcc_eq_zero_iff x y 0 hl
    by_cases hz : ctAcc x y 0 = 0
    · simp only [hz, if_true, true_iff]; exact (this.mp hz).2
    · simp only [hz, if_false]
      constructor
      · intro h; cases h
      · intro h; exact absurd (this.mpr ⟨rfl, h⟩) hz
  · simp only [ne_eq, hl, not_false_eq_true, if_true]
    constructor
    · intro h; cases h
    · intro h; subst h; exact absurd rfl hl

/-- for EVERY supplied string: HandleVisitor's test passes ⇔ the string is the expected signature, byte for byte -/
theorem sigOk_iff (k sk : Str) (ts : Int) : sigOk k sk ts = true ↔ k = authKey sk ts := by
  simp only [sigOk, ctEqString, beq_iff_eq]
  exact ctCompare_eq_one_iff _ _

theorem flatMap_pair_length (f g : Nat → Nat) : ∀ l : List Nat, (l.flatMap (fun b => [f b, g b])).length = 2 * l.length
  | [] => rfl
  | a :: l => by
    simp only [List.flatMap_cons, List.length_append, List.length_cons, List.length_nil, flatMap_pair_length f g l]
    omega

/-- `util.GetAuthKey` always returns 32 bytes (hex of the 16-byte md5) -/
theorem authKey_length (sk : Str) (ts : Int) : (authKey sk ts).length = 32 := by
  have hd : (Md5.digest (authInput sk ts)).length = 16 := by
    simp only [Md5.digest, Md5.leBytes, List.length_append, List.length_cons, List.length_nil]
  simp only [authKey, Md5.hexDigest]
  rw [flatMap_pair_length, hd]

/-- no signature, a signature of another length: refused, whatever its content -/
theorem sig_wrong_length_refused (k sk : Str) (ts : Int) (h : k.length ≠ 32) : sigOk k sk ts = false := by
  cases hs : sigOk k sk ts
  · rfl
  · have := (sigOk_iff k sk ts).mp hs
    rw [this, authKey_length] at h
    exact absurd rfl h

/-- every proper prefix of the right signature (down to one character, and the empty one) and the right signature
    followed by anything are refused -/
theorem sig_prefix_or_extension_refused (k x sk : Str) (ts : Int) :
    (k <+: authKey sk ts → k ≠ authKey sk ts → sigOk k sk ts = false) ∧
    (x ≠ [] → sigOk (authKey sk ts ++ x) sk ts = false) := by
  constructor
  · intro _ hne
    cases hs : sigOk k sk ts
    · rfl
    · exact absurd ((sigOk_iff k sk ts).mp hs) hne
  · intro hx
    apply sig_wrong_length_refused
    rw [List.length_append, authKey_length]
    have : x.length ≠ 0 := fun h => hx (List.length_eq_zero_iff.mp h)
    omega

/-- the comparison of the overlapping part only accepts a ONE-character prefix of the right signature, which the
    code's comparison refuses: the length test inside ConstantTimeCompare is what the clause rests on -/
theorem overlap_compare_witness (sk : Str) (ts : Int) :
    overlapOk ((authKey sk ts).take 1) (authKey sk ts) = true ∧ sigOk ((authKey sk ts).take 1) sk ts = false := by
  have hl := authKey_length sk ts
  constructor
  · match h : authKey sk ts with
    | [] => rw [h] at hl; cases hl
    | a :: rest =>
      have hr : 1 ≤ (a :: rest).length := by simp
      simp only [overlapOk, List.take_succ_cons, List.take_zero, List.length_cons, List.length_nil]
      have hm : min (0 + 1) (rest.length + 1) = 1 := by omega
      simp only [hm, List.take_succ_cons, List.take_zero, Bool.and_eq_true, beq_iff_eq]
      exact ⟨by simp, (ctCompare_eq_one_iff _ _).mpr rfl⟩
  · apply sig_wrong_length_refused
    rw [List.length_take, hl]
    omega

/-- the wire-level critical section is the abstract one on the abstracted message: every theorem about `NatHole.step`
    (`session_created_only_signed`, addressing, rank, progress …) holds for messages as they arrive -/
theorem visitorLookupW_refines (s : State) (sid : Str) (m : WVMsg) (t : Nat) (u : Str) :
    visitorLookupW s sid m t u = step s (.visitorLookup sid (m.abs s.cfgs) t u) := by
  simp only [visitorLookupW, step]
  cases hses : aget s.sessions sid with
  | some x => rfl
  | none =>
    simp only
    have hpn : (m.abs s.cfgs).proxyName = m.proxyName := rfl
    have htid : (m.abs s.cfgs).tid = m.tid := rfl
    have hts : (m.abs s.cfgs).timestamp = m.timestamp := rfl
    rw [hpn, htid]
    cases hcfg : aget s.cfgs m.proxyName with
    | none => rfl
    | some cfg =>
      simp only [hts]
      have hsigned : (m.abs s.cfgs).signed =
          (if m.signKey = authKey cfg.sk m.timestamp then authInput cfg.sk m.timestamp
           else 0 :: authInput cfg.sk m.timestamp) := by
        simp only [WVMsg.abs, hcfg]
      by_cases hk : m.signKey = authKey cfg.sk m.timestamp
      · have hok : sigOk m.signKey cfg.sk m.timestamp = true := (sigOk_iff _ _ _).mpr hk
        rw [hsigned, if_pos hk]
        simp only [hok, Bool.not_true, Bool.false_eq_true, if_false, ne_eq, not_true_eq_false]
      · have hok : sigOk m.signKey cfg.sk m.timestamp = false := by
          cases h : sigOk m.signKey cfg.sk m.timestamp
          · rfl
          · exact absurd ((sigOk_iff _ _ _).mp h) hk
        have hne : (0 :: authInput cfg.sk m.timestamp) ≠ authInput cfg.sk m.timestamp := by
          intro h
          have := congrArg List.length h
          simp at this
        rw [hsigned, if_neg hk]
        simp only [hok, Bool.not_false, if_true, ne_eq, hne, not_false_eq_true]

/-- messages as they arrive: a visitor request carries its SignKey string, everything else is a label of the
    abstract model (an abstract `visitorLookup` is not a wire-level event) -/
inductive WLabel
  | visit (sid : Str) (m : WVMsg) (t : Nat) (user : Str)
  | other (l : Label)

def stepW (s : State) : WLabel → Option (State × Out)
  | .visit sid m t u => visitorLookupW s sid m t u
  | .other (.visitorLookup _ _ _ _) => none
  | .other l => step s l

def runW : State → List WLabel → Option (State × Out)
  | s, [] => some (s, [])
  | s, l :: ls =>
    match stepW s l with
    | none => none
    | some (s', o) =>
      match runW s' ls with
      | none => none
      | some (s'', o') => some (s'', o ++ o')

/-- THE CLAUSE, one step: a session appears only through a visitor request for a registered proxy whose SignKey equals
    hex(md5(secret ++ timestamp)) BYTE FOR BYTE, from an allowed user; nothing is sent at that moment -/
theorem session_created_only_exact_signature (s s' : State) (l : WLabel) (o : Out) (sid : Str)
    (h : stepW s l = some (s', o)) (hnew : aget s.sessions sid = none) (hs' : aget s'.sessions sid ≠ none) :
    ∃ m t u cfg, l = .visit sid m t u ∧ aget s.cfgs m.proxyName = some cfg ∧
      m.signKey = authKey cfg.sk m.timestamp ∧ userAllowed cfg.allow u = true ∧ o = [] := by
  cases l with
  | visit sid' m t u =>
    simp only [stepW] at h
    rw [visitorLookupW_refines] at h
    obtain ⟨m', t', u', cfg, hl, hcfg, hsig, hallow, ho⟩ := session_created_only_signed s s' _ o sid h hnew hs'
    cases hl
    have hcfg' : aget s.cfgs m.proxyName = some cfg := hcfg
    refine ⟨m, t, u, cfg, rfl, hcfg', ?_, hallow, ho⟩
    have hsigned : (m.abs s.cfgs).signed =
        (if m.signKey = authKey cfg.sk m.timestamp then authInput cfg.sk m.timestamp
         else 0 :: authInput cfg.sk m.timestamp) := by
      simp only [WVMsg.abs, hcfg']
    have hsig' : (m.abs s.cfgs).signed = authInput cfg.sk m.timestamp := hsig
    rw [hsigned] at hsig'
    by_cases hk : m.signKey = authKey cfg.sk m.timestamp
    · exact hk
    · simp only [hk, if_false] at hsig'
      have := congrArg List.length hsig'
      simp at this
  | other l' =>
    cases l' <;> simp only [stepW] at h <;>
      (first
        | (obtain ⟨_, _, _, _, hl, _⟩ := session_created_only_signed s s' _ o sid h hnew hs'; cases hl)
        | cases h)

/-- THE CLAUSE, all histories: whatever wire-level messages and handler steps happen in whatever order, a session
    that is stored at the end and was not at the start was created by a request whose SignKey was exactly the
    signature for the secret registered under that proxy name AT THAT MOMENT -/
theorem sessions_exact_signature_all_histories (sid : Str) : ∀ (ls : List WLabel) (s s' : State) (o : Out),
    runW s ls = some (s', o) → aget s.sessions sid = none → aget s'.sessions sid ≠ none →
    ∃ pre m t u post sMid oMid cfg, ls = pre ++ WLabel.visit sid m t u :: post ∧ runW s pre = some (sMid, oMid) ∧
      aget sMid.cfgs m.proxyName = some cfg ∧ m.signKey = authKey cfg.sk m.timestamp ∧
      userAllowed cfg.allow u = true := by
  intro ls
  induction ls with
  | nil =>
    intro s s' o h hnew hs'
    simp only [runW] at h
    cases h
    exact absurd hnew hs'
  | cons l rest ih =>
    intro s s' o h hnew hs'
    simp only [runW] at h
    cases h1 : stepW s l with
    | none => rw [h1] at h; cases h
    | some p =>
      obtain ⟨s1, o1⟩ := p
      rw [h1] at h
      simp only at h
      cases h2 : runW s1 rest with
      | none => rw [h2] at h; cases h
      | some q =>
        obtain ⟨s2, o2⟩ := q
        rw [h2] at h
        simp only at h
        cases h
        by_cases hmid : aget s1.sessions sid = none
        · obtain ⟨pre, m, t, u, post, sMid, oMid, cfg, hls, hpre, hcfg, hsig, hal⟩ := ih s1 s' o2 h2 hmid hs'
          refine ⟨l :: pre, m, t, u, post, sMid, o1 ++ oMid, cfg, by rw [hls]; rfl, ?_, hcfg, hsig, hal⟩
          simp only [runW, h1, hpre]
        · obtain ⟨m, t, u, cfg, hl, hcfg, hsig, hal, _⟩ := session_created_only_exact_signature s s1 l o1 sid h1 hnew hmid
          exact ⟨[], m, t, u, rest, s, [], cfg, by rw [hl]; rfl, rfl, hcfg, hsig, hal⟩

/-- non-vacuity: the right signature creates the session, its 31-character prefix and its extension by "0" do not -/
example :
    let s0 : State := { cfgs := [([112], { sk := [115, 107], allow := [[Str.star]], chan := 0 })], nextChan := 1 }
    let good := authKey [115, 107] 12
    let m (k : Str) : WVMsg := { tid := [118], proxyName := [112], signKey := k, timestamp := 12 }
    ((visitorLookupW s0 [1] (m good) 0 []).map (fun p => (aget p.1.sessions [1]).isSome && p.2.isEmpty)) = some true ∧
    ((visitorLookupW s0 [1] (m (good.take 31)) 0 []).map (fun p => (aget p.1.sessions [1]).isSome)) = some false ∧
    ((visitorLookupW s0 [1] (m (good ++ [48])) 0 []).map (fun p => (aget p.1.sessions [1]).isSome)) = some false ∧
    ((visitorLookupW s0 [1] (m (good.take 1)) 0 []).map (fun p => p.2.map (·.2.error))) = some [ErrKind.authFailed] := by
  decide +kernel

/-- REGENERATED tie (controller.go, util.go): the condition guarding the "auth failed" return compares the whole
    supplied SignKey with the whole `util.GetAuthKey(clientCfg.sk, m.Timestamp)`; GetAuthKey is md5 over the token
    followed by the decimal timestamp, in lower-case hex -/
theorem sig_compare_shape :
    Gen.NatClientFacts.sigCompare = .whole "m.SignKey" "util.GetAuthKey(clientCfg.sk, m.Timestamp)" ∧
    Gen.NatClientFacts.authKeyBody =
      ["(token string, timestamp int64)", "md5Ctx := md5.New()", "md5Ctx.Write([]byte(token))",
       "md5Ctx.Write([]byte(strconv.FormatInt(timestamp, 10)))", "data := md5Ctx.Sum(nil)",
       "return hex.EncodeToString(data)"] := by
  constructor <;> decide

/-- REGENERATED tie: the critical section of HandleVisitor is lookup, signature, allow list, store — in this order,
    each failure returning before the store (what `visitorLookupW` mirrors) -/
theorem visitor_critical_shape :
    Gen.NatClientFacts.critical =
      ["c.mu.Lock()", "defer c.mu.Unlock()", "clientCfg, ok = c.clientCfgs[m.ProxyName]",
       "if !ok { return fmt.Errorf(\"xtcp server for [%s] doesn't exist\", m.ProxyName) }",
       "if " ++ Gen.NatClientFacts.sigGuard ++ " { return fmt.Errorf(\"xtcp connection of [%s] auth failed\", m.ProxyName) }",
       "if !slices.Contains(clientCfg.allowUsers, visitorUser) && !slices.Contains(clientCfg.allowUsers, \"*\") { return fmt.Errorf(\"xtcp visitor user [%s] not allowed for [%s]\", visitorUser, m.ProxyName) }",
       "c.sessions[sid] = session", "return nil"] := by
  decide +kernel

/-! ## B. What MakeHole probes -/

/-- the regenerated term for the instruction at hand -/
def planOf (r : Resp) : AddrExpr :=
  if r.role = .sender then
    (if r.candidatePorts.isEmpty then Gen.NatClientFacts.detectSenderNoPorts else Gen.NatClientFacts.detectSenderPorts)
  else
    (if r.candidatePorts.isEmpty then Gen.NatClientFacts.detectReceiverNoPorts else Gen.NatClientFacts.detectReceiverPorts)

/-- REGENERATED tie (nathole.go MakeHole): `detectAddrs` at the send loop is Compact(assisted ++ candidate) for a
    sender, Compact(candidate) for the other role without candidate ports, empty with them — no slice expression, no
    guarded truncation, nothing the translator has no term for; the send loop ranges over exactly that slice and over
    every listening socket, with no break / continue / return; the instruction is never written to; the range probing
    gets m.CandidateAddrs and m.DetectBehavior.CandidatePorts as they are and walks every IP, range and port -/
theorem makehole_plan_shape :
    Gen.NatClientFacts.detectSenderNoPorts = .compact (.app .assisted .candidate) ∧
    Gen.NatClientFacts.detectSenderPorts = .compact (.app .assisted .candidate) ∧
    Gen.NatClientFacts.detectReceiverNoPorts = .compact .candidate ∧
    Gen.NatClientFacts.detectReceiverPorts = .compact .nil ∧
    Gen.NatClientFacts.sendLoop =
      ["range detectAddrs", "range listenConns",
       "sendSidMessage(ctx, conn, m.Sid, transactionID, detectAddr, key, m.DetectBehavior.TTL)"] ∧
    Gen.NatClientFacts.sendLoopExits = 0 ∧
    Gen.NatClientFacts.instrWrites = [] ∧
    Gen.NatClientFacts.rangeCall =
      "sendSidMessageToRangePorts(ctx, conn, m.CandidateAddrs, m.DetectBehavior.CandidatePorts, sendToRangePortsFunc)" ∧
    Gen.NatClientFacts.rangeLoops.drop 1 =
      ["range slices.Compact(parseIPs(addrs))", "range ports", "for i := portsRange.From; i <= portsRange.To; i++",
       "detectAddr := net.JoinHostPort(ip, strconv.Itoa(i))", "sendFunc(conn, detectAddr)"] ∧
    Gen.NatClientFacts.rangeLoopExits = 0 := by
  decide

/-- the model's `detectAddrs` is the regenerated term, for every instruction -/
theorem detectAddrs_is_source (r : Resp) : detectAddrs r = (planOf r).eval r := by
  obtain ⟨h1, h2, h3, h4, _⟩ := makehole_plan_shape
  simp only [planOf, detectAddrs]
  by_cases hs : r.role = .sender
  · simp only [hs, if_true]
    by_cases hp : r.candidatePorts.isEmpty = true
    · simp only [hp, if_true, h1, AddrExpr.eval]
    · simp only [hp, if_false, h2, AddrExpr.eval, Bool.false_eq_true]
  · simp only [hs, if_false]
    by_cases hp : r.candidatePorts.isEmpty = true
    · simp only [hp, if_true, h3, AddrExpr.eval]
    · simp only [hp, if_false, h4, AddrExpr.eval, Bool.false_eq_true]

/-- for address lists of ANY length: a sender probes every assisted and every candidate address the server named, the
    other role (when no port range is prescribed) every candidate address -/
theorem instructed_addrs_all_probed (r : Resp) (a : Str) :
    (r.role = .sender → a ∈ r.assistedAddrs ++ r.candidateAddrs → a ∈ probes r) ∧
    (r.role ≠ .sender → r.candidatePorts = [] → a ∈ r.candidateAddrs → a ∈ probes r) := by
  constructor
  · intro hs ha
    simp only [probes, detectAddrs, hs, if_true, List.mem_append]
    left
    exact (mem_compact a _).mpr ha
  · intro hs hp ha
    simp only [probes, detectAddrs, hs, if_false, hp, List.isEmpty_nil, if_true, List.mem_append]
    left
    exact (mem_compact a _).mpr ha

/-- the send loop reaches every address of the slice from every listening socket -/
theorem send_plan_complete (addrs : List Str) (n : Nat) (a : Str) (c : Nat) (ha : a ∈ addrs) (hc : c < n) :
    (a, c) ∈ sendPlan addrs n := by
  simp only [sendPlan, List.mem_flatMap, List.mem_map, List.mem_range]
  exact ⟨a, ha, c, hc, rfl⟩

theorem mem_portsOf (rg : Int × Int) (p : Int) (h1 : rg.1 ≤ p) (h2 : p ≤ rg.2) : p ∈ portsOf rg := by
  simp only [portsOf, List.mem_map, List.mem_range]
  have e1 : ((p - rg.1).toNat : Int) = p - rg.1 := Int.toNat_of_nonneg (by omega)
  have e2 : ((rg.2 - rg.1 + 1).toNat : Int) = rg.2 - rg.1 + 1 := Int.toNat_of_nonneg (by omega)
  refine ⟨(p - rg.1).toNat, ?_, ?_⟩
  · omega
  · simp only [Int.ofNat_eq_natCast]; omega

/-- `sendSidMessageToRangePorts`: every candidate IP x every port of every prescribed range is probed -/
theorem range_addrs_complete (r : Resp) (ip : Str) (rg : Int × Int) (p : Int)
    (hip : ip ∈ compact (parseIPs r.candidateAddrs)) (hrg : rg ∈ r.candidatePorts) (h1 : rg.1 ≤ p) (h2 : p ≤ rg.2) :
    joinHostPort ip p ∈ probes r := by
  simp only [probes, rangeAddrs, List.mem_append, List.mem_flatMap, List.mem_map]
  right
  exact ⟨ip, hip, rg, hrg, p, mem_portsOf rg p h1 h2, rfl⟩

/-- a plan that keeps a bounded number of addresses (`detectAddrs[:3]` here) never probes the peer's mapped address
    once the peer announced that many assisted addresses — and then the peers do not meet: both time out -/
theorem truncated_plan_witness :
    let a (k : Nat) : Str := [49, 58, 48 + k]
    let s : Resp := { sid := [115], role := .sender, assistedAddrs := [a 1, a 2, a 3], candidateAddrs := [a 9] }
    a 9 ∈ (AddrExpr.compact (.app .assisted .candidate)).eval s ∧
    a 9 ∉ (AddrExpr.take 3 (.compact (.app .assisted .candidate))).eval s := by
  decide

end C20
end Frp
