import Frp.Props.C17
import Frp.Model.CodecProc
import Frp.Gen.MsgLimit
/-
  C17, clause "bounded" as a property of the PROCESS in every configuration.

  `Frame.decodeFull max …` is proved bounded by `max` for every `max` (Props/C17.lean); frp's `max` is a field of the
  one codec object of the process (Model/CodecProc.lean).  Here: the limit of that object is the constant 10240 after
  EVERY history of the process — whatever services were constructed with whatever configuration —, because the
  regenerated facts (`Frp.Gen.MsgLimit`, go/ast over every package of the repository + the golib module of go.mod)
  show that nothing in frp can write it:

  * golib: the field is written by NewMsgCtl (to the package's default, the literal 10240, which nobody assigns) and
    by SetMaxMsgLength only;
  * frp: no `.SetMaxMsgLength` anywhere; one `.NewMsgCtl` (pkg/msg/ctl.go init); the variable holding the object is
    assigned there only and otherwise used only as the receiver of RegisterMsg / ReadMsg / ReadMsgInto / WriteMsg — it
    never escapes pkg/msg; nobody names the field (reflection).
-/
namespace Frp
namespace C17
open Frame CodecProc
open Gen.MsgLimit (Site)

/-! ## 1. the object: only SetMaxMsgLength moves the limit -/

theorem limit_only_setMax (c : Ctl) (op : Op) (h : op.isSetMax = false) : (step c op).max = c.max := by
  cases op <;> simp_all [step, Op.isSetMax]

theorem foldl_limit (ops : List Op) (c : Ctl) (h : ∀ op ∈ ops, op.isSetMax = false) :
    (ops.foldl step c).max = c.max := by
  induction ops generalizing c with
  | nil => rfl
  | cons op r ih =>
    simp only [List.foldl_cons]
    rw [ih (step c op) (fun o ho => h o (List.mem_cons_of_mem _ ho))]
    exact limit_only_setMax c op (h op List.mem_cons_self)

/-- after any history without a SetMaxMsgLength the limit is what NewMsgCtl put there -/
theorem limit_invariant (ops : List Op) (h : ∀ op ∈ ops, op.isSetMax = false) : (run ops).max = maxLen :=
  foldl_limit ops newCtl h

/-- … and the hypothesis is needed: one SetMaxMsgLength lifts the bound for every type on every connection
    (a 20000-byte body is decoded after `SetMaxMsgLength(87856)`) -/
theorem limit_writer_witness :
    (run [.register 111, .setMax 87856]).max = 87856 ∧
    ∀ body : Str, body.length = 20000 →
      decode (run [.register 111, .setMax 87856]).max (fun _ => true) (encode 111 body) = .ok 111 body [] := by
  refine ⟨rfl, fun body hb => ?_⟩
  have := decode_encode_res 87856 (fun _ => true) 111 body [] rfl (by omega) (by decide)
  simpa [run, step, newCtl] using this

/-! ## 2. the regenerated facts -/

/-- golib msg/json as the Frame / CodecProc models assume it (the module go.mod requires, unreplaced) -/
theorem golib_limit_facts :
    Gen.MsgLimit.golibVersion = "v0.5.1" ∧ Gen.MsgLimit.golibReplaced = false
    ∧ Gen.MsgLimit.golibDefault = maxLen
    ∧ Gen.MsgLimit.golibCtorInit = "defaultMaxMsgLength"
    ∧ Gen.MsgLimit.golibFieldWriters = ["MsgCtl.SetMaxMsgLength"]
    ∧ Gen.MsgLimit.golibDefaultWriters = []
    ∧ Gen.MsgLimit.golibLimitChecks = ["length > msgCtl.maxMsgLength"] := by decide

/-- how pkg/msg may touch its codec variable without handing the object (or its limit) to anybody -/
def harmlessUse (s : Site) : Bool :=
  (s.text == "assign" && s.file == "pkg/msg/ctl.go" && s.fn == "init")
  || s.text == "call:RegisterMsg" || s.text == "call:ReadMsg" || s.text == "call:ReadMsgInto" || s.text == "call:WriteMsg"
  || s.text == "call:Pack" || s.text == "call:UnPack" || s.text == "call:UnPackInto"

/-- every place of the repository through which the limit of a codec object could be written: a SetMaxMsgLength
    selector, a second codec object, the object leaving pkg/msg's hands, the field named by reflection -/
def limitWriters : List Site :=
  Gen.MsgLimit.setMaxSites
  ++ Gen.MsgLimit.ctorSites.filter (fun s => !(s.file == "pkg/msg/ctl.go" && s.fn == "init"))
  ++ Gen.MsgLimit.codecVarUses.filter (fun s => !harmlessUse s)
  ++ Gen.MsgLimit.fieldMentions
  ++ Gen.MsgLimit.jsonImporters.filter (fun s => s.file != "pkg/msg/ctl.go")

/-- there is exactly one codec object, made in pkg/msg/ctl.go `init`, held in one variable -/
theorem codec_object_single :
    Gen.MsgLimit.ctorSites.length = 1 ∧ Gen.MsgLimit.codecVars = ["msgCtl"]
    ∧ (Gen.MsgLimit.codecVarUses.filter (fun s => s.text == "assign")).length = 1 := by decide

/-- nothing in frp can write the limit -/
theorem frp_no_limit_writer : limitWriters = [] := by decide

/-! ## 3. the process -/

/-- histories a program with the writer sites `ws` can produce: a SetMaxMsgLength needs a site -/
def Admissible (ws : List Site) (ops : List Op) : Prop := ∀ op ∈ ops, op.isSetMax = true → ws ≠ []

/-- the limit of frp's codec object is 10240 after every history of the process: constructing frps / frpc with
    any configuration, any number of connections, reads and writes — a configuration could act on the limit only
    through a writer site, and there is none -/
theorem proc_limit_constant (ops : List Op) (h : Admissible limitWriters ops) : (run ops).max = 10240 := by
  have := limit_invariant ops (fun op ho => by
    cases hs : op.isSetMax with
    | false => rfl
    | true => exact absurd frp_no_limit_writer (h op ho hs))
  simpa [maxLen] using this

/-- bounded, in every process state: no body allocation above 10240 for any input -/
theorem proc_decode_bounded (ops : List Op) (h : Admissible limitWriters ops) (known : Nat → Bool) (inp : Str) :
    (decodeFull (run ops).max known inp).bodyAlloc ≤ 10240 := by
  rw [proc_limit_constant ops h]
  exact (decode_bounded 10240 known inp).1

/-- oversize lengths are errors, in every process state: a declared length above 10240 — with the body supplied or
    not — is ErrMaxMsgLength after the nine header bytes, nothing allocated -/
theorem proc_oversize_refused (ops : List Op) (h : Admissible limitWriters ops) (known : Nat → Bool) (t n : Nat) (r : Str)
    (hk : known t = true) (hn : 10240 < n) (hn2 : n < 9223372036854775808) :
    decodeFull (run ops).max known (t :: (be64 n ++ r)) = ⟨.err .maxLen, 9, 0⟩ := by
  rw [proc_limit_constant ops h]
  exact decode_oversize 10240 known t n r hk hn hn2

/-- … in particular a whole well-formed frame with a body above the bound -/
theorem proc_oversize_frame_refused (ops : List Op) (h : Admissible limitWriters ops) (known : Nat → Bool) (t : Nat)
    (body rest : Str) (hk : known t = true) (hn : 10240 < body.length) (hn2 : body.length < 9223372036854775808) :
    decode (run ops).max known (encode t body ++ rest) = .err .maxLen := by
  have := proc_oversize_refused ops h known t body.length (body ++ rest) hk hn hn2
  simp only [decode, encode, List.cons_append, List.append_assoc, this]

/-- and everything within the bound still decodes, in every process state -/
theorem proc_roundtrip (ops : List Op) (h : Admissible limitWriters ops) (known : Nat → Bool) (t : Nat) (body rest : Str)
    (hk : known t = true) (hlen : body.length ≤ 10240) :
    decode (run ops).max known (encode t body ++ rest) = .ok t body rest := by
  rw [proc_limit_constant ops h]
  exact decode_encode_res 10240 known t body rest hk hlen (by decide)

/-! non-vacuity: a real history (registrations, reads, writes) is admissible and has the limit -/
example : Admissible limitWriters [.register 111, .register 104, .read [104, 0, 0, 0, 0, 0, 0, 0, 2, 123, 125], .write 104 [123, 125]] := by
  intro op ho hs
  simp only [List.mem_cons, List.mem_nil_iff, or_false] at ho
  rcases ho with rfl | rfl | rfl | rfl <;> simp [Op.isSetMax] at hs
example : (run [.register 111, .register 104, .read [], .write 104 [123, 125]]).max = 10240 := by decide

end C17
end Frp
