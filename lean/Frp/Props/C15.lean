import Frp.Model.PluginChain
import Frp.Model.PluginSite
import Frp.Lemmas.PluginChain
import Frp.Gen.PluginSiteFacts
/-
  C15 — Server plugins gate every operation, fail closed, and see each other's edits.

  Statements are about `Frp.PluginChain` (the model of pkg/plugin/server) for ALL plugin lists,
  ALL handler functions (a plugin's answer may depend on the content it is handed), ALL contents.
-/
namespace Frp
namespace C15
open PluginChain

variable {C : Type}

/-! ## Registration: who is in the chain of an operation, and in which order -/

theorem register_list (m : Manager C) (p : Plugin C) (op : Op) :
    (m.register p).list op = if p.supports op then m.list op ++ [p] else m.list op := by
  cases op <;> rfl

/-- After registering `ps` (in this order) the chain of `op` is the old chain followed by exactly
    the plugins of `ps` that support `op`, in registration order.  In particular a plugin that does
    not support `op` is not in the chain of `op`. -/
theorem registerAll_list (m : Manager C) (ps : List (Plugin C)) (op : Op) :
    (m.registerAll ps).list op = m.list op ++ ps.filter (·.supports op) := by
  induction ps generalizing m with
  | nil => simp [Manager.registerAll]
  | cons p ps ih =>
    have h := ih (m.register p)
    simp only [Manager.registerAll, List.foldl_cons] at h ⊢
    rw [h, register_list]
    by_cases hs : p.supports op <;> simp [hs]

theorem registered_chain (ps : List (Plugin C)) (op : Op) :
    ((Manager.empty : Manager C).registerAll ps).list op = ps.filter (·.supports op) := by
  rw [registerAll_list]; cases op <;> rfl

/-! ## The gated loop -/

/-- the `Handle` calls the property allows: every step up to and including the first one that
    does not pass -/
def consultedSpec (op : Op) (R : List (Plugin C)) (c : C) : List (Seen C) :=
  ((steps op R c).take (((steps op R c).takeWhile (stepPasses op)).length + 1)).map seenOf

/-- what a failing step turns the operation into -/
def refusal (op : Op) (s : Plugin C × C) : Result C :=
  match s.1.handle op s.2 with
  | .err => .error (errMsg op)
  | .resp true reason _ _ => .error reason
  | .resp false _ _ _ => .panic

theorem refusal_not_ok (op : Op) (s : Plugin C × C) : (refusal op s).isOk = false := by
  unfold refusal
  split <;> rfl

/-- **Consulted list.** The calls made are exactly: every plugin of the chain, in chain order,
    each handed the left-to-right composition of the earlier modifications, up to and including
    the first plugin that does not pass; nobody after it. -/
theorem gated_consulted (op : Op) (R : List (Plugin C)) (c : C) :
    (gated op R c).2 = consultedSpec op R c := by
  induction R generalizing c with
  | nil => simp [gated, consultedSpec, steps]
  | cons p ps ih =>
    unfold consultedSpec at ih ⊢
    simp only [gated, steps]
    cases h : p.handle op c with
    | err => simp [stepPasses, Ret.passes, h, seenOf]
    | resp reject reason unchange content =>
      cases reject with
      | true => simp [stepPasses, Ret.passes, h, seenOf]
      | false =>
        cases unchange with
        | true =>
          simp [stepPasses, Ret.passes, h, seenOf, Ret.next, ih]
        | false =>
          cases content with
          | none => simp [stepPasses, Ret.passes, h, seenOf]
          | some c' =>
            simp [stepPasses, Ret.passes, h, seenOf, Ret.next, ih]

/-- **Result.** `ok` with the composed content when every step passes; otherwise the refusal
    produced by the first step that does not pass. -/
theorem gated_result (op : Op) (R : List (Plugin C)) (c : C) :
    (gated op R c).1 =
      match (steps op R c).find? (fun s => !stepPasses op s) with
      | none => .ok (final op R c)
      | some s => refusal op s := by
  induction R generalizing c with
  | nil => simp [gated, steps, final]
  | cons p ps ih =>
    simp only [gated, steps, final, List.foldl_cons]
    cases h : p.handle op c with
    | err =>
      have hp : stepPasses op (p, c) = false := by simp [stepPasses, Ret.passes, h]
      simp [hp, refusal, h]
    | resp reject reason unchange content =>
      cases reject with
      | true =>
        have hp : stepPasses op (p, c) = false := by simp [stepPasses, Ret.passes, h]
        simp [hp, refusal, h]
      | false =>
        cases unchange with
        | true =>
          have hp : stepPasses op (p, c) = true := by simp [stepPasses, Ret.passes, h]
          have hn : (Ret.resp false reason true content).next c = c := by simp [Ret.next]
          simp only [List.find?_cons, hp, Bool.not_true, hn]
          exact ih c
        | false =>
          cases content with
          | none =>
            have hp : stepPasses op (p, c) = false := by simp [stepPasses, Ret.passes, h]
            simp [hp, refusal, h]
          | some c' =>
            have hp : stepPasses op (p, c) = true := by simp [stepPasses, Ret.passes, h]
            have hn : (Ret.resp false reason false (some c')).next c = c' := by simp [Ret.next]
            simp only [List.find?_cons, hp, Bool.not_true, hn]
            exact ih c'

/-- **Proceed iff nobody refused or failed; then the content is the composition.** -/
theorem gated_ok_iff (op : Op) (R : List (Plugin C)) (c c' : C) :
    (gated op R c).1 = .ok c' ↔
      (∀ s ∈ steps op R c, stepPasses op s = true) ∧ c' = final op R c := by
  rw [gated_result]
  cases hf : (steps op R c).find? (fun s => !stepPasses op s) with
  | none =>
    rw [List.find?_eq_none] at hf
    constructor
    · intro h
      injection h with h
      exact ⟨fun s hs => by simpa using hf s hs, h.symm⟩
    · rintro ⟨_, h⟩; rw [h]
  | some s =>
    have hs := List.find?_some hf
    have hm := List.mem_of_find?_eq_some hf
    constructor
    · intro h
      have h2 := refusal_not_ok op s
      simp only at h
      rw [h] at h2
      cases h2
    · rintro ⟨hall, _⟩
      have := hall s hm
      simp [this] at hs

/-- **Fail closed.** If any plugin that was consulted answered with a transport error, a reject,
    or an unusable content, the operation is not allowed (whatever the others say). -/
theorem fail_closed (op : Op) (R : List (Plugin C)) (c : C) (s : Plugin C × C)
    (hs : s ∈ steps op R c) (hfail : stepPasses op s = false) :
    ∀ c', (gated op R c).1 ≠ .ok c' := by
  intro c' h
  have := ((gated_ok_iff op R c c').1 h).1 s hs
  rw [hfail] at this
  cases this

/-- **Transport error ⇒ refused with the fixed message; reject ⇒ refused with the plugin's
    reason**, at the first failing plugin `s` (everything before it, `pre`, passed). -/
theorem first_failure (op : Op) (R : List (Plugin C)) (c : C)
    (pre post : List (Plugin C × C)) (s : Plugin C × C)
    (hdec : steps op R c = pre ++ s :: post)
    (hpre : ∀ x ∈ pre, stepPasses op x = true) (hfail : stepPasses op s = false) :
    (gated op R c).1 = refusal op s ∧ (gated op R c).2 = (pre ++ [s]).map seenOf := by
  have htw := (ListW.split_unique (stepPasses op) _ pre post s hdec hpre hfail).1
  constructor
  · rw [gated_result, hdec, ListW.find_first (stepPasses op) pre post s hpre hfail]
  · rw [gated_consulted, consultedSpec, htw, hdec]
    congr 1
    have : pre ++ s :: post = (pre ++ [s]) ++ post := by simp
    rw [this]
    exact List.take_left' (by simp)

/-- **Everybody consulted when the operation proceeds.** -/
theorem proceed_all_consulted (op : Op) (R : List (Plugin C)) (c c' : C)
    (h : (gated op R c).1 = .ok c') :
    (gated op R c).2 = (steps op R c).map seenOf ∧ c' = final op R c := by
  have ⟨hall, hc⟩ := (gated_ok_iff op R c c').1 h
  refine ⟨?_, hc⟩
  rw [gated_consulted, consultedSpec, ListW.takeWhile_eq_self _ _ hall,
    List.take_of_length_le (by omega)]

/-- the ids consulted are a prefix of the chain's ids: in registration order, no gaps, no
    repetition of a position -/
theorem steps_ids (op : Op) (R : List (Plugin C)) (c : C) :
    (steps op R c).map (fun s => (seenOf s).1) = R.map (·.id) := by
  induction R generalizing c with
  | nil => rfl
  | cons p ps ih => simp only [steps, List.map_cons, seenOf]; rw [← ih]; rfl

theorem consulted_ids_prefix (op : Op) (R : List (Plugin C)) (c : C) :
    ((gated op R c).2.map (·.1)) <+: R.map (·.id) := by
  rw [gated_consulted, consultedSpec, List.map_map, ← steps_ids op R c]
  have : ((fun (x : Seen C) => x.1) ∘ seenOf) = fun (s : Plugin C × C) => (seenOf s).1 := rfl
  rw [this, List.map_take]
  exact List.take_prefix _ _

/-- **Plugins not registered for an operation are never consulted for it**: whatever was
    registered, every call made by the manager method of `op` went to a registered plugin that
    supports `op`. -/
theorem unregistered_never_consulted (ps : List (Plugin C)) (op : Op) (c : C) (e : Seen C)
    (he : e ∈ (gated op (((Manager.empty : Manager C).registerAll ps).list op) c).2) :
    ∃ p ∈ ps, p.supports op = true ∧ p.id = e.1 := by
  rw [registered_chain] at he
  have hpre := consulted_ids_prefix op (ps.filter (·.supports op)) c
  have hmem : e.1 ∈ ((gated op (ps.filter (·.supports op)) c).2.map (·.1)) :=
    List.mem_map_of_mem he
  have := hpre.subset hmem
  rcases List.mem_map.1 this with ⟨p, hp, hid⟩
  rcases List.mem_filter.1 hp with ⟨hp1, hp2⟩
  exact ⟨p, hp1, hp2, hid⟩

/-- the content composition spelled out: what plugin number `k` is handed is the fold of the
    first `k` modifications -/
theorem steps_content (op : Op) (R : List (Plugin C)) (c : C) (k : Nat) (hk : k < (steps op R c).length) :
    ((steps op R c)[k]).2 = final op (R.take k) c := by
  induction R generalizing c k with
  | nil => simp [steps] at hk
  | cons p ps ih =>
    cases k with
    | zero => simp [steps, final]
    | succ k =>
      simp only [steps, List.getElem_cons_succ, List.take_succ_cons, final, List.foldl_cons]
      simp only [steps, List.length_cons] at hk
      exact ih _ k (by omega)

theorem steps_length (op : Op) (R : List (Plugin C)) (c : C) : (steps op R c).length = R.length := by
  induction R generalizing c with
  | nil => rfl
  | cons p ps ih => simp [steps, ih]

/-! ## CloseProxy: notify everybody, whatever happens -/

theorem closeLoop_consulted (R : List (Plugin C)) (c : C) :
    (closeLoop R c).2 = R.map (fun p => (p.id, c)) := by
  induction R with
  | nil => rfl
  | cons p ps ih =>
    simp only [closeLoop, List.map_cons]
    split <;> simp [ih]

theorem closeLoop_errs (R : List (Plugin C)) (c : C) :
    (closeLoop R c).1 = (R.filter (fun p => (p.handle .closeProxy c).isErr)).map (·.id) := by
  induction R with
  | nil => rfl
  | cons p ps ih =>
    simp only [closeLoop, List.filter_cons]
    split <;> rename_i h <;> simp [h, ih, Ret.isErr]

/-- **Every plugin registered for CloseProxy is notified, with the original content, even if an
    earlier one fails**; the method reports an error iff some plugin failed. -/
theorem closeAll_spec (R : List (Plugin C)) (c : C) :
    (closeAll R c).2 = R.map (fun p => (p.id, c)) ∧
    ((closeAll R c).1 = .ok ↔ ∀ p ∈ R, (p.handle .closeProxy c).isErr = false) := by
  refine ⟨closeLoop_consulted R c, ?_⟩
  simp only [closeAll, closeLoop_errs]
  constructor
  · intro h p hp
    split at h
    · rename_i h0
      cases he : (p.handle .closeProxy c).isErr with
      | false => rfl
      | true =>
        have h1 : p ∈ R.filter (fun p => (p.handle .closeProxy c).isErr) :=
          List.mem_filter.2 ⟨hp, he⟩
        have h2 : p.id ∈ (R.filter (fun p => (p.handle .closeProxy c).isErr)).map (·.id) :=
          List.mem_map_of_mem h1
        rw [h0] at h2
        cases h2
    · cases h
  · intro h
    have : R.filter (fun p => (p.handle .closeProxy c).isErr) = [] := by
      rw [List.filter_eq_nil_iff]
      intro p hp
      simp [h p hp]
    simp [this]

/-! ## HTTP plugin: what makes `Handle` fail, what lets an operation pass -/

/-- **Unreachable plugin, non-200 status, unreadable or unparsable body ⇒ `Handle` returns an
    error** (and then, by `fail_closed`, the operation is refused). -/
theorem http_bad_is_err (zero : C) (r : HttpReply C)
    (h : r = .connErr ∨ (∃ code b, r = .status code b ∧ code ≠ 200) ∨
         (∃ code, r = .status code .readErr) ∨ (∃ code, r = .status code .malformed) ∨
         (∃ code, r = .status code .badField) ∨
         (∃ code rj rs u, r = .status code (.parsed rj rs u .wrongType))) :
    httpHandle zero r = .err := by
  rcases h with h | ⟨code, b, h, hc⟩ | ⟨code, h⟩ | ⟨code, h⟩ | ⟨code, h⟩ | ⟨code, rj, rs, u, h⟩ <;>
    subst h <;> simp only [httpHandle] <;> (try split) <;> simp_all

/-- **Exactly when an HTTP exchange lets the operation pass**: status 200 and a JSON body that is
    either the value `null`, or an object that does not reject and either says `unchange` or
    carries a usable (absent or object) content. -/
theorem http_passes_iff (zero : C) (r : HttpReply C) :
    (httpHandle zero r).passes = true ↔
      (r = .status 200 .jsonNull ∨
       ∃ reason unchange content, r = .status 200 (.parsed false reason unchange content) ∧
         content ≠ .wrongType ∧ (unchange = true ∨ content ≠ .null)) := by
  cases r with
  | connErr => simp [httpHandle, Ret.passes]
  | status code body =>
    by_cases hc : code = 200
    · subst hc
      cases body with
      | readErr => simp [httpHandle, Ret.passes]
      | malformed => simp [httpHandle, Ret.passes]
      | badField => simp [httpHandle, Ret.passes]
      | jsonNull => simp [httpHandle, Ret.passes]
      | parsed reject reason unchange content =>
        cases content <;> cases reject <;> cases unchange <;> simp [httpHandle, Ret.passes]
        all_goals exact ⟨_, _, ⟨rfl, rfl⟩, by simp⟩
    · simp [httpHandle, Ret.passes, hc]

/-! ## The property as one predicate over an observed result, and its executable form -/

/-- what C15 demands of one gated manager call: `R` = the plugins registered for the op (in
    registration order), `c0` the content offered, `res` the method's result, `cons` the `Handle`
    calls that were made. -/
structure Spec (op : Op) (R : List (Plugin C)) (c0 : C) (res : Result C) (cons : List (Seen C)) : Prop where
  /-- nobody refuses ⇒ everybody was consulted in order on the composed content and the operation
      proceeds on the final composition -/
  proceed : (∀ s ∈ steps op R c0, stepPasses op s = true) →
    cons = (steps op R c0).map seenOf ∧ res = .ok (final op R c0)
  /-- somebody refuses ⇒ exactly the plugins up to the first refusing one were consulted (in
      order, each on the composed content) and the operation does not proceed -/
  refuse : ∀ pre s post, steps op R c0 = pre ++ s :: post →
    (∀ x ∈ pre, stepPasses op x = true) → stepPasses op s = false →
    cons = (pre ++ [s]).map seenOf ∧ res.isOk = false

/-- executable form of `Spec` (run by the driver on the implementation's own result) -/
def holdsOn [DecidableEq C] (op : Op) (R : List (Plugin C)) (c0 : C) (res : Result C)
    (cons : List (Seen C)) : Bool :=
  let st := steps op R c0
  let pre := st.takeWhile (stepPasses op)
  match st.dropWhile (stepPasses op) with
  | [] => cons == st.map seenOf && res == .ok (final op R c0)
  | s :: _ => cons == (pre ++ [s]).map seenOf && !res.isOk

theorem holdsOn_sound [DecidableEq C] (op : Op) (R : List (Plugin C)) (c0 : C) (res : Result C)
    (cons : List (Seen C)) :
    holdsOn op R c0 res cons = true ↔ Spec op R c0 res cons := by
  have hsplit := List.takeWhile_append_dropWhile (p := stepPasses op) (l := steps op R c0)
  simp only [holdsOn]
  split
  · rename_i hd
    have hall : ∀ s ∈ steps op R c0, stepPasses op s = true := (ListW.dropWhile_eq_nil _ _).1 hd
    simp only [Bool.and_eq_true, beq_iff_eq]
    constructor
    · rintro ⟨h1, h2⟩
      refine ⟨fun _ => ⟨h1, h2⟩, ?_⟩
      intro pre s post hdec _ hs
      have := hall s (by rw [hdec]; simp)
      rw [hs] at this; cases this
    · intro h; exact h.proceed hall
  · rename_i s post hd
    rw [hd] at hsplit
    have hpre : ∀ x ∈ (steps op R c0).takeWhile (stepPasses op), stepPasses op x = true :=
      ListW.mem_takeWhile _ _
    have hs : stepPasses op s = false := by
      cases h : stepPasses op s with
      | false => rfl
      | true =>
        exfalso
        have hall : ∀ x ∈ steps op R c0, stepPasses op x = true := by
          intro x hx
          rw [← hsplit] at hx
          rcases List.mem_append.1 hx with hx | hx
          · exact hpre x hx
          · rcases List.mem_cons.1 hx with hx | hx
            · rw [hx]; exact h
            · -- would need all of post; instead use head_dropWhile_not
              have := List.head_dropWhile_not (stepPasses op) (l := steps op R c0) (by rw [hd]; simp)
              simp only [hd, List.head_cons] at this
              rw [h] at this; cases this
        have := (ListW.dropWhile_eq_nil _ _).2 hall
        rw [hd] at this; cases this
    simp only [Bool.and_eq_true, beq_iff_eq, Bool.not_eq_true']
    constructor
    · rintro ⟨h1, h2⟩
      refine ⟨?_, ?_⟩
      · intro hall
        have := hall s (by rw [← hsplit]; simp)
        rw [hs] at this; cases this
      · intro pre' s' post' hdec hpre' hs'
        have hu := ListW.split_unique (stepPasses op) _ pre' post' s' hdec hpre' hs'
        rw [hd] at hu
        have h3 := hu.2
        injection h3 with h3 h4
        subst h3
        rw [← hu.1]
        exact ⟨h1, h2⟩
    · intro h
      exact h.refuse _ s post hsplit.symm hpre hs

/-- **The model satisfies the property** for every chain, handler, content. -/
theorem model_spec (op : Op) (R : List (Plugin C)) (c : C) :
    Spec op R c (gated op R c).1 (gated op R c).2 := by
  constructor
  · intro hall
    have hok : (gated op R c).1 = .ok (final op R c) := (gated_ok_iff op R c _).2 ⟨hall, rfl⟩
    exact ⟨(proceed_all_consulted op R c _ hok).1, hok⟩
  · intro pre s post hdec hpre hs
    have := first_failure op R c pre post s hdec hpre hs
    exact ⟨this.2, by rw [this.1]; exact refusal_not_ok op s⟩

/-- … and so does the manager built by any sequence of `Register` calls, for each gated method,
    with `R` = the registered plugins that support the op (declaratively: `filter`). -/
theorem manager_spec (ps : List (Plugin C)) (op : Op) (hop : op ≠ .closeProxy) (c : C) :
    let m := (Manager.empty : Manager C).registerAll ps
    Spec op (ps.filter (·.supports op)) c (m.call op c).1 (m.call op c).2 := by
  intro m
  have hl := registered_chain ps op
  cases op with
  | closeProxy => exact absurd rfl hop
  | login => simp only [Manager.call, Manager.login, m]; rw [← hl]; exact model_spec _ _ _
  | newProxy => simp only [Manager.call, Manager.newProxy, m]; rw [← hl]; exact model_spec _ _ _
  | ping => simp only [Manager.call, Manager.ping, m]; rw [← hl]; exact model_spec _ _ _
  | newWorkConn => simp only [Manager.call, Manager.newWorkConn, m]; rw [← hl]; exact model_spec _ _ _
  | newUserConn => simp only [Manager.call, Manager.newUserConn, m]; rw [← hl]; exact model_spec _ _ _

/-- CloseProxy through the manager: all registered supporters notified with the original content -/
theorem manager_close_spec (ps : List (Plugin C)) (c : C) :
    let m := (Manager.empty : Manager C).registerAll ps
    (m.closeProxy c).2 = (ps.filter (·.supports .closeProxy)).map (fun p => (p.id, c)) ∧
    ((m.closeProxy c).1 = .ok ↔
      ∀ p ∈ ps, p.supports .closeProxy = true → (p.handle .closeProxy c).isErr = false) := by
  intro m
  have hl := registered_chain ps .closeProxy
  have := closeAll_spec (ps.filter (·.supports .closeProxy)) c
  simp only [Manager.closeProxy, m]
  have hl' : ((Manager.empty : Manager C).registerAll ps).closeProxyPlugins =
      ps.filter (·.supports .closeProxy) := hl
  rw [hl']
  refine ⟨this.1, this.2.trans ?_⟩
  constructor
  · intro h p hp hs; exact h p (List.mem_filter.2 ⟨hp, hs⟩)
  · intro h p hp; exact h p (List.mem_filter.1 hp).1 (List.mem_filter.1 hp).2

/-- executable predicate for CloseProxy results -/
def closeHoldsOn [DecidableEq C] (R : List (Plugin C)) (c0 : C) (res : CloseResult)
    (cons : List (Seen C)) : Bool :=
  cons == R.map (fun p => (p.id, c0)) &&
  ((res == .ok) == R.all (fun p => !(p.handle .closeProxy c0).isErr))

theorem closeHoldsOn_sound [DecidableEq C] (R : List (Plugin C)) (c0 : C) (res : CloseResult)
    (cons : List (Seen C)) :
    closeHoldsOn R c0 res cons = true ↔
      (cons = R.map (fun p => (p.id, c0)) ∧
       (res = .ok ↔ ∀ p ∈ R, (p.handle .closeProxy c0).isErr = false)) := by
  have hall : (R.all (fun p => !(p.handle .closeProxy c0).isErr) = true) ↔
      ∀ p ∈ R, (p.handle .closeProxy c0).isErr = false := by
    simp [List.all_eq_true]
  simp only [closeHoldsOn, Bool.and_eq_true, beq_iff_eq]
  rw [← hall, Bool.eq_iff_iff, beq_iff_eq]

theorem model_closeHoldsOn [DecidableEq C] (R : List (Plugin C)) (c : C) :
    closeHoldsOn R c (closeAll R c).1 (closeAll R c).2 = true :=
  (closeHoldsOn_sound R c _ _).2 (closeAll_spec R c)

/-! ## Call sites: close notifications for every proxy that stops (server/control.go) -/

/-- **Every proxy that stops — by an explicit CloseProxy or by the end of the session — gets a
    close notification, in the same order, exactly once**, for every history of the session. -/
theorem notified_eq_stopped (ops : List SessOp) :
    ((Sess.run {} ops).notified = (Sess.run {} ops).stopped) := by
  suffices h : ∀ s : Sess, s.notified = s.stopped → (Sess.run s ops).notified = (Sess.run s ops).stopped from
    h {} rfl
  induction ops with
  | nil => intro s h; exact h
  | cons o os ih =>
    intro s h
    simp only [Sess.run, List.foldl_cons]
    apply ih
    cases o with
    | newProxy n => simp only [Sess.step]; split <;> exact h
    | closeProxy n => simp only [Sess.step]; split <;> simp [h]
    | sessionEnd => simp [Sess.step, h]

/-- after the session ended nothing is left running un-notified: every proxy ever registered and
    not yet stopped at session end is in `stopped` (hence notified) afterwards -/
theorem session_end_stops_all (s : Sess) :
    (s.step .sessionEnd).proxies = [] ∧ ∀ n ∈ s.proxies, n ∈ (s.step .sessionEnd).notified := by
  simp [Sess.step]
  intro n hn; exact Or.inr hn

/-! ## Call sites with the chain attached: every stop reaches every CloseProxy plugin, whatever any
       plugin answers, in every map order and every schedule of the notification goroutines -/

/-- what C15 demands of the notifications of a session: for the proxies `stopped` (in stop order)
    the `Handle(CloseProxy)` calls are, per proxy, one call to every plugin registered for CloseProxy
    with that proxy's content -/
def notifySpec (R : List (Plugin C)) (mk : Str → C) (stopped : List Str) : List (Seen C) :=
  stopped.flatMap (fun n => R.map (fun p => (p.id, mk n)))

/-- one notification goroutine calls every plugin of the chain on its own content, whatever the
    plugins answer (error, reject, anything) -/
theorem notifyGo_spec (R : List (Plugin C)) (mk : Str → C) (n : Str) :
    notifyGo R mk n = R.map (fun p => (p.id, mk n)) :=
  closeLoop_consulted R (mk n)

/-- the bookkeeping of `SessP` is that of `Sess` (so `notified_eq_stopped` speaks about it too) -/
theorem sessP_erase (R : List (Plugin C)) (mk : Str → C) (ops : List SessOp) :
    (SessP.run R mk {} ops).proxies = (Sess.run {} ops).proxies ∧
    (SessP.run R mk {} ops).stopped = (Sess.run {} ops).stopped := by
  suffices h : ∀ (s : SessP C) (t : Sess), s.proxies = t.proxies → s.stopped = t.stopped →
      (SessP.run R mk s ops).proxies = (Sess.run t ops).proxies ∧
      (SessP.run R mk s ops).stopped = (Sess.run t ops).stopped from h {} {} rfl rfl
  induction ops with
  | nil => intro s t h1 h2; exact ⟨h1, h2⟩
  | cons o os ih =>
    intro s t h1 h2
    simp only [SessP.run, Sess.run, List.foldl_cons]
    cases o with
    | newProxy n =>
      apply ih <;> simp only [SessP.step, Sess.step, h1] <;> split <;> simp [h1, h2]
    | closeProxy n =>
      apply ih <;> simp only [SessP.step, Sess.step, h1] <;> split <;> simp [h1, h2]
    | sessionEnd => apply ih <;> simp [SessP.step, Sess.step, h1, h2]

/-- **One notification goroutine per stop, each complete**: for every history of a session, every
    chain and ALL handler functions, the goroutines started are — in stop order — exactly one per
    stopped proxy (explicit close or session end), and each one calls the whole chain. -/
theorem sessP_notes (R : List (Plugin C)) (mk : Str → C) (ops : List SessOp) :
    (SessP.run R mk {} ops).notes =
      (SessP.run R mk {} ops).stopped.map (fun n => R.map (fun p => (p.id, mk n))) := by
  suffices h : ∀ s : SessP C, s.notes = s.stopped.map (fun n => R.map (fun p => (p.id, mk n))) →
      (SessP.run R mk s ops).notes =
        (SessP.run R mk s ops).stopped.map (fun n => R.map (fun p => (p.id, mk n))) from h {} rfl
  induction ops with
  | nil => intro s h; exact h
  | cons o os ih =>
    intro s h
    simp only [SessP.run, List.foldl_cons]
    apply ih
    cases o with
    | newProxy n => simp only [SessP.step]; split <;> exact h
    | closeProxy n =>
      simp only [SessP.step]
      split
      · simp [h, notifyGo_spec]
      · exact h
    | sessionEnd =>
      simp only [SessP.step, h, List.map_append]
      congr 1
      apply List.map_congr_left
      intro n _
      exact notifyGo_spec R mk n

/-- **All map orders, all schedules.** Whatever order `worker` ranges over `ctl.proxies` in (the
    goroutines `gs` are any permutation of the model's), and however the goroutines interleave,
    the calls received are a permutation of `notifySpec`: nothing lost, nothing twice. -/
theorem notify_all_schedules (R : List (Plugin C)) (mk : Str → C) (ops : List SessOp)
    (gs : List (List (Seen C))) (out : List (Seen C))
    (hgs : gs.Perm (SessP.run R mk {} ops).notes) (hrun : ListW.Interleave gs out) :
    out.Perm (notifySpec R mk (SessP.run R mk {} ops).stopped) := by
  have h1 := hrun.perm
  have h2 := hgs.flatten
  rw [sessP_notes] at h2
  unfold notifySpec
  rw [List.flatMap_def]
  exact h1.trans h2

/-- **Every proxy that stopped reaches every plugin registered for CloseProxy** — also the plugins
    behind one that fails, and also the proxies whose goroutine comes after a failed notification. -/
theorem every_stop_reaches_every_plugin (R : List (Plugin C)) (mk : Str → C) (ops : List SessOp)
    (gs : List (List (Seen C))) (out : List (Seen C))
    (hgs : gs.Perm (SessP.run R mk {} ops).notes) (hrun : ListW.Interleave gs out) :
    ∀ n ∈ (SessP.run R mk {} ops).stopped, ∀ p ∈ R, (p.id, mk n) ∈ out := by
  intro n hn p hp
  rw [(notify_all_schedules R mk ops gs out hgs hrun).mem_iff]
  unfold notifySpec
  exact List.mem_flatMap.2 ⟨n, hn, List.mem_map.2 ⟨p, hp, rfl⟩⟩

/-- within one notification the plugins are called in chain order, in every schedule -/
theorem notify_chain_order (R : List (Plugin C)) (mk : Str → C) (ops : List SessOp)
    (gs : List (List (Seen C))) (out : List (Seen C))
    (hgs : gs.Perm (SessP.run R mk {} ops).notes) (hrun : ListW.Interleave gs out) :
    ∀ n ∈ (SessP.run R mk {} ops).stopped, (R.map (fun p => (p.id, mk n))).Sublist out := by
  intro n hn
  apply hrun.sublist
  rw [hgs.mem_iff, sessP_notes]
  exact List.mem_map.2 ⟨n, hn, rfl⟩

/-- the notifications do not depend on what any plugin answers: two chains with the same ids but
    arbitrary different handlers start the same goroutines making the same calls -/
theorem notes_handler_independent (R R' : List (Plugin C)) (mk : Str → C) (ops : List SessOp)
    (hid : R.map (·.id) = R'.map (·.id)) :
    (SessP.run R mk {} ops).notes = (SessP.run R' mk {} ops).notes := by
  rw [sessP_notes, sessP_notes, (sessP_erase R mk ops).2, (sessP_erase R' mk ops).2]
  apply List.map_congr_left
  intro n _
  have h1 : R.map (fun p => (p.id, mk n)) = (R.map (·.id)).map (fun i => (i, mk n)) := by
    simp [List.map_map]
  have h2 : R'.map (fun p => (p.id, mk n)) = (R'.map (·.id)).map (fun i => (i, mk n)) := by
    simp [List.map_map]
  rw [h1, h2, hid]

/-- executable predicate for the `Handle(CloseProxy)` calls a real server's plugins received during
    a session whose stopped proxies were `stopped` (run by the driver on the implementation's wire) -/
def notifyHoldsOn [DecidableEq C] (R : List (Plugin C)) (mk : Str → C) (stopped : List Str)
    (obs : List (Seen C)) : Bool :=
  obs.isPerm (notifySpec R mk stopped)

theorem notifyHoldsOn_sound [DecidableEq C] (R : List (Plugin C)) (mk : Str → C) (stopped : List Str)
    (obs : List (Seen C)) :
    notifyHoldsOn R mk stopped obs = true ↔ obs.Perm (notifySpec R mk stopped) :=
  List.isPerm_iff

/-- the model satisfies it for every history, map order and schedule -/
theorem model_notifyHoldsOn [DecidableEq C] (R : List (Plugin C)) (mk : Str → C) (ops : List SessOp)
    (gs : List (List (Seen C))) (out : List (Seen C))
    (hgs : gs.Perm (SessP.run R mk {} ops).notes) (hrun : ListW.Interleave gs out) :
    notifyHoldsOn R mk (SessP.run R mk {} ops).stopped out = true :=
  (notifyHoldsOn_sound R mk _ out).2 (notify_all_schedules R mk ops gs out hgs hrun)

/-! ## Call sites over histories: every occurrence of every gated operation passes the gate

  `Frp.PluginSite` (server/service.go handleConnection + RegisterControl + RegisterWorkConn,
  server/control.go handleNewProxy / handlePing, server/proxy/proxy.go handleUserTCPConnection):
  several sessions, logins with an empty run id, an unknown one, the run id of a LIVE session
  (re-login / replacement) or of a session that has ended, the same operation any number of times —
  and a plugin manager that may be another one at every step (behaviours flip between operations). -/

section site
open PluginSite

/-- what an observer sees of a `Handle` call: the plugin's id and a view of the content (the identity
    for the model itself; the correspondence engine cannot compare ephemeral addresses) -/
def viewSeen (view : C → C) (e : Seen C) : Seen C := (e.1, view e.2)

/-- what C15 demands of one visit of a call site: the `Handle` calls are the property's list (every
    plugin of the chain in order on the composed content up to and including the first that does not
    pass), and the server goes on only if every plugin of the chain was consulted and passed -/
structure SiteSpec (view : C → C) (op : Op) (R : List (Plugin C)) (c0 : C) (proceeded : Bool)
    (cons : List (Seen C)) : Prop where
  consulted : cons = (consultedSpec op R c0).map (viewSeen view)
  gate : proceeded = true →
    (∀ s ∈ steps op R c0, stepPasses op s = true) ∧
    cons = ((steps op R c0).map seenOf).map (viewSeen view)

/-- executable form (run by the driver on what the plugin server received and what the peer saw) -/
def siteHoldsOn [DecidableEq C] (view : C → C) (op : Op) (R : List (Plugin C)) (c0 : C)
    (proceeded : Bool) (cons : List (Seen C)) : Bool :=
  cons == (consultedSpec op R c0).map (viewSeen view) &&
    (!proceeded || (steps op R c0).all (stepPasses op))

theorem consultedSpec_of_all (op : Op) (R : List (Plugin C)) (c : C)
    (hall : ∀ s ∈ steps op R c, stepPasses op s = true) :
    consultedSpec op R c = (steps op R c).map seenOf := by
  rw [consultedSpec, ListW.takeWhile_eq_self _ _ hall, List.take_of_length_le (by omega)]

theorem siteHoldsOn_sound [DecidableEq C] (view : C → C) (op : Op) (R : List (Plugin C)) (c0 : C)
    (proceeded : Bool) (cons : List (Seen C)) :
    siteHoldsOn view op R c0 proceeded cons = true ↔ SiteSpec view op R c0 proceeded cons := by
  simp only [siteHoldsOn, Bool.and_eq_true, beq_iff_eq, Bool.or_eq_true, Bool.not_eq_true',
    List.all_eq_true]
  constructor
  · rintro ⟨h1, h2⟩
    refine ⟨h1, fun hp => ?_⟩
    have hall : ∀ s ∈ steps op R c0, stepPasses op s = true := by
      rcases h2 with h2 | h2
      · rw [hp] at h2; cases h2
      · exact h2
    exact ⟨hall, by rw [h1, consultedSpec_of_all op R c0 hall]⟩
  · intro h
    refine ⟨h.consulted, ?_⟩
    cases hp : proceeded with
    | false => exact Or.inl rfl
    | true => exact Or.inr (h.gate hp).1

/-- an event is *gated*: its result and its `Handle` calls are those of the manager loop on the chain
    and the content of the event, and the server went on only on `ok` -/
def EvGated (e : Ev C) : Prop :=
  e.res = (gated e.op e.chain e.offered).1 ∧ e.cons = (gated e.op e.chain e.offered).2 ∧
  (e.proceeded = true → e.res.isOk = true)

/-- one message: whatever the state (which sessions live, which ended), whatever the manager of the
    moment, every event is a visit of the manager's chain of that operation and is gated -/
theorem step_events_gated (E : Enc C) (m : Manager C) (s : Srv) (x : Msg) :
    ∀ e ∈ (step E m s x).2, e.chain = m.list e.op ∧ EvGated e := by
  intro e he
  cases x with
  | login slot user rid genId authOk =>
    simp only [step] at he
    split at he
    · rename_i c' hr
      simp only [Manager.login] at hr
      split at he <;> simp only [List.mem_singleton] at he <;> subst he <;>
        simp [EvGated, Manager.list, Manager.login, hr, Result.isOk]
    · rename_i hr
      simp only [List.mem_singleton] at he
      subst he
      simp [EvGated, Manager.list, Manager.login]
  | newProxy slot name regOk =>
    simp only [step] at he
    split at he
    · cases he
    · split at he
      · rename_i c' hr
        simp only [Manager.newProxy] at hr
        split at he <;> simp only [List.mem_singleton] at he <;> subst he <;>
          simp [EvGated, Manager.list, Manager.newProxy, hr, Result.isOk]
      · simp only [List.mem_singleton] at he
        subst he
        simp [EvGated, Manager.list, Manager.newProxy]
  | ping slot key authOk =>
    simp only [step] at he
    split at he
    · cases he
    · split at he
      · rename_i hc
        simp only [Bool.and_eq_true] at hc
        simp only [List.mem_singleton] at he
        subst he
        simp only [Manager.ping] at hc
        simp [EvGated, Manager.list, Manager.ping, hc.1]
      · simp only [List.mem_singleton] at he
        subst he
        simp [EvGated, Manager.list, Manager.ping]
  | newWorkConn rid cred authOk =>
    simp only [step] at he
    split at he
    · cases he
    · simp only [List.mem_singleton] at he
      subst he
      simp only [EvGated, Manager.list, Manager.newWorkConn, Bool.and_eq_true, true_and]
      exact fun h => h.1
  | newUserConn name =>
    simp only [step] at he
    split at he
    · cases he
    · simp only [List.mem_singleton] at he
      subst he
      simp [EvGated, Manager.list, Manager.newUserConn]
  | connClosed slot => simp [step] at he
  | tick d => simp [step] at he
  | hbCheck slot => simp [step] at he

/-- **every occurrence, in every history**: each event of the trace visited the chain of one of the
    managers of the history and is gated -/
theorem run_events_gated (E : Enc C) (hist : List (Manager C × Msg)) (s : Srv) :
    ∀ e ∈ (run E s hist).2, (∃ mx ∈ hist, e.chain = mx.1.list e.op) ∧ EvGated e := by
  induction hist generalizing s with
  | nil => intro e he; simp [run] at he
  | cons mx rest ih =>
    obtain ⟨m, x⟩ := mx
    intro e he
    simp only [run, List.mem_append] at he
    rcases he with he | he
    · have := step_events_gated E m s x e he
      exact ⟨⟨(m, x), List.mem_cons_self .., this.1⟩, this.2⟩
    · have := ih _ e he
      obtain ⟨⟨mx', hm, hc⟩, hg⟩ := this
      exact ⟨⟨mx', List.mem_cons_of_mem _ hm, hc⟩, hg⟩

/-- a gated event meets the property's `Spec` and `SiteSpec` -/
theorem gated_event_spec (view : C → C) (e : Ev C) (h : EvGated e) :
    Spec e.op e.chain e.offered e.res e.cons ∧
    SiteSpec view e.op e.chain e.offered e.proceeded (e.cons.map (viewSeen view)) := by
  obtain ⟨h1, h2, h3⟩ := h
  refine ⟨by rw [h1, h2]; exact model_spec _ _ _, ⟨by rw [h2, gated_consulted], fun hp => ?_⟩⟩
  have hok := h3 hp
  rw [h1] at hok
  cases hr : (gated e.op e.chain e.offered).1 with
  | ok c' =>
    have := (gated_ok_iff _ _ _ c').1 hr
    exact ⟨this.1, by rw [h2, (proceed_all_consulted _ _ _ c' hr).1]⟩
  | error msg => rw [hr] at hok; cases hok
  | panic => rw [hr] at hok; cases hok

/-- **The clause, for every history**: whenever the server goes on with an operation — the first
    login or the tenth, a login carrying the run id of a live session, a NewProxy for a name that is
    in use, a Ping after the plugins changed their mind … — every plugin registered for that operation
    at that moment was consulted, in order, each on the composition of the earlier edits, none refused,
    and the content the server acts on is the composition of all edits. -/
theorem site_proceeds_only_through_gate (E : Enc C) (hist : List (Manager C × Msg)) (s : Srv) :
    ∀ e ∈ (run E s hist).2, e.proceeded = true →
      (∀ st ∈ steps e.op e.chain e.offered, stepPasses e.op st = true) ∧
      e.cons = (steps e.op e.chain e.offered).map seenOf ∧
      e.res = .ok (final e.op e.chain e.offered) := by
  intro e he hp
  obtain ⟨h1, h2, h3⟩ := (run_events_gated E hist s e he).2
  have hok := h3 hp
  cases hr : e.res with
  | ok c' =>
    rw [h1] at hr
    have := (gated_ok_iff _ _ _ c').1 hr
    exact ⟨this.1, by rw [h2]; exact (proceed_all_consulted _ _ _ c' hr).1, by rw [this.2]⟩
  | error msg => rw [hr] at hok; cases hok
  | panic => rw [hr] at hok; cases hok

/-- … and refused or not, what the plugins were asked is the property's list, at every occurrence -/
theorem site_every_occurrence (E : Enc C) (hist : List (Manager C × Msg)) (s : Srv) (view : C → C) :
    ∀ e ∈ (run E s hist).2,
      Spec e.op e.chain e.offered e.res e.cons ∧
      SiteSpec view e.op e.chain e.offered e.proceeded (e.cons.map (viewSeen view)) :=
  fun e he => gated_event_spec view e (run_events_gated E hist s e he).2

/-- the model meets the executable predicate at every visit of every history, under every view -/
theorem model_siteHoldsOn [DecidableEq C] (E : Enc C) (hist : List (Manager C × Msg)) (s : Srv)
    (view : C → C) :
    ∀ e ∈ (run E s hist).2,
      siteHoldsOn view e.op e.chain e.offered e.proceeded (e.cons.map (viewSeen view)) = true :=
  fun e he => (siteHoldsOn_sound _ _ _ _ _ _).2 (site_every_occurrence E hist s view e he).2

/-- **The login call site, for ALL kinds of login**: `s` is any server state and `rid` any run id —
    empty, never seen, the run id of a session that lives in `s` (re-login / replacement), the run id
    of a session that has ended (no longer in `s`).  In each case exactly one visit of the Login chain
    of the moment is made on the content built from the message; a login that is not accepted leaves the
    server state as it was; an accepted one stores a Control built from the content AS REWRITTEN by the
    chain (user, run id), replacing whatever was stored under that run id. -/
theorem login_gated_every_kind (E : Enc C) (m : Manager C) (s : Srv) (slot : Nat)
    (user rid genId : Str) (authOk : Bool) :
    ∃ e, (step E m s (.login slot user rid genId authOk)).2 = [e] ∧
      e.op = .login ∧ e.chain = m.loginPlugins ∧ e.offered = E.login user rid ∧
      e.res = (gated .login m.loginPlugins (E.login user rid)).1 ∧
      e.cons = consultedSpec .login m.loginPlugins (E.login user rid) ∧
      (e.proceeded = false → (step E m s (.login slot user rid genId authOk)).1 = s) ∧
      (e.proceeded = true →
        (∀ st ∈ steps .login m.loginPlugins (E.login user rid), stepPasses .login st = true) ∧
        (step E m s (.login slot user rid genId authOk)).1 =
          s.add ⟨slot,
            (if E.loginRid (final .login m.loginPlugins (E.login user rid)) = [] then genId
             else E.loginRid (final .login m.loginPlugins (E.login user rid))),
            E.loginUser (final .login m.loginPlugins (E.login user rid)), [], s.now⟩) := by
  simp only [step]
  cases hr : (m.login (E.login user rid)).1 with
  | ok c' =>
    have hr' : (gated .login m.loginPlugins (E.login user rid)).1 = .ok c' := hr
    have hf := (gated_ok_iff _ _ _ c').1 hr'
    cases authOk with
    | true =>
      refine ⟨_, rfl, rfl, rfl, rfl, hr.symm, ?_, ?_, ?_⟩
      · show (gated _ _ _).2 = _; rw [gated_consulted]
      · intro h; cases h
      · intro _; refine ⟨hf.1, ?_⟩; simp only [if_true]; rw [← hf.2]
    | false =>
      refine ⟨_, rfl, rfl, rfl, rfl, hr.symm, ?_, ?_, ?_⟩
      · show (gated _ _ _).2 = _; rw [gated_consulted]
      · intro _; simp
      · intro h; cases h
  | error msg =>
    refine ⟨_, rfl, rfl, rfl, rfl, hr.symm, ?_, ?_, ?_⟩
    · show (gated _ _ _).2 = _; rw [gated_consulted]
    · intro _; rfl
    · intro h; cases h
  | panic =>
    refine ⟨_, rfl, rfl, rfl, rfl, hr.symm, ?_, ?_, ?_⟩
    · show (gated _ _ _).2 = _; rw [gated_consulted]
    · intro _; rfl
    · intro h; cases h

/-- after `ctlManager.Add` the run id names the new Control and nothing else -/
theorem add_unique (s : Srv) (c : Ctl) :
    c ∈ (s.add c).ctls ∧ ∀ o ∈ (s.add c).ctls, o.rid = c.rid → o = c := by
  constructor
  · simp [Srv.add]
  · intro o ho hr
    simp only [Srv.add, List.mem_append, List.mem_filter, List.mem_singleton] at ho
    rcases ho with ⟨_, h⟩ | h
    · simp [hr] at h
    · exact h

/-- `lastPing.Store` touches nothing but the heartbeat clock of the Controls of that connection -/
theorem mem_beat (s : Srv) (slot : Nat) (ctl : Ctl) (h : ctl ∈ (s.beat slot).ctls) :
    ∃ o ∈ s.ctls, o.slot = ctl.slot ∧ o.rid = ctl.rid ∧ o.user = ctl.user ∧ o.proxies = ctl.proxies ∧
      (ctl.lastPing = o.lastPing ∨ (ctl.slot = slot ∧ ctl.lastPing = s.now)) := by
  simp only [Srv.beat, List.mem_map] at h
  obtain ⟨o, ho, rfl⟩ := h
  refine ⟨o, ho, ?_⟩
  split
  · rename_i hs; exact ⟨rfl, rfl, rfl, rfl, Or.inr ⟨hs, rfl⟩⟩
  · exact ⟨rfl, rfl, rfl, rfl, Or.inl rfl⟩

/-- **The server state changes only through the gate**: a message changes the session / proxy tables
    or the heartbeat clock of a session only if one of its visits of a chain proceeded — or it is the end
    of a connection, the passage of time, or a run of a heartbeat worker (which can only END a session). -/
theorem effect_only_through_gate (E : Enc C) (m : Manager C) (s : Srv) (x : Msg)
    (h : (step E m s x).1 ≠ s) :
    (∃ slot, x = .connClosed slot) ∨ (∃ d, x = .tick d) ∨ (∃ slot, x = .hbCheck slot) ∨
      ∃ e ∈ (step E m s x).2, e.proceeded = true := by
  cases x with
  | login slot user rid genId authOk =>
    right; right; right
    simp only [step] at h ⊢
    split at h
    · split at h
      · rename_i hr ha
        simp [hr, ha]
      · exact absurd rfl h
    · exact absurd rfl h
  | newProxy slot name regOk =>
    right; right; right
    simp only [step] at h ⊢
    split at h
    · exact absurd rfl h
    · rename_i ctl hs
      split at h
      · rename_i c' hr
        split at h
        · rename_i ha
          simp [hr, ha]
        · exact absurd rfl h
      · exact absurd rfl h
  | ping slot key authOk =>
    right; right; right
    simp only [step] at h ⊢
    split at h
    · exact absurd rfl h
    · split at h
      · rename_i hc
        simp [hc]
      · exact absurd rfl h
  | newWorkConn rid cred authOk => simp only [step] at h; split at h <;> exact absurd rfl h
  | newUserConn name => simp only [step] at h; split at h <;> exact absurd rfl h
  | connClosed slot => exact Or.inl ⟨slot, rfl⟩
  | tick d => exact Or.inr (Or.inl ⟨d, rfl⟩)
  | hbCheck slot => exact Or.inr (Or.inr (Or.inl ⟨slot, rfl⟩))

/-- a login event that let a session in whose user is `u` -/
def LetInBy (E : Enc C) (u : Str) (e : Ev C) : Prop :=
  e.op = .login ∧ e.proceeded = true ∧ ∃ c', e.res = .ok c' ∧ u = E.loginUser c'

theorem step_sessions_let_in (E : Enc C) (m : Manager C) (s : Srv) (x : Msg) (T : List (Ev C))
    (hinv : ∀ ctl ∈ s.ctls, ∃ e ∈ T, LetInBy E ctl.user e) :
    ∀ ctl ∈ (step E m s x).1.ctls, ∃ e ∈ T ++ (step E m s x).2, LetInBy E ctl.user e := by
  have keep : ∀ ctl ∈ s.ctls, ∀ T', ∃ e ∈ T ++ T', LetInBy E ctl.user e := by
    intro ctl hc T'
    obtain ⟨e, he, ha⟩ := hinv ctl hc
    exact ⟨e, List.mem_append_left _ he, ha⟩
  cases x with
  | login slot user rid genId authOk =>
    simp only [step]
    split
    · rename_i c' hr
      split
      · intro ctl hc
        simp only [Srv.add, List.mem_append, List.mem_filter, List.mem_singleton] at hc
        rcases hc with ⟨hc, _⟩ | hc
        · exact keep ctl hc _
        · subst hc
          exact ⟨_, List.mem_append_right _ (List.mem_singleton.2 rfl), rfl, rfl, c', hr, rfl⟩
      · intro ctl hc; exact keep ctl hc _
    · intro ctl hc; exact keep ctl hc _
  | newProxy slot name regOk =>
    simp only [step]
    split
    · intro ctl hc; exact keep ctl hc _
    · split
      · split
        · intro ctl hc
          simp only [Srv.addProxy, List.mem_map] at hc
          obtain ⟨o, ho, rfl⟩ := hc
          have := keep o ho
          split <;> exact this _
        · intro ctl hc; exact keep ctl hc _
      · intro ctl hc; exact keep ctl hc _
  | ping slot key authOk =>
    simp only [step]
    split
    · intro ctl hc; exact keep ctl hc _
    · split
      · intro ctl hc
        obtain ⟨o, ho, _, _, hu, _⟩ := mem_beat s slot ctl hc
        rw [← hu]; exact keep o ho _
      · intro ctl hc; exact keep ctl hc _
  | newWorkConn rid cred authOk => simp only [step]; split <;> intro ctl hc <;> exact keep ctl hc _
  | newUserConn name => simp only [step]; split <;> intro ctl hc <;> exact keep ctl hc _
  | connClosed slot =>
    simp only [step]
    intro ctl hc
    exact keep ctl (List.mem_filter.1 hc).1 _
  | tick d => simp only [step]; intro ctl hc; exact keep ctl hc _
  | hbCheck slot =>
    simp only [step]
    intro ctl hc
    exact keep ctl (List.mem_filter.1 hc).1 _

theorem run_sessions_let_in (E : Enc C) (hist : List (Manager C × Msg)) (s : Srv) (T : List (Ev C))
    (hinv : ∀ ctl ∈ s.ctls, ∃ e ∈ T, LetInBy E ctl.user e) :
    ∀ ctl ∈ (run E s hist).1.ctls, ∃ e ∈ T ++ (run E s hist).2, LetInBy E ctl.user e := by
  induction hist generalizing s T with
  | nil => intro ctl hc; simpa [run] using hinv ctl hc
  | cons mx rest ih =>
    obtain ⟨m, x⟩ := mx
    have h1 := step_sessions_let_in E m s x T hinv
    have h2 := ih (step E m s x).1 (T ++ (step E m s x).2) h1
    intro ctl hc
    simp only [run] at hc ⊢
    rw [← List.append_assoc]
    exact h2 ctl hc

/-- **No session without a consulted, consenting Login chain, and its user is the chain's rewrite**
    (invariant over all histories): for every Control the server holds after any history there is a
    login event in which every plugin then registered for Login was consulted in order and passed, and
    the session's user — what every later NewProxy / Ping / NewWorkConn / NewUserConn / CloseProxy
    request of that session carries — is the user of the composition of their edits. -/
theorem session_user_is_login_rewrite (E : Enc C) (hist : List (Manager C × Msg)) :
    ∀ ctl ∈ (run E {} hist).1.ctls, ∃ e ∈ (run E {} hist).2,
      e.op = .login ∧
      (∀ st ∈ steps .login e.chain e.offered, stepPasses .login st = true) ∧
      e.cons = (steps .login e.chain e.offered).map seenOf ∧
      ctl.user = E.loginUser (final .login e.chain e.offered) := by
  intro ctl hc
  have := run_sessions_let_in E hist {} [] (by intro c h; cases h) ctl hc
  simp only [List.nil_append] at this
  obtain ⟨e, he, hop, hp, c', hr, hu⟩ := this
  have hg := site_proceeds_only_through_gate E hist {} e he hp
  rw [hop] at hg
  refine ⟨e, he, hop, hg.1, hg.2.1, ?_⟩
  have : c' = final .login e.chain e.offered := by
    have h := hg.2.2; rw [hr] at h; injection h
  rw [hu, this]

/-- the requests of a session carry the user stored at its login -/
def OfferedFrom (E : Enc C) (u : Str) (e : Ev C) : Prop :=
  match e.op with
  | .newProxy => ∃ n, e.offered = E.newProxy n u
  | .ping => ∃ k, e.offered = E.ping k u
  | .newWorkConn => ∃ r, e.offered = E.newWorkConn r u
  | .newUserConn => ∃ n, e.offered = E.newUserConn n u
  | _ => True

/-- every NewProxy / Ping / NewWorkConn / NewUserConn visit belongs to a session the server holds and
    offers the plugins that session's (rewritten) user -/
theorem offered_carries_session_user (E : Enc C) (m : Manager C) (s : Srv) (x : Msg) :
    ∀ e ∈ (step E m s x).2, e.op ≠ .login → ∃ ctl ∈ s.ctls, OfferedFrom E ctl.user e := by
  intro e he hop
  cases x with
  | login slot user rid genId authOk =>
    exfalso
    simp only [step] at he
    split at he
    · split at he <;> simp only [List.mem_singleton] at he <;> subst he <;> exact hop rfl
    · simp only [List.mem_singleton] at he; subst he; exact hop rfl
  | newProxy slot name regOk =>
    simp only [step] at he
    split at he
    · cases he
    · rename_i ctl hs
      have hm : ctl ∈ s.ctls := List.mem_of_find?_eq_some hs
      split at he
      · split at he <;> simp only [List.mem_singleton] at he <;> subst he <;>
          exact ⟨ctl, hm, name, rfl⟩
      · simp only [List.mem_singleton] at he; subst he; exact ⟨ctl, hm, name, rfl⟩
  | ping slot key authOk =>
    simp only [step] at he
    split at he
    · cases he
    · rename_i ctl hs
      split at he <;> simp only [List.mem_singleton] at he <;> subst he <;>
        exact ⟨ctl, List.mem_of_find?_eq_some hs, key, rfl⟩
  | newWorkConn rid cred authOk =>
    simp only [step] at he
    split at he
    · cases he
    · rename_i ctl hs
      simp only [List.mem_singleton] at he; subst he
      exact ⟨ctl, List.mem_of_find?_eq_some hs, cred, rfl⟩
  | newUserConn name =>
    simp only [step] at he
    split at he
    · cases he
    · rename_i ctl hs
      simp only [List.mem_singleton] at he; subst he
      exact ⟨ctl, List.mem_of_find?_eq_some hs, name, rfl⟩
  | connClosed slot => simp [step] at he
  | tick d => simp [step] at he
  | hbCheck slot => simp [step] at he

/-- a NewProxy event that registered a proxy under the name `n` -/
def RegisteredBy (E : Enc C) (n : Str) (e : Ev C) : Prop :=
  e.op = .newProxy ∧ e.proceeded = true ∧ ∃ c', e.res = .ok c' ∧ n = E.proxyName c'

theorem step_proxies_registered (E : Enc C) (m : Manager C) (s : Srv) (x : Msg) (T : List (Ev C))
    (hinv : ∀ ctl ∈ s.ctls, ∀ n ∈ ctl.proxies, ∃ e ∈ T, RegisteredBy E n e) :
    ∀ ctl ∈ (step E m s x).1.ctls, ∀ n ∈ ctl.proxies,
      ∃ e ∈ T ++ (step E m s x).2, RegisteredBy E n e := by
  have keep : ∀ ctl ∈ s.ctls, ∀ n ∈ ctl.proxies, ∀ T', ∃ e ∈ T ++ T', RegisteredBy E n e := by
    intro ctl hc n hn T'
    obtain ⟨e, he, ha⟩ := hinv ctl hc n hn
    exact ⟨e, List.mem_append_left _ he, ha⟩
  cases x with
  | login slot user rid genId authOk =>
    simp only [step]
    split
    · split
      · intro ctl hc n hn
        simp only [Srv.add, List.mem_append, List.mem_filter, List.mem_singleton] at hc
        rcases hc with ⟨hc, _⟩ | hc
        · exact keep ctl hc n hn _
        · subst hc; cases hn
      · intro ctl hc n hn; exact keep ctl hc n hn _
    · intro ctl hc n hn; exact keep ctl hc n hn _
  | newProxy slot name regOk =>
    simp only [step]
    split
    · intro ctl hc n hn; exact keep ctl hc n hn _
    · split
      · rename_i c' hr
        split
        · intro ctl hc n hn
          simp only [Srv.addProxy, List.mem_map] at hc
          obtain ⟨o, ho, rfl⟩ := hc
          split at hn
          · simp only [List.mem_append, List.mem_singleton] at hn
            rcases hn with hn | hn
            · exact keep o ho n hn _
            · exact ⟨_, List.mem_append_right _ (List.mem_singleton.2 rfl), rfl, rfl, c', hr, hn⟩
          · exact keep o ho n hn _
        · intro ctl hc n hn; exact keep ctl hc n hn _
      · intro ctl hc n hn; exact keep ctl hc n hn _
  | ping slot key authOk =>
    simp only [step]
    split
    · intro ctl hc n hn; exact keep ctl hc n hn _
    · split
      · intro ctl hc n hn
        obtain ⟨o, ho, _, _, _, hp, _⟩ := mem_beat s slot ctl hc
        rw [← hp] at hn; exact keep o ho n hn _
      · intro ctl hc n hn; exact keep ctl hc n hn _
  | newWorkConn rid cred authOk => simp only [step]; split <;> intro ctl hc n hn <;> exact keep ctl hc n hn _
  | newUserConn name => simp only [step]; split <;> intro ctl hc n hn <;> exact keep ctl hc n hn _
  | connClosed slot =>
    simp only [step]
    intro ctl hc n hn
    exact keep ctl (List.mem_filter.1 hc).1 n hn _
  | tick d => simp only [step]; intro ctl hc n hn; exact keep ctl hc n hn _
  | hbCheck slot =>
    simp only [step]
    intro ctl hc n hn
    exact keep ctl (List.mem_filter.1 hc).1 n hn _

theorem run_proxies_registered (E : Enc C) (hist : List (Manager C × Msg)) (s : Srv) (T : List (Ev C))
    (hinv : ∀ ctl ∈ s.ctls, ∀ n ∈ ctl.proxies, ∃ e ∈ T, RegisteredBy E n e) :
    ∀ ctl ∈ (run E s hist).1.ctls, ∀ n ∈ ctl.proxies,
      ∃ e ∈ T ++ (run E s hist).2, RegisteredBy E n e := by
  induction hist generalizing s T with
  | nil => intro ctl hc n hn; simpa [run] using hinv ctl hc n hn
  | cons mx rest ih =>
    obtain ⟨m, x⟩ := mx
    have h1 := step_proxies_registered E m s x T hinv
    have h2 := ih (step E m s x).1 (T ++ (step E m s x).2) h1
    intro ctl hc n hn
    simp only [run] at hc ⊢
    rw [← List.append_assoc]
    exact h2 ctl hc n hn

/-- **Every proxy the server runs was let through by a consulted, consenting NewProxy chain, under the
    name as rewritten** (invariant over all histories, also for names registered, closed with their
    session, and registered again). -/
theorem proxy_name_is_newproxy_rewrite (E : Enc C) (hist : List (Manager C × Msg)) :
    ∀ ctl ∈ (run E {} hist).1.ctls, ∀ n ∈ ctl.proxies, ∃ e ∈ (run E {} hist).2,
      e.op = .newProxy ∧
      (∀ st ∈ steps .newProxy e.chain e.offered, stepPasses .newProxy st = true) ∧
      e.cons = (steps .newProxy e.chain e.offered).map seenOf ∧
      n = E.proxyName (final .newProxy e.chain e.offered) := by
  intro ctl hc n hn
  have := run_proxies_registered E hist {} [] (by intro c h; cases h) ctl hc n hn
  simp only [List.nil_append] at this
  obtain ⟨e, he, hop, hp, c', hr, hu⟩ := this
  have hg := site_proceeds_only_through_gate E hist {} e he hp
  rw [hop] at hg
  refine ⟨e, he, hop, hg.1, hg.2.1, ?_⟩
  have : c' = final .newProxy e.chain e.offered := by
    have h := hg.2.2; rw [hr] at h; injection h
  rw [hu, this]


/-! ### The heartbeat: a Ping counts only if it passed the gate

  For a Ping "the server proceeds" means: the heartbeat is counted (`ctl.lastPing.Store(time.Now())`,
  which is what keeps the session from being closed by its heartbeatWorker) and a Pong without error
  is sent.  `PluginSite.step` stores only on the branch on which the chain and VerifyPing passed; that
  this is where the store stands in handlePing is regenerated from the source (`code_ping_store_gated`). -/

/-- the heartbeat clock of `c'` is that of a Control of `s` on the same connection under the same run id -/
def ClockFrom (s : Srv) (c' : Ctl) : Prop :=
  ∃ c ∈ s.ctls, c.slot = c'.slot ∧ c.rid = c'.rid ∧ c.lastPing = c'.lastPing

theorem clockFrom_self (s : Srv) (c : Ctl) (h : c ∈ s.ctls) : ClockFrom s c := ⟨c, h, rfl, rfl, rfl⟩

/-- a gated event on which the server went on: everybody consulted, everybody passed -/
theorem evGated_proceeded (e : Ev C) (h : EvGated e) (hp : e.proceeded = true) :
    (∀ st ∈ steps e.op e.chain e.offered, stepPasses e.op st = true) ∧
      e.cons = (steps e.op e.chain e.offered).map seenOf := by
  obtain ⟨h1, h2, h3⟩ := h
  have hok := h3 hp
  cases hr : e.res with
  | ok c' =>
    rw [h1] at hr
    exact ⟨((gated_ok_iff _ _ _ c').1 hr).1, by rw [h2]; exact (proceed_all_consulted _ _ _ c' hr).1⟩
  | error msg => rw [hr] at hok; cases hok
  | panic => rw [hr] at hok; cases hok

/-- the message is an accepted Login on connection `slot`, or a Ping on it that VerifyPing let through -/
def BeatMsg (slot : Nat) (op : Op) (x : Msg) : Prop :=
  (op = .login ∧ ∃ user rid genId, x = .login slot user rid genId true) ∨
  (op = .ping ∧ ∃ k, x = .ping slot k true)

theorem step_clock (E : Enc C) (m : Manager C) (s : Srv) (x : Msg) :
    ∀ c' ∈ (step E m s x).1.ctls, ClockFrom s c' ∨
      (c'.lastPing = s.now ∧ ∃ e ∈ (step E m s x).2, e.proceeded = true ∧ BeatMsg c'.slot e.op x) := by
  intro c' hc
  cases x with
  | login slot user rid genId authOk =>
    simp only [step] at hc ⊢
    split at hc
    · split at hc
      · rename_i c1 hr ha
        simp only [Srv.add, List.mem_append, List.mem_filter, List.mem_singleton] at hc
        rcases hc with ⟨hc, _⟩ | hc
        · exact Or.inl (clockFrom_self s c' hc)
        · subst hc
          right
          subst ha
          simp only [hr, if_true, List.mem_singleton]
          exact ⟨trivial, _, rfl, rfl, Or.inl ⟨rfl, user, rid, genId, rfl⟩⟩
      · exact Or.inl (clockFrom_self s c' hc)
    · exact Or.inl (clockFrom_self s c' hc)
  | newProxy slot name regOk =>
    left
    simp only [step] at hc
    split at hc
    · exact clockFrom_self s c' hc
    · split at hc
      · split at hc
        · simp only [Srv.addProxy, List.mem_map] at hc
          obtain ⟨o, ho, rfl⟩ := hc
          refine ⟨o, ho, ?_⟩
          split <;> exact ⟨rfl, rfl, rfl⟩
        · exact clockFrom_self s c' hc
      · exact clockFrom_self s c' hc
  | ping slot key authOk =>
    simp only [step] at hc ⊢
    split at hc
    · exact Or.inl (clockFrom_self s c' hc)
    · split at hc
      · rename_i hcnd
        obtain ⟨o, ho, h1, h2, _, _, h5⟩ := mem_beat s slot c' hc
        rcases h5 with h5 | ⟨h5, h6⟩
        · exact Or.inl ⟨o, ho, h1, h2, h5.symm⟩
        · right
          refine ⟨h6, ?_⟩
          have ha : authOk = true := by
            simp only [Bool.and_eq_true] at hcnd; exact hcnd.2
          subst ha
          simp only [hcnd, if_true, List.mem_singleton]
          exact ⟨_, rfl, rfl, Or.inr ⟨rfl, key, by rw [h5]⟩⟩
      · exact Or.inl (clockFrom_self s c' hc)
  | newWorkConn rid cred authOk =>
    left; simp only [step] at hc; split at hc <;> exact clockFrom_self s c' hc
  | newUserConn name =>
    left; simp only [step] at hc; split at hc <;> exact clockFrom_self s c' hc
  | connClosed slot =>
    left; simp only [step] at hc; exact clockFrom_self s c' (List.mem_filter.1 hc).1
  | tick d => left; simp only [step] at hc; exact clockFrom_self s c' hc
  | hbCheck slot =>
    left; simp only [step] at hc; exact clockFrom_self s c' (List.mem_filter.1 hc).1

/-- **A heartbeat is counted only through the gate.**  Whatever the state and the manager of the moment,
    every Control the server holds after a message either carries the heartbeat clock of a Control that was
    there before (same connection, same run id) — or its clock was set to the present by this message, and
    then the message is an accepted Login that created it or a Ping on its connection that VerifyPing let
    through, and the visit of the Login / Ping chain it made consulted every plugin then registered for that
    operation, in order, each on the composition of the earlier edits, and every one of them passed.  A
    Ping that a plugin rejected, or whose plugin could not be reached / answered non-200 / answered garbage,
    leaves every clock where it was. -/
theorem lastPing_only_through_gate (E : Enc C) (m : Manager C) (s : Srv) (x : Msg) :
    ∀ c' ∈ (step E m s x).1.ctls, ClockFrom s c' ∨
      (c'.lastPing = s.now ∧ ∃ e ∈ (step E m s x).2, e.proceeded = true ∧ BeatMsg c'.slot e.op x ∧
        e.chain = m.list e.op ∧
        (∀ st ∈ steps e.op e.chain e.offered, stepPasses e.op st = true) ∧
        e.cons = (steps e.op e.chain e.offered).map seenOf) := by
  intro c' hc
  rcases step_clock E m s x c' hc with h | ⟨hnow, e, he, hp, hb⟩
  · exact Or.inl h
  · have hg := step_events_gated E m s x e he
    have := evGated_proceeded e hg.2 hp
    exact Or.inr ⟨hnow, e, he, hp, hb, hg.1, this.1, this.2⟩

/-- a refused Ping changes nothing at all (and a Ping on a connection the server does not read makes no
    visit): the state after it is the state before it -/
theorem refused_ping_changes_nothing (E : Enc C) (m : Manager C) (s : Srv) (slot : Nat) (key : Str)
    (authOk : Bool) (h : ∀ e ∈ (step E m s (.ping slot key authOk)).2, e.proceeded = false) :
    (step E m s (.ping slot key authOk)).1 = s := by
  simp only [step] at h ⊢
  split
  · rfl
  · split
    · rename_i hc
      rename_i ctl hb
      simp only [hb, hc, if_true, List.mem_singleton] at h
      have := h _ rfl
      cases this
    · rfl

theorem step_hb_now (E : Enc C) (m : Manager C) (s : Srv) (x : Msg) :
    (step E m s x).1.hb = s.hb ∧ s.now ≤ (step E m s x).1.now := by
  cases x with
  | login slot user rid genId authOk =>
    simp only [step]; split
    · split <;> simp [Srv.add]
    · simp
  | newProxy slot name regOk =>
    simp only [step]; split
    · simp
    · split
      · split <;> simp [Srv.addProxy]
      · simp
  | ping slot key authOk =>
    simp only [step]; split
    · simp
    · split <;> simp [Srv.beat]
  | newWorkConn rid cred authOk => simp only [step]; split <;> simp
  | newUserConn name => simp only [step]; split <;> simp
  | connClosed slot => simp [step]
  | tick d => simp [step]
  | hbCheck slot => simp [step]

theorem run_hb_now (E : Enc C) (hist : List (Manager C × Msg)) (s : Srv) :
    (run E s hist).1.hb = s.hb ∧ s.now ≤ (run E s hist).1.now := by
  induction hist generalizing s with
  | nil => simp [run]
  | cons mx rest ih =>
    obtain ⟨m, x⟩ := mx
    simp only [run]
    have h1 := step_hb_now E m s x
    have h2 := ih (step E m s x).1
    exact ⟨h2.1.trans h1.1, Nat.le_trans h1.2 h2.2⟩

/-- no visit of the history counted a heartbeat or created a session: every Login / Ping visit was refused -/
def Quiet (T : List (Ev C)) : Prop := ∀ e ∈ T, e.proceeded = true → e.op ≠ .login ∧ e.op ≠ .ping

instance (T : List (Ev C)) : Decidable (Quiet T) := by unfold Quiet; infer_instance

/-- **For every history**: as long as no Ping passes the gate (and nobody logs in), nobody's heartbeat clock
    moves — however many Pings arrive, whatever else happens (NewProxy, work and user connections, other
    sessions ending, time passing, heartbeat checks): every Control the server still holds carries the clock
    it had at the beginning. -/
theorem quiet_history_keeps_clocks (E : Enc C) (hist : List (Manager C × Msg)) (s : Srv)
    (hq : Quiet (run E s hist).2) :
    ∀ c' ∈ (run E s hist).1.ctls, ClockFrom s c' := by
  induction hist generalizing s with
  | nil => intro c' hc; exact clockFrom_self s c' (by simpa [run] using hc)
  | cons mx rest ih =>
    obtain ⟨m, x⟩ := mx
    intro c' hc
    simp only [run] at hc hq
    have hq1 : Quiet (step E m s x).2 := fun e he => hq e (List.mem_append_left _ he)
    have hq2 : Quiet (run E (step E m s x).1 rest).2 := fun e he => hq e (List.mem_append_right _ he)
    obtain ⟨c1, hc1, h1, h2, h3⟩ := ih (step E m s x).1 hq2 c' hc
    rcases step_clock E m s x c1 hc1 with ⟨c0, hc0, g1, g2, g3⟩ | ⟨_, e, he, hp, hb⟩
    · exact ⟨c0, hc0, g1.trans h1, g2.trans h2, g3.trans h3⟩
    · have := hq1 e he hp
      rcases hb with ⟨hop, _⟩ | ⟨hop, _⟩
      · exact absurd hop this.1
      · exact absurd hop this.2

/-- what one run of a heartbeat worker leaves: the sessions of other connections, and of this connection
    those whose last counted heartbeat is at most the timeout old -/
theorem hbCheck_spec (E : Enc C) (m : Manager C) (s : Srv) (slot : Nat) (c : Ctl) :
    c ∈ (step E m s (.hbCheck slot)).1.ctls ↔
      c ∈ s.ctls ∧ (c.slot = slot → 0 < s.hb → s.now - c.lastPing ≤ s.hb) := by
  simp only [step, List.mem_filter, Srv.expired, Bool.not_eq_true', Bool.and_eq_false_iff,
    decide_eq_false_iff_not, Nat.not_lt]
  constructor
  · rintro ⟨h1, h2⟩
    refine ⟨h1, fun hs hb => ?_⟩
    rcases h2 with h2 | h2 | h2
    · exact absurd hs h2
    · omega
    · exact h2
  · rintro ⟨h1, h2⟩
    refine ⟨h1, ?_⟩
    by_cases hs : c.slot = slot
    · by_cases hb : 0 < s.hb
      · exact Or.inr (Or.inr (h2 hs hb))
      · exact Or.inr (Or.inl (by omega))
    · exact Or.inl hs

/-- **Refused Pings do not keep a session alive** (all histories).  Take any state in which the sessions on
    connection `slot` counted their last heartbeat at `t0` or before, and any history after it in which no
    Ping passed the gate (rejected, plugin unreachable, HTTP error, garbage, VerifyPing failed — any number
    of them) and nobody logged in.  The first run of the heartbeat worker later than `t0 + timeout` ends
    the session: the server holds no Control on that connection any more. -/
theorem unrenewed_session_is_dropped (E : Enc C) (m : Manager C) (hist : List (Manager C × Msg)) (s : Srv)
    (slot t0 : Nat) (hq : Quiet (run E s hist).2)
    (h0 : ∀ c ∈ s.ctls, c.slot = slot → c.lastPing ≤ t0)
    (hhb : 0 < s.hb) (hlate : t0 + s.hb < (run E s hist).1.now) :
    ∀ c' ∈ (step E m (run E s hist).1 (.hbCheck slot)).1.ctls, c'.slot ≠ slot := by
  intro c' hc hs
  obtain ⟨hin, hle⟩ := (hbCheck_spec E m _ slot c').1 hc
  obtain ⟨c, hcs, h1, _, h3⟩ := quiet_history_keeps_clocks E hist s hq c' hin
  have hb := (run_hb_now E hist s).1
  have := hle hs (by rw [hb]; exact hhb)
  have := h0 c hcs (h1.trans hs)
  omega

/-- … and a session that is still there after a run of its heartbeat worker counted a heartbeat — i.e. a
    Ping of it passed the gate, or it logged in — no longer ago than the timeout -/
theorem alive_after_check_is_recent (E : Enc C) (m : Manager C) (s : Srv) (slot : Nat) (hhb : 0 < s.hb) :
    ∀ c ∈ (step E m s (.hbCheck slot)).1.ctls, c.slot = slot → s.now - c.lastPing ≤ s.hb :=
  fun c hc hs => ((hbCheck_spec E m s slot c).1 hc).2 hs hhb

/-- no clock runs ahead of the present (invariant of every history) -/
theorem clocks_le_now (E : Enc C) (hist : List (Manager C × Msg)) (s : Srv)
    (h : ∀ c ∈ s.ctls, c.lastPing ≤ s.now) :
    ∀ c ∈ (run E s hist).1.ctls, c.lastPing ≤ (run E s hist).1.now := by
  induction hist generalizing s with
  | nil => simpa [run] using h
  | cons mx rest ih =>
    obtain ⟨m, x⟩ := mx
    simp only [run]
    apply ih
    intro c' hc'
    have hn := (step_hb_now E m s x).2
    rcases step_clock E m s x c' hc' with ⟨c, hc, _, _, h3⟩ | ⟨h3, _⟩
    · have := h c hc; omega
    · omega

/-- executable predicate for one Ping as the peer and the harness observe it: the requests the plugin
    server received, whether a Pong without error came back (`pong`), whether the session's `lastPing`
    moved (`counted`).  The server "proceeded" if either happened. -/
def pingHoldsOn [DecidableEq C] (view : C → C) (R : List (Plugin C)) (c0 : C) (pong counted : Bool)
    (cons : List (Seen C)) : Bool :=
  siteHoldsOn view .ping R c0 (pong || counted) cons

theorem pingHoldsOn_sound [DecidableEq C] (view : C → C) (R : List (Plugin C)) (c0 : C)
    (pong counted : Bool) (cons : List (Seen C)) :
    pingHoldsOn view R c0 pong counted cons = true ↔
      cons = (consultedSpec .ping R c0).map (viewSeen view) ∧
      ((pong = true ∨ counted = true) → ∀ s ∈ steps .ping R c0, stepPasses .ping s = true) := by
  rw [pingHoldsOn, siteHoldsOn_sound]
  constructor
  · intro h
    exact ⟨h.consulted, fun hp => (h.gate (by rcases hp with hp | hp <;> simp [hp])).1⟩
  · rintro ⟨h1, h2⟩
    refine ⟨h1, fun hp => ?_⟩
    have hall := h2 (by simpa [Bool.or_eq_true] using hp)
    exact ⟨hall, by rw [h1, consultedSpec_of_all _ _ _ hall]⟩

/-- the model meets it: for every Ping in every state, with "counted" read off the model's own state -/
theorem model_pingHoldsOn [DecidableEq C] (E : Enc C) (m : Manager C) (s : Srv) (slot : Nat) (key : Str)
    (authOk : Bool) (view : C → C) :
    ∀ e ∈ (step E m s (.ping slot key authOk)).2,
      pingHoldsOn view e.chain e.offered e.proceeded
        (decide ((step E m s (.ping slot key authOk)).1 ≠ s)) (e.cons.map (viewSeen view)) = true := by
  intro e he
  have hg := step_events_gated E m s _ e he
  have hop : e.op = .ping := by
    simp only [step] at he
    split at he
    · cases he
    · split at he <;> simp only [List.mem_singleton] at he <;> subst he <;> rfl
  have hs := (gated_event_spec view e hg.2).2
  rw [hop] at hs
  rw [pingHoldsOn_sound]
  refine ⟨hs.consulted, fun hp => ?_⟩
  have : e.proceeded = true := by
    rcases hp with hp | hp
    · exact hp
    · cases hpe : e.proceeded with
      | true => rfl
      | false =>
        exfalso
        have hall : ∀ e' ∈ (step E m s (.ping slot key authOk)).2, e'.proceeded = false := by
          intro e' he'
          simp only [step] at he he'
          split at he
          · cases he
          · rename_i ctl hb
            simp only [hb] at he'
            split at he
            · simp only [List.mem_singleton] at he; subst he; cases hpe
            · rename_i hc
              simp only [hc] at he'
              simp only [Bool.false_eq_true, if_false, List.mem_singleton] at he'
              subst he'; rfl
        have := refused_ping_changes_nothing E m s slot key authOk hall
        simp [this] at hp
  exact (hs.gate this).1

/-- executable predicate for a session observed `since` after its last counted heartbeat (timeout `hb`,
    the worker's period, the observer's slack): it may be alive only if that is not longer ago than
    timeout + one period (+ slack) -/
def expiryHoldsOn (hb period slack since : Nat) (alive : Bool) : Bool :=
  !alive || decide (since ≤ hb + period + slack)

theorem expiryHoldsOn_sound (hb period slack since : Nat) (alive : Bool) :
    expiryHoldsOn hb period slack since alive = true ↔ (alive = true → since ≤ hb + period + slack) := by
  cases alive <;> simp [expiryHoldsOn]

/-- the model meets it with no period and no slack: right after a run of its heartbeat worker -/
theorem model_expiryHoldsOn (E : Enc C) (m : Manager C) (s : Srv) (slot : Nat) (hhb : 0 < s.hb)
    (period slack : Nat) :
    ∀ c ∈ (step E m s (.hbCheck slot)).1.ctls, c.slot = slot →
      expiryHoldsOn s.hb period slack (s.now - c.lastPing) true = true := by
  intro c hc hs
  rw [expiryHoldsOn_sound]
  intro _
  have := alive_after_check_is_recent E m s slot hhb c hc hs
  omega


/-! ### tie of the heartbeat part to the source (translate/gen_pluginsitefacts.go, regenerated on every run) -/

/-- **handlePing as it is in the source**: the chain is called, VerifyPing only if the chain passed, the
    refusal branch (`if err != nil`) sends `Pong{Error}` and RETURNS, and only after it — as a statement of
    its own, on no other path — comes the one `ctl.lastPing.Store`, then the `Pong{}`.  No other function of
    the server package writes `lastPing` except NewControl; the heartbeat worker closes the connection when
    `time.Since(lastPing)` exceeds the configured timeout, checked every second, and does not run at all
    for a timeout ≤ 0.  This is what `PluginSite.step` (.login / .ping / .hbCheck) mirrors. -/
theorem code_ping_store_gated :
    Gen.PluginSiteFacts.handlePing.filter (· ≠ "other") = ["chain", "verify", "refuse", "store", "pong"] ∧
    Gen.PluginSiteFacts.refuseSendsError = true ∧
    Gen.PluginSiteFacts.lastPingWriters = ["control.go:NewControl", "control.go:handlePing"] ∧
    Gen.PluginSiteFacts.hbOffCond = "ctl.serverCfg.Transport.HeartbeatTimeout <= 0" ∧
    Gen.PluginSiteFacts.hbCloseCond =
      "time.Since(ctl.lastPing.Load().(time.Time)) > time.Duration(ctl.serverCfg.Transport.HeartbeatTimeout)*time.Second" ∧
    Gen.PluginSiteFacts.hbPeriod = "time.Second" := by
  decide +kernel

/-! ### Order at the call sites that also check credentials: the chain first, the check on what it returned

  handlePing and RegisterWorkConn (and the Login case of handleConnection) call the plugin chain FIRST and hand the
  message the chain RETURNED to the credential check.  `stepReq` closes `step`'s `authOk` for Ping and NewWorkConn with
  the verifier as a function of the rewritten credentials. -/

/-- a request of a peer is a `step` with the verdict the verifier gives on the chain's output: everything proved for
    `step` holds for it -/
theorem stepReq_is_step (E : Enc C) (A : Auth) (m : Manager C) (s : Srv) (r : Req) :
    ∃ x, stepReq E A m s r = step E m s x := by
  cases r with
  | ping slot cred => exact ⟨.ping slot cred (pingVerdict E A m s slot cred), rfl⟩
  | newWorkConn rid cred => exact ⟨.newWorkConn rid cred (workVerdict E A m s rid cred), rfl⟩

theorem stepReq_events_gated (E : Enc C) (A : Auth) (m : Manager C) (s : Srv) (r : Req) :
    ∀ e ∈ (stepReq E A m s r).2, e.chain = m.list e.op ∧ EvGated e := by
  obtain ⟨x, hx⟩ := stepReq_is_step E A m s r
  rw [hx]; exact step_events_gated E m s x

/-- **Ping**: whatever credentials the Ping carried, the chain is consulted on the content built from them, and the
    heartbeat is counted (Pong without error) iff the chain consented AND the verifier accepts the credentials of the
    content the chain RETURNED.  A plugin that turns a ticket into valid credentials makes the Ping count; one that
    spoils valid credentials makes it fail. -/
theorem ping_acts_on_rewritten (E : Enc C) (A : Auth) (m : Manager C) (s : Srv) (slot : Nat) (cred : Str)
    (ctl : Ctl) (hc : s.bySlot slot = some ctl) :
    ∃ e, (stepReq E A m s (.ping slot cred)).2 = [e] ∧ e.op = .ping ∧ e.chain = m.pingPlugins ∧
      e.offered = E.ping cred ctl.user ∧
      e.cons = (gated .ping m.pingPlugins (E.ping cred ctl.user)).2 ∧
      (e.proceeded = true ↔ ∃ c', (gated .ping m.pingPlugins (E.ping cred ctl.user)).1 = .ok c' ∧
        Auth.accepts A.ping (E.pingCred c') = true) ∧
      (stepReq E A m s (.ping slot cred)).1 = (if e.proceeded then s.beat slot else s) := by
  simp only [stepReq, step, hc, pingVerdict, Manager.ping]
  cases hr : (gated .ping m.pingPlugins (E.ping cred ctl.user)).1 with
  | ok c' =>
    by_cases hv : Auth.accepts A.ping (E.pingCred c') = true
    · simp [hv, Result.isOk]
    · have hv' : Auth.accepts A.ping (E.pingCred c') = false := by simpa using hv
      simp [hv', Result.isOk]
  | error msg => simp [Result.isOk]
  | panic => simp [Result.isOk]

/-- **NewWorkConn**: the same at RegisterWorkConn — the work connection is handed to the session iff the chain
    consented and the verifier accepts the credentials as the chain returned them; the chain is consulted whatever
    the credentials of the original message are worth -/
theorem workconn_acts_on_rewritten (E : Enc C) (A : Auth) (m : Manager C) (s : Srv) (rid cred : Str)
    (ctl : Ctl) (hc : s.byRid rid = some ctl) :
    ∃ e, (stepReq E A m s (.newWorkConn rid cred)).2 = [e] ∧ e.op = .newWorkConn ∧
      e.chain = m.newWorkConnPlugins ∧ e.offered = E.newWorkConn cred ctl.user ∧
      e.cons = (gated .newWorkConn m.newWorkConnPlugins (E.newWorkConn cred ctl.user)).2 ∧
      (e.proceeded = true ↔ ∃ c', (gated .newWorkConn m.newWorkConnPlugins (E.newWorkConn cred ctl.user)).1 = .ok c' ∧
        Auth.accepts A.work (E.workCred c') = true) ∧
      (stepReq E A m s (.newWorkConn rid cred)).1 = s := by
  simp only [stepReq, step, hc, workVerdict, Manager.newWorkConn]
  cases hr : (gated .newWorkConn m.newWorkConnPlugins (E.newWorkConn cred ctl.user)).1 with
  | ok c' =>
    by_cases hv : Auth.accepts A.work (E.workCred c') = true
    · simp [hv, Result.isOk]
    · have hv' : Auth.accepts A.work (E.workCred c') = false := by simpa using hv
      simp [hv', Result.isOk]
  | error msg => simp [Result.isOk]
  | panic => simp [Result.isOk]

/-- … hence two requests whose chains return the same content fare alike, however different the credentials they
    arrived with: the ORIGINAL credentials decide nothing -/
theorem original_credentials_decide_nothing (E : Enc C) (A : Auth) (m : Manager C) (s : Srv) (rid k1 k2 : Str)
    (ctl : Ctl) (hc : s.byRid rid = some ctl)
    (hsame : (gated .newWorkConn m.newWorkConnPlugins (E.newWorkConn k1 ctl.user)).1 =
             (gated .newWorkConn m.newWorkConnPlugins (E.newWorkConn k2 ctl.user)).1) :
    ((stepReq E A m s (.newWorkConn rid k1)).2.map (·.proceeded)) =
    ((stepReq E A m s (.newWorkConn rid k2)).2.map (·.proceeded)) := by
  simp only [stepReq, step, hc, workVerdict, Manager.newWorkConn, hsame, List.map_cons, List.map_nil]

/-- **the statement order in the source** (regenerated on every run): RegisterWorkConn = chain, then — only if it
    consented — `newMsg = &retContent.NewWorkConn` and `VerifyNewWorkConn(newMsg)` on THAT variable, then the refusal
    branch, then `ctl.RegisterWorkConn`; handlePing alike (`inMsg = &retContent.Ping`, `VerifyPing(inMsg)`); the Login
    case of handleConnection = chain, then `m = &retContent.Login; RegisterControl(conn, m, …)`, and RegisterControl
    verifies its parameter before it creates / stores / starts the Control; handleUserTCPConnection itself calls the
    NewUserConn chain, returns on refusal, and only then asks for a work connection; every user connection is handed
    to a goroutine of its own; no gated chain is called from a function literal or from any other function -/
theorem code_chain_then_verify :
    Gen.PluginSiteFacts.registerWorkConn.filter (· ≠ "other") = ["chain", "verify", "refuse", "effect"] ∧
    Gen.PluginSiteFacts.handlePing.filter (· ≠ "other") = ["chain", "verify", "refuse", "store", "pong"] ∧
    Gen.PluginSiteFacts.loginCase.filter (· ≠ "other") = ["chain", "verify"] ∧
    Gen.PluginSiteFacts.registerControl.filter (· ≠ "other") = ["verify", "create", "add", "start"] ∧
    (Gen.PluginSiteFacts.userConn.filter (· ≠ "other")).take 3 = ["chain", "refuse", "workconn"] ∧
    Gen.PluginSiteFacts.userConn.all (fun k => k ≠ "stray-chain" && k ≠ "stray-in-refuse") = true ∧
    Gen.PluginSiteFacts.userConnSpawn = "startCommonTCPListenersHandler: go pxy.handleUserTCPConnection(c);" ∧
    Gen.PluginSiteFacts.gateCallers =
      ["control.go:CloseProxy:CloseProxy:lit", "control.go:handleNewProxy:NewProxy", "control.go:handlePing:Ping",
       "control.go:handlePing:VerifyPing", "control.go:worker:CloseProxy:lit",
       "proxy/proxy.go:handleUserTCPConnection:NewUserConn", "service.go:RegisterControl:VerifyLogin",
       "service.go:RegisterWorkConn:NewWorkConn", "service.go:RegisterWorkConn:VerifyNewWorkConn",
       "service.go:handleConnection:Login", "service.go:handleConnection:RegisterControl"] := by
  decide +kernel

/-! ### Occurrences in flight at the same time: the gate is per occurrence

  Several user connections to one proxy, several work connections, Pings and NewProxys of several sessions may be
  inside their plugin chains at once, the plugins answering in any order and taking any time.  `Pool.run` lets the
  plugins answer in the order of a schedule. -/

theorem flight_advance_done (f : Flight C) (r : Result C) (h : f.res = some r) : f.advance = f := by
  simp [Flight.advance, h]

theorem flight_advanceN_done (n : Nat) (f : Flight C) (r : Result C) (h : f.res = some r) :
    Flight.advanceN n f = f := by
  induction n with
  | zero => rfl
  | succ n ih => simp only [Flight.advanceN, flight_advance_done f r h, ih]

/-- a `Handle` call is made exactly when the goroutine asks one -/
theorem flight_advance_cons (f : Flight C) : f.advance.cons = f.cons ++ f.asks.toList := by
  unfold Flight.advance Flight.asks
  cases hres : f.res with
  | some r => simp
  | none =>
    cases hrest : f.rest with
    | nil => simp
    | cons p ps =>
      simp only
      cases hh : p.handle f.op f.cur with
      | err => simp
      | resp reject reason unchange content =>
        by_cases hr : reject = true
        · simp [hr]
        · by_cases hu : unchange = true
          · simp [hr, hu]
          · cases content <;> simp [hr, hu]

/-- **one occurrence, let run**: after at most (chain length + 1) answers the goroutine has returned, with the result
    and the `Handle` calls of the manager loop on ITS chain and ITS content -/
theorem flight_runs_gated (f : Flight C) (h : f.res = none) (n : Nat) (hn : f.rest.length + 1 ≤ n) :
    (Flight.advanceN n f).res = some (gated f.op f.rest f.cur).1 ∧
    (Flight.advanceN n f).cons = f.cons ++ (gated f.op f.rest f.cur).2 := by
  induction n generalizing f with
  | zero => omega
  | succ n ih =>
    simp only [Flight.advanceN]
    cases hrest : f.rest with
    | nil =>
      have hadv : f.advance = { f with res := some (.ok f.cur) } := by
        simp [Flight.advance, h, hrest]
      rw [hadv, flight_advanceN_done n _ (.ok f.cur) rfl]
      simp [gated]
    | cons p ps =>
      rw [hrest] at hn
      simp only [List.length_cons] at hn
      cases hh : p.handle f.op f.cur with
      | err =>
        have hadv : f.advance = { f with rest := [], res := some (.error (errMsg f.op)), cons := f.cons ++ [(p.id, f.cur)] } := by
          simp [Flight.advance, h, hrest, hh]
        rw [hadv, flight_advanceN_done n _ _ rfl]
        simp [gated, hh]
      | resp reject reason unchange content =>
        by_cases hr : reject = true
        · have hadv : f.advance = { f with rest := [], res := some (.error reason), cons := f.cons ++ [(p.id, f.cur)] } := by
            simp [Flight.advance, h, hrest, hh, hr]
          rw [hadv, flight_advanceN_done n _ _ rfl]
          simp [gated, hh, hr]
        · by_cases hu : unchange = true
          · have hadv : f.advance = { f with rest := ps, cons := f.cons ++ [(p.id, f.cur)] } := by
              simp [Flight.advance, h, hrest, hh, hr, hu]
            rw [hadv]
            have := ih { f with rest := ps, cons := f.cons ++ [(p.id, f.cur)] } h (by simp only; omega)
            simp only at this
            simp [gated, hh, hr, hu, this]
          · cases content with
            | none =>
              have hadv : f.advance = { f with rest := [], res := some .panic, cons := f.cons ++ [(p.id, f.cur)] } := by
                simp [Flight.advance, h, hrest, hh, hr, hu]
              rw [hadv, flight_advanceN_done n _ _ rfl]
              simp [gated, hh, hr, hu]
            | some c' =>
              have hadv : f.advance = { f with rest := ps, cur := c', cons := f.cons ++ [(p.id, f.cur)] } := by
                simp [Flight.advance, h, hrest, hh, hr, hu]
              rw [hadv]
              have := ih { f with rest := ps, cur := c', cons := f.cons ++ [(p.id, f.cur)] } h (by simp only; omega)
              simp only at this
              simp [gated, hh, hr, hu, this]

theorem modAt_getElem? {α : Type} (f : α → α) (j : Nat) (l : List α) (i : Nat) :
    (modAt f j l)[i]? = if i = j then (l[i]?).map f else l[i]? := by
  induction l generalizing i j with
  | nil => simp [modAt]
  | cons x xs ih =>
    cases j with
    | zero =>
      cases i with
      | zero => simp [modAt]
      | succ i => simp [modAt]
    | succ j =>
      cases i with
      | zero => simp [modAt]
      | succ i => simp [modAt, ih]

theorem flight_advanceN_succ (n : Nat) (f : Flight C) :
    Flight.advanceN (n + 1) f = Flight.advanceN n f.advance := rfl

/-- **what else is in flight does not matter**: under every schedule, occurrence `i` is where it would be had only
    its own plugins answered — as many times as the schedule names it -/
theorem pool_occurrence_independent (P : Pool C) (sched : List Nat) (i : Nat) :
    (P.run sched)[i]? = (P[i]?).map (Flight.advanceN (sched.count i)) := by
  induction sched generalizing P with
  | nil => cases h : P[i]? <;> simp [Pool.run, h, Flight.advanceN]
  | cons j sched ih =>
    simp only [Pool.run]
    rw [ih, modAt_getElem?]
    by_cases hij : i = j
    · subst hij
      simp only [if_true, List.count_cons_self]
      cases h : P[i]? with
      | none => rfl
      | some f => simp [flight_advanceN_succ]
    · have : (j == i) = false := by simp; exact fun h => hij h.symm
      simp only [hij, if_false, List.count_cons, this]
      simp

/-- **every occurrence gets ITS verdict**: occurrences `visits` (each with the chain as it answers that occurrence
    and with its own content) are in flight together; under every schedule that lets every goroutine finish, each one
    returns what the manager loop returns on its own chain and content, having made exactly those `Handle` calls -/
theorem concurrent_occurrences_gated (op : Op) (visits : List (List (Plugin C) × C)) (sched : List Nat)
    (hfin : ∀ i (h : i < visits.length), (visits[i]).1.length + 1 ≤ sched.count i) :
    ∀ i (h : i < visits.length),
      ∃ f : Flight C, (Pool.run (visits.map (fun v => Flight.start op v.1 v.2)) sched)[i]? = some f ∧
        f.res = some (gated op (visits[i]).1 (visits[i]).2).1 ∧
        f.cons = (gated op (visits[i]).1 (visits[i]).2).2 := by
  intro i h
  rw [pool_occurrence_independent]
  simp only [List.getElem?_map, List.getElem?_eq_getElem h, Option.map_some]
  refine ⟨_, rfl, ?_⟩
  have := flight_runs_gated (Flight.start op (visits[i]).1 (visits[i]).2) rfl (sched.count i) (hfin i h)
  simpa [Flight.start] using this

/-- **every occurrence appears in the plugins' request log with its own content**: the requests the plugins' side
    sees under a schedule, restricted to occurrence `i`, are exactly the `Handle` calls occurrence `i` made -/
theorem log_per_occurrence (P : Pool C) (sched : List Nat) (i : Nat) (f : Flight C) (hf : P[i]? = some f) :
    ∃ f', (P.run sched)[i]? = some f' ∧
      f'.cons = f.cons ++ ((P.log sched).filter (fun e => e.1 == i)).map (·.2) := by
  induction sched generalizing P f with
  | nil => exact ⟨f, by simp [Pool.run, hf], by simp [Pool.log]⟩
  | cons j sched ih =>
    simp only [Pool.run, Pool.log]
    by_cases hij : j = i
    · subst hij
      have hm : (modAt Flight.advance j P)[j]? = some f.advance := by simp [modAt_getElem?, hf]
      obtain ⟨f', h1, h2⟩ := ih (modAt Flight.advance j P) f.advance hm
      refine ⟨f', h1, ?_⟩
      rw [h2, flight_advance_cons, hf]
      cases ha : f.asks <;> simp [ha]
    · have hm : (modAt Flight.advance j P)[i]? = some f := by
        rw [modAt_getElem?, if_neg (fun h => hij h.symm)]; exact hf
      obtain ⟨f', h1, h2⟩ := ih (modAt Flight.advance j P) f hm
      refine ⟨f', h1, ?_⟩
      rw [h2]
      have hne : (j == i) = false := by simp [hij]
      cases ha : (P[j]?).bind Flight.asks <;> simp [hne]

/-- … so with every goroutine finished, the log restricted to an occurrence is the property's list for it -/
theorem log_is_each_occurrences_chain (op : Op) (visits : List (List (Plugin C) × C)) (sched : List Nat)
    (hfin : ∀ i (h : i < visits.length), (visits[i]).1.length + 1 ≤ sched.count i)
    (i : Nat) (h : i < visits.length) :
    ((Pool.log (visits.map (fun v => Flight.start op v.1 v.2)) sched).filter (fun e => e.1 == i)).map (·.2) =
      (consultedSpec op (visits[i]).1 (visits[i]).2) := by
  obtain ⟨f, hf, _, hcons⟩ := concurrent_occurrences_gated op visits sched hfin i h
  obtain ⟨f', hf', hlog⟩ := log_per_occurrence (visits.map (fun v => Flight.start op v.1 v.2)) sched i
    (Flight.start op (visits[i]).1 (visits[i]).2) (by simp [List.getElem?_eq_getElem h])
  rw [hf] at hf'
  cases hf'
  rw [hcons] at hlog
  have hnil : (Flight.start op (visits[i]).1 (visits[i]).2).cons = [] := rfl
  rw [hnil, List.nil_append] at hlog
  rw [← hlog, gated_consulted]

/-- at the call sites: user and work connections leave the server state alone, so any number of them, interleaved in
    any order with plugin managers of their own, each see what they would see alone -/
def IsConnMsg : Msg → Prop
  | .newUserConn _ => True
  | .newWorkConn _ _ _ => True
  | _ => False

theorem conn_visits_independent (E : Enc C) (hist : List (Manager C × Msg)) (s : Srv)
    (h : ∀ mx ∈ hist, IsConnMsg mx.2) :
    (run E s hist).1 = s ∧ (run E s hist).2 = hist.flatMap (fun mx => (step E mx.1 s mx.2).2) := by
  induction hist with
  | nil => simp [run]
  | cons mx rest ih =>
    obtain ⟨m, x⟩ := mx
    have hx := h (m, x) (List.mem_cons_self ..)
    have hs : (step E m s x).1 = s := by
      cases x <;> simp only [IsConnMsg] at hx <;> simp only [step] <;> split <;> rfl
    have := ih (fun mx hmx => h mx (List.mem_cons_of_mem _ hmx))
    simp only [run, hs, this, List.flatMap_cons]
    exact ⟨trivial, trivial⟩

end site

/-! ## Non-vacuity -/

section examples

/-- appends a byte to `a` -/
def pApp (id x : Nat) : Plugin Content :=
  { id := id, ops := [Op.login.name, Op.ping.name]
    handle := fun _ c => .resp false [] false (some { c with a := c.a ++ [x] }) }
/-- rejects when `a` ends with 7 (so it only rejects if it sees `pApp _ 7`'s edit) -/
def pRejIf7 (id : Nat) : Plugin Content :=
  { id := id, ops := [Op.login.name]
    handle := fun _ c => if [7].isSuffixOf c.a then .resp true [1, 2] true none else .resp false [] true none }
def pErr (id : Nat) : Plugin Content := { id := id, ops := [Op.login.name], handle := fun _ _ => .err }
def pPingOnly (id : Nat) : Plugin Content :=
  { id := id, ops := [Op.ping.name], handle := fun _ _ => .resp true [9] true none }

def mgr (ps : List (Plugin Content)) : Manager Content := Manager.empty.registerAll ps

-- two modifications compose left to right, the ping-only plugin (which would reject) is not asked
example : (mgr [pApp 1 5, pPingOnly 2, pApp 3 6]).login ⟨[], []⟩ =
    (.ok ⟨[5, 6], []⟩, [(1, ⟨[], []⟩), (3, ⟨[5], []⟩)]) := by decide +kernel
-- the second plugin sees the first one's edit and rejects; the third is not consulted
example : (mgr [pApp 1 7, pRejIf7 2, pApp 3 6]).login ⟨[], []⟩ =
    (.error [1, 2], [(1, ⟨[], []⟩), (2, ⟨[7], []⟩)]) := by decide +kernel
-- without the edit it accepts
example : ((mgr [pApp 1 8, pRejIf7 2, pApp 3 6]).login ⟨[], []⟩).1 = .ok ⟨[8, 6], []⟩ := by decide +kernel
-- transport error refuses, later plugins untouched
example : ((mgr [pErr 1, pApp 3 6]).login ⟨[], []⟩) = (.error (errMsg .login), [(1, ⟨[], []⟩)]) := by
  decide +kernel
-- close: everybody notified although the first fails
example : (closeAll [pErr 1, pApp 2 0, pErr 3] (⟨[4], []⟩ : Content)) =
    (.errs [1, 3], [(1, ⟨[4], []⟩), (2, ⟨[4], []⟩), (3, ⟨[4], []⟩)]) := by decide +kernel
-- the hypotheses of `first_failure` are met by a concrete chain
example : ∃ pre s post, steps .login [pApp 1 7, pRejIf7 2, pApp 3 6] (⟨[], []⟩ : Content) = pre ++ s :: post ∧
    (∀ x ∈ pre, stepPasses .login x = true) ∧ stepPasses .login s = false :=
  ⟨[(pApp 1 7, ⟨[], []⟩)], (pRejIf7 2, ⟨[7], []⟩), [(pApp 3 6, ⟨[7], []⟩)], rfl, by decide +kernel, by decide +kernel⟩
-- an HTTP body `{}` (no `unchange`) is accepted and replaces the content by the zero value
example : httpHandle (⟨[], []⟩ : Content) (.status 200 (.parsed false [] false .absent)) =
    .resp false [] false (some ⟨[], []⟩) := rfl
-- `"content": null` with unchange=false makes the manager panic (not proceed)
def pHttpNull (id : Nat) : Plugin Content :=
  { id := id, ops := [Op.login.name]
    handle := fun _ _ => httpHandle ⟨[], []⟩ (.status 200 (.parsed false [] false .null)) }
example : (gated .login [pHttpNull 1] ⟨[3], []⟩).1 = .panic := rfl
-- session: two proxies, one closed explicitly, the other by session end: both notified
example : (Sess.run {} [.newProxy [1], .newProxy [2], .closeProxy [1], .closeProxy [1], .sessionEnd]).notified
    = [[1], [2]] := by decide

-- session end with three proxies and a chain whose FIRST plugin always fails: three goroutines,
-- each still calls both plugins (the failure of one notification does not touch the others)
def mkC (user : Str) (n : Str) : Content := ⟨n, user⟩
example : (SessP.run [pErr 1, pApp 2 0] (mkC [9]) {}
      [.newProxy [1], .newProxy [2], .newProxy [3], .closeProxy [2], .sessionEnd]).notes =
    [[(1, ⟨[2], [9]⟩), (2, ⟨[2], [9]⟩)], [(1, ⟨[1], [9]⟩), (2, ⟨[1], [9]⟩)], [(1, ⟨[3], [9]⟩), (2, ⟨[3], [9]⟩)]] := by
  decide +kernel
-- a plugin that fails for one proxy name only (transient / content dependent failure)
def pErrIf1 (id : Nat) : Plugin Content :=
  { id := id, ops := [Op.closeProxy.name]
    handle := fun _ c => if [1].isSuffixOf c.a then .err else .resp false [] true none }
example : (closeAll [pErrIf1 1, pApp 2 0] (mkC [9] [1])).1 = .errs [1] ∧
    (closeAll [pErrIf1 1, pApp 2 0] (mkC [9] [3])).1 = .ok := by decide +kernel
-- the hypotheses of `notify_all_schedules` are met by a schedule that is neither sequential nor in
-- start order: goroutines of proxies [1] and [3], chain of two plugins, run 3.1 1.1 1.2 3.2
example : ListW.Interleave
    [[(1, mkC [9] [3]), (2, mkC [9] [3])], [(1, mkC [9] [1]), (2, mkC [9] [1])]]
    [(1, mkC [9] [3]), (1, mkC [9] [1]), (2, mkC [9] [1]), (2, mkC [9] [3])] :=
  .step [] [_] _ _ _ (.step [_] [] _ _ _ (.step [_] [] _ _ _ (.step [] [_] _ _ _
    (.done _ (by intro g hg; simpa using hg)))))
example : [[(1, mkC [9] [3]), (2, mkC [9] [3])], [(1, mkC [9] [1]), (2, mkC [9] [1])]].Perm
    (SessP.run [pErrIf1 1, pApp 2 0] (mkC [9]) {} [.newProxy [1], .newProxy [3], .sessionEnd]).notes := by
  have : (SessP.run [pErrIf1 1, pApp 2 0] (mkC [9]) {} [.newProxy [1], .newProxy [3], .sessionEnd]).notes =
      [[(1, mkC [9] [1]), (2, mkC [9] [1])], [(1, mkC [9] [3]), (2, mkC [9] [3])]] := by decide +kernel
  rw [this]; exact List.Perm.swap _ _ _
-- the executable predicate tells a run where the notifications behind the failed one are missing
example : notifyHoldsOn [pErrIf1 1, pApp 2 0] (mkC [9]) [[1], [3]]
    [(1, mkC [9] [1]), (2, mkC [9] [1])] = false := by decide +kernel
example : notifyHoldsOn [pErrIf1 1, pApp 2 0] (mkC [9]) [[1], [3]]
    [(1, mkC [9] [3]), (1, mkC [9] [1]), (2, mkC [9] [1]), (2, mkC [9] [3])] = true := by decide +kernel

/-! ### histories at the call sites -/
section siteExamples
open PluginSite

/-- one plugin (id 1, Login + NewProxy) that rewrites: appends `+` to the user / the proxy name -/
def mRewrite : Manager Content := mgr [Beh.toPlugin (.happ [43]) 1 [Op.login.name, Op.newProxy.name]]
/-- the same plugin after its behaviour flipped: rejects everything -/
def mReject : Manager Content := mgr [Beh.toPlugin (.hrej [110]) 1 [Op.login.name, Op.newProxy.name]]

/-- the Controls held (slot, run id, user, proxies) -/
def viewS (r : Srv × List (Ev Content)) : List Ctl := r.1.ctls
/-- per visit of a call site: the `Handle` calls made, and whether the server went on -/
def viewT (r : Srv × List (Ev Content)) : List (List (Nat × Content) × Bool) :=
  r.2.map (fun e => (e.cons, e.proceeded))

-- a first login (empty run id, the server draws [9]) is accepted with the user as rewritten; the plugin
-- flips; then a login carrying the run id of the LIVE session, one with an unknown run id, and — after the
-- first session ended — one with the run id of the ENDED session: the flipped plugin is consulted on each,
-- each is refused, and the live session is not replaced
def hist1 : List (Manager Content × Msg) :=
  [(mRewrite, .login 0 [117] [] [9] true), (mReject, .login 1 [117] [9] [8] true),
   (mReject, .login 2 [117] [7] [8] true), (mReject, .connClosed 0), (mReject, .login 3 [117] [9] [8] true)]
example : viewT (run encContent {} hist1) =
    [([(1, ⟨[117], []⟩)], true), ([(1, ⟨[117], [9]⟩)], false), ([(1, ⟨[117], [7]⟩)], false),
     ([(1, ⟨[117], [9]⟩)], false)] := by decide +kernel
example : viewS (run encContent {} (hist1.take 3)) = [⟨0, [9], [117, 43], [], 0⟩] ∧
    viewS (run encContent {} hist1) = [] := by decide +kernel
-- a re-login on the live run id that the (still rewriting) plugin accepts replaces the session: one Control
-- under [9], built from the SECOND message as rewritten; the proxy of the replaced session is gone, its name
-- can be registered again and the NewProxy plugin is asked again, with the new session's rewritten user
def hist2 : List (Manager Content × Msg) :=
  [(mRewrite, .login 0 [117] [] [9] true), (mRewrite, .newProxy 0 [112] true),
   (mRewrite, .login 1 [98] [9] [8] true), (mRewrite, .newProxy 0 [112] true),
   (mRewrite, .newProxy 1 [112] true), (mReject, .newProxy 1 [113] true)]
example : viewS (run encContent {} hist2) = [⟨1, [9], [98, 43], [[112, 43]], 0⟩] := by decide +kernel
example : viewT (run encContent {} hist2) =
    [([(1, ⟨[117], []⟩)], true), ([(1, ⟨[112], [117, 43]⟩)], true), ([(1, ⟨[98], [9]⟩)], true),
     ([(1, ⟨[112], [98, 43]⟩)], true), ([(1, ⟨[113], [98, 43]⟩)], false)] := by decide +kernel
-- the executable predicate tells a login that went on without the plugin having been asked, and a
-- NewProxy request that carried the user as the client sent it instead of the rewritten one
example : siteHoldsOn id .login mReject.loginPlugins (encContent.login [117] [9]) true [] = false := by
  decide +kernel
example : siteHoldsOn id .login mRewrite.loginPlugins (encContent.login [117] [9]) true [] = false := by
  decide +kernel
example : siteHoldsOn id .newProxy mRewrite.newProxyPlugins (encContent.newProxy [112] [98, 43]) true
    [(1, ⟨[112], [98]⟩)] = false := by decide +kernel
example : siteHoldsOn id .newProxy mRewrite.newProxyPlugins (encContent.newProxy [112] [98, 43]) true
    [(1, ⟨[112], [98, 43]⟩)] = true := by decide +kernel

-- the heartbeat (timeout 20): two sessions; a Ping plugin that rejects the Pings whose key ends in 1 from
-- time 5 on.  Session 0 keeps pinging with key [1] (refused from then on), session 1 with key [2] (passes):
-- the clock of session 0 stays at 5 whatever it sends, and the first run of its heartbeat worker after
-- 5 + 20 ends it; session 1 stays
def mPingAll : Manager Content := mgr [Beh.toPlugin .hacc 1 [Op.ping.name]]
def mPingRej1 : Manager Content := mgr [Beh.toPlugin (.hrejsuf [1] [110]) 1 [Op.ping.name]]
def hist3 : List (Manager Content × Msg) :=
  [(mPingAll, .login 0 [117] [] [9] true), (mPingAll, .login 1 [98] [] [8] true), (mPingAll, .tick 5),
   (mPingAll, .ping 0 [1] true), (mPingAll, .ping 1 [2] true),
   (mPingRej1, .tick 10), (mPingRej1, .ping 0 [1] true), (mPingRej1, .ping 1 [2] true),
   (mPingRej1, .hbCheck 0), (mPingRej1, .hbCheck 1),
   (mPingRej1, .tick 11), (mPingRej1, .ping 0 [1] true), (mPingRej1, .ping 0 [1] true),
   (mPingRej1, .ping 1 [2] true)]
example : viewS (run encContent { hb := 20 } hist3) = [⟨0, [9], [117], [], 5⟩, ⟨1, [8], [98], [], 26⟩] := by
  decide +kernel
example : viewS (run encContent { hb := 20 } (hist3 ++ [(mPingRej1, .hbCheck 0), (mPingRej1, .hbCheck 1)])) =
    [⟨1, [8], [98], [], 26⟩] := by decide +kernel
-- `unrenewed_session_is_dropped` applies to the part of it after time 5 restricted to session 0's Pings
example : Quiet (run encContent (run encContent { hb := 20 } (hist3.take 5)).1
    [(mPingRej1, .tick 10), (mPingRej1, .ping 0 [1] true), (mPingRej1, .tick 11), (mPingRej1, .ping 0 [1] true)]).2 := by
  decide +kernel
-- VerifyPing failing after the chain passed: not counted either
example : viewS (run encContent { hb := 20 } [(mPingAll, .login 0 [117] [] [9] true), (mPingAll, .tick 5),
    (mPingAll, .ping 0 [1] false)]) = [⟨0, [9], [117], [], 0⟩] := by decide +kernel
-- the executable predicates: a refused Ping that was counted all the same; a session seen alive 40 after
-- its last counted heartbeat (timeout 20, period 10, slack 3)
example : pingHoldsOn id mPingRej1.pingPlugins (encContent.ping [1] [117]) false true [(1, ⟨[1], [117]⟩)] = false := by
  decide +kernel
example : pingHoldsOn id mPingRej1.pingPlugins (encContent.ping [1] [117]) false false [(1, ⟨[1], [117]⟩)] = true := by
  decide +kernel
example : pingHoldsOn id mPingRej1.pingPlugins (encContent.ping [2] [117]) true true [(1, ⟨[2], [117]⟩)] = true := by
  decide +kernel
example : expiryHoldsOn 20 10 3 40 true = false ∧ expiryHoldsOn 20 10 3 33 true = true ∧
    expiryHoldsOn 20 10 3 40 false = true := by decide

/-! ### the credential check reads what the chain returned; occurrences in flight -/

/-- a translator: the ticket `t` becomes the key `K` the verifier accepts, anything else is turned away -/
def mXlat : Manager Content := mgr [Beh.toPlugin (.hxlat [116] [75]) 1 [Op.newWorkConn.name, Op.ping.name]]
/-- a plugin that spoils whatever credentials it is handed -/
def mSpoil : Manager Content := mgr [Beh.toPlugin (.happ [88]) 1 [Op.newWorkConn.name, Op.ping.name]]
def aKey : Auth := { ping := some [[75]], work := some [[75]] }
def sOne : Srv := { ctls := [⟨0, [9], [117], [], 0⟩], now := 4, hb := 20 }

-- the ticket is not a valid key, the server accepts the work connection because the plugin made it one
example : (stepReq encContent aKey mXlat sOne (.newWorkConn [9] [116])).2.map (fun e => (e.cons, e.proceeded)) =
    [([(1, ⟨[116], [117]⟩)], true)] := by decide +kernel
-- without the plugin the same ticket is refused; a valid key spoiled by the plugin is refused, though valid when it came
example : (stepReq encContent aKey Manager.empty sOne (.newWorkConn [9] [116])).2.map (·.proceeded) = [false] := by
  decide +kernel
example : (stepReq encContent aKey mSpoil sOne (.newWorkConn [9] [75])).2.map (fun e => (e.cons, e.proceeded)) =
    [([(1, ⟨[75], [117]⟩)], false)] := by decide +kernel
-- the translator turns a valid key away: the plugin is consulted about it all the same
example : (stepReq encContent aKey mXlat sOne (.newWorkConn [9] [75])).2.map (fun e => (e.cons, e.proceeded)) =
    [([(1, ⟨[75], [117]⟩)], false)] := by decide +kernel
-- Ping: the heartbeat is counted on the translated ticket, not on the spoiled key
example : viewS (stepReq encContent aKey mXlat sOne (.ping 0 [116])) = [⟨0, [9], [117], [], 4⟩] ∧
    viewS (stepReq encContent aKey mSpoil sOne (.ping 0 [75])) = [⟨0, [9], [117], [], 0⟩] := by decide +kernel
-- no scope configured: the verifier lets everything pass, the plugins still decide
example : (stepReq encContent {} mSpoil sOne (.newWorkConn [9] [1])).2.map (·.proceeded) = [true] := by decide +kernel

/-- three user connections in flight: the first two meet a consenting plugin, the third one that refuses -/
def pool3 : Pool Content :=
  [Flight.start .newUserConn [pApp 1 5, pApp 2 6] ⟨[1], []⟩,
   Flight.start .newUserConn [pApp 1 5, pRejIf7 2] ⟨[7], []⟩,
   Flight.start .newUserConn [pRejIf7 1, pApp 2 6] ⟨[2, 7], []⟩]

example : ((pool3.run [2, 0, 1, 1, 0, 2, 0, 1]).map (fun f => (f.res, f.cons.map (·.1)))) =
    [(some (.ok ⟨[1, 5, 6], []⟩), [1, 2]), (some (.ok ⟨[7, 5], []⟩), [1, 2]), (some (.error [1, 2]), [1])] := by
  decide +kernel
-- the plugins' side: who was asked about which occurrence, in the order of the schedule
example : (pool3.log [2, 0, 1, 1, 0, 2, 0, 1]).map (fun e => (e.1, e.2.1)) =
    [(2, 1), (0, 1), (1, 1), (1, 2), (0, 2)] := by decide +kernel
-- a schedule that has not let everybody finish: the others are none the worse for it
example : ((pool3.run [1, 1, 1]).map (fun f => f.res.isSome)) = [false, true, false] := by decide +kernel

end siteExamples

end examples

/-! ## Reporting a refusal to the peer -/

theorem errMsg_ne_nil (op : Op) : errMsg op ≠ [] := by
  cases op <;> decide +kernel

/-- the manager returns an error with an *empty* text only when the refusing plugin rejected with
    an empty `reject_reason` -/
theorem empty_error_only_from_empty_reason (op : Op) (R : List (Plugin C)) (c : C)
    (h : (gated op R c).1 = .error []) :
    ∃ s ∈ steps op R c, ∃ u ct, s.1.handle op s.2 = .resp true [] u ct := by
  rw [gated_result] at h
  cases hf : (steps op R c).find? (fun s => !stepPasses op s) with
  | none => rw [hf] at h; cases h
  | some s =>
    rw [hf] at h
    refine ⟨s, List.mem_of_find?_eq_some hf, ?_⟩
    simp only [refusal] at h
    split at h
    · injection h with h; exact absurd h (errMsg_ne_nil op)
    · rename_i reason u ct hh
      injection h with h; subst h; exact ⟨u, ct, hh⟩
    · cases h

/-- FULL statement: whenever the chain refuses, the `Error` member sent to the peer is non-empty,
    i.e. the peer is told that the operation failed.  (All summaries passed by the call sites are
    non-empty string constants: "register control error", "new proxy [..] error", "invalid ping",
    "invalid NewWorkConn", "register visitor conn error".) -/
def RefusalReportedFull (resp : Bool → Str → Str → Str) : Prop :=
  ∀ (op : Op) (R : List (Plugin Content)) (c : Content) (msg summary : Str) (detailed : Bool),
    summary ≠ [] → (gated op R c).1 = .error msg → resp detailed summary msg ≠ []

/-- witness against the pinned tree: one plugin rejecting NewProxy with `reject_reason: ""`: the
    manager returns an error whose text is empty, the old `GenerateResponseErrorString` copies it,
    the peer reads success. -/
theorem refusal_reported_witness : ¬ RefusalReportedFull respErrorOld := by
  intro h
  exact h .newProxy [Beh.toPlugin (.rej []) 1 [Op.newProxy.name]] ⟨[1], []⟩ [] [2] true (by decide) rfl rfl

/-- **the repaired code reports every refusal**: the error string is never empty -/
theorem refusal_reported : RefusalReportedFull respError := by
  intro op R c msg summary detailed hs _
  unfold respError
  split
  · rename_i h; exact h.2
  · exact hs

/-- what held already on the pinned tree: a refusal is reported as an error unless the text is empty
    and the server sends detailed errors; an empty text needs a reject with an empty reason
    (`empty_error_only_from_empty_reason`). -/
theorem refusal_reported_partial (op : Op) (R : List (Plugin C)) (c : C) (msg summary : Str)
    (detailed : Bool) (_h : (gated op R c).1 = .error msg)
    (hne : (detailed = true ∧ msg ≠ []) ∨ (detailed = false ∧ summary ≠ [])) :
    respErrorOld detailed summary msg ≠ [] := by
  unfold respErrorOld
  rcases hne with ⟨h1, h2⟩ | ⟨h1, h2⟩
  · subst h1; simpa using h2
  · subst h1; simpa using h2

-- the hypotheses of `refusal_reported_partial` are met by a rejecting plugin with a reason
example : (gated .newProxy [Beh.toPlugin (.rej [110, 111]) 1 [Op.newProxy.name]] ⟨[1], []⟩).1 = .error [110, 111] := rfl

end C15
end Frp
