import Frp.Model.HttpAbort
import Frp.Model.ConnLimit
import Frp.Gen.HttpFacts
/-
  C02, continued (imported by Frp/Props/C02.lean; same namespace): FAULTS IN THE MIDDLE OF AN EXCHANGE and
  LONG-LIVED CONCURRENT EXCHANGES.

  * section Abort (Frp/Model/HttpAbort.lean): a sender dies after `k` bytes of a body.  Through ANY chain of
    relaying hops whose abort reaches the http.Server (`serverCtx ∧ ¬recovers` — what pkg/util/vhost/http.go
    and the client plugins do: Gen/HttpFacts.recoverSites = []), for every framing, every `k`, every number of
    bytes a hop had still buffered, the final reader never takes a shortened message for a complete one
    (`abort_chain_faithful`, `upload_chain_faithful`); a hop that recovers the abort, or one that is not behind a
    real http.Server, delivers a shortened chunked body as a complete 200 (`abort_recovered_witness`,
    `abort_unfaithful_env_breaks`); Content-Length answers are cut even then (`abort_cl_always_cut`); a
    close-delimited body cut short is indistinguishable from a complete one (`abort_eof_indistinguishable`).
  * section Limit (Frp/Model/ConnLimit.lean): the Transports of the relaying ReverseProxies set no
    MaxConnsPerHost (regenerated literals), so for EVERY history of opened / finished / dropped exchanges every
    request is forwarded at once — in particular the k-th concurrent one for every k
    (`limit_unlimited_forwards_all`, `limit_kth_concurrent_forwarded`, `limit_source_paths_forward`); any cap c > 0
    parks the (c+1)-th concurrent request (`limit_cap_blocks`).
-/
namespace Frp
namespace C02

section Abort
open HttpAbort

/-- the abort of a hop reaches its http.Server -/
def Propagates (e : Env) : Prop := e.serverCtx = true ∧ e.recovers = false

instance (e : Env) : Decidable (Propagates e) := by unfold Propagates; exact inferInstance

theorem readOf_self_faithful (s : Sent) (hs : WF s) : Faithful s (readOf s) := by
  obtain ⟨fr, total, k, died⟩ := s
  obtain ⟨_, h2⟩ := hs
  cases fr <;> cases died <;> simp_all [Faithful, readOf]

/-- one answer hop keeps the reader's view faithful to the ORIGINAL sender -/
theorem hop_faithful (s s' : Sent) (e : Env) (he : Propagates e) (lost : Nat)
    (hf : Faithful s (readOf s')) (hk : s'.k ≤ s'.total) :
    Faithful s (readOf (hop e s' lost)) ∧ (hop e s' lost).k ≤ (hop e s' lost).total := by
  obtain ⟨fr, total, k, died⟩ := s'
  obtain ⟨sc, rc⟩ := e
  obtain ⟨hsc, hrc⟩ := he
  simp only at hk hsc hrc
  subst hsc hrc
  unfold Faithful at hf ⊢
  generalize (readOf s).ended = re at hf ⊢
  obtain ⟨h1, h2, h3⟩ := hf
  by_cases hfe : s.fr = .eof <;> cases re <;> cases fr <;> cases died <;> by_cases hkt : k = total <;>
    simp [readOf, hkt, hfe] at h1 h2 h3 <;>
    simp [readOf, hop, outFr, hkt, hfe] <;> omega

/-- **faults mid-answer, any chain of hops**: the backend dies after `k` bytes of its answer body (any framing,
    any `k`), the answer passes any number of relaying hops whose abort propagates (each may have had any
    number of bytes still buffered): the user never receives more than was written, never takes a shortened
    message for a complete one (close-delimited: gets every byte written before the close), and gets a
    completed message completely -/
theorem abort_chain_faithful (s : Sent) (hs : WF s) (hops : List (Env × Nat))
    (hp : ∀ h ∈ hops, Propagates h.1) : Faithful s (readOf (chain hops s)) := by
  suffices h : ∀ (hops : List (Env × Nat)) (s' : Sent), (∀ h ∈ hops, Propagates h.1) →
      Faithful s (readOf s') → s'.k ≤ s'.total → Faithful s (readOf (chain hops s')) from
    h hops s hp (readOf_self_faithful s hs) hs.1
  intro hops
  induction hops with
  | nil => intro s' _ hf _; exact hf
  | cons h rest ih =>
    intro s' hp hf hk
    have h1 := hop_faithful s s' h.1 (hp h (by simp)) h.2 hf hk
    exact ih (hop h.1 s' h.2) (fun x hx => hp x (by simp [hx])) h1.1 h1.2

theorem hopUp_faithful (s s' : Sent) (lost : Nat) (hf : Faithful s (readOf s')) (hk : s'.k ≤ s'.total) :
    Faithful s (readOf (hopUp s' lost)) ∧ (hopUp s' lost).k ≤ (hopUp s' lost).total := by
  obtain ⟨fr, total, k, died⟩ := s'
  simp only at hk
  unfold Faithful at hf ⊢
  generalize (readOf s).ended = re at hf ⊢
  obtain ⟨h1, h2, h3⟩ := hf
  by_cases hfe : s.fr = .eof <;> cases re <;> cases fr <;> cases died <;> by_cases hkt : k = total <;>
    simp [readOf, hkt, hfe] at h1 h2 h3 <;>
    simp [readOf, hopUp, hkt, hfe] <;> omega

/-- **faults mid-request**: the user dies after `k` bytes of its request body; through any number of
    Transports the backend never takes the shortened request for a complete one -/
theorem upload_chain_faithful (s : Sent) (hs : WF s) (ls : List Nat) : Faithful s (readOf (chainUp ls s)) := by
  suffices h : ∀ (ls : List Nat) (s' : Sent), Faithful s (readOf s') → s'.k ≤ s'.total →
      Faithful s (readOf (chainUp ls s')) from h ls s (readOf_self_faithful s hs) hs.1
  intro ls
  induction ls with
  | nil => intro s' hf _; exact hf
  | cons l rest ih =>
    intro s' hf hk
    have h1 := hopUp_faithful s s' l hf hk
    exact ih (hopUp s' l) h1.1 h1.2

/-- what the code is: a real http.Server runs the handlers, and no `defer … recover()` sits between
    ReverseProxy.ServeHTTP and it — read from the source on every run -/
theorem abort_source_no_recover : Gen.HttpFacts.recoverSites = [] := by decide

/-- the environment of frps' vhost proxy and of the plugins' proxies, from the regenerated fact -/
def frpEnv : Env := { serverCtx := true, recovers := !Gen.HttpFacts.recoverSites.isEmpty }

theorem frpEnv_propagates : Propagates frpEnv := by decide

/-- the statement for frp: one hop (plain http proxy) or two (client plugin, then frps) -/
theorem abort_frp_faithful (s : Sent) (hs : WF s) (viaPlugin : Bool) (l₁ l₂ : Nat) :
    Faithful s (readOf (chain ((if viaPlugin then [(frpEnv, l₁)] else []) ++ [(frpEnv, l₂)]) s)) := by
  apply abort_chain_faithful s hs
  intro h hh
  cases viaPlugin <;> simp at hh <;> rcases hh with rfl | rfl <;> exact frpEnv_propagates

/-- NOT faithful: a hop that recovers the panic finishes the chunked answer of a backend that died after 1000 of
    3000 bytes — the user reads a well-formed, complete message of 1000 bytes -/
theorem abort_recovered_witness :
    readOf (hop { serverCtx := true, recovers := true } { fr := .ch, total := 3000, k := 1000, died := true } 0)
      = { n := 1000, ended := true } ∧
    ¬ Faithful { fr := .ch, total := 3000, k := 1000, died := true }
        (readOf (hop { serverCtx := true, recovers := true } { fr := .ch, total := 3000, k := 1000, died := true } 0)) := by
  decide

/-- both conditions are needed: every environment whose abort does not propagate shortens some message silently
    (why the engines need a real http.Server in front: without `ServerContextKey` nothing panics) -/
theorem abort_unfaithful_env_breaks (e : Env) (he : ¬ Propagates e) :
    ∃ s, WF s ∧ ¬ Faithful s (readOf (hop e s 0)) := by
  refine ⟨{ fr := .ch, total := 2, k := 1, died := true }, by decide, ?_⟩
  obtain ⟨sc, rc⟩ := e
  cases sc <;> cases rc <;> first | (exact absurd ⟨rfl, rfl⟩ he) | decide

/-- a Content-Length answer is protected by the server itself: cut short it is never complete at the user,
    whatever the environment -/
theorem abort_cl_always_cut (e : Env) (total k lost : Nat) (hk : k < total) :
    (readOf (hop e { fr := .cl, total := total, k := k, died := true } lost)).ended = false := by
  have : ¬ k = total := by omega
  have h2 : ¬ k - lost = total := by omega
  simp [hop, readOf, this, outFr, h2]

/-- close-delimited: the death of the sender IS the end of the body — the reader gets a complete message with
    the bytes written so far, exactly as if the sender had meant to send only those -/
theorem abort_eof_indistinguishable (e : Env) (total k lost : Nat) :
    readOf (hop e { fr := .eof, total := total, k := k, died := true } lost) =
    readOf (hop e { fr := .eof, total := k, k := k, died := false } lost) := by
  simp [hop, readOf, outFr]

/-- what an engine observed of one faulted message: what the sender did, what the final reader got -/
structure AbortObs where
  fr       : Framing
  total    : Nat
  k        : Nat
  died     : Bool
  n        : Nat       -- bytes the final reader got
  ended    : Bool      -- its framing ended properly
  prefixOk : Bool      -- the bytes it got are the first `n` bytes of the body (compared by the harness)
deriving DecidableEq, Repr

/-- executable predicate for the driver, evaluated on the implementation's own result -/
def abortHolds (o : AbortObs) : Bool :=
  o.prefixOk && decide (Faithful { fr := o.fr, total := o.total, k := o.k, died := o.died } { n := o.n, ended := o.ended })

theorem abortHolds_sound (o : AbortObs) :
    abortHolds o = true ↔ o.prefixOk = true ∧
      Faithful { fr := o.fr, total := o.total, k := o.k, died := o.died } { n := o.n, ended := o.ended } := by
  simp [abortHolds]

/-- the predicate asks for no more than the model gives -/
theorem model_abortHolds (s : Sent) (hs : WF s) (viaPlugin : Bool) (l₁ l₂ : Nat) :
    let u := readOf (chain ((if viaPlugin then [(frpEnv, l₁)] else []) ++ [(frpEnv, l₂)]) s)
    abortHolds { fr := s.fr, total := s.total, k := s.k, died := s.died, n := u.n, ended := u.ended, prefixOk := true } = true := by
  intro u
  rw [abortHolds_sound]
  exact ⟨rfl, abort_frp_faithful s hs viaPlugin l₁ l₂⟩

/-- non-vacuity: a chunked answer cut after 1000 of 3000 bytes through plugin + frps (40 bytes lost in the second
    hop) reaches the user as 960 bytes WITHOUT a proper end; the same answer sent completely arrives completely -/
example :
    readOf (chain [(frpEnv, 0), (frpEnv, 40)] { fr := .ch, total := 3000, k := 1000, died := true }) = { n := 960, ended := false } ∧
    readOf (chain [(frpEnv, 0), (frpEnv, 40)] { fr := .ch, total := 3000, k := 3000, died := false }) = { n := 3000, ended := true } ∧
    readOf (chain [(frpEnv, 0)] { fr := .eof, total := 3000, k := 1000, died := true }) = { n := 1000, ended := true } := by
  decide

end Abort

section Limit
open ConnLimit

/-- invariant of the unlimited Transport: nobody waits -/
theorem step_unlimited (s : St) (hw : s.waiting = 0) (e : Ev) :
    (step { maxConnsPerHost := 0 } s e).2 = true ∧ (step { maxConnsPerHost := 0 } s e).1.waiting = 0 := by
  cases e <;> simp [step, hw] <;> split <;> simp_all

/-- **no cap ⇒ nobody ever waits**: for every history of opened, finished and dropped exchanges, every request is
    forwarded at once -/
theorem limit_unlimited_forwards_all (evs : List Ev) (s : St) (hw : s.waiting = 0) :
    (run { maxConnsPerHost := 0 } s evs).2.all id = true := by
  induction evs generalizing s with
  | nil => rfl
  | cons e es ih =>
    have h := step_unlimited s hw e
    simp only [run, List.all_cons, id, h.1, Bool.true_and]
    exact ih _ h.2

theorem opened_unlimited (k : Nat) : (opened { maxConnsPerHost := 0 } k).waiting = 0 := by
  unfold opened
  suffices h : ∀ (s : St), s.waiting = 0 → (run { maxConnsPerHost := 0 } s (List.replicate k .request)).1.waiting = 0 from
    h St.init rfl
  induction k with
  | zero => intro s hs; exact hs
  | succ k ih =>
    intro s hs
    simp only [List.replicate_succ, run]
    exact ih _ (step_unlimited s hs .request).2

/-- the k-th concurrent request is forwarded, for every k: with any number of exchanges open (streams, long
    polls, upgraded connections) the next one still gets its connection at once -/
theorem limit_kth_concurrent_forwarded (k : Nat) :
    (step { maxConnsPerHost := 0 } (opened { maxConnsPerHost := 0 } k) .request).2 = true :=
  (step_unlimited _ (opened_unlimited k) .request).1

/-- what the code is: none of the Transports of the relaying ReverseProxies sets a connection cap — read from
    the literals in pkg/util/vhost/http.go and pkg/plugin/client/*.go on every run -/
theorem limit_source_no_cap : ∀ t ∈ Gen.HttpFacts.transports, capOf t = 0 := by decide

/-- every proxy kind's path (frps' vhost proxy and / or the client plugin) consists of uncapped Transports -/
theorem limit_source_paths_uncapped :
    ∀ kind ∈ ["plain", "h2h", "h2s", "s2h", "s2s"], ∀ c ∈ pathOf Gen.HttpFacts.transports kind, c.maxConnsPerHost = 0 := by
  decide

/-- hence on every path, with k exchanges open — for EVERY k — one more request is forwarded at once -/
theorem limit_source_paths_forward (kind : String) (hk : kind ∈ ["plain", "h2h", "h2s", "s2h", "s2s"]) (k : Nat) :
    pathForwards (pathOf Gen.HttpFacts.transports kind) k = true := by
  unfold pathForwards
  rw [List.all_eq_true]
  intro c hc
  have h0 := limit_source_paths_uncapped kind hk c hc
  obtain ⟨m⟩ := c
  simp only at h0
  subst h0
  exact limit_kth_concurrent_forwarded k

theorem opened_capped (c : Nat) (hc : 0 < c) (k : Nat) (hk : k ≤ c) :
    opened { maxConnsPerHost := c } k = { inUse := k, idle := 0, waiting := 0 } := by
  unfold opened
  suffices h : ∀ (j : Nat), j + k ≤ c →
      (run { maxConnsPerHost := c } { inUse := j, idle := 0, waiting := 0 } (List.replicate k .request)).1
        = { inUse := j + k, idle := 0, waiting := 0 } by
    have h0 := h 0 (by omega)
    simpa [St.init] using h0
  induction k with
  | zero => intro j _; rfl
  | succ k ih =>
    intro j hj
    have hlt : j < c := by omega
    have hne : ¬ c = 0 := by omega
    simp only [List.replicate_succ, run, step, Nat.lt_irrefl, if_false, Nat.add_zero, hne, false_or, hlt, if_true]
    rw [ih (by omega) (j + 1) (by omega)]
    congr 1
    omega

/-- why the absence of the field matters: ANY cap c > 0 parks the (c+1)-th concurrent request (and nothing in
    the Transport ever times that wait out) -/
theorem limit_cap_blocks (c : Nat) (hc : 0 < c) :
    (step { maxConnsPerHost := c } (opened { maxConnsPerHost := c } c) .request).2 = false := by
  rw [opened_capped c hc c (Nat.le_refl c)]
  have hne : ¬ c = 0 := by omega
  simp [step, hne]

/-- executable predicate for rounds of long-lived exchanges, evaluated on the implementation's own result:
    all `n` exchanges were opened (reached their backend and, for streams, delivered their first piece to the
    user) while all were open, the further short request was served meanwhile, and after the release every
    exchange ended completely -/
def longHolds (n opened : Nat) (probeOk : Bool) (finished : Nat) : Bool :=
  decide (opened = n) && probeOk && decide (finished = n)

theorem longHolds_sound (n opened : Nat) (probeOk : Bool) (finished : Nat) :
    longHolds n opened probeOk finished = true ↔ opened = n ∧ probeOk = true ∧ finished = n := by
  simp [longHolds, and_assoc]

/-- non-vacuity: 24 open streams on an uncapped Transport leave room for the 25th; with a cap of 16 the 17th
    request waits until a stream ends -/
example :
    (step { maxConnsPerHost := 0 } (opened { maxConnsPerHost := 0 } 24) .request).2 = true ∧
    (opened { maxConnsPerHost := 16 } 24) = { inUse := 16, idle := 0, waiting := 8 } ∧
    (run { maxConnsPerHost := 16 } (opened { maxConnsPerHost := 16 } 16) [.request, .drop]).2 = [false, true] := by
  decide

end Limit

end C02
end Frp
