import Frp.Lemmas.Router
import Frp.Lemmas.VhostReg
import Frp.Model.Host
/-
  C06 — Virtual-host routing always picks the most specific matching route.

  Model: Frp/Model/Router.lean (pkg/util/vhost/router.go, getVhost / getListener).
  All statements are about *every* reachable route table (any history of Add/Del), every host,
  path and user.
-/
namespace Frp
namespace C06
open Str Router

/-! ## Reachable tables -/

inductive Op
  | add (domain location user : Str) (payload : Nat)
  | del (domain location user : Str)

def apply (R : Routers) : Op → Routers
  | .add d l u p => (add R d l u p).1
  | .del d l u => del R d l u

def run (ops : List Op) : Routers := ops.foldl apply empty

/-- every table reachable by any history of registrations and removals satisfies the invariant
    (buckets strictly sorted by location descending — hence no duplicate triple —, routes filed
    under their own lower-cased domain and user). -/
theorem inv_reachable (ops : List Op) : Router.Inv (run ops) := by
  unfold run
  suffices h : ∀ R, Router.Inv R → Router.Inv (ops.foldl apply R) from h _ inv_empty
  induction ops with
  | nil => intro R h; exact h
  | cons op ops ih =>
    intro R h
    apply ih
    cases op with
    | add d l u p => exact inv_add h d l u p
    | del d l u => exact inv_del h d l u

/-! ## Specification, written independently of the lookup walk -/

/-- `r` is registered in table `R` -/
def Registered (R : Routers) (r : Route) : Prop := r ∈ R r.domain r.user

/-- the host patterns that match a (lower-cased) host, most specific first -/
def hostPatterns (host : Str) : List Str := (levels host).map toLower

/-- a route matches a request -/
def Matches (r : Route) (host path user : Str) : Prop :=
  r.domain ∈ hostPatterns host ∧ (r.user = user ∨ r.user = []) ∧ r.location <+: path

def hostRank (host : Str) (r : Route) : Nat := (hostPatterns host).idxOf r.domain
def userRank (user : Str) (r : Route) : Nat := if r.user = user then 0 else 1

/-- lexicographic specificity: host pattern first, then user restriction, then location length -/
def AtLeastAsSpecific (host user : Str) (a b : Route) : Prop :=
  hostRank host a < hostRank host b ∨
  (hostRank host a = hostRank host b ∧
    (userRank user a < userRank user b ∨
     (userRank user a = userRank user b ∧ b.location.length ≤ a.location.length)))

/-! ### what the pattern list looks like (so that `hostRank` means what the property says) -/

/-- the i-th wildcard pattern replaces the first i+1 labels by `*` and keeps ≥ 2 fixed labels;
    longer kept suffixes come first. -/
theorem wildLevels_eq (labels : List Str) :
    wildLevels labels =
      (List.range (labels.length - 2)).map (fun i => joinWith dot ([star] :: labels.drop (i + 1))) := by
  induction labels with
  | nil => simp [wildLevels]
  | cons l rest ih =>
    unfold wildLevels
    split
    · rename_i h
      simp only [List.length_cons] at h
      have : rest.length + 1 - 2 = (rest.length - 2) + 1 := by omega
      rw [List.length_cons, this, List.range_succ_eq_map, List.map_cons, ih]
      simp [List.map_map, Function.comp_def]
    · rename_i h
      simp only [List.length_cons] at h
      have : rest.length + 1 - 2 = 0 := by omega
      simp [this]

theorem levels_head (host : Str) : (levels host).head? = some host := rfl
theorem levels_last (host : Str) : (levels host).getLast? = some [star] := by
  simp [levels, List.getLast?_cons, List.getLast?_append]

/-! ## Theorems -/

/-- `Get`: the result is in the bucket, its location is a prefix of the path, and no route of that
    bucket with a longer location is a prefix of the path. -/
theorem get_longest {R : Routers} (hR : Router.Inv R) {host path user : Str} {r : Route}
    (h : get R host path user = some r) :
    r ∈ R (toLower host) user ∧ r.location <+: path ∧
    ∀ r' ∈ R (toLower host) user, r'.location <+: path → r'.location.length ≤ r.location.length :=
  find_longest (hR.desc _ _) h

theorem get_none {R : Routers} {host path user : Str} (h : get R host path user = none) :
    ∀ r' ∈ R (toLower host) user, ¬ r'.location <+: path :=
  find_none h

private theorem findRouter_lower (R : Routers) (d path user : Str) :
    findRouter R (toLower d) path user = findRouter R d path user := by
  simp [findRouter, Router.get, toLower_idem]

private theorem idxOf_ge_of_not_mem {l₁ rest : List Str} {a : Str} (h : a ∉ l₁) :
    l₁.length ≤ (l₁ ++ rest).idxOf a := by
  induction l₁ with
  | nil => simp
  | cons x xs ih =>
    have hx : ¬ x = a := fun e => h (by simp [e])
    have hxs : a ∉ xs := fun e => h (by simp [e])
    simp only [List.cons_append, List.idxOf_cons, List.length_cons]
    have : (x == a) = false := by simpa using hx
    simp only [this, cond_false]
    have := ih hxs
    omega

private theorem idxOf_append_le {l₁ l₂ : List Str} {a : Str} : (l₁ ++ a :: l₂).idxOf a ≤ l₁.length := by
  induction l₁ with
  | nil => simp
  | cons x xs ih =>
    simp only [List.cons_append, List.idxOf_cons, List.length_cons]
    by_cases e : x = a
    · simp [e]
    · have : (x == a) = false := by simpa using e
      simp only [this, cond_false]; omega

/-- **Most specific match.**  If the lookup returns `r`, then `r` is registered, matches the
    request, and is at least as specific as every registered matching route. -/
theorem getVhost_some {R : Routers} (hR : Router.Inv R) {host path user : Str} {r : Route}
    (h : getVhost R host path user = some r) :
    Registered R r ∧ Matches r host path user ∧
    ∀ r', Registered R r' → Matches r' host path user → AtLeastAsSpecific host user r r' := by
  unfold getVhost at h
  obtain ⟨l₁, a, l₂, hlev, hfa, hnone⟩ := List.findSome?_eq_some_iff.mp h
  -- facts about r
  have hr : r ∈ R (toLower a) r.user ∧ (r.user = user ∨ r.user = []) ∧ r.location <+: path ∧
      r.domain = toLower a := by
    unfold findRouter at hfa
    split at hfa
    · rename_i r0 hg
      have : r0 = r := Option.some.inj hfa
      subst this
      obtain ⟨hm, hp, _⟩ := get_longest hR hg
      have hk := hR.keyed _ _ _ hm
      exact ⟨by rw [hk.2]; exact hm, Or.inl hk.2, hp, hk.1⟩
    · rename_i hg
      obtain ⟨hm, hp, _⟩ := get_longest hR hfa
      have hk := hR.keyed _ _ _ hm
      exact ⟨by rw [hk.2]; exact hm, Or.inr hk.2, hp, hk.1⟩
  obtain ⟨hrm, hru, hrp, hrd⟩ := hr
  have hpat : hostPatterns host = l₁.map toLower ++ toLower a :: l₂.map toLower := by
    simp [hostPatterns, hlev]
  refine ⟨by unfold Registered; rw [hrd]; exact hrm, ⟨?_, hru, hrp⟩, ?_⟩
  · rw [hpat, hrd]; simp
  · intro r' hreg' hm'
    obtain ⟨hd', hu', hp'⟩ := hm'
    -- r' cannot sit at an earlier pattern
    have hnot : r'.domain ∉ l₁.map toLower := by
      intro hmem
      obtain ⟨x, hx, hxe⟩ := List.mem_map.mp hmem
      have hfx := hnone x hx
      rw [← findRouter_lower] at hfx
      unfold findRouter at hfx
      split at hfx
      · simp at hfx
      · rename_i hg1
        rcases hu' with hu' | hu'
        · have := get_none hg1 r' (by rw [toLower_idem, hxe, ← hu']; exact hreg')
          exact this hp'
        · have := get_none hfx r' (by rw [toLower_idem, hxe, ← hu']; exact hreg')
          exact this hp'
    have hrank_r : hostRank host r ≤ l₁.length := by
      unfold hostRank; rw [hpat, hrd]
      have := @idxOf_append_le (l₁.map toLower) (l₂.map toLower) (toLower a)
      simpa using this
    have hrank_r' : l₁.length ≤ hostRank host r' := by
      unfold hostRank; rw [hpat]
      have := @idxOf_ge_of_not_mem (l₁.map toLower) (toLower a :: l₂.map toLower) r'.domain hnot
      simpa using this
    unfold AtLeastAsSpecific
    by_cases hlt : hostRank host r < hostRank host r'
    · exact Or.inl hlt
    · right
      have heq : hostRank host r = hostRank host r' := by omega
      refine ⟨heq, ?_⟩
      -- same rank ⇒ same domain
      have hdom : r'.domain = r.domain := by
        unfold hostRank at heq
        have hmr : r.domain ∈ hostPatterns host := by rw [hpat, hrd]; simp
        have h1 := List.getElem_idxOf (List.idxOf_lt_length_of_mem hmr)
        have h2 := List.getElem_idxOf (List.idxOf_lt_length_of_mem hd')
        rw [← h1, ← h2]
        simp only [heq]
      have hreg'' : r' ∈ R (toLower a) r'.user := by
        unfold Registered at hreg'; rw [hdom, hrd] at hreg'; exact hreg'
      unfold findRouter at hfa
      split at hfa
      · rename_i r0 hg
        have : r0 = r := Option.some.inj hfa
        subst this
        obtain ⟨hm, _, hall⟩ := get_longest hR hg
        have hk := hR.keyed _ _ _ hm
        by_cases hru' : r'.user = user
        · right
          refine ⟨by simp [userRank, hk.2, hru'], ?_⟩
          apply hall r' _ hp'
          rw [← hru']; exact hreg''
        · left
          simp [userRank, hk.2, hru']
      · rename_i hg1
        obtain ⟨hm, _, hall⟩ := get_longest hR hfa
        have hk := hR.keyed _ _ _ hm
        rcases hu' with hu' | hu'
        · exfalso
          exact get_none hg1 r' (by rw [← hu']; exact hreg'') hp'
        · right
          refine ⟨by simp [userRank, hk.2, hu'], ?_⟩
          apply hall r' _ hp'
          rw [← hu']; exact hreg''

/-- **Never a non-matching proxy / unmatched is refused.**  The lookup fails exactly when no
    registered route matches. -/
theorem getVhost_none {R : Routers} {host path user : Str}
    (h : getVhost R host path user = none) :
    ∀ r', Registered R r' → ¬ Matches r' host path user := by
  intro r' hreg' ⟨hd', hu', hp'⟩
  unfold getVhost at h
  rw [List.findSome?_eq_none_iff] at h
  obtain ⟨x, hx, hxe⟩ := List.mem_map.mp hd'
  have hfx := h x hx
  rw [← findRouter_lower] at hfx
  unfold findRouter at hfx
  split at hfx
  · simp at hfx
  · rename_i hg1
    unfold Registered at hreg'
    rcases hu' with hu' | hu'
    · exact get_none hg1 r' (by rw [toLower_idem, hxe, ← hu']; exact hreg') hp'
    · exact get_none hfx r' (by rw [toLower_idem, hxe, ← hu']; exact hreg') hp'

/-- Host comparison ignores letter case. -/
theorem getVhost_case (R : Routers) (host path user : Str) :
    hostPatterns host = hostPatterns (toLower host) →
    getVhost R (toLower host) path user = getVhost R host path user := by
  intro hp
  unfold getVhost
  have key : ∀ l : List Str, l.findSome? (fun d => findRouter R d path user)
      = (l.map toLower).findSome? (fun d => findRouter R d path user) := by
    intro l
    induction l with
    | nil => rfl
    | cons x xs ih => simp only [List.map_cons, List.findSome?_cons, findRouter_lower, ih]
  rw [key (levels host), key (levels (toLower host))]
  unfold hostPatterns at hp
  rw [hp]

/-- **Duplicate triple is refused** and the table is left unchanged; a non-duplicate is accepted. -/
theorem add_conflict_iff (R : Routers) (domain location user : Str) (payload : Nat) :
    (add R domain location user payload).2 = .conflict ↔
      ∃ r ∈ R (toLower domain) user, r.location = location := by
  unfold add
  simp only
  split
  · rename_i h
    simp only [List.any_eq_true, decide_eq_true_eq] at h
    simp [h]
  · rename_i h
    simp only [List.any_eq_true, decide_eq_true_eq] at h
    simp [h]

theorem add_conflict_unchanged (R : Routers) (domain location user : Str) (payload : Nat)
    (h : (add R domain location user payload).2 = .conflict) :
    (add R domain location user payload).1 = R := by
  unfold add at h ⊢
  simp only at h ⊢
  split
  · rfl
  · rename_i hn; simp [hn] at h

/-- after a successful Add the new route is registered and every other route is as before -/
theorem add_ok_mem (R : Routers) (domain location user : Str) (payload : Nat)
    (h : (add R domain location user payload).2 = .ok) (d u : Str) (x : Route) :
    x ∈ (add R domain location user payload).1 d u ↔
      x ∈ R d u ∨ (d = toLower domain ∧ u = user ∧
        x = { domain := toLower domain, location := location, user := user, payload := payload }) := by
  unfold add at h ⊢
  simp only at h ⊢
  split
  · rename_i hc; simp [hc] at h
  · by_cases e : d = toLower domain ∧ u = user
    · obtain ⟨rfl, rfl⟩ := e
      show x ∈ upd R _ _ _ _ _ ↔ _
      rw [upd_same, mem_sortDesc]; simp
    · show x ∈ upd R _ _ _ _ _ ↔ _
      rw [upd_other _ _ _ _ _ _ e]
      constructor
      · exact Or.inl
      · rintro (h | ⟨h1, h2, _⟩)
        · exact h
        · exact absurd ⟨h1, h2⟩ e

/-- **Removing a route affects only that triple**: membership of every other route, in every
    bucket, is unchanged, and the removed triple is gone. -/
theorem del_mem (R : Routers) (domain location user : Str) (d u : Str) (x : Route) :
    x ∈ (del R domain location user) d u ↔
      x ∈ R d u ∧ ¬ (d = toLower domain ∧ u = user ∧ x.location = location) := by
  unfold del
  by_cases e : d = toLower domain ∧ u = user
  · obtain ⟨rfl, rfl⟩ := e
    rw [upd_same, List.mem_filter]; simp
  · rw [upd_other _ _ _ _ _ _ e]
    constructor
    · intro h; exact ⟨h, fun ⟨h1, h2, _⟩ => e ⟨h1, h2⟩⟩
    · exact fun h => h.1

/-- lookups in other buckets are literally unchanged by a removal (effective from the next Get) -/
theorem del_get_other (R : Routers) (domain location user host path u : Str)
    (h : ¬ (toLower host = toLower domain ∧ u = user)) :
    Router.get (del R domain location user) host path u = Router.get R host path u := by
  unfold Router.get del
  rw [upd_other _ _ _ _ _ _ h]

/-- once removed, a route is never returned again until re-registered -/
theorem del_not_returned {R : Routers} (hR : Router.Inv R) (domain location user host path u : Str) (r : Route)
    (h : getVhost (del R domain location user) host path u = some r) :
    ¬ (r.domain = toLower domain ∧ r.user = user ∧ r.location = location) := by
  have hinv := inv_del hR domain location user
  have hreg := (getVhost_some hinv h).1
  unfold Registered at hreg
  exact ((del_mem R domain location user _ _ r).mp hreg).2

/-! ## Non-vacuity: a concrete overlapping table -/

def s (x : String) : Str := Str.ofString x

def demo : Routers := run
  [ .add (s "A.Example.com") (s "/") [] 1
  , .add (s "a.example.com") (s "/ab") [] 2
  , .add (s "a.example.com") (s "/a") [] 3
  , .add (s "a.example.com") (s "/a") (s "alice") 4
  , .add (s "*.example.com") (s "/") [] 5
  , .add (s "*") (s "/") [] 6
  , .del (s "a.example.com") (s "/ab") [] ]

example : Router.Inv demo := inv_reachable _
example : (getVhost demo (s "a.example.com") (s "/ab/x") []).map (·.payload) = some 3 := by decide +kernel
example : (getVhost demo (s "a.example.com") (s "/ab/x") (s "alice")).map (·.payload) = some 4 := by decide +kernel
example : (getVhost demo (s "a.example.com") (s "/x") (s "alice")).map (·.payload) = some 1 := by decide +kernel
example : (getVhost demo (s "b.a.example.com") (s "/x") []).map (·.payload) = some 5 := by decide +kernel
example : (getVhost demo (s "example.org") (s "/x") []).map (·.payload) = some 6 := by decide +kernel
example : (add demo (s "A.example.COM") (s "/a") [] 9).2 = .conflict := by decide +kernel

end C06
end Frp

/-! ## Executable property predicate (run by the driver on implementation traces) -/
namespace Frp
namespace C06
open Str Router

instance (r : Route) (host path user : Str) : Decidable (Matches r host path user) := by
  unfold Matches; infer_instance
instance (host user : Str) (a b : Route) : Decidable (AtLeastAsSpecific host user a b) := by
  unfold AtLeastAsSpecific; infer_instance

/-- `res` (payload of the route the implementation chose, or none) is a correct answer for the
    request against the registered routes `all`. -/
def HoldsOn (all : List Route) (host path user : Str) (res : Option Nat) : Prop :=
  match res with
  | none => ∀ r ∈ all, ¬ Matches r host path user
  | some p => ∃ r ∈ all, r.payload = p ∧ Matches r host path user ∧
      ∀ r' ∈ all, Matches r' host path user → AtLeastAsSpecific host user r r'

instance (all : List Route) (host path user : Str) (res : Option Nat) :
    Decidable (HoldsOn all host path user res) := by
  unfold HoldsOn; cases res <;> infer_instance

def holdsOn (all : List Route) (host path user : Str) (res : Option Nat) : Bool :=
  decide (HoldsOn all host path user res)

theorem holdsOn_sound (all : List Route) (host path user : Str) (res : Option Nat) :
    holdsOn all host path user res = true ↔ HoldsOn all host path user res := by
  simp [holdsOn]

/-- the model's own answer always satisfies the predicate, for any list `all` that enumerates
    exactly the registered routes of a reachable table -/
theorem model_holdsOn {R : Routers} (hR : Router.Inv R) (all : List Route)
    (hall : ∀ r, r ∈ all ↔ Registered R r) (host path user : Str) :
    HoldsOn all host path user ((getVhost R host path user).map (·.payload)) := by
  unfold HoldsOn
  cases h : getVhost R host path user with
  | none =>
    simp only [Option.map_none]
    intro r hr
    exact getVhost_none h r ((hall r).mp hr)
  | some r =>
    simp only [Option.map_some]
    obtain ⟨hreg, hm, hbest⟩ := getVhost_some hR h
    exact ⟨r, (hall r).mpr hreg, rfl, hm, fun r' hr' hm' => hbest r' ((hall r').mp hr') hm'⟩

end C06
end Frp

/-! ## The server-side registration layer (server/proxy/http.go, https.go, tcpmux.go,
       server/group/http.go) that feeds the route tables

  Model: Frp/Model/VhostReg.lean, invariant and step lemmas: Frp/Lemmas/VhostReg.lean.
  All statements are about every history of proxy `Run` / `Close` with arbitrary configurations
  (any custom domains, subdomain, locations, route user, group and group key, proxy names). -/
namespace Frp
namespace C06
open Str Router VhostReg

inductive ROp
  | run (id : Nat) (c : Cfg)
  | close (id : Nat)

def rapply (sh : Str) (S : St) : ROp → St
  | .run id c => (VhostReg.run sh S id c).1
  | .close id => VhostReg.close S id

/-- the state after any history of `Run` / `Close` (`sh` = the server's subDomainHost) -/
def rrun (sh : Str) (ops : List ROp) : St := ops.foldl (rapply sh) St.empty

/-- every reachable state of the registration layer satisfies the ownership invariant `InvL` -/
theorem reg_inv_reachable (sh : Str) (ops : List ROp) : InvL (rrun sh ops).tab (rrun sh ops).hs := by
  unfold rrun
  suffices h : ∀ S : St, InvL S.tab S.hs → InvL (ops.foldl (rapply sh) S).tab (ops.foldl (rapply sh) S).hs
    from h _ invL_empty
  induction ops with
  | nil => intro S h; exact h
  | cons op ops ih =>
    intro S h
    apply ih
    cases op with
    | run id c => exact inv_run sh h id c
    | close id => exact inv_close h id

/-- proxy instance `id` is one of those a route with this payload hands requests to: the proxy that
    registered it, or a member of the group that registered it -/
def Serves (T : Tab) (payload id : Nat) : Prop :=
  payload = 2 * id ∨
  ∃ n g, T.G.get n = some g ∧ payload = 2 * g.gid + 1 ∧ ∃ nm, (nm, id) ∈ g.members

/-- **The route table is exactly the union of what the live proxies stand for.**  `liveRoutes hs`
    is computed from the live proxies alone (their (domain, location) pairs, lower-cased domain,
    route user); each of its entries is a stored route served by that proxy, and every stored
    route together with each proxy serving it is one of its entries. -/
theorem reg_table_eq_live {T : Tab} {hs : List Holder} (hI : InvL T hs) (x : Route) :
    x ∈ liveRoutes hs ↔
      ∃ r, Registered T.R r ∧ r.domain = x.domain ∧ r.location = x.location ∧ r.user = x.user ∧
        Serves T r.payload x.payload := by
  constructor
  · intro hx
    obtain ⟨h, hh, hx'⟩ := List.mem_flatMap.mp hx
    obtain ⟨k, hk, rfl⟩ := List.mem_map.mp hx'
    by_cases hg : h.group = []
    · exact ⟨pr h k, hI.own h hh hg k hk, rfl, rfl, rfl, Or.inl rfl⟩
    · have hkne : h.keys ≠ [] := by intro e; rw [e] at hk; cases hk
      obtain ⟨g, hget, hm⟩ := hI.gmem h hh hg hkne
      obtain ⟨h', hh', e1, _, _, e4, e5⟩ := hI.gholder _ g hget _ hm
      have : h' = h := id_unique hI.ids hh' hh e1
      subst this
      rw [e4] at hk
      simp only [List.mem_singleton] at hk
      subst hk
      refine ⟨gr g, (hI.groute _ g hget (members_ne_nil hm)).1, rfl, rfl, e5.symm, ?_⟩
      exact Or.inr ⟨_, g, hget, rfl, _, hm⟩
  · rintro ⟨r, hr, e1, e2, e3, hs'⟩
    obtain ⟨xd, xl, xu, xp⟩ := x
    dsimp only at e1 e2 e3 hs'
    subst e1 e2 e3
    rcases hs' with hp | ⟨n, g, hget, hp, nm, hm⟩
    · obtain ⟨h, hh, _, k, hk, hrk⟩ := hI.owned r hr (by omega)
      subst hrk
      dsimp only [pr] at hp
      have : h.id = xp := by omega
      subst this
      exact List.mem_flatMap.mpr ⟨h, hh, List.mem_map.mpr ⟨k, hk, rfl⟩⟩
    · obtain ⟨n', g', hget', _, hrg⟩ := hI.gowned r hr (by omega)
      subst hrg
      dsimp only [gr] at hp
      have : n' = n := hI.ginj n' n g' g hget' hget (by omega)
      subst this
      rw [hget] at hget'
      have := Option.some.inj hget'; subst this
      obtain ⟨h, hh, e1, _, _, e4, e5⟩ := hI.gholder _ g hget _ hm
      dsimp only at e1
      subst e1
      refine List.mem_flatMap.mpr ⟨h, hh, List.mem_map.mpr ⟨(g.domain, g.location), by rw [e4]; simp, ?_⟩⟩
      rw [e5]; rfl

private theorem matches_congr {a b : Route} (e1 : a.domain = b.domain) (e2 : a.location = b.location)
    (e3 : a.user = b.user) (host path user : Str) : Matches a host path user ↔ Matches b host path user := by
  unfold Matches; rw [e1, e2, e3]

private theorem als_congr {a b : Route} (e1 : a.domain = b.domain) (e2 : a.location = b.location)
    (e3 : a.user = b.user) (host user : Str) (r : Route) :
    AtLeastAsSpecific host user r a ↔ AtLeastAsSpecific host user r b := by
  unfold AtLeastAsSpecific hostRank userRank; rw [e1, e2, e3]

/-- every stored route has somebody serving it -/
theorem reg_served {T : Tab} {hs : List Holder} (hI : InvL T hs) {r : Route} (hr : Registered T.R r) :
    ∃ id, Serves T r.payload id := by
  rcases Nat.mod_two_eq_zero_or_one r.payload with he | ho
  · obtain ⟨h, _, _, k, _, hrk⟩ := hI.owned r hr he
    exact ⟨h.id, Or.inl (by rw [hrk]; rfl)⟩
  · obtain ⟨n, g, hget, hne, hrg⟩ := hI.gowned r hr ho
    obtain ⟨m, hm⟩ := List.exists_mem_of_ne_nil _ hne
    exact ⟨m.2, Or.inr ⟨n, g, hget, by rw [hrg]; rfl, m.1, hm⟩⟩

/-- **Requests go to the most specific LIVE proxy.**  In every state satisfying the invariant (so:
    after every history of Run / Close) the lookup, read as "which proxy instance gets the request",
    is a correct answer — in the sense of the C06 predicate `HoldsOn` — with respect to the routes
    the live proxies stand for: some live proxy serves the chosen route, every proxy serving it is
    a live proxy whose route matches and is at least as specific as every live matching route; and a
    lookup fails only if no live proxy's route matches. -/
theorem reg_lookup_most_specific {T : Tab} {hs : List Holder} (hI : InvL T hs) (host path user : Str) :
    match getVhost T.R host path user with
    | none => HoldsOn (liveRoutes hs) host path user none
    | some r => (∃ id, Serves T r.payload id) ∧
        ∀ id, Serves T r.payload id → HoldsOn (liveRoutes hs) host path user (some id) := by
  split
  · rename_i hnone
    intro x hx hm
    obtain ⟨r, hr, e1, e2, e3, _⟩ := (reg_table_eq_live hI x).mp hx
    exact getVhost_none hnone r hr ((matches_congr e1 e2 e3 host path user).mpr hm)
  · rename_i r hsome
    obtain ⟨hreg, hm, hbest⟩ := getVhost_some hI.rinv hsome
    refine ⟨reg_served hI hreg, ?_⟩
    intro id hs'
    have hx : ({ domain := r.domain, location := r.location, user := r.user, payload := id } : Route)
        ∈ liveRoutes hs := (reg_table_eq_live hI _).mpr ⟨r, hreg, rfl, rfl, rfl, hs'⟩
    refine ⟨_, hx, rfl, (matches_congr rfl rfl rfl host path user).mp hm, ?_⟩
    intro r' hr' hm'
    obtain ⟨r'', hr'', e1, e2, e3, _⟩ := (reg_table_eq_live hI r').mp hr'
    have := hbest r'' hr'' ((matches_congr e1 e2 e3 host path user).mpr hm')
    have h2 := (als_congr e1 e2 e3 host user r).mp this
    unfold AtLeastAsSpecific hostRank userRank at h2 ⊢
    exact h2

/-- `Run` either succeeds, and then the proxy is live with exactly the (domain, location) pairs its
    configuration stands for (customDomains × locations, then subdomain.subDomainHost × locations) … -/
theorem reg_run_ok {sh : Str} {S : St} (hI : InvL S.tab S.hs) (id : Nat) (c : Cfg)
    (h : (VhostReg.run sh S id c).2 = .ok) :
    (VhostReg.run sh S id c).1.hs = holderOf id c (triples sh c) :: S.hs := by
  unfold VhostReg.run at h ⊢
  split
  · rename_i hb; rw [if_pos hb] at h; cases h
  · rename_i hfresh
    rw [if_neg hfresh] at h
    have hfresh' : ∀ h ∈ S.hs, (holderOf id c []).id ≠ h.id := by
      intro h hh e
      apply hfresh
      simp only [List.any_eq_true, decide_eq_true_eq]
      exact ⟨h, hh, e.symm⟩
    have h0 := inv_intro (p := holderOf id c []) hI rfl hfresh'
    obtain ⟨_, _, h3⟩ := inv_claim (gkey := c.groupKey) (triples sh c) S.tab (holderOf id c []) h0
    split
    · rename_i T' p hc
      rw [hc] at h3
      have h4 : p = _ := h3 rfl
      rw [h4]; rfl
    · rename_i T' p e hc
      rw [hc] at h; cases h

/-- … or is refused (duplicate triple, group parameter / key mismatch, name repeated in the group,
    instance already running), and then **the set of live proxies is unchanged** — by
    `reg_table_eq_live` / `reg_lookup_most_specific` (the invariant still holds: `reg_inv_reachable`)
    so is everything a request can observe: a refused registration changes nothing. -/
theorem reg_refused_unchanged (sh : Str) (S : St) (id : Nat) (c : Cfg)
    (h : (VhostReg.run sh S id c).2 ≠ .ok) : (VhostReg.run sh S id c).1.hs = S.hs := by
  unfold VhostReg.run at h ⊢
  split
  · rfl
  · rename_i hfresh
    rw [if_neg hfresh] at h
    split
    · rename_i T' p hc; rw [hc] at h; exact absurd rfl h
    · rfl

theorem close_hs (S : St) (id : Nat) : ∀ h ∈ (VhostReg.close S id).hs, h.id ≠ id := by
  unfold VhostReg.close
  split
  · rename_i hf
    intro h hh e
    have := List.find?_eq_none.mp hf h hh
    simp [e] at this
  · intro h hh
    have := (List.mem_filter.mp hh).2
    simpa using this

/-- **Close unregisters exactly the proxy's own routes**: the live set afterwards is the live set
    before minus that proxy … -/
theorem reg_close_hs (S : St) (id : Nat) (h : Holder) :
    h ∈ (VhostReg.close S id).hs ↔ h ∈ S.hs ∧ h.id ≠ id := by
  unfold VhostReg.close
  split
  · rename_i hf
    constructor
    · intro hh
      refine ⟨hh, fun e => ?_⟩
      have := List.find?_eq_none.mp hf h hh
      simp [e] at this
    · exact fun hh => hh.1
  · rw [List.mem_filter]; simp

/-- … and **takes effect from the next request on**: after `Close id`, in any reachable state, no
    lookup hands a request to proxy instance `id` (until an instance with that number runs again). -/
theorem reg_close_effective (sh : Str) (ops : List ROp) (id : Nat) (host path user : Str) (r : Route)
    (h : getVhost (VhostReg.close (rrun sh ops) id).tab.R host path user = some r) :
    ¬ Serves (VhostReg.close (rrun sh ops) id).tab r.payload id := by
  intro hs'
  have hI := inv_close (reg_inv_reachable sh ops) id
  have hreg := (getVhost_some hI.rinv h).1
  have hx : ({ domain := r.domain, location := r.location, user := r.user, payload := id } : Route)
      ∈ liveRoutes (VhostReg.close (rrun sh ops) id).hs :=
    (reg_table_eq_live hI _).mpr ⟨r, hreg, rfl, rfl, rfl, hs'⟩
  obtain ⟨h', hh', hx'⟩ := List.mem_flatMap.mp hx
  obtain ⟨k, _, hk⟩ := List.mem_map.mp hx'
  have : h'.id = id := congrArg Route.payload hk
  exact close_hs _ id h' hh' this

/-! ### non-vacuity: a history with multi-domain, multi-location, subdomain and group proxies -/

def shDemo : Str := s "sub.example.com"

def cfgDemo (name : String) (domains : List String) (sub : String) (locs : List String)
    (user group key : String) : Cfg :=
  { name := s name, domains := domains.map s, sub := s sub, locations := locs.map s, user := s user,
    group := s group, groupKey := s key }

def regDemo : St := rrun shDemo
  [ .run 1 (cfgDemo "multi" ["A.example.com", "b.example.com"] "t" ["/", "/api"] "" "" "")
  , .run 2 (cfgDemo "g1" ["c.example.com"] "" [] "" "grp" "k")
  , .run 3 (cfgDemo "g2" ["c.example.com"] "" [] "" "grp" "k")
  , .run 4 (cfgDemo "dup" ["x.example.com", "a.example.com"] "" ["/api"] "" "" "")   -- refused, rolled back
  , .run 5 (cfgDemo "g3" ["b.example.com"] "" ["/"] "" "new" "k")                    -- refused first member
  , .close 2 ]

example : InvL regDemo.tab regDemo.hs := reg_inv_reachable _ _
example : regDemo.hs.map (·.id) = [3, 1] := by decide +kernel
example : (liveRoutes regDemo.hs).length = 7 := by decide +kernel
example : (getVhost regDemo.tab.R (s "a.example.com") (s "/api/x") []).map (·.payload) = some 2 := by
  decide +kernel
example : (getVhost regDemo.tab.R (s "x.example.com") (s "/api") []).map (·.payload) = none := by
  decide +kernel
example : (getVhost regDemo.tab.R (s "t.sub.example.com") (s "/") []).map (·.payload) = some 2 := by
  decide +kernel
example : ((getVhost regDemo.tab.R (s "c.example.com") (s "/") []).map (·.payload)).map
    (servers regDemo.tab) = some [3] := by decide +kernel

end C06
end Frp

/-! ## Traffic interleaved with registration changes

  The property quantifies over "all register / unregister / re-register histories INTERLEAVED WITH TRAFFIC".
  The code keeps no memory of earlier lookups: `HTTPReverseProxy.getVhost` (pkg/util/vhost/http.go) and
  `Muxer.getListener` (pkg/util/vhost/vhost.go) read the route index and nothing else, and a request writes
  nothing a later lookup reads.  So a request is an event that leaves the state alone, and its answer is a
  function of the table at that moment — whatever the same (host, path, user) was resolved to earlier, however
  often, and whichever kind of change (plain proxy, group member joining or leaving, first or last member of a
  group) happened in between. -/
namespace Frp
namespace C06
open Str Router VhostReg

/-- a request as the lookup sees it -/
structure Query where
  host : Str
  path : Str
  user : Str
deriving DecidableEq, Repr

/-- one event at the server: a registration change (`Run` / `Close` of a proxy) or a request -/
inductive TOp
  | chg (o : ROp)
  | req (q : Query)

/-- the lookup of the code: the walk over the route table as it is NOW; nothing else is read -/
def lookup (S : St) (q : Query) : Option Route := getVhost S.tab.R q.host q.path q.user

/-- one event: a change moves the state and answers nothing, a request is answered and moves nothing -/
def tstep (sh : Str) (S : St) : TOp → St × List (Option Route)
  | .chg o => (rapply sh S o, [])
  | .req q => (S, [lookup S q])

/-- the server run over a history with traffic: final state and the answers given, in order -/
def trun (sh : Str) (S : St) : List TOp → St × List (Option Route)
  | [] => (S, [])
  | op :: ops => ((trun sh (tstep sh S op).1 ops).1, (tstep sh S op).2 ++ (trun sh (tstep sh S op).1 ops).2)

/-- the registration changes of a history, traffic erased -/
def changes : List TOp → List ROp
  | [] => []
  | .chg o :: ops => o :: changes ops
  | .req _ :: ops => changes ops

/-- every request of a history together with everything that happened before it -/
def reqPoints : List TOp → List (List TOp × Query)
  | [] => []
  | .chg o :: ops => (reqPoints ops).map (fun e => (.chg o :: e.1, e.2))
  | .req q :: ops => ([], q) :: (reqPoints ops).map (fun e => (.req q :: e.1, e.2))

/-- the state reached from `S` by the registration changes alone -/
def rfrom (sh : Str) (S : St) (ops : List ROp) : St := ops.foldl (rapply sh) S

/-- **Traffic leaves no trace**: the state after a history with requests is the state after the same
    history with the requests erased. -/
theorem traffic_leaves_no_trace (sh : Str) (ops : List TOp) :
    ∀ S : St, (trun sh S ops).1 = rfrom sh S (changes ops) := by
  induction ops with
  | nil => intro S; rfl
  | cons op ops ih =>
    intro S
    cases op with
    | chg o => simp only [trun, tstep, changes, rfrom, List.foldl_cons]; exact ih _
    | req q => simp only [trun, tstep, changes]; exact ih _

/-- **The lookup depends on the current table only.**  For every history of registration changes with
    requests interleaved anywhere (the same request any number of times, before and after any change), the
    answers given are, request by request, the lookup in the table produced by the registration changes that
    precede the request — the requests that precede it (what they asked, what they were answered) do not
    enter. -/
theorem lookup_depends_only_on_table (sh : Str) (ops : List TOp) :
    ∀ S : St, (trun sh S ops).2 = (reqPoints ops).map (fun e => lookup (rfrom sh S (changes e.1)) e.2) := by
  induction ops with
  | nil => intro S; rfl
  | cons op ops ih =>
    intro S
    cases op with
    | chg o =>
      simp only [trun, tstep, reqPoints, List.nil_append, List.map_map]
      rw [ih]
      apply List.map_congr_left
      intro e _
      simp only [Function.comp, changes, rfrom, List.foldl_cons]
    | req q =>
      simp only [trun, tstep, reqPoints, List.map_cons, List.map_map, List.singleton_append]
      rw [ih]
      congr 1

/-- two histories with the same registration changes — their traffic may differ in any way — answer a
    further request alike; and so do any two states whose route tables are equal -/
theorem same_changes_same_answer (sh : Str) (S : St) (h1 h2 : List TOp) (q : Query)
    (h : changes h1 = changes h2) : lookup (trun sh S h1).1 q = lookup (trun sh S h2).1 q := by
  rw [traffic_leaves_no_trace, traffic_leaves_no_trace, h]

theorem same_table_same_answer (S S' : St) (q : Query) (h : S.tab.R = S'.tab.R) : lookup S q = lookup S' q := by
  unfold lookup; rw [h]

/-- `a` is a correct answer to `q` in state `S`: the C06 predicate with respect to the routes the proxies
    live in `S` stand for, for every proxy instance the chosen route hands the request to -/
def Good (S : St) (q : Query) (a : Option Route) : Prop :=
  match a with
  | none => HoldsOn (liveRoutes S.hs) q.host q.path q.user none
  | some r => (∃ id, Serves S.tab r.payload id) ∧
      ∀ id, Serves S.tab r.payload id → HoldsOn (liveRoutes S.hs) q.host q.path q.user (some id)

/-- **Most specific live route for every request of every history with traffic.**  The i-th answer given
    during any history (from the empty server) belongs to the i-th request and is correct with respect to the
    proxies live after exactly the registration changes that precede that request: a route closed before it
    is not used (from the next request on), a route registered before it — by a plain proxy or as a group's
    first member — is, however the same request was answered earlier. -/
theorem traffic_most_specific (sh : Str) (ops : List TOp) (i : Nat) (a : Option Route)
    (h : (trun sh St.empty ops).2[i]? = some a) :
    ∃ e, (reqPoints ops)[i]? = some e ∧ Good (rrun sh (changes e.1)) e.2 a := by
  rw [lookup_depends_only_on_table, List.getElem?_map] at h
  cases he : (reqPoints ops)[i]? with
  | none => rw [he] at h; cases h
  | some e =>
    rw [he] at h
    refine ⟨e, rfl, ?_⟩
    have ha : a = lookup (rrun sh (changes e.1)) e.2 := (Option.some.inj h).symm
    subst ha
    have hI := reg_inv_reachable sh (changes e.1)
    have := reg_lookup_most_specific hI e.2.host e.2.path e.2.user
    unfold Good lookup
    exact this

/-! ### non-vacuity: the same request before and after a plain proxy, a group's first member, a second
       member, a member leaving, the last member leaving -/

def qDemo : Query := { host := s "c.example.com", path := s "/api/users", user := [] }

def trafficDemo : List TOp :=
  [ .chg (.run 1 (cfgDemo "wild" ["*.example.com"] "" [] "" "" "")), .req qDemo
  , .chg (.run 2 (cfgDemo "g1" ["c.example.com"] "" ["/api"] "" "grp" "k")), .req qDemo, .req qDemo
  , .chg (.run 3 (cfgDemo "g2" ["c.example.com"] "" ["/api"] "" "grp" "k")), .req qDemo
  , .chg (.close 2), .req qDemo
  , .chg (.close 3), .req qDemo
  , .chg (.close 1), .req qDemo ]

example : (reqPoints trafficDemo).length = 7 := by decide +kernel
example : ((trun shDemo St.empty trafficDemo).2.map (fun a => a.map (·.payload))) =
    [some 2, some 1, some 1, some 1, some 1, some 2, none] := by decide +kernel

end C06
end Frp

/-! ## Credentials of the route a request is forwarded along (http load-balancing groups)

  Not a clause of C06 (which proxy gets the request) but of C07 ("no request is forwarded to the protected
  backend unless it presents exactly that user name and password") and C13 ("joins only with the same public
  endpoint parameters"); it lives here because the `vreg` engine is where real http groups meet the real
  `HTTPReverseProxy`.  On this tree the clause is FALSE for groups whose members are configured with different
  credentials (`httpGroup_creds_witness`); it holds when all joins carry the same credentials
  (`httpGroup_creds_partial`) and, for all histories, once joins compare them (`httpGroup_creds_checked_sound`,
  switch `VhostReg.groupChecksCreds`, repair hooks/C06-fix-httpgroup-credentials.patch). -/
namespace Frp
namespace C06
open Str VhostReg

/-- whoever is handed a request was configured with exactly the credentials it carries, or with none -/
def CredsSound (g : Option CGroup) : Prop :=
  ∀ u p id, id ∈ cserve g u p → ∀ m ∈ cmembers g, m.1 = id → checkAuth m.2 u p = true

/-- every member is configured with the credentials of the group's route -/
def Uniform : Option CGroup → Prop
  | none => True
  | some g => ∀ m ∈ g.members, m.2 = g.route

theorem uniform_sound {g : Option CGroup} (h : Uniform g) : CredsSound g := by
  intro u p id hid m hm _
  cases g with
  | none => cases hm
  | some g =>
    simp only [cserve] at hid
    split at hid
    · rename_i hc
      rw [h m hm]; exact hc
    · cases hid

/-- one join / leave keeps the group uniform if the join compares credentials or happens to carry the route's -/
theorem uniform_step {chk : Bool} {g : Option CGroup} (h : Uniform g) (op : GOp)
    (hop : chk = true ∨ ∀ id c, op = .join id c → ∀ g', g = some g' → c = g'.route) :
    Uniform (cstep chk g op) := by
  cases g with
  | none =>
    cases op with
    | join id c => simp [cstep, Uniform]
    | leave id => simp [cstep, Uniform]
  | some g =>
    cases op with
    | join id c =>
      simp only [cstep]
      split
      · exact h
      · rename_i hne
        intro m hm
        rcases List.mem_append.mp hm with hm | hm
        · exact h m hm
        · simp only [List.mem_singleton] at hm
          subst hm
          rcases hop with hchk | hsame
          · apply Decidable.byContradiction
            intro hc
            exact hne ⟨hchk, fun e => hc e.symm⟩
          · exact hsame id c rfl g rfl
    | leave id =>
      simp only [cstep]
      split
      · trivial
      · intro m hm
        exact h m (List.mem_filter.mp hm).1

/-- **With the comparison in place** every group reachable by any history of joins and leaves is uniform … -/
theorem httpGroup_checked_uniform (ops : List GOp) : Uniform (crun true ops) := by
  unfold crun
  suffices h : ∀ g, Uniform g → Uniform (ops.foldl (cstep true) g) from h none trivial
  induction ops with
  | nil => intro g h; exact h
  | cons op ops ih => intro g h; exact ih _ (uniform_step h op (Or.inl rfl))

/-- … hence nobody is handed a request that does not carry his own credentials (repaired code, all histories) -/
theorem httpGroup_creds_checked_sound (ops : List GOp) : CredsSound (crun true ops) :=
  uniform_sound (httpGroup_checked_uniform ops)

/-- all joins of a history carry the credentials `c` -/
def JoinsWith (c : Creds) (ops : List GOp) : Prop := ∀ id c', GOp.join id c' ∈ ops → c' = c

/-- **The code as it is**: sound for the histories in which all members are configured alike -/
theorem httpGroup_creds_partial (c : Creds) (ops : List GOp) (hj : JoinsWith c ops) :
    CredsSound (crun false ops) := by
  apply uniform_sound
  unfold crun
  suffices h : ∀ g, (Uniform g ∧ ∀ g', g = some g' → g'.route = c) → JoinsWith c ops →
      Uniform (ops.foldl (cstep false) g) from h none ⟨trivial, fun _ e => by cases e⟩ hj
  clear hj
  induction ops with
  | nil => intro g h _; exact h.1
  | cons op ops ih =>
    intro g h hj
    have hj' : JoinsWith c ops := fun id c' hm => hj id c' (List.mem_cons_of_mem _ hm)
    refine ih _ ⟨uniform_step h.1 op (Or.inr ?_), ?_⟩ hj'
    · intro id c' e g' eg
      subst e
      rw [h.2 g' eg]
      exact hj id c' List.mem_cons_self
    · intro g' eg
      cases g with
      | none =>
        cases op with
        | join id c' =>
          simp only [cstep, Option.some.injEq] at eg
          subst eg
          exact hj id c' List.mem_cons_self
        | leave id => simp [cstep] at eg
      | some g0 =>
        have h0 := h.2 g0 rfl
        cases op with
        | join id c' =>
          simp only [cstep] at eg
          split at eg
          · cases eg; exact h0
          · cases eg; exact h0
        | leave id =>
          simp only [cstep] at eg
          split at eg
          · cases eg
          · cases eg; exact h0

/-- **Witness (the code as it is)**: an unprotected proxy opens the group, a protected one joins; a request
    without credentials passes `CheckAuth` (the route is the first member's) and may be handed to the protected
    member. -/
def credsWitness : List GOp := [.join 1 ([], []), .join 2 (s "u", s "pw")]

theorem httpGroup_creds_witness : ¬ CredsSound (crun false credsWitness) := by
  intro h
  have := h [] [] 2 (by decide +kernel) (2, (s "u", s "pw")) (by decide +kernel) rfl
  revert this
  decide +kernel

/-- the same history is refused at the join by the repaired code -/
example : crun true credsWitness = some { route := ([], []), members := [(1, ([], []))] } := by decide +kernel

/-- executable form for the driver: proxy `id`, configured with `c`, was handed a request carrying (u, p) -/
def credsOk (c : Creds) (u p : Str) : Bool := checkAuth c u p

end C06
end Frp

/-! ## Host spellings: letter case, port suffix and trailing dot are ignored
       (pkg/util/http/http.go `CanonicalHost`, model Frp/Model/Host.lean) -/
namespace Frp
namespace C06
open Str Router Host

/-- a way to write a host name in a request: the name (in any letter case), optionally the trailing
    dot of a fully qualified name, optionally a port suffix -/
def spell (name : Str) (dotted : Bool) (port : Option Str) : Str :=
  name ++ (if dotted then [dot] else []) ++ (match port with | none => [] | some p => colon :: p)

/-- no colon, no bracket -/
def Plain (s : Str) : Prop := colon ∉ s ∧ lbr ∉ s ∧ rbr ∉ s

/-- a plain host name (not an IP literal in brackets) that does not itself end in a dot -/
def PlainName (n : Str) : Prop := Plain n ∧ n.getLast? ≠ some dot

instance (s : Str) : Decidable (Plain s) := by unfold Plain; infer_instance
instance (n : Str) : Decidable (PlainName n) := by unfold PlainName; infer_instance

private theorem lowerB_eq_iff (c x : Nat) (hx : x = colon ∨ x = lbr ∨ x = rbr ∨ x = dot) :
    lowerB c = x ↔ c = x := by
  unfold lowerB colon lbr rbr dot at *
  split <;> omega

private theorem not_mem_toLower {s : Str} {x : Nat} (hx : x = colon ∨ x = lbr ∨ x = rbr ∨ x = dot)
    (h : x ∉ s) : x ∉ toLower s := by
  intro hm
  obtain ⟨c, hc, e⟩ := List.mem_map.mp hm
  rw [(lowerB_eq_iff c x hx).mp e] at hc
  exact h hc

private theorem plain_toLower {s : Str} (h : Plain s) : Plain (toLower s) :=
  ⟨not_mem_toLower (Or.inl rfl) h.1, not_mem_toLower (Or.inr (Or.inl rfl)) h.2.1,
   not_mem_toLower (Or.inr (Or.inr (Or.inl rfl))) h.2.2⟩

private theorem plainName_toLower {n : Str} (h : PlainName n) : PlainName (toLower n) := by
  refine ⟨plain_toLower h.1, ?_⟩
  intro e
  unfold toLower at e
  rw [List.getLast?_map] at e
  cases hl : n.getLast? with
  | none => rw [hl] at e; cases e
  | some c =>
    rw [hl] at e
    simp only [Option.map_some, Option.some.injEq] at e
    rw [(lowerB_eq_iff c dot (Or.inr (Or.inr (Or.inr rfl)))).mp e] at hl
    exact h.2 hl

private theorem toLower_spell (name : Str) (dotted : Bool) (port : Option Str) :
    toLower (spell name dotted port) = spell (toLower name) dotted (port.map toLower) := by
  unfold spell toLower
  cases dotted <;> cases port <;> simp [lowerB_dot] <;> decide

private theorem count_eq_zero {c : Nat} {s : Str} (h : c ∉ s) : count c s = 0 := by
  unfold count
  rw [List.length_eq_zero_iff, List.filter_eq_nil_iff]
  intro a ha e
  simp only [decide_eq_true_eq] at e
  exact h (e ▸ ha)

private theorem trimDot_dotted (n : Str) : trimDot (n ++ [dot]) = n := by
  unfold trimDot
  simp

private theorem trimDot_plain {n : Str} (h : n.getLast? ≠ some dot) : trimDot n = n := by
  unfold trimDot
  split
  · rename_i c rest hr
    split
    · rename_i hc
      exfalso; apply h
      rw [List.getLast?_eq_head?_reverse, hr, hc]; rfl
    · rfl
  · rfl

private theorem indexOf_append {c : Nat} {x y : Str} (h : c ∉ x) :
    indexOf c (x ++ c :: y) = some x.length := by
  induction x with
  | nil => simp [indexOf]
  | cons a xs ih =>
    have ha : a ≠ c := fun e => h (by simp [e])
    have hxs : c ∉ xs := fun e => h (by simp [e])
    simp [indexOf, ha, ih hxs]

private theorem lastIndexOf_append {c : Nat} {a b : Str} (h : c ∉ b) :
    lastIndexOf c (a ++ c :: b) = some a.length := by
  unfold lastIndexOf
  have hrev : (a ++ c :: b).reverse = b.reverse ++ c :: a.reverse := by simp
  rw [hrev, indexOf_append (by simpa using h)]
  simp only [Option.map_some, List.length_append, List.length_cons, List.length_reverse,
    Option.some.injEq]
  omega

private theorem head_ne_of_not_mem {c : Nat} {s : Str} (h : c ∉ s) : s.head? ≠ some c := by
  intro e
  cases s with
  | nil => cases e
  | cons a t => simp only [List.head?_cons, Option.some.injEq] at e; exact h (by simp [e])

private theorem contains_false {c : Nat} {s : Str} (h : c ∉ s) : s.contains c = false := by
  simpa using h

/-- `CanonicalHost` of a lower-case plain name with optional dot and port is the name -/
private theorem canonical_lower {n : Str} (dotted : Bool) (port : Option Str) (hn : PlainName n)
    (hl : toLower n = n) (hp : ∀ p, port = some p → Plain p ∧ toLower p = p) :
    canonicalHost (spell n dotted port) = some n := by
  obtain ⟨⟨hc, hlb, hrb⟩, hlast⟩ := hn
  -- the name with its optional dot
  have ha : ∃ a : Str, a = n ++ (if dotted then [dot] else []) ∧ colon ∉ a ∧ lbr ∉ a ∧ rbr ∉ a ∧
      trimDot a = n ∧ toLower a = a := by
    refine ⟨_, rfl, ?_, ?_, ?_, ?_, ?_⟩
    · cases dotted <;> simp [hc, show colon ≠ dot by decide]
    · cases dotted <;> simp [hlb, show lbr ≠ dot by decide]
    · cases dotted <;> simp [hrb, show rbr ≠ dot by decide]
    · cases dotted
      · simpa using trimDot_plain hlast
      · simpa using trimDot_dotted n
    · cases dotted
      · simpa using hl
      · simp only [toLower, List.map_append] at hl ⊢
        rw [hl]; simp [lowerB_dot]
  obtain ⟨a, hae, hac, halb, harb, hat, hal⟩ := ha
  unfold spell
  rw [← hae]
  cases port with
  | none =>
    simp only [List.append_nil]
    unfold canonicalHost
    simp only [hal]
    have : hasPort a = false := by unfold hasPort; simp [count_eq_zero hac]
    rw [this]; simp [hat]
  | some p =>
    obtain ⟨⟨hpc, hplb, hprb⟩, hpl⟩ := hp p rfl
    have hlow : toLower (a ++ colon :: p) = a ++ colon :: p := by
      simp only [toLower, List.map_append, List.map_cons] at hal hpl ⊢
      rw [hal, hpl]; rfl
    have hcount : count colon (a ++ colon :: p) = 1 := by
      unfold count
      rw [List.filter_append, List.filter_cons]
      have h1 := count_eq_zero hac
      have h2 := count_eq_zero hpc
      unfold count at h1 h2
      simp [List.length_append, h1, h2]
    have hnl : lbr ∉ a ++ colon :: p := by simp [halb, hplb, show lbr ≠ colon by decide]
    have hnr : rbr ∉ a ++ colon :: p := by simp [harb, hprb, show rbr ≠ colon by decide]
    unfold canonicalHost
    simp only [hlow]
    have hhp : hasPort (a ++ colon :: p) = true := by unfold hasPort; simp [hcount]
    rw [hhp]
    simp only [if_true]
    have hsplit : splitHostPort (a ++ colon :: p) = some a := by
      unfold splitHostPort
      rw [lastIndexOf_append hpc]
      simp only
      rw [if_neg (head_ne_of_not_mem hnl)]
      simp only [List.take_left', contains_false hac, contains_false hnl, contains_false hnr]
      simp
    rw [hsplit]; simp [hat]

/-- **Host comparison ignores letter case, a port suffix and a trailing dot**: every spelling of a
    plain name — any letter case, with or without the trailing dot, with or without a port — has the
    lower-case name as canonical host, so all spellings of one name are routed alike. -/
theorem canonicalHost_spell (name : Str) (dotted : Bool) (port : Option Str) (hn : PlainName name)
    (hp : ∀ p, port = some p → Plain p) :
    canonicalHost (spell name dotted port) = some (toLower name) := by
  have h1 : canonicalHost (spell name dotted port) =
      canonicalHost (spell (toLower name) dotted (port.map toLower)) := by
    unfold canonicalHost
    rw [toLower_spell, toLower_spell, toLower_idem]
    have : (port.map toLower).map toLower = port.map toLower := by
      cases port <;> simp [toLower_idem]
    rw [this]
  rw [h1]
  apply canonical_lower dotted _ (plainName_toLower hn) (toLower_idem name)
  intro p hpe
  cases port with
  | none => cases hpe
  | some q =>
    simp only [Option.map_some, Option.some.injEq] at hpe
    subst hpe
    exact ⟨plain_toLower (hp q rfl), toLower_idem q⟩

/-- the port suffix, if any, has no colon and no bracket (digits in practice) -/
def PortPlain : Option Str → Prop
  | none => True
  | some p => Plain p

instance (port : Option Str) : Decidable (PortPlain port) := by
  cases port <;> unfold PortPlain <;> infer_instance

/-- the answer `res` (canonical host or error) of the implementation for a spelling of `name`
    (with or without the dot, with port suffix `port`) is what the property demands -/
def SpellHolds (name : Str) (port : Option Str) (res : Option Str) : Prop :=
  PlainName name → PortPlain port → res = some (toLower name)

instance (name : Str) (port : Option Str) (res : Option Str) :
    Decidable (SpellHolds name port res) := by
  unfold SpellHolds; infer_instance

def spellHoldsOn (name : Str) (port : Option Str) (res : Option Str) : Bool :=
  decide (SpellHolds name port res)

theorem spellHoldsOn_sound (name : Str) (port : Option Str) (res : Option Str) :
    spellHoldsOn name port res = true ↔ SpellHolds name port res := by
  simp [spellHoldsOn]

theorem model_spellHolds (name : Str) (dotted : Bool) (port : Option Str) :
    SpellHolds name port (canonicalHost (spell name dotted port)) :=
  fun hn hp => canonicalHost_spell name dotted port hn
    (fun p e => by subst e; exact hp)

/-- **Routed requests**: for every reachable route table, a request whose Host is any spelling of a
    plain name is answered as the C06 predicate demands for the lower-case name itself
    (`ServeHTTP` / `readHTTPConnectRequest` look up `CanonicalHost(req.Host)`). -/
theorem spelled_lookup_holds {R : Routers} (hR : Router.Inv R) (all : List Route)
    (hall : ∀ r, r ∈ all ↔ Registered R r) (name : Str) (dotted : Bool) (port : Option Str)
    (hn : PlainName name) (hp : ∀ p, port = some p → Plain p) (path user : Str) :
    HoldsOn all (toLower name) path user
      ((getVhost R ((canonicalHost (spell name dotted port)).getD []) path user).map (·.payload)) := by
  rw [canonicalHost_spell name dotted port hn hp]
  exact model_holdsOn hR all hall (toLower name) path user

example : canonicalHost (spell (s "App.Example.com") true (some (s "8080"))) = some (s "app.example.com") := by
  decide +kernel
example : PlainName (s "App.Example.com") := by decide +kernel

end C06
end Frp
