import Frp.Lemmas.Router
/-
  C06 — Virtual-host routing always picks the most specific matching route.

  Model: Frp/Model/Router.lean (pkg/util/vhost/router.go, getVhost / getListener).
  All statements are about *every* reachable route table (any history of Add/Del), every host,
  path and user.
-/
namespace Frp
namespace C06
open Str Router

/-! ## Reachable tables -/

inductive Op
  | add (domain location user : Str) (payload : Nat)
  | del (domain location user : Str)

def apply (R : Routers) : Op → Routers
  | .add d l u p => (add R d l u p).1
  | .del d l u => del R d l u

def run (ops : List Op) : Routers := ops.foldl apply empty

/-- every table reachable by any history of registrations and removals satisfies the invariant
    (buckets strictly sorted by location descending — hence no duplicate triple —, routes filed
    under their own lower-cased domain and user). -/
theorem inv_reachable (ops : List Op) : Router.Inv (run ops) := by
  unfold run
  suffices h : ∀ R, Router.Inv R → Router.Inv (ops.foldl apply R) from h _ inv_empty
  induction ops with
  | nil => intro R h; exact h
  | cons op ops ih =>
    intro R h
    apply ih
    cases op with
    | add d l u p => exact inv_add h d l u p
    | del d l u => exact inv_del h d l u

/-! ## Specification, written independently of the lookup walk -/

/-- `r` is registered in table `R` -/
def Registered (R : Routers) (r : Route) : Prop := r ∈ R r.domain r.user

/-- the host patterns that match a (lower-cased) host, most specific first -/
def hostPatterns (host : Str) : List Str := (levels host).map toLower

/-- a route matches a request -/
def Matches (r : Route) (host path user : Str) : Prop :=
  r.domain ∈ hostPatterns host ∧ (r.user = user ∨ r.user = []) ∧ r.location <+: path

def hostRank (host : Str) (r : Route) : Nat := (hostPatterns host).idxOf r.domain
def userRank (user : Str) (r : Route) : Nat := if r.user = user then 0 else 1

/-- lexicographic specificity: host pattern first, then user restriction, then location length -/
def AtLeastAsSpecific (host user : Str) (a b : Route) : Prop :=
  hostRank host a < hostRank host b ∨
  (hostRank host a = hostRank host b ∧
    (userRank user a < userRank user b ∨
     (userRank user a = userRank user b ∧ b.location.length ≤ a.location.length)))

/-! ### what the pattern list looks like (so that `hostRank` means what the property says) -/

/-- the i-th wildcard pattern replaces the first i+1 labels by `*` and keeps ≥ 2 fixed labels;
    longer kept suffixes come first. -/
theorem wildLevels_eq (labels : List Str) :
    wildLevels labels =
      (List.range (labels.length - 2)).map (fun i => joinWith dot ([star] :: labels.drop (i + 1))) := by
  induction labels with
  | nil => simp [wildLevels]
  | cons l rest ih =>
    unfold wildLevels
    split
    · rename_i h
      simp only [List.length_cons] at h
      have : rest.length + 1 - 2 = (rest.length - 2) + 1 := by omega
      rw [List.length_cons, this, List.range_succ_eq_map, List.map_cons, ih]
      simp [List.map_map, Function.comp_def]
    · rename_i h
      simp only [List.length_cons] at h
      have : rest.length + 1 - 2 = 0 := by omega
      simp [this]

theorem levels_head (host : Str) : (levels host).head? = some host := rfl
theorem levels_last (host : Str) : (levels host).getLast? = some [star] := by
  simp [levels, List.getLast?_cons, List.getLast?_append]

/-! ## Theorems -/

/-- `Get`: the result is in the bucket, its location is a prefix of the path, and no route of that
    bucket with a longer location is a prefix of the path. -/
theorem get_longest {R : Routers} (hR : Router.Inv R) {host path user : Str} {r : Route}
    (h : get R host path user = some r) :
    r ∈ R (toLower host) user ∧ r.location <+: path ∧
    ∀ r' ∈ R (toLower host) user, r'.location <+: path → r'.location.length ≤ r.location.length :=
  find_longest (hR.desc _ _) h

theorem get_none {R : Routers} {host path user : Str} (h : get R host path user = none) :
    ∀ r' ∈ R (toLower host) user, ¬ r'.location <+: path :=
  find_none h

private theorem findRouter_lower (R : Routers) (d path user : Str) :
    findRouter R (toLower d) path user = findRouter R d path user := by
  simp [findRouter, Router.get, toLower_idem]

private theorem idxOf_ge_of_not_mem {l₁ rest : List Str} {a : Str} (h : a ∉ l₁) :
    l₁.length ≤ (l₁ ++ rest).idxOf a := by
  induction l₁ with
  | nil => simp
  | cons x xs ih =>
    have hx : ¬ x = a := fun e => h (by simp [e])
    have hxs : a ∉ xs := fun e => h (by simp [e])
    simp only [List.cons_append, List.idxOf_cons, List.length_cons]
    have : (x == a) = false := by simpa using hx
    simp only [this, cond_false]
    have := ih hxs
    omega

private theorem idxOf_append_le {l₁ l₂ : List Str} {a : Str} : (l₁ ++ a :: l₂).idxOf a ≤ l₁.length := by
  induction l₁ with
  | nil => simp
  | cons x xs ih =>
    simp only [List.cons_append, List.idxOf_cons, List.length_cons]
    by_cases e : x = a
    · simp [e]
    · have : (x == a) = false := by simpa using e
      simp only [this, cond_false]; omega

/-- **Most specific match.**  If the lookup returns `r`, then `r` is registered, matches the
    request, and is at least as specific as every registered matching route. -/
theorem getVhost_some {R : Routers} (hR : Router.Inv R) {host path user : Str} {r : Route}
    (h : getVhost R host path user = some r) :
    Registered R r ∧ Matches r host path user ∧
    ∀ r', Registered R r' → Matches r' host path user → AtLeastAsSpecific host user r r' := by
  unfold getVhost at h
  obtain ⟨l₁, a, l₂, hlev, hfa, hnone⟩ := List.findSome?_eq_some_iff.mp h
  -- facts about r
  have hr : r ∈ R (toLower a) r.user ∧ (r.user = user ∨ r.user = []) ∧ r.location <+: path ∧
      r.domain = toLower a := by
    unfold findRouter at hfa
    split at hfa
    · rename_i r0 hg
      have : r0 = r := Option.some.inj hfa
      subst this
      obtain ⟨hm, hp, _⟩ := get_longest hR hg
      have hk := hR.keyed _ _ _ hm
      exact ⟨by rw [hk.2]; exact hm, Or.inl hk.2, hp, hk.1⟩
    · rename_i hg
      obtain ⟨hm, hp, _⟩ := get_longest hR hfa
      have hk := hR.keyed _ _ _ hm
      exact ⟨by rw [hk.2]; exact hm, Or.inr hk.2, hp, hk.1⟩
  obtain ⟨hrm, hru, hrp, hrd⟩ := hr
  have hpat : hostPatterns host = l₁.map toLower ++ toLower a :: l₂.map toLower := by
    simp [hostPatterns, hlev]
  refine ⟨by unfold Registered; rw [hrd]; exact hrm, ⟨?_, hru, hrp⟩, ?_⟩
  · rw [hpat, hrd]; simp
  · intro r' hreg' hm'
    obtain ⟨hd', hu', hp'⟩ := hm'
    -- r' cannot sit at an earlier pattern
    have hnot : r'.domain ∉ l₁.map toLower := by
      intro hmem
      obtain ⟨x, hx, hxe⟩ := List.mem_map.mp hmem
      have hfx := hnone x hx
      rw [← findRouter_lower] at hfx
      unfold findRouter at hfx
      split at hfx
      · simp at hfx
      · rename_i hg1
        rcases hu' with hu' | hu'
        · have := get_none hg1 r' (by rw [toLower_idem, hxe, ← hu']; exact hreg')
          exact this hp'
        · have := get_none hfx r' (by rw [toLower_idem, hxe, ← hu']; exact hreg')
          exact this hp'
    have hrank_r : hostRank host r ≤ l₁.length := by
      unfold hostRank; rw [hpat, hrd]
      have := @idxOf_append_le (l₁.map toLower) (l₂.map toLower) (toLower a)
      simpa using this
    have hrank_r' : l₁.length ≤ hostRank host r' := by
      unfold hostRank; rw [hpat]
      have := @idxOf_ge_of_not_mem (l₁.map toLower) (toLower a :: l₂.map toLower) r'.domain hnot
      simpa using this
    unfold AtLeastAsSpecific
    by_cases hlt : hostRank host r < hostRank host r'
    · exact Or.inl hlt
    · right
      have heq : hostRank host r = hostRank host r' := by omega
      refine ⟨heq, ?_⟩
      -- same rank ⇒ same domain
      have hdom : r'.domain = r.domain := by
        unfold hostRank at heq
        have hmr : r.domain ∈ hostPatterns host := by rw [hpat, hrd]; simp
        have h1 := List.getElem_idxOf (List.idxOf_lt_length_of_mem hmr)
        have h2 := List.getElem_idxOf (List.idxOf_lt_length_of_mem hd')
        rw [← h1, ← h2]
        simp only [heq]
      have hreg'' : r' ∈ R (toLower a) r'.user := by
        unfold Registered at hreg'; rw [hdom, hrd] at hreg'; exact hreg'
      unfold findRouter at hfa
      split at hfa
      · rename_i r0 hg
        have : r0 = r := Option.some.inj hfa
        subst this
        obtain ⟨hm, _, hall⟩ := get_longest hR hg
        have hk := hR.keyed _ _ _ hm
        by_cases hru' : r'.user = user
        · right
          refine ⟨by simp [userRank, hk.2, hru'], ?_⟩
          apply hall r' _ hp'
          rw [← hru']; exact hreg''
        · left
          simp [userRank, hk.2, hru']
      · rename_i hg1
        obtain ⟨hm, _, hall⟩ := get_longest hR hfa
        have hk := hR.keyed _ _ _ hm
        rcases hu' with hu' | hu'
        · exfalso
          exact get_none hg1 r' (by rw [← hu']; exact hreg'') hp'
        · right
          refine ⟨by simp [userRank, hk.2, hu'], ?_⟩
          apply hall r' _ hp'
          rw [← hu']; exact hreg''

/-- **Never a non-matching proxy / unmatched is refused.**  The lookup fails exactly when no
    registered route matches. -/
theorem getVhost_none {R : Routers} {host path user : Str}
    (h : getVhost R host path user = none) :
    ∀ r', Registered R r' → ¬ Matches r' host path user := by
  intro r' hreg' ⟨hd', hu', hp'⟩
  unfold getVhost at h
  rw [List.findSome?_eq_none_iff] at h
  obtain ⟨x, hx, hxe⟩ := List.mem_map.mp hd'
  have hfx := h x hx
  rw [← findRouter_lower] at hfx
  unfold findRouter at hfx
  split at hfx
  · simp at hfx
  · rename_i hg1
    unfold Registered at hreg'
    rcases hu' with hu' | hu'
    · exact get_none hg1 r' (by rw [toLower_idem, hxe, ← hu']; exact hreg') hp'
    · exact get_none hfx r' (by rw [toLower_idem, hxe, ← hu']; exact hreg') hp'

/-- Host comparison ignores letter case. -/
theorem getVhost_case (R : Routers) (host path user : Str) :
    hostPatterns host = hostPatterns (toLower host) →
    getVhost R (toLower host) path user = getVhost R host path user := by
  intro hp
  unfold getVhost
  have key : ∀ l : List Str, l.findSome? (fun d => findRouter R d path user)
      = (l.map toLower).findSome? (fun d => findRouter R d path user) := by
    intro l
    induction l with
    | nil => rfl
    | cons x xs ih => simp only [List.map_cons, List.findSome?_cons, findRouter_lower, ih]
  rw [key (levels host), key (levels (toLower host))]
  unfold hostPatterns at hp
  rw [hp]

/-- **Duplicate triple is refused** and the table is left unchanged; a non-duplicate is accepted. -/
theorem add_conflict_iff (R : Routers) (domain location user : Str) (payload : Nat) :
    (add R domain location user payload).2 = .conflict ↔
      ∃ r ∈ R (toLower domain) user, r.location = location := by
  unfold add
  simp only
  split
  · rename_i h
    simp only [List.any_eq_true, decide_eq_true_eq] at h
    simp [h]
  · rename_i h
    simp only [List.any_eq_true, decide_eq_true_eq] at h
    simp [h]

theorem add_conflict_unchanged (R : Routers) (domain location user : Str) (payload : Nat)
    (h : (add R domain location user payload).2 = .conflict) :
    (add R domain location user payload).1 = R := by
  unfold add at h ⊢
  simp only at h ⊢
  split
  · rfl
  · rename_i hn; simp [hn] at h

/-- after a successful Add the new route is registered and every other route is as before -/
theorem add_ok_mem (R : Routers) (domain location user : Str) (payload : Nat)
    (h : (add R domain location user payload).2 = .ok) (d u : Str) (x : Route) :
    x ∈ (add R domain location user payload).1 d u ↔
      x ∈ R d u ∨ (d = toLower domain ∧ u = user ∧
        x = { domain := toLower domain, location := location, user := user, payload := payload }) := by
  unfold add at h ⊢
  simp only at h ⊢
  split
  · rename_i hc; simp [hc] at h
  · by_cases e : d = toLower domain ∧ u = user
    · obtain ⟨rfl, rfl⟩ := e
      show x ∈ upd R _ _ _ _ _ ↔ _
      rw [upd_same, mem_sortDesc]; simp
    · show x ∈ upd R _ _ _ _ _ ↔ _
      rw [upd_other _ _ _ _ _ _ e]
      constructor
      · exact Or.inl
      · rintro (h | ⟨h1, h2, _⟩)
        · exact h
        · exact absurd ⟨h1, h2⟩ e

/-- **Removing a route affects only that triple**: membership of every other route, in every
    bucket, is unchanged, and the removed triple is gone. -/
theorem del_mem (R : Routers) (domain location user : Str) (d u : Str) (x : Route) :
    x ∈ (del R domain location user) d u ↔
      x ∈ R d u ∧ ¬ (d = toLower domain ∧ u = user ∧ x.location = location) := by
  unfold del
  by_cases e : d = toLower domain ∧ u = user
  · obtain ⟨rfl, rfl⟩ := e
    rw [upd_same, List.mem_filter]; simp
  · rw [upd_other _ _ _ _ _ _ e]
    constructor
    · intro h; exact ⟨h, fun ⟨h1, h2, _⟩ => e ⟨h1, h2⟩⟩
    · exact fun h => h.1

/-- lookups in other buckets are literally unchanged by a removal (effective from the next Get) -/
theorem del_get_other (R : Routers) (domain location user host path u : Str)
    (h : ¬ (toLower host = toLower domain ∧ u = user)) :
    Router.get (del R domain location user) host path u = Router.get R host path u := by
  unfold Router.get del
  rw [upd_other _ _ _ _ _ _ h]

/-- once removed, a route is never returned again until re-registered -/
theorem del_not_returned {R : Routers} (hR : Router.Inv R) (domain location user host path u : Str) (r : Route)
    (h : getVhost (del R domain location user) host path u = some r) :
    ¬ (r.domain = toLower domain ∧ r.user = user ∧ r.location = location) := by
  have hinv := inv_del hR domain location user
  have hreg := (getVhost_some hinv h).1
  unfold Registered at hreg
  exact ((del_mem R domain location user _ _ r).mp hreg).2

/-! ## Non-vacuity: a concrete overlapping table -/

def s (x : String) : Str := Str.ofString x

def demo : Routers := run
  [ .add (s "A.Example.com") (s "/") [] 1
  , .add (s "a.example.com") (s "/ab") [] 2
  , .add (s "a.example.com") (s "/a") [] 3
  , .add (s "a.example.com") (s "/a") (s "alice") 4
  , .add (s "*.example.com") (s "/") [] 5
  , .add (s "*") (s "/") [] 6
  , .del (s "a.example.com") (s "/ab") [] ]

example : Router.Inv demo := inv_reachable _
example : (getVhost demo (s "a.example.com") (s "/ab/x") []).map (·.payload) = some 3 := by decide +kernel
example : (getVhost demo (s "a.example.com") (s "/ab/x") (s "alice")).map (·.payload) = some 4 := by decide +kernel
example : (getVhost demo (s "a.example.com") (s "/x") (s "alice")).map (·.payload) = some 1 := by decide +kernel
example : (getVhost demo (s "b.a.example.com") (s "/x") []).map (·.payload) = some 5 := by decide +kernel
example : (getVhost demo (s "example.org") (s "/x") []).map (·.payload) = some 6 := by decide +kernel
example : (add demo (s "A.example.COM") (s "/a") [] 9).2 = .conflict := by decide +kernel

end C06
end Frp

/-! ## Executable property predicate (run by the driver on implementation traces) -/
namespace Frp
namespace C06
open Str Router

instance (r : Route) (host path user : Str) : Decidable (Matches r host path user) := by
  unfold Matches; infer_instance
instance (host user : Str) (a b : Route) : Decidable (AtLeastAsSpecific host user a b) := by
  unfold AtLeastAsSpecific; infer_instance

/-- `res` (payload of the route the implementation chose, or none) is a correct answer for the
    request against the registered routes `all`. -/
def HoldsOn (all : List Route) (host path user : Str) (res : Option Nat) : Prop :=
  match res with
  | none => ∀ r ∈ all, ¬ Matches r host path user
  | some p => ∃ r ∈ all, r.payload = p ∧ Matches r host path user ∧
      ∀ r' ∈ all, Matches r' host path user → AtLeastAsSpecific host user r r'

instance (all : List Route) (host path user : Str) (res : Option Nat) :
    Decidable (HoldsOn all host path user res) := by
  unfold HoldsOn; cases res <;> infer_instance

def holdsOn (all : List Route) (host path user : Str) (res : Option Nat) : Bool :=
  decide (HoldsOn all host path user res)

theorem holdsOn_sound (all : List Route) (host path user : Str) (res : Option Nat) :
    holdsOn all host path user res = true ↔ HoldsOn all host path user res := by
  simp [holdsOn]

/-- the model's own answer always satisfies the predicate, for any list `all` that enumerates
    exactly the registered routes of a reachable table -/
theorem model_holdsOn {R : Routers} (hR : Router.Inv R) (all : List Route)
    (hall : ∀ r, r ∈ all ↔ Registered R r) (host path user : Str) :
    HoldsOn all host path user ((getVhost R host path user).map (·.payload)) := by
  unfold HoldsOn
  cases h : getVhost R host path user with
  | none =>
    simp only [Option.map_none]
    intro r hr
    exact getVhost_none h r ((hall r).mp hr)
  | some r =>
    simp only [Option.map_some]
    obtain ⟨hreg, hm, hbest⟩ := getVhost_some hR h
    exact ⟨r, (hall r).mpr hreg, rfl, hm, fun r' hr' hm' => hbest r' ((hall r').mp hr') hm'⟩

end C06
end Frp
