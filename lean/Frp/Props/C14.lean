import Frp.Model.Backoff
import Frp.Model.Watchdog
import Frp.Model.Reconnect
import Frp.Model.Dispatch
import Frp.Model.Liveness
import Frp.Props.C14Heal
import Frp.Props.C14Teardown
import Frp.Props.C14Live
/-
  C14 — Dead peers are detected and tunnels heal themselves (partial: wall-clock behaviour and
  goroutine scheduling are sampled by the `wait` engine, not proved).

  Part A: reconnect back-off (pkg/util/wait/backoff.go as used by client/service.go):
          no tight loop (positive lower bound on every delay), bounded delay (MaxDuration),
          bounded number of fast retries per window, bounded time to the next attempt.
  Part B: heartbeat watchdogs (server/control.go, client/control.go): silence longer than the
          timeout is detected at the first check after it; a fed watchdog never fires; invalid
          pings do not count; a pong with error closes; defaults / disabling.
  Part C: the two nested login loops of client/service.go (pacing of re-logins).
  Parts D, E (Frp/Props/C14Heal.lean): the end of a server session releases everything the session
          registered, for every interleaving, registrations in flight included; a (re-)login registers
          the configuration in force when it succeeds, for every history of reloads and outages.
  Part G: which events refresh the liveness clocks (Frp/Model/Liveness.lean): under frp's strict policy
          (only a verified Ping on the server, only a Pong without error on the client — read from the
          source on every run) no other traffic, valid or not, moves the clock: a peer that keeps sending
          NewProxy / CloseProxy / rejected pings, a server that keeps sending ReqWorkConn / NewProxyResp,
          is detected within timeout + checker period; any other policy provably keeps a dead peer alive.
  Part H (Frp/Props/C14Teardown.lean): the client's teardown (worker → pm.Close → Wrapper.Stop) reaches
          close(doneCh) from every state, whatever phase the check goroutines are in, if the send channel
          cannot fill up; FINDING: in frp as it is it does fill up with more than 100 proxies.
  Part F: the client's dispatcher in front of its watchdog (pkg/msg/handler.go, client/control.go
          registerMsgHandlers / handleReqWorkConn): with ReqWorkConn handled through AsyncHandler the
          read loop is never occupied, the watchdog sees every Pong when it is sent, a server that
          keeps answering is never torn down whatever work connections sit idle; with a plain handler
          one idle work connection starves the watchdog (theorem + witness); tie to the source.
  Parts I, J (Frp/Props/C14Live.lean, J continued at the end of this file): a dead session is torn down with LIVE
          user connections -- the teardown neither waits for nor depends on them; a `Close` that waits for its
          connection handlers keeps a silent peer's session for ever (tie: no `Close` of server/proxy waits);
          `Complete` never changes a written heartbeat setting, so a silent server is detected within the WRITTEN
          timeout plus one checker period (tie: the statements of the two Complete methods, interpreted).
-/
namespace Frp
namespace C14

section PartA
open Backoff

/-! ## Part A — back-off -/

/-- the options make sense: positive base delay, factor 0 (off) or ≥ 1, fast retries (if any) have a
    positive delay.  (`Factor < 1` lets `Duration(float64(d)*Factor)` truncate to 0.) -/
def WF (o : Opts) : Prop :=
  0 < o.duration ∧ (o.facNum = 0 ∨ (0 < o.facDen ∧ o.facDen ≤ o.facNum)) ∧ (o.frCount ≠ 0 → 0 < o.frDelay)

instance (o : Opts) : Decidable (WF o) := by unfold WF; exact inferInstance

/-- the exact positive lower bound of every delay the code hands out -/
def lowB (o : Opts) : Nat :=
  min o.duration
    (min (if o.frCount ≠ 0 then o.frDelay else o.duration)
      (min (emptyOr o.initIfFail second)
        (min second (if o.maxDuration ≠ 0 then o.maxDuration else second))))

/-- the exact upper bound when `MaxDuration > 0` -/
def upB (o : Opts) : Nat :=
  max o.duration (max o.maxDuration (if o.frCount ≠ 0 then jitterHi o.frDelay o.frJitNum o.frJitDen else 0))

theorem lowB_pos (o : Opts) (wf : WF o) : 0 < lowB o := by
  obtain ⟨h1, _, h3⟩ := wf
  unfold lowB emptyOr second
  split
  · rename_i hc
    have := h3 hc
    split <;> split <;> omega
  · split <;> split <;> omega

theorem mulFactor_ge (o : Opts) (wf : WF o) (d : Nat) : d ≤ mulFactor o d := by
  unfold mulFactor
  split
  · exact Nat.le_refl d
  · rcases wf.2.1 with h | ⟨hd, hle⟩
    · contradiction
    · exact (Nat.le_div_iff_mul_le hd).2 (Nat.mul_le_mul_left d hle)

theorem mulFactor_mono (o : Opts) {a b : Nat} (h : a ≤ b) : mulFactor o a ≤ mulFactor o b := by
  unfold mulFactor
  split
  · exact h
  · exact Nat.div_le_div_right (Nat.mul_le_mul_right _ h)

theorem cap_mono (o : Opts) {a b : Nat} (h : a ≤ b) : cap o a ≤ cap o b := by
  unfold cap
  split <;> split <;> omega

theorem cap_le_self (o : Opts) (d : Nat) : cap o d ≤ d := by
  unfold cap; split <;> omega

theorem cap_le_max (o : Opts) (h : o.maxDuration ≠ 0) (d : Nat) : cap o d ≤ o.maxDuration := by
  unfold cap; split <;> omega

theorem cap_ge (o : Opts) (L d : Nat) (hL : o.maxDuration ≠ 0 → L ≤ o.maxDuration) (h : L ≤ d) :
    L ≤ cap o d := by
  unfold cap; split
  · rename_i hc; exact hL hc.1
  · exact h

theorem lowB_le_max (o : Opts) (h : o.maxDuration ≠ 0) : lowB o ≤ o.maxDuration := by
  unfold lowB
  rw [if_pos h]
  omega

theorem slowBase_ge (o : Opts) (consec prev : Nat) (hp : prev = 0 ∨ lowB o ≤ prev) :
    lowB o ≤ slowBase o consec prev := by
  have h1 : lowB o ≤ second := by unfold lowB; omega
  have h2 : lowB o ≤ emptyOr o.initIfFail second := by unfold lowB; omega
  unfold slowBase
  unfold emptyOr at h2 ⊢
  split <;> split <;> (try split) <;> (try split at h2) <;> omega

theorem jitterHi_ge (d jn jd : Nat) : d ≤ jitterHi d jn jd := by
  unfold jitterHi; split <;> exact Nat.le_add_right _ _

theorem branch_fast {o : Opts} {s : St} {now : Nat} {err : Bool} (h : branch o s now err = .fast) :
    o.frCount ≠ 0 ∧ err = true ∧ s.counts + 1 ≤ o.frCount := by
  unfold branch at h
  split at h
  · cases h
  · split at h
    · split at h
      · rename_i h1 h2; exact ⟨h1.1, h1.2, h2⟩
      · split at h <;> cases h
    · split at h <;> cases h

theorem branch_slowReset {o : Opts} {s : St} {now : Nat} {err : Bool} (h : branch o s now err = .slowReset) :
    o.frCount < s.counts + 1 ∧ afterCutoff now s.cutoff = true := by
  unfold branch at h
  split at h
  · cases h
  · split at h
    · split at h
      · cases h
      · split at h
        · rename_i h2 h3; exact ⟨by omega, h3⟩
        · cases h
    · split at h <;> cases h

theorem branch_slowNoReset {o : Opts} {s : St} {now : Nat} {err : Bool} (h : branch o s now err = .slowNoReset) :
    o.frCount < s.counts + 1 ∧ afterCutoff now s.cutoff = false := by
  unfold branch at h
  split at h
  · cases h
  · split at h
    · split at h
      · cases h
      · split at h
        · cases h
        · rename_i h2 h3; exact ⟨by omega, by simpa using h3⟩
    · split at h <;> cases h

theorem branch_err_false {o : Opts} {s : St} {now : Nat} :
    branch o s now false = .first ∨ branch o s now false = .base := by
  unfold branch
  split
  · exact Or.inl rfl
  · simp

/-- interval of one call is non-empty and above the lower bound -/
theorem step_lo_ge (o : Opts) (wf : WF o) (s : St) (now prev : Nat) (err : Bool)
    (hp : prev = 0 ∨ lowB o ≤ prev) : lowB o ≤ (step o s now prev err).2.lo := by
  have hslow : ∀ consec r, lowB o ≤ (slowOut o consec prev r).lo := by
    intro consec r
    simp only [slowOut]
    exact cap_ge o _ _ (lowB_le_max o) (Nat.le_trans (slowBase_ge o consec prev hp) (mulFactor_ge o wf _))
  have hbase : ∀ k, lowB o ≤ (baseOut o k).lo := by
    intro k; simp only [baseOut]; unfold lowB; omega
  unfold step
  split
  · exact hbase _
  · rename_i hb
    have hf := (branch_fast hb).1
    simp only [fastOut]; unfold lowB; rw [if_pos hf]; omega
  · exact hslow _ _
  · exact hslow _ _
  · exact hslow _ _
  · exact hbase _

theorem step_lo_le_hi (o : Opts) (s : St) (now prev : Nat) (err : Bool) :
    (step o s now prev err).2.lo ≤ (step o s now prev err).2.hi := by
  have hslow : ∀ consec r, (slowOut o consec prev r).lo ≤ (slowOut o consec prev r).hi := by
    intro consec r
    simp only [slowOut]
    apply cap_mono
    split
    · exact jitterHi_ge _ _ _
    · exact Nat.le_refl _
  unfold step
  split
  · exact Nat.le_refl _
  · simp only [fastOut]; exact jitterHi_ge _ _ _
  · exact hslow _ _
  · exact hslow _ _
  · exact hslow _ _
  · exact Nat.le_refl _

/-- with `MaxDuration > 0` no call returns more than `upB` -/
theorem step_hi_le (o : Opts) (hm : o.maxDuration ≠ 0) (s : St) (now prev : Nat) (err : Bool) :
    (step o s now prev err).2.hi ≤ upB o := by
  have hslow : ∀ consec r, (slowOut o consec prev r).hi ≤ upB o := by
    intro consec r
    simp only [slowOut]
    exact Nat.le_trans (cap_le_max o hm _) (by unfold upB; omega)
  have hbase : ∀ k, (baseOut o k).hi ≤ upB o := by
    intro k; simp only [baseOut]; unfold upB; omega
  unfold step
  split
  · exact hbase _
  · rename_i hb
    have hf := (branch_fast hb).1
    simp only [fastOut]; unfold upB; rw [if_pos hf]; omega
  · exact hslow _ _
  · exact hslow _ _
  · exact hslow _ _
  · exact hbase _

/-- the slow path (what is returned after an error once the fast retries are used up) never
    exceeds `MaxDuration`, jitter included (the cap is applied after the jitter) -/
theorem slow_le_max (o : Opts) (hm : o.maxDuration ≠ 0) (consec prev : Nat) (r : Bool) :
    (slowOut o consec prev r).hi ≤ o.maxDuration := by
  simp only [slowOut]; exact cap_le_max o hm _

/-- after a success the code returns exactly `Duration` -/
theorem success_delay (o : Opts) (s : St) (now prev : Nat) :
    (step o s now prev false).2.lo = o.duration ∧ (step o s now prev false).2.hi = o.duration := by
  unfold step
  rcases @branch_err_false o s now with h | h <;> rw [h] <;> exact ⟨rfl, rfl⟩

/-- **No tight loop / bounded delay, all histories.**  Along any chained run (any times, any
    success/error sequence, any jitter draws) every delay is ≥ `lowB o` (> 0 by `lowB_pos`) and,
    when `MaxDuration > 0`, ≤ `upB o`. -/
theorem run_delays_bounded (o : Opts) (wf : WF o) :
    ∀ (cs : List Call) (s : St) (prev : Nat), (prev = 0 ∨ lowB o ≤ prev) → runOk o s prev cs = true →
      ∀ c ∈ cs, lowB o ≤ c.d ∧ (o.maxDuration ≠ 0 → c.d ≤ upB o) := by
  intro cs
  induction cs with
  | nil => intro s prev _ _ c hc; cases hc
  | cons a as ih =>
    intro s prev hp hr c hc
    simp only [runOk, Bool.and_eq_true, decide_eq_true_eq] at hr
    obtain ⟨⟨hlo, hhi⟩, hrest⟩ := hr
    have hge : lowB o ≤ a.d := Nat.le_trans (step_lo_ge o wf s a.now prev a.err hp) hlo
    rcases List.mem_cons.1 hc with h | h
    · subst h
      exact ⟨hge, fun hm => Nat.le_trans hhi (step_hi_le o hm s _ _ _)⟩
    · exact ih _ _ (Or.inr hge) hrest c h

/-- the loop as `BackoffUntil` starts it (first `Backoff(0,false)` for the ticker, then delay 0) -/
theorem loop_delays_bounded (o : Opts) (wf : WF o) (t0 : Nat) (cs : List Call)
    (hr : runOk o (loopStart o t0) 0 cs = true) :
    ∀ c ∈ cs, 0 < c.d ∧ lowB o ≤ c.d ∧ (o.maxDuration ≠ 0 → c.d ≤ upB o) := by
  intro c hc
  have h := run_delays_bounded o wf cs _ 0 (Or.inl rfl) hr c hc
  exact ⟨Nat.lt_of_lt_of_le (lowB_pos o wf) h.1, h.1, h.2⟩

/-- **Bounded reconnect delay (model).**  An attempt that ended at `c.now` is followed by the
    next attempt at `c.now + c.d`; if the server is reachable from `τ ≥ c.now` on, the next attempt
    starts no later than `τ + upB o`. -/
theorem next_attempt_within (o : Opts) (wf : WF o) (hm : o.maxDuration ≠ 0) (t0 : Nat) (cs : List Call)
    (hr : runOk o (loopStart o t0) 0 cs = true) (c : Call) (hc : c ∈ cs) (τ : Nat) (hτ : c.now ≤ τ) :
    c.now + c.d ≤ τ + upB o := by
  have := (loop_delays_bounded o wf t0 cs hr c hc).2.2 hm
  omega

/-! ### fast retries per window -/

/-- the state does not depend on `previousDuration` -/
theorem step_st_prev (o : Opts) (s : St) (now prev err) :
    (step o s now prev err).1 = (step o s now 0 err).1 := by
  unfold step
  split <;> rfl

theorem step_kind_prev (o : Opts) (s : St) (now prev err) :
    (step o s now prev err).2.kind = (step o s now 0 err).2.kind := by
  unfold step
  split <;> rfl

def mayReset (cutoff : Option Nat) (limit : Nat) : Bool :=
  match cutoff with
  | none => true
  | some c => decide (c < limit)

/-- how many fast delays a state with these `counts`/`cutoff` can still hand out for calls at
    times in `[a, limit]` -/
def budget (o : Opts) (counts : Nat) (cutoff : Option Nat) (limit : Nat) : Nat :=
  (o.frCount - counts) + (if mayReset cutoff limit = true then o.frCount else 0)

theorem budget_le (o : Opts) (counts : Nat) (cutoff : Option Nat) (limit : Nat) :
    budget o counts cutoff limit ≤ 2 * o.frCount := by
  unfold budget; split <;> omega

theorem fastCount_le_budget (o : Opts) (a : Nat) :
    ∀ (cs : List Call) (s : St), (∀ c ∈ cs, a ≤ c.now ∧ c.now ≤ a + o.frWindow) →
      fastCount o s cs ≤ budget o s.counts s.cutoff (a + o.frWindow) := by
  intro cs
  induction cs with
  | nil => intro s _; simp [fastCount]
  | cons c cs ih =>
    intro s hw
    have hc := hw c (List.mem_cons_self)
    have ih' := fun s' => ih s' (fun x hx => hw x (List.mem_cons_of_mem _ hx))
    simp only [fastCount]
    unfold step
    split
    · have := ih' { s with called := true }
      dsimp only at this
      simp only [baseOut]
      simpa using this
    · rename_i hb
      have hf := branch_fast hb
      have := ih' { s with consec := consecOf s c.err, counts := s.counts + 1 }
      dsimp only at this
      simp only [fastOut, if_true]
      unfold budget at this ⊢
      omega
    · rename_i hb
      have ⟨hgt, hafter⟩ := branch_slowReset hb
      have := ih' { s with consec := consecOf s c.err, cutoff := some (c.now + o.frWindow), counts := 0 }
      dsimp only at this
      have hmr : mayReset s.cutoff (a + o.frWindow) = true := by
        unfold mayReset
        unfold afterCutoff at hafter
        split
        · rfl
        · rename_i ct hct
          rw [hct] at hafter
          simp only [decide_eq_true_eq] at hafter ⊢
          omega
      have hnr : mayReset (some (c.now + o.frWindow)) (a + o.frWindow) = false := by
        simp only [mayReset, decide_eq_false_iff_not]; omega
      simp only [slowOut]
      unfold budget at this ⊢
      rw [hnr] at this
      rw [hmr]
      simp at this ⊢
      omega
    · rename_i hb
      have ⟨hgt, _⟩ := branch_slowNoReset hb
      have := ih' { s with consec := consecOf s c.err, counts := s.counts + 1 }
      dsimp only at this
      simp only [slowOut]
      unfold budget at this ⊢
      simp at this ⊢
      omega
    · have := ih' { s with consec := consecOf s c.err }
      dsimp only at this
      simp only [slowOut]
      simpa using this
    · have := ih' { s with consec := consecOf s c.err }
      dsimp only at this
      simp only [baseOut]
      simpa using this

/-- **Fast retries are rationed (what the code guarantees).**  From *any* state, the calls made
    within any time window of length `FastRetryWindow` contain at most `2·FastRetryCount` fast
    delays (one unfinished allowance plus one fresh one: the window is re-armed only by a call
    later than the previous cutoff). -/
theorem fast_per_window_le (o : Opts) (a : Nat) (s : St) (cs : List Call)
    (hw : ∀ c ∈ cs, a ≤ c.now ∧ c.now ≤ a + o.frWindow) : fastCount o s cs ≤ 2 * o.frCount :=
  Nat.le_trans (fastCount_le_budget o a cs s hw) (budget_le o _ _ _)

/-- after the window has been re-armed at `now`, it is not re-armed again by any call up to `now + FastRetryWindow` -/
theorem no_reset_before_cutoff (o : Opts) (s : St) (ct now prev : Nat) (err : Bool)
    (hc : s.cutoff = some ct) (hn : now ≤ ct) : (step o s now prev err).2.reset = false := by
  unfold step
  split
  · rfl
  · rfl
  · rename_i hb
    have h := (branch_slowReset hb).2
    rw [hc] at h; simp only [afterCutoff, decide_eq_true_eq] at h; omega
  · rfl
  · rfl
  · rfl

/-- The tidier reading "at most `FastRetryCount` fast retries per `FastRetryWindow`" (comment in
    client/service.go: "the first three retries in 1 minute") is NOT what the code does: with the
    real options, six consecutive failures within six seconds get five fast delays. -/
def sixErrors : List Call :=
  [⟨1 * second, true, 0⟩, ⟨2 * second, true, 0⟩, ⟨3 * second, true, 0⟩,
   ⟨4 * second, true, 0⟩, ⟨5 * second, true, 0⟩, ⟨6 * second, true, 0⟩]

theorem fast_per_window_count_witness :
    ¬ (fastCount outerOpts (loopStart outerOpts 0) sixErrors ≤ outerOpts.frCount) := by decide

/-! ### executable predicates used by the driver on the implementation's own results -/

/-- the smallest delay any *non-fast* call can return along a run -/
def nonFastFloor (o : Opts) : Nat := min o.duration (cap o (mulFactor o (lowB o)))

theorem step_nonfast_lo_ge (o : Opts) (wf : WF o) (s : St) (now prev : Nat) (err : Bool)
    (hp : prev = 0 ∨ lowB o ≤ prev) (hk : (step o s now prev err).2.kind ≠ .fast) :
    nonFastFloor o ≤ (step o s now prev err).2.lo := by
  have hslow : ∀ consec r, nonFastFloor o ≤ (slowOut o consec prev r).lo := by
    intro consec r
    simp only [slowOut]
    exact Nat.le_trans (Nat.min_le_right _ _) (cap_mono o (mulFactor_mono o (slowBase_ge o consec prev hp)))
  have hbase : ∀ k, nonFastFloor o ≤ (baseOut o k).lo := by
    intro k; simp only [baseOut]; exact Nat.min_le_left _ _
  unfold step at hk ⊢
  split
  · exact hbase _
  · rename_i hb; rw [hb] at hk; exact absurd rfl hk
  · exact hslow _ _
  · exact hslow _ _
  · exact hslow _ _
  · exact hbase _

/-- delays observed along a run that are too short to be anything but a fast retry -/
def shortCount (o : Opts) : List Call → Nat
  | [] => 0
  | c :: cs => (if c.d < nonFastFloor o then 1 else 0) + shortCount o cs

theorem short_le_fast (o : Opts) (wf : WF o) :
    ∀ (cs : List Call) (s : St) (prev : Nat), (prev = 0 ∨ lowB o ≤ prev) → runOk o s prev cs = true →
      shortCount o cs ≤ fastCount o s cs := by
  intro cs
  induction cs with
  | nil => intro s prev _ _; simp [shortCount, fastCount]
  | cons a as ih =>
    intro s prev hp hr
    simp only [runOk, Bool.and_eq_true, decide_eq_true_eq] at hr
    obtain ⟨⟨hlo, _⟩, hrest⟩ := hr
    have hge : lowB o ≤ a.d := Nat.le_trans (step_lo_ge o wf s a.now prev a.err hp) hlo
    have ih' := ih (step o s a.now prev a.err).1 a.d (Or.inr hge) hrest
    rw [step_st_prev] at ih'
    simp only [shortCount, fastCount]
    by_cases hk : (step o s a.now prev a.err).2.kind = .fast
    · rw [step_kind_prev] at hk
      rw [if_pos hk]
      split <;> omega
    · have := step_nonfast_lo_ge o wf s a.now prev a.err hp hk
      have hns : ¬ a.d < nonFastFloor o := by omega
      rw [if_neg hns]
      omega

/-- **What the driver checks on every delay the real manager returns** (and, through the window
    counter, on every trailing window): positive, ≥ `lowB`, ≤ `upB` when capped. -/
def delayHolds (o : Opts) (d : Nat) : Bool :=
  decide (0 < d) && decide (lowB o ≤ d) && (decide (o.maxDuration = 0) || decide (d ≤ upB o))

theorem delayHolds_sound (o : Opts) (d : Nat) :
    delayHolds o d = true ↔ (0 < d ∧ lowB o ≤ d ∧ (o.maxDuration ≠ 0 → d ≤ upB o)) := by
  unfold delayHolds
  simp only [Bool.and_eq_true, Bool.or_eq_true, decide_eq_true_eq]
  constructor
  · rintro ⟨⟨h1, h2⟩, h3⟩
    exact ⟨h1, h2, fun hm => h3.resolve_left hm⟩
  · rintro ⟨h1, h2, h3⟩
    refine ⟨⟨h1, h2⟩, ?_⟩
    by_cases hm : o.maxDuration = 0
    · exact Or.inl hm
    · exact Or.inr (h3 hm)

/-- the model satisfies the predicate on every delay it allows -/
theorem model_delayHolds (o : Opts) (wf : WF o) (s : St) (now prev : Nat) (err : Bool)
    (hp : prev = 0 ∨ lowB o ≤ prev) (d : Nat)
    (hlo : (step o s now prev err).2.lo ≤ d) (hhi : d ≤ (step o s now prev err).2.hi) :
    delayHolds o d = true := by
  rw [delayHolds_sound]
  have h1 := Nat.le_trans (step_lo_ge o wf s now prev err hp) hlo
  exact ⟨Nat.lt_of_lt_of_le (lowB_pos o wf) h1, h1, fun hm => Nat.le_trans hhi (step_hi_le o hm s now prev err)⟩

/-- the model satisfies the window predicate: short delays within one window never exceed `2·FastRetryCount` -/
theorem model_shortsHold (o : Opts) (wf : WF o) (a : Nat) (s : St) (prev : Nat) (cs : List Call)
    (hp : prev = 0 ∨ lowB o ≤ prev) (hr : runOk o s prev cs = true)
    (hw : ∀ c ∈ cs, a ≤ c.now ∧ c.now ≤ a + o.frWindow) : shortCount o cs ≤ 2 * o.frCount :=
  Nat.le_trans (short_le_fast o wf cs s prev hp hr) (fast_per_window_le o a s cs hw)

/-! ### the concrete loops of client/service.go and client/control.go -/

theorem outerOpts_wf : WF outerOpts := by decide
theorem loginOpts_wf (m : Nat) : WF (loginOpts m) := by
  unfold WF loginOpts second; simp
theorem pingOpts_wf (i : Nat) (hi : 0 < i) : WF (pingOpts i) := by
  unfold WF pingOpts second; simp; omega

theorem outer_bounds : lowB outerOpts = 200 * milli ∧ upB outerOpts = 20 * second := by decide
theorem login_bounds_20 : lowB (loginOpts (20 * second)) = second ∧ upB (loginOpts (20 * second)) = 20 * second := by decide
theorem login_bounds_10 : lowB (loginOpts (10 * second)) = second ∧ upB (loginOpts (10 * second)) = 10 * second := by decide

/-- keepControllerWorking: every wait between two reconnect rounds is in [200 ms, 20 s] -/
theorem outer_loop_delays (t0 : Nat) (cs : List Call) (hr : runOk outerOpts (loopStart outerOpts t0) 0 cs = true) :
    ∀ c ∈ cs, 200 * milli ≤ c.d ∧ c.d ≤ 20 * second := by
  intro c hc
  have h := loop_delays_bounded outerOpts outerOpts_wf t0 cs hr c hc
  have hb := outer_bounds
  rw [hb.1, hb.2] at h
  exact ⟨h.2.1, h.2.2 (by decide)⟩

/-- loopLoginUntilSuccess(20 s): every wait between two login attempts is in [1 s, 20 s] -/
theorem login_loop_delays (t0 : Nat) (cs : List Call)
    (hr : runOk (loginOpts (20 * second)) (loopStart (loginOpts (20 * second)) t0) 0 cs = true) :
    ∀ c ∈ cs, second ≤ c.d ∧ c.d ≤ 20 * second := by
  intro c hc
  have h := loop_delays_bounded _ (loginOpts_wf _) t0 cs hr c hc
  have hb := login_bounds_20
  rw [hb.1, hb.2] at h
  exact ⟨h.2.1, h.2.2 (by decide)⟩

/-- the client's ping sender never waits longer than the configured interval between two pings
    (Duration = MaxDuration = interval), whatever SetPing errors occur -/
theorem ping_gap_le_interval (i : Nat) (hi : 0 < i) (t0 : Nat) (cs : List Call)
    (hr : runOk (pingOpts i) (loopStart (pingOpts i) t0) 0 cs = true) :
    ∀ c ∈ cs, 0 < c.d ∧ c.d ≤ i * second := by
  intro c hc
  have h := loop_delays_bounded _ (pingOpts_wf i hi) t0 cs hr c hc
  have hm : (pingOpts i).maxDuration ≠ 0 := by unfold pingOpts second; simp; omega
  have hu : upB (pingOpts i) = i * second := by
    unfold upB pingOpts; simp
  exact ⟨h.1, hu ▸ h.2.2 hm⟩

/-! ### non-vacuity -/

-- a run of frpc's outer loop that meets `runOk`: fast, fast, slow (re-arming the window), fast
example : WF outerOpts ∧
    runOk outerOpts (loopStart outerOpts 0) 0
      [⟨1 * second, true, 250 * milli⟩, ⟨2 * second, true, 200 * milli⟩, ⟨3 * second, true, 440 * milli⟩,
       ⟨4 * second, true, 300 * milli⟩] = true := by decide

-- … and a delay outside the interval is rejected by `runOk` (the predicate is not trivially true)
example : runOk outerOpts (loopStart outerOpts 0) 0 [⟨1 * second, true, 100 * milli⟩] = false := by decide

-- the window hypothesis of `fast_per_window_le` is met by `sixErrors` (a = 1 s), and the bound 2·3 is not vacuous: 5 are used
example : (∀ c ∈ sixErrors, 1 * second ≤ c.now ∧ c.now ≤ 1 * second + outerOpts.frWindow) ∧
    fastCount outerOpts (loopStart outerOpts 0) sixErrors = 5 := by decide

-- an option set outside WF really produces a zero delay (why WF is needed): Factor 3/4, Init 1 ns
example : (step { outerOpts with facNum := 3, facDen := 4, initIfFail := 1, frCount := 0 }
            (loopStart outerOpts 0) 5 0 true).2.hi = 0 := by decide

end PartA

/-! ## Part B — heartbeat watchdogs -/

section PartB
open Watchdog

/-- once closed the machine is frozen -/
theorem step_closed (c : Cfg) (s : St) (t : Nat) (e : Ev) (h : s.closed.isSome = true) : step c s t e = s := by
  cases e with
  | beat v => cases v <;> simp [Watchdog.step, h]
  | check => simp [Watchdog.step, h]

theorem run_closed (c : Cfg) : ∀ (es : List (Nat × Ev)) (s : St), s.closed.isSome = true → run c s es = s := by
  intro es
  induction es with
  | nil => intro s _; rfl
  | cons x xs ih =>
    intro s h
    obtain ⟨t, e⟩ := x
    simp only [run]
    rw [step_closed c s t e h]
    exact ih s h

/-- **No false positive (soundness of a liveness closure).**  For every event history: if the
    watchdog closed the session at time `t` for liveness reasons, the checker is enabled and strictly
    more than `T` has passed since the last *valid* heartbeat (`last` is only ever written by a valid
    one, see `step`). -/
theorem close_sound (c : Cfg) : ∀ (es : List (Nat × Ev)) (s : St) (t : Nat), s.closed = none →
    (run c s es).closed = some (t, .timeout) → c.enabled = true ∧ (run c s es).last + c.T < t := by
  intro es
  induction es with
  | nil => intro s t h0 h; simp only [run] at h; rw [h0] at h; cases h
  | cons x xs ih =>
    intro s t h0 h
    obtain ⟨u, e⟩ := x
    simp only [run] at h ⊢
    cases e with
    | beat v =>
      cases v with
      | true =>
        have hs : (step c s u (.beat true)).closed = none := by simp [Watchdog.step, h0]
        exact ih _ t hs h
      | false =>
        by_cases hb : c.closeOnBad = true
        · have hs : step c s u (.beat false) = { s with closed := some (u, .badPong) } := by
            simp [Watchdog.step, h0, hb]
          rw [hs] at h
          rw [run_closed c xs _ (by simp)] at h
          simp at h
        · have hs : step c s u (.beat false) = s := by simp [Watchdog.step, h0, hb]
          rw [hs] at h ⊢
          exact ih s t h0 h
    | check =>
      by_cases hc : c.enabled = true ∧ u - s.last > c.T
      · have hs : step c s u .check = { s with closed := some (u, .timeout) } := by
          simp only [Watchdog.step, h0, Option.isSome_none, Bool.false_eq_true, if_false]
          rw [if_pos hc]
        rw [hs] at h ⊢
        rw [run_closed c xs _ (by simp)] at h ⊢
        simp only [Option.some.injEq, Prod.mk.injEq, and_true] at h
        subst h
        exact ⟨hc.1, by simp only; omega⟩
      · have hs : step c s u .check = s := by
          simp only [Watchdog.step, h0, Option.isSome_none, Bool.false_eq_true, if_false]
          rw [if_neg hc]
        rw [hs] at h ⊢
        exact ih s t h0 h

/-- the peer keeps sending valid heartbeats: no event of the history (in particular no check) is
    later than `I` after the most recent valid heartbeat -/
def fed (I : Nat) : Nat → List (Nat × Ev) → Bool
  | _, [] => true
  | last, (t, .beat true) :: es => decide (t ≤ last + I) && fed I t es
  | last, (t, _) :: es => decide (t ≤ last + I) && fed I last es

def noBad (es : List (Nat × Ev)) : Prop := ∀ x ∈ es, x.2 ≠ .beat false

/-- **A fed watchdog never fires.**  Valid heartbeats at any spacing `I ≤ T` (in particular the
    configured interval, see `ping_gap_le_interval`) keep the session open for the whole history,
    whatever else happens (on the server: invalid pings in between are harmless). -/
theorem alive_of_fed (c : Cfg) (I : Nat) (hI : I ≤ c.T) :
    ∀ (es : List (Nat × Ev)) (s : St), s.closed = none → (c.closeOnBad = true → noBad es) →
      fed I s.last es = true → (run c s es).closed = none := by
  intro es
  induction es with
  | nil => intro s h0 _ _; exact h0
  | cons x xs ih =>
    intro s h0 hb hf
    obtain ⟨u, e⟩ := x
    have hb' : c.closeOnBad = true → noBad xs := fun h y hy => hb h y (List.mem_cons_of_mem _ hy)
    simp only [run]
    cases e with
    | beat v =>
      cases v with
      | true =>
        simp only [fed, Bool.and_eq_true, decide_eq_true_eq] at hf
        have hs : step c s u (.beat true) = { s with last := u } := by simp [Watchdog.step, h0]
        rw [hs]
        exact ih _ h0 hb' hf.2
      | false =>
        simp only [fed, Bool.and_eq_true, decide_eq_true_eq] at hf
        have hnb : c.closeOnBad = false := by
          cases hcb : c.closeOnBad with
          | false => rfl
          | true => exact absurd rfl (hb hcb (u, .beat false) List.mem_cons_self)
        have hs : step c s u (.beat false) = s := by simp [Watchdog.step, h0, hnb]
        rw [hs]
        exact ih s h0 hb' hf.2
    | check =>
      simp only [fed, Bool.and_eq_true, decide_eq_true_eq] at hf
      have hs : step c s u .check = s := by
        simp only [Watchdog.step, h0, Option.isSome_none, Bool.false_eq_true, if_false]
        rw [if_neg]
        intro hc; omega
      rw [hs]
      exact ih s h0 hb' hf.2

/-- no valid heartbeat in the history -/
def silent (es : List (Nat × Ev)) : Prop := ∀ x ∈ es, x.2 ≠ .beat true

/-- the checker fires at least every `P` (1 s + scheduling slack): each check is at most `P` after
    the previous one (`pc` = time of the previous check) -/
def checksRegular (P : Nat) : Nat → List (Nat × Ev) → Bool
  | _, [] => true
  | pc, (t, .check) :: es => decide (t ≤ pc + P) && checksRegular P t es
  | pc, (_, .beat _) :: es => checksRegular P pc es

/-- **Silence is detected at the first check after the timeout.**  From an open session whose
    last valid heartbeat was at `s.last`, with the checker enabled and firing at least every `P`, the
    previous check having been in time (`pc ≤ s.last + T`): if the peer stays silent (invalid pings
    allowed on the server) and the history reaches a check later than `s.last + T`, the session is
    closed for liveness at a time in `(last + T, last + T + P]`. -/
theorem detect (c : Cfg) (P : Nat) (hen : c.enabled = true) :
    ∀ (es : List (Nat × Ev)) (s : St) (pc : Nat), s.closed = none → silent es →
      (c.closeOnBad = true → noBad es) → checksRegular P pc es = true → pc ≤ s.last + c.T →
      (∃ x ∈ es, x.2 = .check ∧ s.last + c.T < x.1) →
      ∃ t, (run c s es).closed = some (t, .timeout) ∧ (run c s es).last = s.last ∧
        s.last + c.T < t ∧ t ≤ s.last + c.T + P := by
  intro es
  induction es with
  | nil => intro s pc _ _ _ _ _ hex; obtain ⟨x, hx, _⟩ := hex; cases hx
  | cons x xs ih =>
    intro s pc h0 hsil hb hreg hpc hex
    obtain ⟨u, e⟩ := x
    have hsil' : silent xs := fun y hy => hsil y (List.mem_cons_of_mem _ hy)
    have hb' : c.closeOnBad = true → noBad xs := fun h y hy => hb h y (List.mem_cons_of_mem _ hy)
    simp only [run]
    cases e with
    | beat v =>
      cases v with
      | true => exact absurd rfl (hsil (u, .beat true) List.mem_cons_self)
      | false =>
        have hnb : c.closeOnBad = false := by
          cases hcb : c.closeOnBad with
          | false => rfl
          | true => exact absurd rfl (hb hcb (u, .beat false) List.mem_cons_self)
        have hs : step c s u (.beat false) = s := by simp [Watchdog.step, h0, hnb]
        rw [hs]
        simp only [checksRegular] at hreg
        refine ih s pc h0 hsil' hb' hreg hpc ?_
        obtain ⟨y, hy, hy2, hy3⟩ := hex
        rcases List.mem_cons.1 hy with h | h
        · subst h; cases hy2
        · exact ⟨y, h, hy2, hy3⟩
    | check =>
      simp only [checksRegular, Bool.and_eq_true, decide_eq_true_eq] at hreg
      by_cases hc : u - s.last > c.T
      · have hs : step c s u .check = { s with closed := some (u, .timeout) } := by
          simp only [Watchdog.step, h0, Option.isSome_none, Bool.false_eq_true, if_false]
          rw [if_pos ⟨hen, hc⟩]
        rw [hs, run_closed c xs _ (by simp)]
        exact ⟨u, rfl, rfl, by omega, by omega⟩
      · have hs : step c s u .check = s := by
          simp only [Watchdog.step, h0, Option.isSome_none, Bool.false_eq_true, if_false]
          rw [if_neg]
          intro h; exact hc h.2
        rw [hs]
        refine ih s u h0 hsil' hb' hreg.2 (by omega) ?_
        obtain ⟨y, hy, hy2, hy3⟩ := hex
        rcases List.mem_cons.1 hy with h | h
        · subst h; simp only at hy3; omega
        · exact ⟨y, h, hy2, hy3⟩

/-- **Invalid pings do not count (server, heartbeat auth scope on).**  A ping that fails the plugin
    chain or `VerifyPing` changes nothing: the history with the invalid pings removed ends in the
    same state. -/
theorem invalid_ping_ignored (c : Cfg) (hc : c.closeOnBad = false) :
    ∀ (es : List (Nat × Ev)) (s : St),
      run c s (es.filter (fun x => decide (x.2 ≠ .beat false))) = run c s es := by
  intro es
  induction es with
  | nil => intro s; rfl
  | cons x xs ih =>
    intro s
    obtain ⟨u, e⟩ := x
    by_cases he : e = .beat false
    · subst he
      have hs : step c s u (.beat false) = s := by
        simp only [Watchdog.step, hc, Bool.false_eq_true, if_false]
        split <;> rfl
      simp only [List.filter, run, hs]
      simpa using ih s
    · have : decide ((u, e).2 ≠ Ev.beat false) = true := by simpa using he
      simp only [List.filter, this, run]
      exact ih _

/-- **Pong with error closes (client).** -/
theorem bad_pong_closes (c : Cfg) (hc : c.closeOnBad = true) (s : St) (h0 : s.closed = none) (t : Nat)
    (es : List (Nat × Ev)) : (run c s ((t, .beat false) :: es)).closed = some (t, .badPong) := by
  simp only [run]
  have hs : step c s t (.beat false) = { s with closed := some (t, .badPong) } := by
    simp [Watchdog.step, h0, hc]
  rw [hs, run_closed c es _ (by simp)]

/-- **Disabled means disabled.**  Without the checker (timeout ≤ 0, or on the client interval ≤ 0)
    no history ends in a liveness closure. -/
theorem disabled_never_times_out (c : Cfg) (hd : c.enabled = false) (es : List (Nat × Ev)) (s : St)
    (h0 : s.closed = none) (t : Nat) : (run c s es).closed ≠ some (t, .timeout) := by
  intro h
  have := (close_sound c es s t h0 h).1
  rw [hd] at this; cases this

/-- **What the driver checks on every real watchdog scenario**: the session was closed at `c`
    with `last + T < c ≤ last + T + P + slack` (`early` = clock-read tolerance of the harness), or it is
    still open and the allowed detection time has not passed at `horizon`. -/
def detectHolds (T P slack early last : Nat) (closedAt : Option Nat) (horizon : Nat) : Bool :=
  match closedAt with
  | some c => decide (last + T < c + early) && decide (c ≤ last + T + P + slack)
  | none => decide (horizon ≤ last + T + P + slack)

theorem detectHolds_sound (T P slack early last : Nat) (closedAt : Option Nat) (horizon : Nat) :
    detectHolds T P slack early last closedAt horizon = true ↔
      match closedAt with
      | some c => last + T < c + early ∧ c ≤ last + T + P + slack
      | none => horizon ≤ last + T + P + slack := by
  unfold detectHolds
  cases closedAt <;> simp

/-- the model's closure time satisfies the predicate (from `detect`) -/
theorem model_detectHolds (c : Cfg) (P slack early : Nat) (hen : c.enabled = true)
    (es : List (Nat × Ev)) (s : St) (pc : Nat) (h0 : s.closed = none) (hs : silent es)
    (hb : c.closeOnBad = true → noBad es) (hreg : checksRegular P pc es = true) (hpc : pc ≤ s.last + c.T)
    (hex : ∃ x ∈ es, x.2 = .check ∧ s.last + c.T < x.1) (h : Nat) :
    detectHolds c.T P slack early s.last ((run c s es).closed.map (·.1)) h = true := by
  obtain ⟨t, ht, _, h1, h2⟩ := detect c P hen es s pc h0 hs hb hreg hpc hex
  rw [ht, detectHolds_sound]
  simp only [Option.map]
  omega

/-- configuration: what `Complete` + `heartbeatWorker` make of the settings (seconds; 0 = unset) -/
theorem defaults :
    -- tcpMux on (the default): application heartbeats are off on both ends
    (serverCfg (serverComplete true 0) 1000).enabled = false ∧
    (clientCfg (clientComplete true 0 0).1 (clientComplete true 0 0).2 1000).enabled = false ∧
    clientPings (clientComplete true 0 0).1 = false ∧
    -- tcpMux off: 30 s / 90 s
    serverCfg (serverComplete false 0) 1000 = { enabled := true, T := 90000, closeOnBad := false } ∧
    clientCfg (clientComplete false 0 0).1 (clientComplete false 0 0).2 1000
      = { enabled := true, T := 90000, closeOnBad := true } ∧
    clientComplete false 0 0 = (30, 90) ∧
    -- explicit values survive, tcpMux or not
    serverComplete true 7 = 7 ∧ clientComplete true 5 9 = (5, 9) := by decide

/-- any non-positive server timeout disables the server watchdog; any positive one enables it -/
theorem server_enabled_iff (timeoutSec : Int) (u : Nat) : (serverCfg timeoutSec u).enabled = true ↔ 0 < timeoutSec := by
  simp [serverCfg]

theorem client_enabled_iff (i t : Int) (u : Nat) : (clientCfg i t u).enabled = true ↔ (0 < i ∧ 0 < t) := by
  simp [clientCfg]

/-! ### non-vacuity -/

-- `detect`: server, timeout 2 s (ms units), checks every second, an invalid ping in between
example :
    let c := serverCfg 2 1000
    let es : List (Nat × Ev) := [(1000, .check), (1500, .beat false), (2000, .check), (3000, .check), (4000, .check)]
    c.enabled = true ∧ checksRegular 1000 0 es = true ∧ (∃ x ∈ es, x.2 = .check ∧ 0 + c.T < x.1) ∧
      (run c { last := 0 } es).closed = some (3000, .timeout) := by
  refine ⟨by decide, by decide, ⟨(3000, .check), by decide, rfl, by decide⟩, by decide⟩

-- `alive_of_fed`: valid pings every 1.5 s against a 2 s timeout, checked every second for 6 s
example :
    let c := serverCfg 2 1000
    let es : List (Nat × Ev) := [(1000, .check), (1500, .beat true), (2000, .check), (3000, .beat true),
      (3000, .check), (4000, .check), (4500, .beat true), (5000, .check), (6000, .check)]
    fed 2000 0 es = true ∧ (run c { last := 0 } es).closed = none := by decide

-- the same history without the pings is closed: the watchdog is not trivially quiet
example :
    (run (serverCfg 2 1000) { last := 0 } [(1000, .check), (2000, .check), (3000, .check)]).closed
      = some (3000, .timeout) := by decide

-- exactly `timeout` of silence is not yet a timeout (`>` in the Go code)
example : (run (serverCfg 2 1000) { last := 0 } [(2000, .check)]).closed = none := by decide

end PartB

/-! ## Part C — the two nested login loops of client/service.go -/

section PartC
open Backoff Reconnect

def prevOk (L : Nat) (x : Option (Backoff.St × Nat)) : Prop := ∀ m p, x = some (m, p) → p = 0 ∨ L ≤ p

/-- the remembered `previousDuration`s of both loops are 0 or at least the loop's lower bound -/
def RInv (s : Reconnect.St) : Prop := prevOk second s.inner ∧ prevOk (200 * milli) s.outer

theorem innerOpts_facts (s : Reconnect.St) :
    WF (innerOpts s) ∧ lowB (innerOpts s) = second ∧ (innerOpts s).maxDuration ≠ 0 ∧
      upB (innerOpts s) ≤ 20 * second := by
  unfold innerOpts
  cases s.initial <;> decide

theorem RInv_init : RInv Reconnect.init := by
  constructor <;> intro m p h <;> cases h

/-- **Re-login pacing, all histories.**  Whatever happened before (any state satisfying the
    invariant, which `init` does and every step preserves): after a refused login the client waits
    between 1 s and 20 s before the next attempt; after a session that ended it waits between 200 ms
    and 20 s — except the very first time, when `keepControllerWorking` re-logins at once. -/
theorem relogin_wait (s : Reconnect.St) (hinv : RInv s) (now : Nat) (e : Reconnect.Ev) (d : Nat)
    (hlo : (Reconnect.step s now e d).2.lo ≤ d) (hhi : d ≤ (Reconnect.step s now e d).2.hi) :
    RInv (Reconnect.step s now e d).1 ∧ d ≤ 20 * second ∧
      (e = .refused → second ≤ d) ∧
      (e = .sessionEnded → (s.outer = none ∧ d = 0) ∨ 200 * milli ≤ d) := by
  obtain ⟨hin, hout⟩ := hinv
  obtain ⟨wf, hl, hm, hu⟩ := innerOpts_facts s
  cases e with
  | refused =>
    have key : ∀ (m : Backoff.St) (prev : Nat), (prev = 0 ∨ second ≤ prev) →
        (Backoff.step (innerOpts s) m now prev true).2.lo ≤ d →
        d ≤ (Backoff.step (innerOpts s) m now prev true).2.hi → second ≤ d ∧ d ≤ 20 * second := by
      intro m prev hp h1 h2
      have a := step_lo_ge (innerOpts s) wf m now prev true (by rw [hl]; exact hp)
      have b := step_hi_le (innerOpts s) hm m now prev true
      rw [hl] at a
      omega
    cases hi : s.inner with
    | none =>
      simp only [Reconnect.step, hi, Option.getD] at hlo hhi ⊢
      have := key _ 0 (Or.inl rfl) hlo hhi
      refine ⟨⟨?_, ?_⟩, this.2, fun _ => this.1, fun h => by cases h⟩
      · intro m p h; simp only [Option.some.injEq, Prod.mk.injEq] at h; right; rw [← h.2]; exact this.1
      · exact hout
    | some mp =>
      obtain ⟨m, prev⟩ := mp
      simp only [Reconnect.step, hi, Option.getD] at hlo hhi ⊢
      have := key m prev (hin m prev hi) hlo hhi
      refine ⟨⟨?_, ?_⟩, this.2, fun _ => this.1, fun h => by cases h⟩
      · intro m' p h; simp only [Option.some.injEq, Prod.mk.injEq] at h; right; rw [← h.2]; exact this.1
      · exact hout
  | sessionEnded =>
    cases ho : s.outer with
    | none =>
      simp only [Reconnect.step, ho] at hlo hhi ⊢
      have hd : d = 0 := by omega
      refine ⟨⟨?_, ?_⟩, by omega, (fun h => by cases h), fun _ => Or.inl ⟨trivial, hd⟩⟩
      · intro m p h; cases h
      · intro m p h; simp only [Option.some.injEq, Prod.mk.injEq] at h; left; exact h.2.symm
    | some mp =>
      obtain ⟨m, prev⟩ := mp
      simp only [Reconnect.step, ho] at hlo hhi ⊢
      have a := step_lo_ge outerOpts outerOpts_wf m now prev true (by rw [outer_bounds.1]; exact hout m prev ho)
      have b := step_hi_le outerOpts (by decide) m now prev true
      rw [outer_bounds.1] at a
      rw [outer_bounds.2] at b
      have h1 : 200 * milli ≤ d := by omega
      refine ⟨⟨?_, ?_⟩, by omega, (fun h => by cases h), fun _ => Or.inr h1⟩
      · intro m' p h; cases h
      · intro m' p h; simp only [Option.some.injEq, Prod.mk.injEq] at h; right; rw [← h.2]; exact h1

/-- only the first round of `keepControllerWorking` is immediate: once its loop has started, every
    later session end is followed by a wait of at least 200 ms -/
theorem outer_started_stays (s : Reconnect.St) (now : Nat) (e : Reconnect.Ev) (d : Nat)
    (h : s.outer.isSome = true) : (Reconnect.step s now e d).1.outer.isSome = true := by
  cases e with
  | refused =>
    cases hi : s.inner <;> simp [Reconnect.step, hi, h]
  | sessionEnded =>
    cases ho : s.outer with
    | none => rw [ho] at h; cases h
    | some mp => obtain ⟨m, p⟩ := mp; simp [Reconnect.step, ho]

-- WHICH configuration a successful login (re)sends is Part E (Frp/Props/C14Heal.lean): `healed_run`,
-- `login_sends_all` over the model Frp/Model/Rereg.lean of loginFunc / UpdateAllConfigurer.

-- non-vacuity: first session end → immediate; second → a fast retry in [200 ms, 300 ms]
example :
    let s1 := (Reconnect.step Reconnect.init (5 * second) .sessionEnded 0)
    let s2 := (Reconnect.step (Reconnect.loginOk s1.1) (6 * second) .sessionEnded (250 * milli))
    s1.2.hi = 0 ∧ s2.2.lo = 200 * milli ∧ s2.2.hi = 300 * milli := by decide

-- non-vacuity: refused logins are spaced 2 s … 2.2 s, then 4 s … (doubling), inside the 20 s loop
example :
    let s0 := (Reconnect.step Reconnect.init (5 * second) .sessionEnded 0).1
    let r1 := Reconnect.step s0 (5 * second) .refused (2100 * milli)
    let r2 := Reconnect.step r1.1 (7100 * milli) .refused (4300 * milli)
    r1.2.lo = 2 * second ∧ r1.2.hi = 2200 * milli ∧ r2.2.lo = 4200 * milli ∧ r2.2.hi = 4620 * milli := by decide

end PartC

section PartG
open Watchdog

/-! ## Part G — which events refresh the liveness clock (server/control.go handlePing & co, client/control.go handlePong & co) -/

theorem lstep_closed (p : Liveness.Policy) (c : Cfg) (s : St) (t : Nat) (e : Liveness.Ev)
    (h : s.closed.isSome = true) : Liveness.step p c s t e = s := by
  cases e with
  | beat v => cases v <;> simp [Liveness.step, h]
  | other k => simp [Liveness.step, h]
  | check => simp [Liveness.step, Watchdog.step, h]

theorem lstep_strict_beat (p : Liveness.Policy) (hp : p.strict = true) (c : Cfg) (s : St) (t : Nat) (v : Bool) :
    Liveness.step p c s t (.beat v) = Watchdog.step c s t (.beat v) := by
  have he : p.early = false := by
    simp only [Liveness.Policy.strict, Bool.and_eq_true, Bool.not_eq_true'] at hp; exact hp.1
  cases v with
  | true => rfl
  | false => simp only [Liveness.step, Watchdog.step, he, Bool.false_eq_true, if_false]

theorem lstep_strict_other (p : Liveness.Policy) (hp : p.strict = true) (c : Cfg) (s : St) (t k : Nat) :
    Liveness.step p c s t (.other k) = s := by
  have ho : p.others = [] := by
    simp only [Liveness.Policy.strict, Bool.and_eq_true, List.isEmpty_iff] at hp; exact hp.2
  simp only [Liveness.step, ho, List.contains_nil, Bool.false_eq_true, if_false]
  split <;> rfl

/-- **Only an accepted heartbeat counts.**  Under the strict policy (frp's, see `code_clock_strict`) the
    watchdog's state after ANY history — valid pings, rejected pings, and any other control messages
    in between — is the state of the bare watchdog on the history with the other traffic removed: no
    NewProxy / CloseProxy / NatHole message (server), no ReqWorkConn / NewProxyResp / NatHoleResp
    (client) ever moves the clock.  All theorems of Part B therefore hold whatever else the peer sends. -/
theorem strict_refines (p : Liveness.Policy) (hp : p.strict = true) (c : Cfg) :
    ∀ (es : List (Nat × Liveness.Ev)) (s : St), Liveness.run p c s es = Watchdog.run c s (Liveness.proj es) := by
  intro es
  induction es with
  | nil => intro s; rfl
  | cons x xs ih =>
    intro s
    obtain ⟨t, e⟩ := x
    cases e with
    | beat v => simp only [Liveness.run, Liveness.proj, Watchdog.run, lstep_strict_beat p hp]; exact ih _
    | other k => simp only [Liveness.run, Liveness.proj, lstep_strict_other p hp]; exact ih _
    | check => simp only [Liveness.run, Liveness.proj, Watchdog.run, Liveness.step]; exact ih _

theorem proj_silent (es : List (Nat × Liveness.Ev)) (h : Liveness.noValidBeat es) : silent (Liveness.proj es) := by
  induction es with
  | nil => intro x hx; cases hx
  | cons y ys ih =>
    obtain ⟨t, e⟩ := y
    have ht : Liveness.noValidBeat ys := fun x hx => h x (List.mem_cons_of_mem _ hx)
    cases e with
    | other k => exact ih ht
    | check =>
      intro x hx
      rcases List.mem_cons.1 hx with hh | hh
      · subst hh; intro h2; cases h2
      · exact ih ht x hh
    | beat v =>
      intro x hx
      rcases List.mem_cons.1 hx with hh | hh
      · subst hh
        intro h2
        have : v = true := by simpa using h2
        subst this
        exact h (t, .beat true) List.mem_cons_self rfl
      · exact ih ht x hh

/-- **Other traffic does not postpone detection.**  Strict policy, checker enabled and firing at least
    every `P`: if the peer sends no VALID heartbeat — but any number of rejected ones and any other
    messages, at any rate — and the history reaches a check later than `last + T`, the session is closed
    for liveness at a time in `(last + T, last + T + P]` (server: `closeOnBad = false`; on the client a
    Pong carrying an error closes even earlier, hence the `noBad` hypothesis there). -/
theorem busy_peer_detected (p : Liveness.Policy) (hp : p.strict = true) (c : Cfg) (P : Nat) (hen : c.enabled = true)
    (es : List (Nat × Liveness.Ev)) (s : St) (pc : Nat) (h0 : s.closed = none)
    (hs : Liveness.noValidBeat es) (hb : c.closeOnBad = true → noBad (Liveness.proj es))
    (hreg : checksRegular P pc (Liveness.proj es) = true) (hpc : pc ≤ s.last + c.T)
    (hex : ∃ x ∈ Liveness.proj es, x.2 = .check ∧ s.last + c.T < x.1) :
    ∃ t, (Liveness.run p c s es).closed = some (t, .timeout) ∧ (Liveness.run p c s es).last = s.last ∧
      s.last + c.T < t ∧ t ≤ s.last + c.T + P := by
  rw [strict_refines p hp]
  exact detect c P hen _ s pc h0 (proj_silent es hs) hb hreg hpc hex

/-- … and never causes a closure: a peer whose valid heartbeats are at most `I ≤ T` apart stays up
    whatever it sends in between -/
theorem busy_peer_alive (p : Liveness.Policy) (hp : p.strict = true) (c : Cfg) (I : Nat) (hI : I ≤ c.T)
    (es : List (Nat × Liveness.Ev)) (s : St) (h0 : s.closed = none)
    (hb : c.closeOnBad = true → noBad (Liveness.proj es)) (hf : fed I s.last (Liveness.proj es) = true) :
    (Liveness.run p c s es).closed = none := by
  rw [strict_refines p hp]
  exact alive_of_fed c I hI _ s h0 hb hf

/-- **Any other policy breaks the clause.**  Whatever the policy counts as a sign of life keeps the
    session open: if every event is at most `I ≤ T` after the most recent REFRESHING one (`fedBy`), no
    history ends in a closure — with `early` the rejected pings of a peer without the key are enough,
    with a kind in `others` a stream of CloseProxy for unknown names / of ReqWorkConn is. -/
theorem lenient_never_closes (p : Liveness.Policy) (c : Cfg) (hc : c.closeOnBad = false) (I : Nat) (hI : I ≤ c.T) :
    ∀ (es : List (Nat × Liveness.Ev)) (s : St), s.closed = none → Liveness.fedBy p I s.last es = true →
      (Liveness.run p c s es).closed = none := by
  intro es
  induction es with
  | nil => intro s h0 _; exact h0
  | cons x xs ih =>
    intro s h0 hf
    obtain ⟨u, e⟩ := x
    simp only [Liveness.fedBy, Bool.and_eq_true, decide_eq_true_eq] at hf
    simp only [Liveness.run]
    cases e with
    | beat v =>
      cases v with
      | true =>
        have hs : Liveness.step p c s u (.beat true) = { s with last := u } := by simp [Liveness.step, h0]
        rw [hs]; exact ih _ h0 (by simpa [Liveness.refreshes] using hf.2)
      | false =>
        cases he : p.early with
        | true =>
          have hs : Liveness.step p c s u (.beat false) = { s with last := u } := by
            simp [Liveness.step, h0, he, hc]
          rw [hs]; exact ih _ h0 (by simpa [Liveness.refreshes, he] using hf.2)
        | false =>
          have hs : Liveness.step p c s u (.beat false) = s := by simp [Liveness.step, h0, he, hc]
          rw [hs]; exact ih _ h0 (by simpa [Liveness.refreshes, he] using hf.2)
    | other k =>
      by_cases hk : k ∈ p.others
      · have hs : Liveness.step p c s u (.other k) = { s with last := u } := by simp [Liveness.step, h0, hk]
        rw [hs]; exact ih _ h0 (by simpa [Liveness.refreshes, hk] using hf.2)
      · have hs : Liveness.step p c s u (.other k) = s := by simp [Liveness.step, h0, hk]
        rw [hs]; exact ih _ h0 (by simpa [Liveness.refreshes, hk] using hf.2)
    | check =>
      have hs : Liveness.step p c s u .check = s := by
        simp only [Liveness.step, Watchdog.step, h0, Option.isSome_none, Bool.false_eq_true, if_false]
        rw [if_neg]
        intro hcc; omega
      rw [hs]; exact ih _ h0 (by simpa [Liveness.refreshes] using hf.2)

/-- a peer that lost the key / a server that stopped answering, in numbers (ms, T = 1 s, checks every
    second): one accepted heartbeat at 100, then only rejected pings and CloseProxy (kind 5) -/
def busyDeadPeer : List (Nat × Liveness.Ev) :=
  [(100, .beat true), (600, .other 5), (1000, .check), (1100, .beat false), (1600, .other 5), (2000, .check),
   (2100, .beat false), (2600, .other 5), (3000, .check), (3100, .beat false), (3600, .other 5), (4000, .check)]

/-- **Witness: the policy decides.**  On `busyDeadPeer` the strict policy closes the session at the
    check of t = 2000 (the first one later than 100 + 1000); a policy that lets CloseProxy refresh, or
    one that stores the clock before the ping is verified, still has it open at t = 4000 with the
    clock at 3600 / 3100. -/
theorem lenient_witness :
    let c := serverCfg 1 1000
    Liveness.noValidBeat (busyDeadPeer.drop 1) ∧
    (Liveness.run {} c { last := 0 } busyDeadPeer).closed = some (2000, .timeout) ∧
    Liveness.run { others := [5] } c { last := 0 } busyDeadPeer = { last := 3600, closed := none } ∧
    Liveness.run { early := true } c { last := 0 } busyDeadPeer = { last := 3100, closed := none } := by
  refine ⟨?_, by decide, by decide, by decide⟩
  intro x hx
  revert x
  decide

/-! ### tie to the source (translate/gen_sessfacts_clock.go, regenerated on every run) -/

/-- kinds = places in registerMsgHandlers; the heartbeat message itself is not an "other" kind -/
def policyOf (refresh : List (String × Bool)) (beat : String) (early : Bool) : Liveness.Policy :=
  { early := early,
    others := ((List.range refresh.length).zip refresh).filterMap
      (fun x => if x.2.2 && x.2.1 != beat then some x.1 else none) }

/-- the server's policy as the code has it: which handlers of server/control.go may store `lastPing`,
    and whether handlePing stores it before the Ping plugins and VerifyPing have accepted the ping -/
def codeServerPolicy : Liveness.Policy :=
  policyOf Gen.SessFacts.serverClockRefresh "Ping" Gen.SessFacts.serverBeatEarly

/-- the client's: which handlers of client/control.go may store `lastPong`, and whether handlePong
    stores it before its `Error != ""` branch -/
def codeClientPolicy : Liveness.Policy :=
  policyOf Gen.SessFacts.clientClockRefresh "Pong" Gen.SessFacts.clientBeatEarly

/-- the kind of a message type on either side (its place in registerMsgHandlers) -/
def kindIn (refresh : List (String × Bool)) (name : String) : Nat :=
  (refresh.findIdx? (fun x => x.1 == name)).getD refresh.length

/-- in the source as it is: `lastPing` is stored by NewControl and by handlePing only, after
    pluginManager.Ping and VerifyPing and after the rejection branch; `lastPong` by NewControl and by
    handlePong only, after the `Error != ""` branch; no other function of either package stores them -/
theorem code_clock_strict :
    codeServerPolicy.strict = true ∧ codeClientPolicy.strict = true ∧
    Gen.SessFacts.serverBeatRefreshes = true ∧ Gen.SessFacts.clientBeatRefreshes = true ∧
    Gen.SessFacts.serverBeatChecks = ["VerifyPing", "pluginManager.Ping"] ∧
    Gen.SessFacts.clientBeatChecks = ["Error"] ∧
    Gen.SessFacts.serverClockStray = [] ∧ Gen.SessFacts.clientClockStray = [] ∧
    kindIn Gen.SessFacts.clientClockRefresh "ReqWorkConn" = Dispatch.reqKind := by
  decide +kernel

/-- `busy_peer_detected` for the server's policy and watchdog configuration found in the source -/
theorem busy_peer_detected_code (timeoutSec : Int) (u P : Nat) (hen : 0 < timeoutSec)
    (es : List (Nat × Liveness.Ev)) (s : St) (pc : Nat) (h0 : s.closed = none) (hs : Liveness.noValidBeat es)
    (hreg : checksRegular P pc (Liveness.proj es) = true) (hpc : pc ≤ s.last + (serverCfg timeoutSec u).T)
    (hex : ∃ x ∈ Liveness.proj es, x.2 = .check ∧ s.last + (serverCfg timeoutSec u).T < x.1) :
    ∃ t, (Liveness.run codeServerPolicy (serverCfg timeoutSec u) s es).closed = some (t, .timeout) ∧
      s.last + (serverCfg timeoutSec u).T < t ∧ t ≤ s.last + (serverCfg timeoutSec u).T + P := by
  obtain ⟨t, h1, _, h2, h3⟩ :=
    busy_peer_detected codeServerPolicy code_clock_strict.1 (serverCfg timeoutSec u) P
      ((server_enabled_iff timeoutSec u).2 hen) es s pc h0 hs (fun h => by simp [serverCfg] at h) hreg hpc hex
  exact ⟨t, h1, h2, h3⟩

/-! ### non-vacuity -/

-- `busy_peer_detected`: its hypotheses are met by `busyDeadPeer` after the accepted heartbeat
example :
    let c := serverCfg 1 1000
    let es := busyDeadPeer.drop 1
    checksRegular 1000 0 (Liveness.proj es) = true ∧ (0 : Nat) ≤ 100 + c.T ∧
      (∃ x ∈ Liveness.proj es, x.2 = .check ∧ 100 + c.T < x.1) ∧
      (Liveness.run {} c { last := 100 } es).closed = some (2000, .timeout) := by
  refine ⟨by decide, by decide, ⟨(2000, .check), by decide, rfl, by decide⟩, by decide⟩

-- `lenient_never_closes`: `busyDeadPeer` is fed (I = 1000 ≤ T) under the two lenient policies, not under the strict one
example :
    Liveness.fedBy { others := [5] } 1000 0 busyDeadPeer = true ∧
    Liveness.fedBy { early := true } 1000 0 busyDeadPeer = true ∧
    Liveness.fedBy {} 1000 0 busyDeadPeer = false := by decide

end PartG

section PartF
open Dispatch

/-! ## Part F — the dispatcher in front of the client watchdog (pkg/msg/handler.go, client/control.go) -/

theorem wrun_append (c : Watchdog.Cfg) : ∀ (a b : List (Nat × Watchdog.Ev)) (s : Watchdog.St),
    Watchdog.run c s (a ++ b) = Watchdog.run c (Watchdog.run c s a) b := by
  intro a
  induction a with
  | nil => intro b s; rfl
  | cons x xs ih => intro b s; obtain ⟨t, e⟩ := x; simp only [List.cons_append, Watchdog.run]; exact ih b _

theorem drun_append (c : Dispatch.Cfg) : ∀ (a b : List (Nat × Lbl)) (s : Dispatch.St),
    Dispatch.run c s (a ++ b) = Dispatch.run c (Dispatch.run c s a) b := by
  intro a
  induction a with
  | nil => intro b s; rfl
  | cons x xs ih => intro b s; obtain ⟨t, l⟩ := x; simp only [List.cons_append, Dispatch.run]; exact ih b _

theorem run_reads (c : Dispatch.Cfg) (t : Nat) : ∀ (n : Nat) (s : Dispatch.St),
    Dispatch.run c s (List.replicate n (t, Lbl.read)) = reads c t n s := by
  intro n
  induction n with
  | zero => intro s; rfl
  | succ n ih => intro s; simp only [List.replicate, Dispatch.run, reads]; exact ih _

/-- the prompt run is one of the interleavings of the small-step model -/
theorem erun_is_run (c : Dispatch.Cfg) : ∀ (ls : List (Nat × Lbl)) (s : Dispatch.St),
    erun c s ls = Dispatch.run c s (eager c s ls) := by
  intro ls
  induction ls with
  | nil => intro s; rfl
  | cons x xs ih =>
    intro s
    obtain ⟨t, l⟩ := x
    simp only [erun, eager, Dispatch.run]
    rw [drun_append, run_reads]
    exact ih _

theorem dstep_closed (c : Dispatch.Cfg) (s : Dispatch.St) (t : Nat) (l : Lbl) (h : s.wd.closed.isSome = true) :
    Dispatch.step c s t l = s := by
  simp only [Dispatch.step, h, if_true]


theorem dstep_send (c : Dispatch.Cfg) (s : Dispatch.St) (t : Nat) (m : Msg) (h : s.wd.closed.isSome = false) :
    Dispatch.step c s t (.send m) = { s with inbox := s.inbox ++ [m] } := by
  simp only [Dispatch.step, h, Bool.false_eq_true, if_false]

theorem dstep_check (c : Dispatch.Cfg) (s : Dispatch.St) (t : Nat) (h : s.wd.closed.isSome = false) :
    Dispatch.step c s t .check = { s with wd := Watchdog.step c.wd s.wd t .check } := by
  simp only [Dispatch.step, h, Bool.false_eq_true, if_false]

theorem dstep_release (c : Dispatch.Cfg) (s : Dispatch.St) (t w : Nat) (h : s.wd.closed.isSome = false) :
    Dispatch.step c s t (.release w) =
      { s with reader := if s.reader = .waiting w then .idle else s.reader, flying := s.flying.filter (· != w) } := by
  simp only [Dispatch.step, h, Bool.false_eq_true, if_false]

theorem dstep_read_cons (c : Dispatch.Cfg) (s : Dispatch.St) (t : Nat) (m : Msg) (rest : List Msg)
    (h : s.wd.closed.isSome = false) (hr : s.reader = .idle) (hi : s.inbox = m :: rest) :
    Dispatch.step c s t .read = handle c { s with inbox := rest } t m := by
  simp only [Dispatch.step, h, Bool.false_eq_true, if_false, hr, hi]

theorem dstep_read_nil (c : Dispatch.Cfg) (s : Dispatch.St) (t : Nat) (hi : s.inbox = []) :
    Dispatch.step c s t .read = s := by
  cases hr : s.reader <;> simp [Dispatch.step, hr, hi]

theorem dstep_read_waiting (c : Dispatch.Cfg) (s : Dispatch.St) (t w : Nat) (hr : s.reader = .waiting w) :
    Dispatch.step c s t .read = s := by
  simp only [Dispatch.step, hr]
  split <;> rfl

theorem isSome_false_of {α : Type} {o : Option α} (h : ¬ o.isSome = true) : o.isSome = false := by
  simpa using h

theorem handle_wd_reqWork (c : Dispatch.Cfg) (hp : c.policy.strict = true) (s : Dispatch.St) (t : Nat) :
    (handle c s t .reqWork).wd = s.wd := by
  simp only [handle]; split <;> exact lstep_strict_other c.policy hp c.wd s.wd t _

theorem handle_wd_other (c : Dispatch.Cfg) (hp : c.policy.strict = true) (s : Dispatch.St) (t k : Nat) :
    (handle c s t (.other k)).wd = s.wd := lstep_strict_other c.policy hp c.wd s.wd t k

theorem handle_wd_pong (c : Dispatch.Cfg) (hp : c.policy.strict = true) (s : Dispatch.St) (t : Nat) (v : Bool) :
    (handle c s t (.pong v)).wd = Watchdog.step c.wd s.wd t (.beat v) := lstep_strict_beat c.policy hp c.wd s.wd t v

theorem handle_inbox (c : Dispatch.Cfg) (s : Dispatch.St) (t : Nat) (m : Msg) : (handle c s t m).inbox = s.inbox := by
  cases m with
  | pong v => rfl
  | other k => rfl
  | reqWork => simp only [handle]; split <;> rfl

/-! ### every interleaving: the watchdog sees exactly the Pongs that reach `handlePong` -/

theorem wstep_check_last (c : Watchdog.Cfg) (s : Watchdog.St) (t : Nat) :
    (Watchdog.step c s t .check).last = s.last := by
  simp only [Watchdog.step]
  split
  · rfl
  · split <;> rfl

/-- **The watchdog state on any schedule is the bare watchdog run on the delivered heartbeats**
    (strict policy: no other handler stores lastPong). -/
theorem delivered_sound (c : Dispatch.Cfg) (hp : c.policy.strict = true) : ∀ (ls : List (Nat × Lbl)) (s : Dispatch.St),
    (Dispatch.run c s ls).wd = Watchdog.run c.wd s.wd (delivered c s ls) := by
  intro ls
  induction ls with
  | nil => intro s; rfl
  | cons x xs ih =>
    intro s
    obtain ⟨t, l⟩ := x
    simp only [Dispatch.run, delivered]
    rw [wrun_append, ih]
    congr 1
    by_cases hc : s.wd.closed.isSome = true
    · rw [dstep_closed c s t l hc, run_closed c.wd _ _ hc]
    · have hc' := isSome_false_of hc
      cases l with
      | send m => rw [dstep_send c s t m hc']; rfl
      | check => rw [dstep_check c s t hc']; rfl
      | release w => rw [dstep_release c s t w hc']; rfl
      | read =>
        cases hr : s.reader with
        | waiting w => rw [dstep_read_waiting c s t w hr]; rfl
        | idle =>
          cases hi : s.inbox with
          | nil => rw [dstep_read_nil c s t hi]; rfl
          | cons m rest =>
            rw [dstep_read_cons c s t m rest hc' hr hi]
            cases m with
            | pong v => rw [handle_wd_pong c hp]; rfl
            | other k => rw [handle_wd_other c hp]; rfl
            | reqWork => rw [handle_wd_reqWork c hp]; rfl

/-- **No false positive on any schedule, whatever the registration mode.**  If the session was
    closed for liveness at `t`, the checker is on and more than `T` has passed since the last valid
    Pong that reached `handlePong`. -/
theorem close_sound_dispatch (c : Dispatch.Cfg) (hp : c.policy.strict = true) (ls : List (Nat × Lbl))
    (s : Dispatch.St) (t : Nat)
    (h0 : s.wd.closed = none) (h : (Dispatch.run c s ls).wd.closed = some (t, .timeout)) :
    c.wd.enabled = true ∧ (Dispatch.run c s ls).wd.last + c.wd.T < t := by
  rw [delivered_sound c hp] at h ⊢
  exact close_sound c.wd _ s.wd t h0 h

/-! ### the code's registration: the read loop is never occupied -/

theorem async_step_idle (c : Dispatch.Cfg) (ha : c.asyncReq = true) (s : Dispatch.St) (t : Nat) (l : Lbl)
    (h : s.reader = .idle) : (Dispatch.step c s t l).reader = .idle := by
  by_cases hc : s.wd.closed.isSome = true
  · rw [dstep_closed c s t l hc]; exact h
  · have hc' := isSome_false_of hc
    cases l with
    | send m => rw [dstep_send c s t m hc']; exact h
    | check => rw [dstep_check c s t hc']; exact h
    | release w => rw [dstep_release c s t w hc']; simp only [h]; split <;> rfl
    | read =>
      cases hi : s.inbox with
      | nil => rw [dstep_read_nil c s t hi]; exact h
      | cons m rest =>
        rw [dstep_read_cons c s t m rest hc' h hi]
        cases m with
        | pong v => exact h
        | other k => exact h
        | reqWork => simp only [handle, ha, if_true]; exact h

/-- **With ReqWorkConn registered through `AsyncHandler` the read loop is never inside a handler
    that waits for the peer** — on every schedule, however many work connections sit idle. -/
theorem async_reader_idle (c : Dispatch.Cfg) (ha : c.asyncReq = true) : ∀ (ls : List (Nat × Lbl)) (s : Dispatch.St),
    s.reader = .idle → (Dispatch.run c s ls).reader = .idle := by
  intro ls
  induction ls with
  | nil => intro s h; exact h
  | cons x xs ih => intro s h; obtain ⟨t, l⟩ := x; exact ih _ (async_step_idle c ha s t l h)

/-- … so a `read` always makes progress: the oldest unread message is consumed -/
theorem async_read_progress (c : Dispatch.Cfg) (s : Dispatch.St) (t : Nat) (m : Msg) (rest : List Msg)
    (hr : s.reader = .idle) (h0 : s.wd.closed = none) (hi : s.inbox = m :: rest) :
    (Dispatch.step c s t .read).inbox = rest := by
  rw [dstep_read_cons c s t m rest (by rw [h0]; rfl) hr hi, handle_inbox]

/-- the read loop waits in `ReadMsg` and has nothing unread -/
def Settled (s : Dispatch.St) : Prop := s.reader = .idle ∧ s.inbox = []

theorem proj_cons (t : Nat) (l : Lbl) (ls : List (Nat × Lbl)) : proj ((t, l) :: ls) = proj [(t, l)] ++ proj ls := by
  cases l with
  | send m => cases m <;> rfl
  | read => rfl
  | release w => rfl
  | check => rfl

theorem settle_nil (c : Dispatch.Cfg) (t : Nat) (s : Dispatch.St) (h : s.inbox = []) : settle c t s = s := by
  simp only [settle, h, List.length_nil, reads]

theorem estep_async (c : Dispatch.Cfg) (ha : c.asyncReq = true) (hp : c.policy.strict = true)
    (s : Dispatch.St) (t : Nat) (l : Lbl) (hs : Settled s) :
    Settled (settle c t (Dispatch.step c s t l)) ∧
      (settle c t (Dispatch.step c s t l)).wd = Watchdog.run c.wd s.wd (proj [(t, l)]) := by
  obtain ⟨hr, hi⟩ := hs
  by_cases hc : s.wd.closed.isSome = true
  · rw [dstep_closed c s t l hc, settle_nil c t s hi, run_closed c.wd _ _ hc]
    exact ⟨⟨hr, hi⟩, rfl⟩
  · have hc' := isSome_false_of hc
    cases l with
    | read =>
      rw [dstep_read_nil c s t hi, settle_nil c t s hi]
      exact ⟨⟨hr, hi⟩, rfl⟩
    | release w =>
      rw [dstep_release c s t w hc']
      simp only [settle, hi, List.length_nil, reads]
      refine ⟨⟨?_, rfl⟩, rfl⟩
      simp only [hr]; split <;> rfl
    | check =>
      rw [dstep_check c s t hc']
      simp only [settle, hi, List.length_nil, reads]
      exact ⟨⟨hr, rfl⟩, rfl⟩
    | send m =>
      rw [dstep_send c s t m hc', hi, List.nil_append]
      have h2 : settle c t { s with inbox := [m] } = handle c { s with inbox := [] } t m := by
        simp only [settle, List.length_cons, List.length_nil, reads]
        exact dstep_read_cons c _ t m [] hc' hr rfl
      rw [h2]
      cases m with
      | pong v => exact ⟨⟨hr, rfl⟩, by rw [handle_wd_pong c hp]; rfl⟩
      | other k => exact ⟨⟨hr, rfl⟩, by rw [handle_wd_other c hp]; rfl⟩
      | reqWork =>
        simp only [handle, ha, if_true, lstep_strict_other _ hp]
        exact ⟨⟨hr, rfl⟩, rfl⟩

/-- **With the code's registration the dispatcher is transparent.**  For every history of what the
    server sends (Pongs, ReqWorkConn, anything else), of work connections being used, closed or left
    idle for ever, and of checker firings: a prompt read loop keeps the watchdog in exactly the state
    of the bare watchdog model fed with the Pongs at the moments they were sent.  Work connections do
    not appear on the right-hand side. -/
theorem async_refines_watchdog (c : Dispatch.Cfg) (ha : c.asyncReq = true) (hp : c.policy.strict = true) :
    ∀ (ls : List (Nat × Lbl)) (s : Dispatch.St), Settled s →
      Settled (erun c s ls) ∧ (erun c s ls).wd = Watchdog.run c.wd s.wd (proj ls) := by
  intro ls
  induction ls with
  | nil => intro s hs; exact ⟨hs, rfl⟩
  | cons x xs ih =>
    intro s hs
    obtain ⟨t, l⟩ := x
    obtain ⟨h1, h2⟩ := estep_async c ha hp s t l hs
    obtain ⟨h3, h4⟩ := ih _ h1
    simp only [erun]
    refine ⟨h3, ?_⟩
    rw [proj_cons t l xs, wrun_append, h4, h2]

/-- **A server that keeps answering is never torn down, whatever work connections are idle.**  With
    ReqWorkConn handled asynchronously: if the Pongs the server sends are valid and no event is later
    than `I ≤ T` after the most recent one (`fed`, as in `alive_of_fed`), the session stays open for
    the whole history — any number of ReqWorkConn, none of them ever released, included. -/
theorem fed_never_torn_down (c : Dispatch.Cfg) (ha : c.asyncReq = true) (hp : c.policy.strict = true)
    (I : Nat) (hI : I ≤ c.wd.T)
    (ls : List (Nat × Lbl)) (s : Dispatch.St) (hs : Settled s) (h0 : s.wd.closed = none)
    (hb : c.wd.closeOnBad = true → noBad (proj ls)) (hf : fed I s.wd.last (proj ls) = true) :
    (erun c s ls).wd.closed = none := by
  rw [(async_refines_watchdog c ha hp ls s hs).2]
  exact alive_of_fed c.wd I hI _ _ h0 hb hf

/-- **A server that stops answering Pings is detected whatever else it still sends.**  Code's
    registration and strict policy, prompt read loop, checker enabled and firing at least every `P`: if
    the server sends no valid Pong (and none carrying an error, which closes at once) — but any stream of
    ReqWorkConn, NewProxyResp, NatHoleResp, with work connections used, closed or idle — and the history
    reaches a check later than `lastPong + T`, the session is closed for liveness within
    `(lastPong + T, lastPong + T + P]`. -/
theorem busy_server_detected (c : Dispatch.Cfg) (ha : c.asyncReq = true) (hp : c.policy.strict = true)
    (P : Nat) (hen : c.wd.enabled = true) (ls : List (Nat × Lbl)) (s : Dispatch.St) (pc : Nat)
    (hs : Settled s) (h0 : s.wd.closed = none) (hsil : silent (proj ls)) (hb : noBad (proj ls))
    (hreg : checksRegular P pc (proj ls) = true) (hpc : pc ≤ s.wd.last + c.wd.T)
    (hex : ∃ x ∈ proj ls, x.2 = .check ∧ s.wd.last + c.wd.T < x.1) :
    ∃ t, (erun c s ls).wd.closed = some (t, .timeout) ∧ s.wd.last + c.wd.T < t ∧ t ≤ s.wd.last + c.wd.T + P := by
  rw [(async_refines_watchdog c ha hp ls s hs).2]
  obtain ⟨t, h1, _, h2, h3⟩ := detect c.wd P hen (proj ls) s.wd pc h0 hsil (fun _ => hb) hreg hpc hex
  exact ⟨t, h1, h2, h3⟩

/-- a server whose Pongs stopped after the first one while user connections keep making it send
    ReqWorkConn (ms; interval 1 s, timeout 3 s) -/
def busySilentServer : List (Nat × Lbl) :=
  [(10, .send (.pong true)), (700, .send .reqWork), (1000, .check), (1700, .send .reqWork), (2000, .check),
   (2700, .send .reqWork), (3000, .check), (3700, .send .reqWork), (4000, .check), (4700, .send (.other 1)),
   (5000, .check), (5700, .send .reqWork), (6000, .check), (6700, .send .reqWork), (7000, .check)]

/-- **Witness: on the client too the policy decides.**  On `busySilentServer` the code's (strict) policy
    closes the session at the check of t = 4000 — the first later than 10 + 3000 —, a policy under which
    handleReqWorkConn and handleNewProxyResp store lastPong as well still has it open at t = 7000 with
    the clock at 6700. -/
theorem lenient_client_witness :
    let wd := Watchdog.clientCfg 1 3 1000
    let strict := erun { wd := wd, asyncReq := true } {} busySilentServer
    let lenient := erun { wd := wd, asyncReq := true, policy := { others := [reqKind, 1] } } {} busySilentServer
    silent ((proj busySilentServer).drop 1) ∧
    strict.wd.closed = some (4000, .timeout) ∧ strict.wd.last = 10 ∧
    lenient.wd.closed = none ∧ lenient.wd.last = 6700 := by
  refine ⟨?_, by decide, by decide, by decide, by decide⟩
  intro x hx
  revert x
  decide

/-! ### a plain ReqWorkConn handler: an idle work connection starves the watchdog -/

/-- the checks of a schedule -/
def checksOf : List (Nat × Lbl) → List (Nat × Watchdog.Ev)
  | [] => []
  | (t, .check) :: ls => (t, .check) :: checksOf ls
  | _ :: ls => checksOf ls

theorem blocked_step (c : Dispatch.Cfg) (s : Dispatch.St) (t : Nat) (l : Lbl) (w : Nat)
    (hr : s.reader = .waiting w) (hl : l ≠ .release w) :
    (Dispatch.step c s t l).reader = .waiting w ∧ (Dispatch.step c s t l).wd.last = s.wd.last := by
  by_cases hc : s.wd.closed.isSome = true
  · rw [dstep_closed c s t l hc]; exact ⟨hr, rfl⟩
  · have hc' := isSome_false_of hc
    cases l with
    | send m => rw [dstep_send c s t m hc']; exact ⟨hr, rfl⟩
    | read => rw [dstep_read_waiting c s t w hr]; exact ⟨hr, rfl⟩
    | check => rw [dstep_check c s t hc']; exact ⟨hr, wstep_check_last _ _ _⟩
    | release w' =>
      have hne : w ≠ w' := fun h => hl (by rw [h])
      rw [dstep_release c s t w' hc']
      refine ⟨?_, rfl⟩
      simp only [hr, Reader.waiting.injEq, if_neg hne]

/-- **Occupancy.**  While the read loop sits in a handler that waits on work connection `w` and
    nothing happens on `w`, no schedule delivers anything: `lastPong` keeps its value, whatever the
    server sends. -/
theorem blocked_delivers_nothing (c : Dispatch.Cfg) (w : Nat) : ∀ (ls : List (Nat × Lbl)) (s : Dispatch.St),
    s.reader = .waiting w → (∀ x ∈ ls, x.2 ≠ .release w) →
      (Dispatch.run c s ls).reader = .waiting w ∧ (Dispatch.run c s ls).wd.last = s.wd.last ∧
        delivered c s ls = checksOf ls := by
  intro ls
  induction ls with
  | nil => intro s hr _; exact ⟨hr, rfl, rfl⟩
  | cons x xs ih =>
    intro s hr hn
    obtain ⟨t, l⟩ := x
    obtain ⟨h1, h2⟩ := blocked_step c s t l w hr (hn (t, l) List.mem_cons_self)
    obtain ⟨h3, h4, h5⟩ := ih _ h1 (fun y hy => hn y (List.mem_cons_of_mem _ hy))
    simp only [Dispatch.run, delivered]
    refine ⟨h3, by rw [h4, h2], ?_⟩
    rw [h5]
    cases l with
    | send m => simp only [checksOf, List.nil_append]
    | release w' => simp only [checksOf, List.nil_append]
    | check => simp only [checksOf, List.cons_append, List.nil_append]
    | read => simp only [hr, checksOf, List.nil_append]

theorem checksOf_silent (ls : List (Nat × Lbl)) : silent (checksOf ls) ∧ noBad (checksOf ls) := by
  induction ls with
  | nil => refine ⟨?_, ?_⟩ <;> intro x hx <;> cases hx
  | cons y ys ih =>
    obtain ⟨t, l⟩ := y
    cases l with
    | check =>
      simp only [checksOf]
      refine ⟨?_, ?_⟩
      · intro x hx
        rcases List.mem_cons.1 hx with h | h
        · subst h; intro hh; cases hh
        · exact ih.1 x h
      · intro x hx
        rcases List.mem_cons.1 hx with h | h
        · subst h; intro hh; cases hh
        · exact ih.2 x h
    | send m => exact ih
    | read => exact ih
    | release w => exact ih

/-- **The same session with a plain ReqWorkConn handler is torn down although the server answers.**
    From any open state whose read loop waits on work connection `w`: if nothing happens on `w`, the
    checker fires at least every `P` and the history reaches a check later than `lastPong + T`, the
    session is closed for liveness within `(lastPong + T, lastPong + T + P]` — for EVERY sequence of
    Pongs the server sends meanwhile. -/
theorem inline_starves (c : Dispatch.Cfg) (hp : c.policy.strict = true) (P : Nat) (hen : c.wd.enabled = true) (w : Nat)
    (ls : List (Nat × Lbl)) (s : Dispatch.St) (pc : Nat) (hr : s.reader = .waiting w)
    (hn : ∀ x ∈ ls, x.2 ≠ .release w) (h0 : s.wd.closed = none)
    (hreg : checksRegular P pc (checksOf ls) = true) (hpc : pc ≤ s.wd.last + c.wd.T)
    (hex : ∃ x ∈ checksOf ls, x.2 = .check ∧ s.wd.last + c.wd.T < x.1) :
    ∃ t, (Dispatch.run c s ls).wd.closed = some (t, .timeout) ∧
      s.wd.last + c.wd.T < t ∧ t ≤ s.wd.last + c.wd.T + P := by
  rw [delivered_sound c hp, (blocked_delivers_nothing c w ls s hr hn).2.2]
  obtain ⟨t, h1, _, h2, h3⟩ :=
    detect c.wd P hen (checksOf ls) s.wd pc h0 (checksOf_silent ls).1 (fun _ => (checksOf_silent ls).2) hreg hpc hex
  exact ⟨t, h1, h2, h3⟩

/-- the demo in numbers (ms): interval 1 s, timeout 3 s, ONE work connection requested right after the
    login and never used, a Pong every second -/
def idlePoolHistory : List (Nat × Lbl) :=
  [(10, .send (.pong true)), (50, .send .reqWork),
   (1000, .check), (1010, .send (.pong true)), (2000, .check), (2010, .send (.pong true)),
   (3000, .check), (3010, .send (.pong true)), (4000, .check), (4010, .send (.pong true)), (5000, .check)]

/-- **Witness: the registration mode decides.**  On the same history — the server answers every ping
    (`fed` holds with I = 1010 ≤ T = 3000) — the plain registration closes the session at the check of
    t = 4000 with the four later Pongs unread, the code's registration keeps it open with
    lastPong = 4010 and the work connection still idle; once the idle connection is used (`release`)
    the plain variant's queue drains and lastPong jumps to that moment. -/
theorem inline_starves_witness :
    let wd := Watchdog.clientCfg 1 3 1000
    let plain := erun { wd := wd, asyncReq := false } {} idlePoolHistory
    let code := erun { wd := wd, asyncReq := true } {} idlePoolHistory
    let used := erun { wd := wd, asyncReq := false } {} (idlePoolHistory.take 7 ++ [(3500, .release 0), (4000, .check)])
    fed 1010 0 (proj idlePoolHistory) = true ∧
    plain.wd.closed = some (4000, .timeout) ∧ plain.wd.last = 10 ∧ plain.inbox.length = 3 ∧
    code.wd.closed = none ∧ code.wd.last = 4010 ∧ code.flying = [0] ∧ code.inbox = [] ∧
    used.wd.closed = none ∧ used.wd.last = 3500 ∧ used.inbox = [] := by decide

/-! ### tie to the source (translate/gen_sessfacts.go, regenerated on every run) -/

/-- some client handler that waits for the peer runs inside the read loop: it is registered plainly
    (or `AsyncHandler` does not spawn) and the read loop invokes handlers inline -/
def codeClientBlocks : Bool :=
  Gen.SessFacts.readLoopInline &&
    Gen.SessFacts.clientHandlerWaits.any (fun h =>
      h.2 && !((Gen.SessFacts.clientHandlers.lookup h.1).getD false && Gen.SessFacts.asyncSpawns))

/-- the `asyncReq` parameter as the code has it -/
def codeReqAsync : Bool := !codeClientBlocks

/-- in the source as it is: handleReqWorkConn is the one client handler that waits for the peer, it is
    registered through `msg.AsyncHandler`; Pong is handled by a handler that does not wait -/
theorem code_client_dispatch :
    codeReqAsync = true ∧ Gen.SessFacts.clientHandlerWaits.lookup "ReqWorkConn" = some true ∧
      Gen.SessFacts.clientHandlerWaits.lookup "Pong" = some false ∧
      Gen.SessFacts.clientHandlers.lookup "ReqWorkConn" = some true := by
  decide +kernel

/-- `fed_never_torn_down` for the registration found in the source and the client's watchdog
    configuration -/
theorem fed_never_torn_down_code (iv tmo : Int) (u I : Nat) (hI : I ≤ (Watchdog.clientCfg iv tmo u).T)
    (ls : List (Nat × Lbl)) (s : Dispatch.St) (hs : Settled s) (h0 : s.wd.closed = none)
    (hb : noBad (proj ls)) (hf : fed I s.wd.last (proj ls) = true) :
    (erun { wd := Watchdog.clientCfg iv tmo u, asyncReq := codeReqAsync, policy := codeClientPolicy } s ls).wd.closed = none :=
  fed_never_torn_down _ code_client_dispatch.1 code_clock_strict.2.1 I hI ls s hs h0 (fun _ => hb) hf

/-- `busy_server_detected` for the registration and the policy found in the source -/
theorem busy_server_detected_code (iv tmo : Int) (u P : Nat) (hiv : 0 < iv) (htmo : 0 < tmo)
    (ls : List (Nat × Lbl)) (s : Dispatch.St) (pc : Nat)
    (hs : Settled s) (h0 : s.wd.closed = none) (hsil : silent (proj ls)) (hb : noBad (proj ls))
    (hreg : checksRegular P pc (proj ls) = true) (hpc : pc ≤ s.wd.last + (Watchdog.clientCfg iv tmo u).T)
    (hex : ∃ x ∈ proj ls, x.2 = .check ∧ s.wd.last + (Watchdog.clientCfg iv tmo u).T < x.1) :
    ∃ t, (erun { wd := Watchdog.clientCfg iv tmo u, asyncReq := codeReqAsync, policy := codeClientPolicy } s ls).wd.closed
        = some (t, .timeout) ∧
      s.wd.last + (Watchdog.clientCfg iv tmo u).T < t ∧ t ≤ s.wd.last + (Watchdog.clientCfg iv tmo u).T + P :=
  busy_server_detected _ code_client_dispatch.1 code_clock_strict.2.1 P
    ((client_enabled_iff iv tmo u).2 ⟨hiv, htmo⟩) ls s pc hs h0 hsil hb hreg hpc hex

/-! ### non-vacuity -/

-- `fed_never_torn_down`: three requests on login, never used, Pongs every second for 6 s against T = 2 s
example :
    let c : Dispatch.Cfg := { wd := Watchdog.clientCfg 1 2 1000, asyncReq := true }
    let ls : List (Nat × Lbl) :=
      [(5, .send (.pong true)), (20, .send .reqWork), (20, .send .reqWork), (20, .send .reqWork),
       (1000, .check), (1005, .send (.pong true)), (2000, .check), (2005, .send (.pong true)),
       (3000, .check), (3005, .send (.pong true)), (4000, .check), (4005, .send (.pong true)),
       (5000, .check), (5005, .send (.pong true)), (6000, .check)]
    Settled ({} : Dispatch.St) ∧ fed 2000 0 (proj ls) = true ∧ noBad (proj ls) ∧
      (erun c {} ls).wd.closed = none ∧ (erun c {} ls).flying = [0, 1, 2] := by
  refine ⟨⟨rfl, rfl⟩, by decide, ?_, by decide, by decide⟩
  intro x hx
  revert x
  decide

-- `inline_starves`: its hypotheses are met by the state after the request of `idlePoolHistory`
example :
    let c : Dispatch.Cfg := { wd := Watchdog.clientCfg 1 3 1000, asyncReq := false }
    let s := erun c {} (idlePoolHistory.take 2)
    let ls := idlePoolHistory.drop 2
    s.reader = .waiting 0 ∧ s.wd.closed = none ∧ s.wd.last = 10 ∧ checksRegular 1000 0 (checksOf ls) = true ∧
      (Dispatch.run c s ls).wd.closed = some (4000, .timeout) := by decide

end PartF

section PartJ2
open Watchdog HbConf

/-! ## Part J (continued) — detection within the WRITTEN timeout -/

/-- **A silent server is detected within the written timeout plus one checker period**, for every written positive
    interval / timeout pair (timeout below, at, between one and two times, or above two times the interval) and
    either tcpMux setting: the client whose configuration went through `Complete` closes at the first check later
    than `last + t`, i.e. in `(last + t, last + t + P]` with `t` the timeout AS WRITTEN. -/
theorem detect_written (mux : Bool) (i t : Int) (u P : Nat) (hi : 0 < i) (ht : 0 < t)
    (es : List (Nat × Ev)) (s : St) (pc : Nat) (h0 : s.closed = none) (hs : silent es) (hb : noBad es)
    (hreg : checksRegular P pc es = true) (hpc : pc ≤ s.last + t.toNat * u)
    (hex : ∃ x ∈ es, x.2 = .check ∧ s.last + t.toNat * u < x.1) :
    ∃ tc, (run (clientCfg (clientComplete mux i t).1 (clientComplete mux i t).2 u) s es).closed = some (tc, .timeout) ∧
      s.last + t.toNat * u < tc ∧ tc ≤ s.last + t.toNat * u + P := by
  rw [client_cfg_written mux i t u hi ht]
  obtain ⟨tc, h1, _, h2, h3⟩ :=
    detect { enabled := true, T := t.toNat * u, closeOnBad := true } P rfl es s pc h0 hs (fun _ => hb) hreg hpc hex
  exact ⟨tc, h1, h2, h3⟩

/-- the same for the statements of `Complete` found in the source -/
theorem detect_written_code (mux : Bool) (i t : Int) (u P : Nat) (hi : 0 < i) (ht : 0 < t)
    (es : List (Nat × Ev)) (s : St) (pc : Nat) (h0 : s.closed = none) (hs : silent es) (hb : noBad es)
    (hreg : checksRegular P pc es = true) (hpc : pc ≤ s.last + t.toNat * u)
    (hex : ∃ x ∈ es, x.2 = .check ∧ s.last + t.toNat * u < x.1) :
    ∃ v, interp Gen.SessFacts.clientHbAssigns mux (i, t) = some v ∧
      ∃ tc, (run (clientCfg v.1 v.2 u) s es).closed = some (tc, .timeout) ∧
        s.last + t.toNat * u < tc ∧ tc ≤ s.last + t.toNat * u + P := by
  refine ⟨(clientComplete mux i t), code_client_complete mux i t, ?_⟩
  exact detect_written mux i t u P hi ht es s pc h0 hs hb hreg hpc hex

/-- **Witness: a `Complete` that raises the timeout to two intervals is late by up to an interval.**  Written
    interval 2 s / timeout 2 s, a server silent from the start, checks every second: the watchdog run with the
    raised value (4 s) closes at 5 s, outside the promised (2 s, 3 s + slack]. -/
theorem raised_timeout_late_witness :
    let es : List (Nat × Ev) := [(1000, .check), (2000, .check), (3000, .check), (4000, .check), (5000, .check)]
    (run (clientCfg 2 4 1000) { last := 0 } es).closed = some (5000, .timeout) ∧
      (run (clientCfg (clientComplete false 2 2).1 (clientComplete false 2 2).2 1000) { last := 0 } es).closed
        = some (3000, .timeout) ∧
      detectHolds 2000 1000 400 30 0 (some 5000) 5000 = false ∧
      detectHolds 2000 1000 400 30 0 (some 3000) 3000 = true := by decide

end PartJ2

end C14
end Frp
