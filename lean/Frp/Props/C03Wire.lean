import Frp.Props.C03
import Frp.Model.UdpWireGen
import Frp.Gen.MsgSchema
/-
  C03, part 2 — the stream of a connection that carries UDPPackets is TYPED in both directions; keep-alives and
  datagrams interleave arbitrarily; the backend still sees nothing but user datagrams.

  The configuration (`genCfg`, `genSudpCfg`) is REGENERATED from the source on every run (translate UdpWire →
  Frp/Gen/UdpWire.lean): which message types each end passes to msg.WriteMsg, and whether its reader looks at the type
  byte.  The theorems that depend on those facts are in this file (and not in Props/C03.lean, which the driver
  imports), so that a fact that breaks one of them is reported as a broken obligation while the driver — built from
  the new facts — still evaluates the property on the implementation's results.
-/
namespace Frp
namespace C03
open Udp UdpWire

/-- **every reader suits its peer** (regenerated facts): where a reader does not look at the type byte, the peer
    writes nothing but the one type it unmarshals into; where it switches on the type, it has a case for everything
    the peer writes — on the udp work connection and on the sudp path, in both directions -/
theorem wire_readers_suit_peers :
    endOK genCfg.cli genCfg.srv = true ∧ endOK genCfg.srv genCfg.cli = true ∧
    endOK genSudpCfg.cli genSudpCfg.srv = true ∧ endOK genSudpCfg.srv genSudpCfg.cli = true ∧
    Gen.UdpWire.forwarderSendsOnlyNewUDPPacket = true := by
  decide

/-- why an untyped read of another message type yields the EMPTY packet: no registered message other than UDPPacket
    has a JSON key that encoding/json would match (case-insensitively) with `c`, `l` or `r` (regenerated: Gen/MsgSchema) -/
theorem wire_ctl_decodes_empty :
    ∀ e ∈ Gen.MsgSchema.registry, e.2 ≠ "UDPPacket" →
      ∀ s ∈ Gen.MsgSchema.structs, s.1 = e.2 → ∀ f ∈ s.2, f.2.1.toLower ∉ ["c", "l", "r"] := by
  decide +kernel

/-- a control message that the peer of an untyped reader never writes is a no-op of the machine -/
theorem wire_step_core_or_id (c : Cfg) (hs : endOK c.cli c.srv = true) (hc : endOK c.srv c.cli = true)
    (hcu : c.cli.untyped = some "UDPPacket") (hsu : c.srv.untyped = none) (s : St) (l : UdpWire.Label) :
    (∃ l', UdpWire.step c s l = Udp.step s l') ∨ UdpWire.step c s l = s := by
  cases l with
  | core l => exact .inl ⟨l, rfl⟩
  | srvCtl ty =>
    right
    simp only [UdpWire.step]
    split
    · rename_i h
      -- the peer writes `ty ≠ UDPPacket`, but the untyped reader's peer writes only UDPPacket
      simp only [endOK, hcu, List.all_eq_true, beq_iff_eq] at hs
      exact absurd (hs ty h.1) h.2
    · rfl
  | cliCtl ty =>
    right
    simp only [UdpWire.step]
    split
    · simp only [reads, hsu]
    · rfl

/-- **backend datagrams = user datagrams, for every interleaving of packets and keep-alives**: in every run of the
    typed machine under a configuration whose readers suit their peers, what the backend is handed is a sub-multiset of
    what the users sent, and what the users get is a sub-multiset of what the backend sockets replied — keep-alives of
    either side, at any point, add nothing -/
theorem wire_backend_only_user_datagrams (c : Cfg) (hs : endOK c.cli c.srv = true) (hc : endOK c.srv c.cli = true)
    (hcu : c.cli.untyped = some "UDPPacket") (hsu : c.srv.untyped = none)
    (sbs cbs cap : Nat) (ls : List UdpWire.Label) (x : View) :
    let s := UdpWire.run c (init sbs cbs cap) ls
    (s.backendLog.map Prod.snd).count x ≤ s.sentV.count x ∧
    (s.userLog.map uview).count x ≤ (s.replyLog.map Prod.snd).count x := by
  have hreach : ∀ (ls : List UdpWire.Label) (s : St), Reachable s → Reachable (UdpWire.run c s ls) := by
    intro ls
    induction ls with
    | nil => intro s h; exact h
    | cons l ls ih =>
      intro s h
      simp only [UdpWire.run, List.foldl_cons]
      apply ih
      rcases wire_step_core_or_id c hs hc hcu hsu s l with ⟨l', e⟩ | e
      · rw [e]
        obtain ⟨a, b, d, l0, rfl⟩ := h
        exact ⟨a, b, d, l0 ++ [l'], by simp [Udp.run, List.foldl_append]⟩
      · rw [e]; exact h
  exact model_safe (hreach ls _ ⟨sbs, cbs, cap, [], rfl⟩) x

/-- … for the code as it is (regenerated configuration), udp and sudp -/
theorem wire_gen_backend_only_user_datagrams (sbs cbs cap : Nat) (ls : List UdpWire.Label) (x : View) :
    let s := UdpWire.run genCfg (init sbs cbs cap) ls
    (s.backendLog.map Prod.snd).count x ≤ s.sentV.count x ∧
    (s.userLog.map uview).count x ≤ (s.replyLog.map Prod.snd).count x :=
  wire_backend_only_user_datagrams genCfg (by decide) (by decide) (by decide) (by decide) sbs cbs cap ls x

theorem wire_gen_sudp_backend_only_user_datagrams (sbs cbs cap : Nat) (ls : List UdpWire.Label) (x : View) :
    let s := UdpWire.run genSudpCfg (init sbs cbs cap) ls
    (s.backendLog.map Prod.snd).count x ≤ s.sentV.count x ∧
    (s.userLog.map uview).count x ≤ (s.replyLog.map Prod.snd).count x :=
  wire_backend_only_user_datagrams genSudpCfg (by decide) (by decide) (by decide) (by decide) sbs cbs cap ls x

/-- **witness**: let the server end also write Ping (a keep-alive of its own) and leave frpc's reader as it is: one
    keep-alive, and the backend is handed a zero-length datagram on a socket of no user — nobody sent anything -/
def pingingCfg : Cfg :=
  { srv := { writes := ["Ping", "UDPPacket"], untyped := none, handles := ["Ping", "UDPPacket"] }
    cli := { writes := ["Ping", "UDPPacket"], untyped := some "UDPPacket", handles := [] } }

theorem wire_server_ping_witness :
    let s := UdpWire.run pingingCfg (init 1500 1500 1024) [.srvCtl "Ping", .core (.cfwd true)]
    s.sentV = [] ∧ s.backendLog = [(0, (none, some []))] ∧ endOK pingingCfg.cli pingingCfg.srv = false := by
  decide +kernel

/-- … while the same keep-alive is harmless for a reader that switches on the type (frps' own reader, the visitor's) -/
theorem wire_typed_reader_ignores_ctl (e : End) (h : e.untyped = none) (ty : String) : reads e (.ctl ty) = none := by
  simp [reads, h]

end C03
end Frp
