import Frp.Model.Frame
import Frp.Lemmas.Frame
import Frp.Model.MsgObj
import Frp.Lemmas.MsgObj
import Frp.Gen.MsgSchema
import Frp.Props.C17Golden
/-
  C17 — Control-protocol codec: lossless, bounded, total, and wire-stable.

  Framing (golib msg/json readMsg / Pack, used by pkg/msg/ctl.go): theorems for ALL byte strings,
  all type bytes, all bodies, all maxima `max < 2^63` (frp: 10240).
  Registry and wire names (pkg/msg/msg.go): theorems by evaluation of the table REGENERATED from the
  source on every run (`Frp.Gen.MsgSchema`) against the hand-pinned golden table.
  JSON text (encoding/json: which bodies parse, how values print) is trusted, not modelled.
-/
namespace Frp
namespace C17
open Frame

/-! ## 1. big-endian length -/

/-- the 8-byte length field decodes to the number that was written (all of uint64) -/
theorem be64_roundtrip (n : Nat) (h : n < 18446744073709551616) :
    (be64 n).length = 8 ∧ IsBytes (be64 n) ∧ unbe64 (be64 n) = n :=
  ⟨be64_length n, be64_isBytes n, unbe64_be64 n h⟩

/-- every 8-byte header is the image of exactly its value: the length field is injective -/
theorem be64_surj (hdr : Str) (hl : hdr.length = 8) (hb : IsBytes hdr) :
    unbe64 hdr < 18446744073709551616 ∧ be64 (unbe64 hdr) = hdr :=
  ⟨unbe64_lt hdr hl hb, be64_unbe64 hdr hl hb⟩

/-! ## 2. round trip; the decoder never reads past the frame -/

/-- `decode (encode t b ++ rest) = ok (t, b, rest)`: lossless, consumes exactly the frame
    (9 + |b| bytes), leaves `rest` untouched, allocates exactly |b| for the body. -/
theorem decode_encode (max : Nat) (known : Nat → Bool) (t : Nat) (body rest : Str)
    (hk : known t = true) (hlen : body.length ≤ max) (hmax : max < 9223372036854775808) :
    decodeFull max known (encode t body ++ rest)
      = ⟨.ok t body rest, 9 + body.length, body.length⟩ := by
  have hsmall : body.length < 9223372036854775808 := by omega
  simp only [decodeFull, encode, List.cons_append, List.append_assoc, hk, Bool.not_true,
    Bool.false_eq_true, if_false, length_be64_append, take8_be64, drop8_be64]
  rw [unbe64_be64 _ (by omega), toInt64_small _ hsmall]
  have h1 : ¬ (8 + (body ++ rest).length < 8) := by omega
  have h2 : ¬ ((body.length : Int) > (max : Int)) := by omega
  have h3 : ¬ ((body.length : Int) < 0) := by omega
  have h4 : ¬ ((body ++ rest).length < body.length) := by simp
  simp only [h1, h2, h3, if_false, Int.toNat_natCast, h4, List.take_left', List.drop_left']

/-- corollary in the shape of the design note -/
theorem decode_encode_res (max : Nat) (known : Nat → Bool) (t : Nat) (body rest : Str)
    (hk : known t = true) (hlen : body.length ≤ max) (hmax : max < 9223372036854775808) :
    decode max known (encode t body ++ rest) = .ok t body rest := by
  simp only [decode, decode_encode max known t body rest hk hlen hmax]

/-- what follows the frame cannot influence what is decoded or how much is consumed -/
theorem decode_ignores_rest (max : Nat) (known : Nat → Bool) (t : Nat) (body r1 r2 : Str)
    (hk : known t = true) (hlen : body.length ≤ max) (hmax : max < 9223372036854775808) :
    (decodeFull max known (encode t body ++ r1)).consumed = (decodeFull max known (encode t body ++ r2)).consumed
    ∧ (decodeFull max known (encode t body ++ r1)).consumed = (encode t body).length := by
  rw [decode_encode max known t body r1 hk hlen hmax, decode_encode max known t body r2 hk hlen hmax]
  simp only [encode, List.length_cons, length_be64_append]
  exact ⟨trivial, by omega⟩

/-! ## 3. totality and bounds, for every input -/

/-- the decoder accepts EXACTLY the encodings of registered types with a body within the bound:
    `ok (t, body, rest)` iff the input is `encode t body ++ rest`, `t` registered, `|body| ≤ max`. -/
theorem decode_ok_iff (max : Nat) (known : Nat → Bool) (inp : Str) (t : Nat) (body rest : Str)
    (hb : IsBytes inp) (hmax : max < 9223372036854775808) :
    decode max known inp = .ok t body rest
      ↔ (known t = true ∧ body.length ≤ max ∧ inp = encode t body ++ rest) := by
  constructor
  · intro h
    match inp with
    | [] => simp [decode, decodeFull] at h
    | t0 :: r1 =>
      simp only [decode, decodeFull] at h
      split at h
      · simp at h
      · rename_i hk0
        have hk : known t0 = true := by simpa using hk0
        split at h
        · simp at h
        · rename_i h8
          have hhl : (r1.take 8).length = 8 := by simp; omega
          have hhb : IsBytes (r1.take 8) := fun b hm => hb b (List.mem_cons_of_mem _ (List.mem_of_mem_take hm))
          have hlt := unbe64_lt _ hhl hhb
          have hbe := be64_unbe64 _ hhl hhb
          split at h
          · simp at h
          · rename_i hgt
            split at h
            · simp at h
            · rename_i hneg
              split at h
              · simp at h
              · rename_i hshort
                simp only [Res.ok.injEq] at h
                obtain ⟨ht, hbody, hrest⟩ := h
                -- the int64 is non-negative, so it is the unsigned value itself
                have hu : unbe64 (r1.take 8) < 9223372036854775808 := by
                  by_cases hs : unbe64 (r1.take 8) < 9223372036854775808
                  · exact hs
                  · exact absurd (toInt64_neg _ (by omega) hlt) hneg
                rw [toInt64_small _ hu] at hgt hshort hbody hrest
                simp only [Int.toNat_natCast] at hshort hbody hrest
                have hbl : body.length = unbe64 (r1.take 8) := by
                  rw [← hbody, List.length_take]; omega
                refine ⟨ht ▸ hk, by omega, ?_⟩
                subst ht
                simp only [encode, List.cons_append, List.append_assoc]
                congr 1
                rw [hbl, hbe, ← hbody, ← hrest, List.take_append_drop, List.take_append_drop]
  · rintro ⟨hk, hlen, rfl⟩
    exact decode_encode_res max known t body rest hk hlen hmax

/-- bounded, total: every input gives a result (the function is total by construction); an `ok`
    result has a registered type, a body within `max`, consumed exactly `9 + |body|`, and the input
    really is that frame followed by `rest`; in every case the body allocation is at most `max`
    and no more than the input is consumed. -/
theorem decode_bounded (max : Nat) (known : Nat → Bool) (inp : Str) :
    (decodeFull max known inp).bodyAlloc ≤ max ∧ (decodeFull max known inp).consumed ≤ inp.length := by
  match inp with
  | [] => simp [decodeFull]
  | t0 :: r1 =>
    simp only [decodeFull]
    split
    · simp
    · split
      · simp only [List.length_cons]; omega
      · split
        · simp only [List.length_cons]; omega
        · split
          · simp only [List.length_cons]; omega
          · split
            · simp only [List.length_cons, List.length_drop]; omega
            · simp only [List.length_cons, List.length_drop] at *; omega

theorem decode_ok_sound (max : Nat) (known : Nat → Bool) (inp : Str) (t : Nat) (body rest : Str)
    (hb : IsBytes inp) (hmax : max < 9223372036854775808)
    (h : (decodeFull max known inp).res = .ok t body rest) :
    known t = true ∧ body.length ≤ max ∧ inp = encode t body ++ rest
      ∧ (decodeFull max known inp).consumed = 9 + body.length
      ∧ (decodeFull max known inp).bodyAlloc = body.length := by
  have h' := (decode_ok_iff max known inp t body rest hb hmax).mp h
  obtain ⟨hk, hl, rfl⟩ := h'
  rw [decode_encode max known t body rest hk hl hmax]
  exact ⟨hk, hl, rfl, rfl, rfl⟩

/-! ## 4. each kind of bad input is an error -/

/-- unknown type byte ⇒ ErrMsgType after one byte, nothing allocated for a body -/
theorem decode_unknown_type (max : Nat) (known : Nat → Bool) (t : Nat) (r : Str) (hk : known t = false) :
    decodeFull max known (t :: r) = ⟨.err .msgType, 1, 0⟩ := by
  simp [decodeFull, hk]

/-- a length with the top bit set (negative as int64) ⇒ ErrMsgLength, nothing allocated -/
theorem decode_negative (max : Nat) (known : Nat → Bool) (t b0 : Nat) (tl r : Str)
    (hk : known t = true) (hl : tl.length = 7) (hb : IsBytes (b0 :: tl)) (htop : 128 ≤ b0) :
    decodeFull max known (t :: ((b0 :: tl) ++ r)) = ⟨.err .negLen, 9, 0⟩ := by
  have h8 : (b0 :: tl).length = 8 := by simp [hl]
  have hge := (top_bit_unbe64 b0 tl hl hb).mp htop
  have hlt := unbe64_lt _ h8 hb
  have hneg := toInt64_neg _ hge hlt
  have htk : ((b0 :: tl) ++ r).take 8 = b0 :: tl := by
    rw [← h8]; exact List.take_left'  rfl
  have hlen : ¬ (((b0 :: tl) ++ r).length < 8) := by
    rw [List.length_append, h8]; omega
  simp only [decodeFull, hk, Bool.not_true, Bool.false_eq_true, if_false, hlen, htk]
  have h2 : ¬ (toInt64 (unbe64 (b0 :: tl)) > (max : Int)) := by omega
  simp only [h2, if_false, hneg, if_true]

/-- a declared length above the maximum ⇒ ErrMaxMsgLength after the 9 header bytes, and the body
    buffer is never allocated, however large the declared length -/
theorem decode_oversize (max : Nat) (known : Nat → Bool) (t n : Nat) (r : Str)
    (hk : known t = true) (hn : max < n) (hn2 : n < 9223372036854775808) :
    decodeFull max known (t :: (be64 n ++ r)) = ⟨.err .maxLen, 9, 0⟩ := by
  have hgt : toInt64 n > (max : Int) := by rw [toInt64_small _ hn2]; omega
  have hlen : ¬ (8 + r.length < 8) := by omega
  simp only [decodeFull, hk, Bool.not_true, Bool.false_eq_true, if_false, length_be64_append,
    take8_be64, hlen, unbe64_be64 n (by omega), hgt, if_true]

/-- every proper prefix of a valid frame is an error (EOF / unexpected EOF), never a message -/
theorem decode_truncated (max : Nat) (known : Nat → Bool) (t : Nat) (body : Str) (k : Nat)
    (hk : known t = true) (hlen : body.length ≤ max) (hmax : max < 9223372036854775808)
    (hb : IsBytes (encode t body)) (hkl : k < (encode t body).length) :
    ∃ e, decode max known ((encode t body).take k) = .err e ∧ (e = .eof ∨ e = .unexpectedEOF) := by
  have hpb : IsBytes ((encode t body).take k) := fun b hm => hb b (List.mem_of_mem_take hm)
  -- not ok: an ok result would make the prefix itself a complete frame ++ rest with the same type
  -- byte and header, hence at least as long as the whole frame
  cases hres : decode max known ((encode t body).take k) with
  | ok t' body' rest' =>
    exfalso
    have h := (decode_ok_iff max known _ t' body' rest' hpb hmax).mp hres
    obtain ⟨_, _, heq⟩ := h
    have hlen_take : ((encode t body).take k).length = k := by
      rw [List.length_take]; omega
    -- compare the first 9 bytes
    have hlk : (encode t' body' ++ rest').length = k := by rw [← heq, hlen_take]
    rw [List.length_append, encode_length] at hlk
    rw [encode_length] at hkl
    have hpre9 : ((encode t body).take k).take 9 = (encode t body).take 9 := by
      rw [List.take_take]; congr 1; omega
    have e1 : (encode t body).take 9 = t :: be64 body.length := by
      have := encode_take9 t body []
      rwa [List.append_nil] at this
    rw [heq, encode_take9, e1] at hpre9
    injection hpre9 with _ hbe
    have hl' : body'.length = body.length := by
      have := congrArg unbe64 hbe
      rw [unbe64_be64 _ (by omega), unbe64_be64 _ (by omega)] at this
      exact this
    omega
  | err e =>
    refine ⟨e, rfl, ?_⟩
    -- which error: type is known, header (if complete) is the true one ⇒ only EOF kinds remain
    match k with
    | 0 => simp [decode, decodeFull] at hres; left; exact hres.symm
    | k + 1 =>
      simp only [encode, List.take_succ_cons] at hres
      simp only [decode, decodeFull, hk, Bool.not_true, Bool.false_eq_true, if_false] at hres
      by_cases h8 : ((be64 body.length ++ body).take k).length < 8
      · simp only [h8, if_true] at hres
        injection hres with hres
        rw [← hres]; split <;> simp
      · simp only [h8, if_false] at hres
        have hk8 : 8 ≤ k := by
          rw [List.length_take] at h8; omega
        have htk : ((be64 body.length ++ body).take k).take 8 = be64 body.length := by
          rw [List.take_take, Nat.min_eq_left hk8, take8_be64]
        rw [htk, unbe64_be64 _ (by omega), toInt64_small _ (by omega)] at hres
        have h2 : ¬ ((body.length : Int) > (max : Int)) := by omega
        have h3 : ¬ ((body.length : Int) < 0) := by omega
        simp only [h2, h3, if_false, Int.toNat_natCast] at hres
        split at hres
        · injection hres with hres
          rw [← hres]; split <;> simp
        · injection hres

/-! ## 5. the registry and the wire names (regenerated table vs golden table) -/

open Frp.Gen

/-- byte → struct (golib `typeMap`) as `RegisterMsg` fills it from `msgTypeMap` -/
def structOf (t : Nat) : Option String := MsgSchema.registry.lookup t

/-- struct → byte (golib `typeByteMap`) -/
def byteOf (s : String) : Option Nat := (MsgSchema.registry.find? (fun p => p.2 == s)).map (·.1)

/-- `_, ok := typeMap[typeByte]` -/
def known (t : Nat) : Bool := (structOf t).isSome

def jsonNames (fs : List MsgSchema.Field) : List String := fs.map (fun f => f.2.1)

theorem registry_size : MsgSchema.registry.length = 18 := by decide +kernel

/-- type bytes are pairwise distinct and are bytes (a Go map literal with duplicate constant keys
    does not compile, but two constants may carry the same value only if … they may not: checked) -/
theorem registry_bytes_nodup :
    (MsgSchema.registry.map (·.1)).Nodup ∧ ∀ p ∈ MsgSchema.registry, p.1 < 256 := by decide +kernel

/-- struct names are pairwise distinct: no struct registered under two bytes (else `typeByteMap`
    would keep only one of them and `Pack` would pick an arbitrary one) -/
theorem registry_structs_nodup : (MsgSchema.registry.map (·.2)).Nodup := by decide +kernel

/-- bijection: both lookups invert each other on the registry -/
theorem registry_bijection :
    (∀ p ∈ MsgSchema.registry, structOf p.1 = some p.2 ∧ byteOf p.2 = some p.1)
    ∧ (∀ t s, structOf t = some s → byteOf s = some t)
    ∧ (∀ t s, byteOf s = some t → structOf t = some s) := by
  have h1 : ∀ p ∈ MsgSchema.registry, structOf p.1 = some p.2 ∧ byteOf p.2 = some p.1 := by decide +kernel
  refine ⟨h1, ?_, ?_⟩
  · intro t s h
    have hm : (t, s) ∈ MsgSchema.registry := by
      unfold structOf at h
      exact mem_of_lookup h
    exact (h1 (t, s) hm).2
  · intro t s h
    unfold byteOf at h
    simp only [Option.map_eq_some_iff] at h
    obtain ⟨p, hp, rfl⟩ := h
    have hm := List.mem_of_find?_eq_some hp
    have hs := List.find?_some hp
    simp only [beq_iff_eq] at hs
    subst hs
    exact (h1 p hm).1

/-- every registered struct has a schema row set; JSON names inside one struct are pairwise
    distinct (encoding/json silently drops BOTH fields on a duplicate name); nested struct types
    are in the table -/
theorem schema_wellformed :
    (∀ p ∈ MsgSchema.registry, (MsgSchema.structs.lookup p.2).isSome)
    ∧ (∀ s ∈ MsgSchema.structs, (jsonNames s.2).Nodup)
    ∧ (MsgSchema.structs.map (·.1)).Nodup := by decide +kernel

/-- wire stability: today's type bytes, struct names, JSON field names, Go field types and
    omitempty flags are those of the released protocol -/
theorem schema_eq_golden :
    MsgSchema.registry = Golden.registry ∧ MsgSchema.structs = Golden.structs := by decide +kernel

/-! ## 6. message level: what `ReadMsg` returns; the executable predicate -/

/-- the implementation's observable result for one input, as the harness reports it -/
inductive Outcome
  | msg (structName : String)     -- err == nil, msg is *T
  | nilMsg                        -- err == nil, msg == nil
  | err (cls : String)            -- err != nil: "eof" | "ueof" | "type" | "max" | "neg" | "json"
  | panic
  deriving DecidableEq, Repr

structure Obs where
  out : Outcome
  consumed : Nat
  bodyReq : Nat          -- largest buffer the reader was asked to fill after the 9 header bytes
  deriving DecidableEq, Repr

/-- The property on one observed run of the decoder on input `inp`:
    * no panic; the body buffer never exceeds `max`; nothing beyond the input is consumed;
    * a returned message is the registered struct of the frame's type byte, the input starts with a
      well-formed frame `encode t body` with `|body| ≤ max`, and exactly that frame was consumed;
    * "no error, no message" is not an allowed outcome;
    * a framing error is returned only when the input does NOT start with a well-formed frame of a
      registered type (good frames are not rejected), a JSON error only when it does (and then
      exactly the frame was consumed). -/
def Spec (max : Nat) (inp : Str) (o : Obs) : Prop :=
  o.bodyReq ≤ max ∧ o.consumed ≤ inp.length ∧
  match o.out with
  | .panic => False
  | .nilMsg => False
  | .msg s => ∃ t body rest, inp = encode t body ++ rest ∧ structOf t = some s ∧ body.length ≤ max
                ∧ o.consumed = 9 + body.length
  | .err cls =>
      if cls = "json" then
        ∃ t body rest, inp = encode t body ++ rest ∧ known t = true ∧ body.length ≤ max
                ∧ o.consumed = 9 + body.length
      else ¬ ∃ t body rest, inp = encode t body ++ rest ∧ known t = true ∧ body.length ≤ max

/-- executable version, run by the driver on the implementation's own results -/
def holdsOn (max : Nat) (inp : Str) (o : Obs) : Bool :=
  decide (o.bodyReq ≤ max) && decide (o.consumed ≤ inp.length) &&
  match o.out, (decodeFull max known inp) with
  | .panic, _ => false
  | .nilMsg, _ => false
  | .msg s, ⟨.ok t _ _, c, _⟩ => structOf t == some s && o.consumed == c
  | .msg _, ⟨.err _, _, _⟩ => false
  | .err cls, ⟨.ok _ _ _, c, _⟩ => cls == "json" && o.consumed == c
  | .err cls, ⟨.err _, _, _⟩ => cls != "json"

theorem holdsOn_sound (max : Nat) (inp : Str) (o : Obs) (hb : IsBytes inp)
    (hmax : max < 9223372036854775808) : holdsOn max inp o = true ↔ Spec max inp o := by
  have key : ∀ t body rest, (decodeFull max known inp).res = .ok t body rest ↔
      (known t = true ∧ body.length ≤ max ∧ inp = encode t body ++ rest) :=
    fun t body rest => decode_ok_iff max known inp t body rest hb hmax
  unfold holdsOn Spec
  cases hres : (decodeFull max known inp).res with
  | ok t body rest =>
    obtain ⟨hk, hl, hinp, hc, _⟩ := decode_ok_sound max known inp t body rest hb hmax hres
    have hdf : decodeFull max known inp = ⟨.ok t body rest, 9 + body.length, body.length⟩ := by
      rw [hinp]; exact decode_encode max known t body rest hk hl hmax
    rw [hdf]
    cases hout : o.out with
    | panic => simp
    | nilMsg => simp
    | msg s =>
      simp only [Bool.and_eq_true, decide_eq_true_eq, beq_iff_eq]
      constructor
      · rintro ⟨⟨h1, h2⟩, h3, h4⟩
        exact ⟨h1, h2, t, body, rest, hinp, h3, hl, h4⟩
      · rintro ⟨h1, h2, t', body', rest', hinp', hs', hl', hc'⟩
        have hk' : known t' = true := by simp [known, hs']
        have := (key t' body' rest').mpr ⟨hk', hl', hinp'⟩
        rw [hres] at this
        injection this with e1 e2 e3
        subst e1; subst e2
        exact ⟨⟨h1, h2⟩, hs', hc'⟩
    | err cls =>
      simp only [Bool.and_eq_true, decide_eq_true_eq, beq_iff_eq]
      constructor
      · rintro ⟨⟨h1, h2⟩, h3, h4⟩
        refine ⟨h1, h2, ?_⟩
        simp only [h3, if_true]
        exact ⟨t, body, rest, hinp, hk, hl, h4⟩
      · rintro ⟨h1, h2, h3⟩
        by_cases hj : cls = "json"
        · simp only [hj, if_true] at h3
          obtain ⟨t', body', rest', hinp', hk', hl', hc'⟩ := h3
          have := (key t' body' rest').mpr ⟨hk', hl', hinp'⟩
          rw [hres] at this
          injection this with e1 e2 e3
          subst e2
          exact ⟨⟨h1, h2⟩, hj, hc'⟩
        · simp only [hj, if_false] at h3
          exact absurd ⟨t, body, rest, hinp, hk, hl⟩ h3
  | err e =>
    have hdf : ∃ c a, decodeFull max known inp = ⟨.err e, c, a⟩ := by
      cases hd : decodeFull max known inp with
      | mk r c a => rw [hd] at hres; simp only at hres; subst hres; exact ⟨c, a, rfl⟩
    obtain ⟨c, a, hdf⟩ := hdf
    rw [hdf]
    have hno : ¬ ∃ t body rest, inp = encode t body ++ rest ∧ known t = true ∧ body.length ≤ max := by
      rintro ⟨t, body, rest, hinp, hk, hl⟩
      have := (key t body rest).mpr ⟨hk, hl, hinp⟩
      rw [hres] at this
      cases this
    cases hout : o.out with
    | panic => simp
    | nilMsg => simp
    | msg s =>
      simp only [Bool.and_false, Bool.false_eq_true, false_iff]
      rintro ⟨_, _, t, body, rest, hinp, hs, hl, _⟩
      exact hno ⟨t, body, rest, hinp, by simp [known, hs], hl⟩
    | err cls =>
      simp only [Bool.and_eq_true, decide_eq_true_eq, bne_iff_ne, ne_eq]
      constructor
      · rintro ⟨⟨h1, h2⟩, h3⟩
        refine ⟨h1, h2, ?_⟩
        simp only [h3, if_false]
        exact hno
      · rintro ⟨h1, h2, h3⟩
        by_cases hj : cls = "json"
        · simp only [hj, if_true] at h3
          obtain ⟨t, body, rest, hinp, hk, hl, _⟩ := h3
          exact absurd ⟨t, body, rest, hinp, hk, hl⟩ hno
        · exact ⟨⟨h1, h2⟩, hj⟩

/-- observable form of a model result -/
def obsOf (r : Msg × Nat × Nat) : Obs :=
  { out := match r.1 with
      | .msg s => .msg s
      | .nilMsg => .nilMsg
      | .errJson => .err "json"
      | .errFrame .eof => .err "eof"
      | .errFrame .unexpectedEOF => .err "ueof"
      | .errFrame .msgType => .err "type"
      | .errFrame .maxLen => .err "max"
      | .errFrame .negLen => .err "neg",
    consumed := r.2.1, bodyReq := r.2.2 }

/-- the model's observable result of frp's `msg.ReadMsg` (pkg/msg/ctl.go, current code) for an
    input, given encoding/json's verdict on the body -/
def modelObs (max : Nat) (jsonOk : Bool) (inp : Str) : Obs :=
  obsOf (readMsg max known structOf jsonOk inp)

/-- the same for the vendored golib `MsgCtl.ReadMsg` alone (= frp's `msg.ReadMsg` before the repair
    of finding C17-null-body) -/
def modelObsGolib (max : Nat) (jsonOk : Bool) (inp : Str) : Obs :=
  obsOf (readMsgGolib max known structOf jsonOk inp)

/-- the body of a frame, if the input starts with a well-formed one -/
def bodyOf (max : Nat) (inp : Str) : Option Str :=
  match (decodeFull max known inp).res with
  | .ok _ b _ => some b
  | .err _ => none

/-! ### the decoder before the repair (kept as documentation of finding C17-null-body) -/

def GolibHoldsFull : Prop :=
  ∀ (jsonOk : Bool) (inp : Str), IsBytes inp → Spec maxLen inp (modelObsGolib maxLen jsonOk inp)

/-- A well-formed frame of a registered type whose body is the JSON literal `null` makes golib's
    `ReadMsg` return `(nil, nil)` — neither a registered message nor an error.
    Witness: `o` + length 4 + `null`. -/
def nullFrame : Str := encode 111 [110, 117, 108, 108]

theorem model_null_witness : ¬ Spec maxLen nullFrame (modelObsGolib maxLen true nullFrame) := by
  rw [← holdsOn_sound maxLen nullFrame _ (by decide +kernel) (by decide)]
  decide +kernel

theorem golibHoldsFull_false : ¬ GolibHoldsFull := by
  intro h
  exact model_null_witness (h true nullFrame (by decide +kernel))

/-- golib's `ReadMsg` alone satisfies the property on every input whose frame body is not the
    literal `null` (or whose body encoding/json rejects). -/
theorem golib_holdsOn_partial (jsonOk : Bool) (inp : Str) (hb : IsBytes inp)
    (hnn : ∀ b, bodyOf maxLen inp = some b → jsonOk = true → isNullLit b = false) :
    Spec maxLen inp (modelObsGolib maxLen jsonOk inp) := by
  have hmax : maxLen < 9223372036854775808 := by decide
  rw [← holdsOn_sound maxLen inp _ hb hmax]
  have hbnd := decode_bounded maxLen known inp
  unfold holdsOn modelObsGolib obsOf readMsgGolib
  unfold bodyOf at hnn
  cases hres : (decodeFull maxLen known inp).res with
  | err e =>
    have hdf : ∃ c a, decodeFull maxLen known inp = ⟨.err e, c, a⟩ := by
      cases hd : decodeFull maxLen known inp with
      | mk r c a => rw [hd] at hres; simp only at hres; subst hres; exact ⟨c, a, rfl⟩
    obtain ⟨c, a, hdf⟩ := hdf
    rw [hdf] at hbnd ⊢
    simp only at hbnd
    cases e <;> simp [hbnd.1, hbnd.2]
  | ok t body rest =>
    obtain ⟨hk, hl, hinp, hc, ha⟩ := decode_ok_sound maxLen known inp t body rest hb hmax hres
    have hdf : decodeFull maxLen known inp = ⟨.ok t body rest, 9 + body.length, body.length⟩ := by
      rw [hinp]; exact decode_encode maxLen known t body rest hk hl hmax
    rw [hdf] at hbnd hnn ⊢
    simp only at hbnd hnn
    cases hj : jsonOk with
    | false => simp [hbnd.1, hbnd.2]
    | true =>
      have hn := hnn body rfl hj
      obtain ⟨s, hs⟩ := Option.isSome_iff_exists.mp hk
      simp [hn, hs, hbnd.1, hbnd.2]

/-! ### the current decoder (pkg/msg/ctl.go `ReadMsg` with the nil check) -/

/-- on everything but a `null` body the repaired `ReadMsg` is golib's -/
theorem modelObs_eq_golib (jsonOk : Bool) (inp : Str)
    (h : (readMsgGolib maxLen known structOf jsonOk inp).1 ≠ .nilMsg) :
    modelObs maxLen jsonOk inp = modelObsGolib maxLen jsonOk inp := by
  unfold modelObs modelObsGolib readMsg
  generalize readMsgGolib maxLen known structOf jsonOk inp = r at h ⊢
  obtain ⟨m, c, a⟩ := r
  cases m <;> simp_all

/-- "no message and no error" is never returned -/
theorem readMsg_never_nil (max : Nat) (jsonOk : Bool) (inp : Str) :
    (readMsg max known structOf jsonOk inp).1 ≠ .nilMsg := by
  unfold readMsg
  generalize readMsgGolib max known structOf jsonOk inp = r
  obtain ⟨m, c, a⟩ := r
  cases m <;> simp

/-- FULL statement, current code: for every byte string and either verdict of encoding/json on the
    body, what `msg.ReadMsg` returns satisfies the property — an ok result is the registered
    message of a well-formed frame within the bound, consumed exactly; otherwise an error of the
    right kind; never nil, never more than `max` allocated, nothing past the input consumed. -/
theorem modelHoldsFull (jsonOk : Bool) (inp : Str) (hb : IsBytes inp) :
    Spec maxLen inp (modelObs maxLen jsonOk inp) := by
  have hmax : maxLen < 9223372036854775808 := by decide
  rw [← holdsOn_sound maxLen inp _ hb hmax]
  have hbnd := decode_bounded maxLen known inp
  unfold holdsOn modelObs obsOf readMsg readMsgGolib
  cases hres : (decodeFull maxLen known inp).res with
  | err e =>
    have hdf : ∃ c a, decodeFull maxLen known inp = ⟨.err e, c, a⟩ := by
      cases hd : decodeFull maxLen known inp with
      | mk r c a => rw [hd] at hres; simp only at hres; subst hres; exact ⟨c, a, rfl⟩
    obtain ⟨c, a, hdf⟩ := hdf
    rw [hdf] at hbnd ⊢
    simp only at hbnd
    cases e <;> simp [hbnd.1, hbnd.2]
  | ok t body rest =>
    obtain ⟨hk, hl, hinp, hc, ha⟩ := decode_ok_sound maxLen known inp t body rest hb hmax hres
    have hdf : decodeFull maxLen known inp = ⟨.ok t body rest, 9 + body.length, body.length⟩ := by
      rw [hinp]; exact decode_encode maxLen known t body rest hk hl hmax
    rw [hdf] at hbnd ⊢
    simp only at hbnd
    cases hj : jsonOk with
    | false => simp [hbnd.1, hbnd.2]
    | true =>
      obtain ⟨s, hs⟩ := Option.isSome_iff_exists.mp hk
      cases hn : isNullLit body with
      | true => simp [hn, hbnd.1, hbnd.2]
      | false => simp [hn, hs, hbnd.1, hbnd.2]

/-- the former witness is now an error that consumes exactly the frame -/
theorem null_is_error : modelObs maxLen true nullFrame = ⟨.err "json", 13, 4⟩ := by decide +kernel

/-! ## 7. JSON object level: `fromObj (toObj m) = normalize m`, driven by the regenerated table -/

open MsgObj

def structNames : List String := MsgSchema.structs.map (·.1)

/-- Go field type (as printed by the translator) ↦ kind -/
def kindOf (ty : String) : Kind :=
  if ty = "string" then .str
  else if ty = "bool" then .bool
  else if ty = "int" ∨ ty = "int64" ∨ ty = "uint16" then .int
  else if ty = "[]string" then .strs
  else if ty = "map[string]string" then .smap
  else if ty = "*net.UDPAddr" then .udp
  else if structNames.contains ty then .sub ty
  else match ty.toList with
    | '[' :: ']' :: rest => if structNames.contains (String.ofList rest) then .subs (String.ofList rest) else .unknown
    | _ => .unknown

/-- value range of a Go integer type (strconv.ParseInt / ParseUint + reflect OverflowInt / OverflowUint in
    encoding/json `literalStore`); `int` is 64 bit on every platform frp is released for that the check runs on -/
def loOf (ty : String) : Int := if ty = "uint16" then 0 else -9223372036854775808
def hiOf (ty : String) : Int := if ty = "uint16" then 65535 else 9223372036854775807

/-- the regenerated table as a schema keyed by JSON name (what encoding/json uses) -/
def schema : Schema :=
  ⟨MsgSchema.structs.map (fun r => (r.1, r.2.map (fun f =>
    { goName := f.1, json := Str.ofString f.2.1, omitE := f.2.2.2, kind := kindOf f.2.2.1,
      lo := loOf f.2.2.1, hi := hiOf f.2.2.1 })))⟩

/-- the same table keyed by Go field name (used by the driver to read the harness's reflection dump
    of a Go value; not part of any theorem) -/
def schemaGo : Schema :=
  ⟨MsgSchema.structs.map (fun r => (r.1, r.2.map (fun f =>
    { goName := f.1, json := Str.ofString f.1, omitE := f.2.2.2, kind := kindOf f.2.2.1,
      lo := loOf f.2.2.1, hi := hiOf f.2.2.1 })))⟩

def hasSub (f : FieldS) : Option String :=
  match f.kind with
  | .sub n => some n
  | .subs n => some n
  | _ => none

def lvl0 (n : String) : Bool := (schema.fieldsOf n).all (fun f => (hasSub f).isNone)
def lvl1 (n : String) : Bool := (schema.fieldsOf n).all (fun f => match hasSub f with | some m => lvl0 m | none => true)
def lvl2 (n : String) : Bool := (schema.fieldsOf n).all (fun f => match hasSub f with | some m => lvl1 m | none => true)

/-- every Go type in the regenerated table is one the object model knows -/
theorem schema_kinds_known : ∀ r ∈ schema.rows, ∀ f ∈ r.2, f.kind ≠ .unknown := by decide +kernel

/-- struct nesting of every registered message fits the three levels of the model -/
theorem schema_depth_ok : ∀ p ∈ MsgSchema.registry, lvl2 p.2 = true := by decide +kernel

theorem schema_names_nodup : schema.NamesNodup :=
  Schema.namesNodup_of_rows schema (by decide +kernel)

/-- Lossless at the object level, for every message value of every struct of the table: decoding
    the object a value is written as gives the value back, up to `norm2` — which only identifies an
    empty slice / map with nil under `omitempty` (at every nesting level) and nothing else. -/
theorem fromObj_toObj (n : String) (m : Struct2) (ht : typed2 schema n m = true) :
    fromObj2 schema n (toObj2 schema n m) = norm2 schema n m :=
  roundtrip2 schema schema_names_nodup n m ht

/-- values without empty-but-non-nil collections come back exactly -/
theorem fromObj_toObj_exact (n : String) (m : Struct2) (ht : typed2 schema n m = true)
    (hn : norm2 schema n m = m) : fromObj2 schema n (toObj2 schema n m) = m := by
  rw [fromObj_toObj n m ht, hn]

/-! ## non-vacuity -/

example : known 111 = true ∧ structOf 111 = some "Login" ∧ byteOf "Login" = some 111 := by decide +kernel
example : known 0 = false ∧ known 122 = false := by decide +kernel
-- a Ping `{}` frame followed by two stray bytes decodes to the frame and leaves the two bytes
example : decodeFull maxLen known (encode 104 [123, 125] ++ [1, 2]) = ⟨.ok 104 [123, 125] [1, 2], 11, 2⟩ := by
  decide +kernel
example : encode 104 [123, 125] = [104, 0, 0, 0, 0, 0, 0, 0, 2, 123, 125] := by decide +kernel
-- negative length (top bit set), oversize (10241), truncated body, unknown type
example : decodeFull maxLen known [104, 255, 0, 0, 0, 0, 0, 0, 0, 1] = ⟨.err .negLen, 9, 0⟩ := by decide +kernel
example : decodeFull maxLen known ([104] ++ be64 10241 ++ [1]) = ⟨.err .maxLen, 9, 0⟩ := by decide +kernel
example : decodeFull maxLen known ([104] ++ be64 3 ++ [1]) = ⟨.err .unexpectedEOF, 10, 3⟩ := by decide +kernel
example : decodeFull maxLen known [122, 0] = ⟨.err .msgType, 1, 0⟩ := by decide +kernel
-- the predicate is met by an ordinary frame and is not
-- trivially true: it rejects a run that consumed one byte too many
example : holdsOn maxLen (encode 104 [123, 125]) ⟨.msg "Ping", 11, 2⟩ = true := by decide +kernel
example : holdsOn maxLen (encode 104 [123, 125] ++ [7]) ⟨.msg "Ping", 12, 2⟩ = false := by decide +kernel
example : holdsOn maxLen (encode 104 [123, 125]) ⟨.msg "Pong", 11, 2⟩ = false := by decide +kernel
example : holdsOn maxLen (encode 104 [123, 125]) ⟨.err "max", 9, 0⟩ = false := by decide +kernel

-- object level: a NatHoleResp with a nested behaviour holding two port ranges (three levels), an
-- empty-but-non-nil slice that is normalised to nil, and an untouched nil one
def sampleResp : Struct2 :=
  [ .strs (some []), .strs none,
    .sub [ .subs (some [[.int 1, .int 2], [.int 0, .int 65535]]), .int 0, .int 3, .int 0, .str [114], .int 0, .int 0, .int 7 ],
    .str [], .str [117, 100, 112], .str [115], .str [116] ]
example : typed2 schema "NatHoleResp" sampleResp = true := by decide +kernel
example : norm2 schema "NatHoleResp" sampleResp ≠ sampleResp := by decide +kernel
example : (schema.fieldsOf "NatHoleResp").map (·.goName)
    = ["AssistedAddrs", "CandidateAddrs", "DetectBehavior", "Error", "Protocol", "Sid", "TransactionID"] := by decide +kernel

end C17
end Frp
