import Frp.Model.Release
import Frp.Props.C09
/-
  C10 — Everything a proxy or session held is released on every termination path.

  Model: Frp/Model/Release.lean (exclusive-key tables: http / https / tcpmux routes, visitor and
  NAT-hole listener entries, proxy names) and Frp/Model/Ports.lean (ports, via the C09 theorems).
  Termination paths covered by theorems: explicit close, end of session, registration failing
  part-way (conflict at the i-th claim), for every table content and every history.
-/
namespace Frp
namespace C10
open Release

/-- invariant of reachable states: one holder per key, every holder is a live proxy, one session per name -/
structure Inv (s : RState) : Prop where
  keysNodup  : (s.held.map (·.1)).Nodup
  holderLive : ∀ e ∈ s.held, s.isLive e.2 = true
  namesNodup : (s.owner.map (·.1)).Nodup

theorem inv_init : Inv RState.init := ⟨by simp [RState.init], by simp [RState.init], by simp [RState.init]⟩

/-! ### `claim` -/

theorem lookup_isSome_of_mem {l : List (Key × Str)} {k : Key} {n : Str} (h : (k, n) ∈ l) :
    (l.lookup k).isSome = true := by
  induction l with
  | nil => simp at h
  | cons e es ih =>
    obtain ⟨a, b⟩ := e
    rw [List.lookup_cons]
    by_cases hk : k = a
    · subst hk; simp
    · have : (k == a) = false := by simpa using hk
      simp only [this]
      rcases List.mem_cons.mp h with h | h
      · injection h with h1; exact absurd h1 hk
      · exact ih h

theorem lookup_none_not_mem {l : List (Key × Str)} {k : Key} (h : (l.lookup k).isSome = false) :
    k ∉ l.map (·.1) := by
  intro hm
  obtain ⟨e, he, hk⟩ := List.mem_map.mp hm
  have : (l.lookup k).isSome = true := lookup_isSome_of_mem (n := e.2) (by rw [← hk]; exact he)
  rw [h] at this; cases this

/-- `claim` only prepends entries owned by `name`, on keys that were free, keeping keys distinct -/
theorem claim_shape (held : List (Key × Str)) (name : Str) (ks : List Key)
    (hn : (held.map (·.1)).Nodup) :
    ∃ new, (claim held name ks).1 = new ++ held ∧ (∀ e ∈ new, e.2 = name) ∧
      (((claim held name ks).1).map (·.1)).Nodup := by
  induction ks generalizing held with
  | nil => exact ⟨[], rfl, by simp, hn⟩
  | cons k ks ih =>
    unfold claim
    split
    · exact ⟨[], rfl, by simp, hn⟩
    · rename_i hk
      have hk' : (held.lookup k).isSome = false := Bool.eq_false_iff.mpr hk
      have hn' : (((k, name) :: held).map (·.1)).Nodup := by
        simp only [List.map_cons, List.nodup_cons]
        exact ⟨lookup_none_not_mem hk', hn⟩
      obtain ⟨new, h1, h2, h3⟩ := ih ((k, name) :: held) hn'
      refine ⟨new ++ [(k, name)], ?_, ?_, h3⟩
      · rw [h1]; simp
      · intro e he
        rcases List.mem_append.mp he with he | he
        · exact h2 e he
        · simp at he; rw [he]

theorem releaseAll_append (a b : List (Key × Str)) (name : Str) :
    releaseAll (a ++ b) name = releaseAll a name ++ releaseAll b name := by
  simp [releaseAll]

theorem releaseAll_all_owned {a : List (Key × Str)} {name : Str} (h : ∀ e ∈ a, e.2 = name) :
    releaseAll a name = [] := by
  unfold releaseAll
  apply List.filter_eq_nil_iff.mpr
  intro e he
  simp [h e he]

theorem releaseAll_none_owned {a : List (Key × Str)} {name : Str} (h : ∀ e ∈ a, e.2 ≠ name) :
    releaseAll a name = a := by
  unfold releaseAll
  apply List.filter_eq_self.mpr
  intro e he
  simpa using h e he

theorem not_live_not_holder {s : RState} (h : Inv s) {name : Str} (hl : s.isLive name = false) :
    ∀ e ∈ s.held, e.2 ≠ name := by
  intro e he hn
  have := h.holderLive e he
  rw [hn, hl] at this; cases this

/-! ## Theorems -/

/-- **a registration that fails part-way leaves nothing behind**: whichever claim conflicts (second
    domain taken, route duplicated, …), the state afterwards is exactly the state before -/
theorem register_conflict_restores {s : RState} (h : Inv s) (sid : Nat) (name : Str) (keys : List Key)
    (k : Key) (hr : (s.register sid name keys).2 = .conflict k) :
    (s.register sid name keys).1 = s := by
  unfold RState.register at hr ⊢
  split
  · rename_i hl; simp [hl] at hr
  · rename_i hl
    have hl' : s.isLive name = false := by simpa using hl
    obtain ⟨new, h1, h2, _⟩ := claim_shape s.held name keys h.keysNodup
    split
    · rename_i k' hc
      simp only
      have : releaseAll (claim s.held name keys).1 name = s.held := by
        rw [h1, releaseAll_append, releaseAll_all_owned h2,
          releaseAll_none_owned (not_live_not_holder h hl')]
        rfl
      rw [this]
    · rename_i held' hc
      rw [hc] at hr
      simp [hl] at hr

/-- a registration under a live name is refused and changes nothing -/
theorem register_exists_unchanged (s : RState) (sid : Nat) (name : Str) (keys : List Key)
    (hl : s.isLive name = true) : s.register sid name keys = (s, .exists_) := by
  simp [RState.register, hl]

/-- shape of a successful registration -/
theorem register_ok_shape {s : RState} (h : Inv s) (sid : Nat) (name : Str) (keys : List Key)
    (hr : (s.register sid name keys).2 = .ok) :
    s.isLive name = false ∧
    ∃ new, (s.register sid name keys).1 = { held := new ++ s.held, owner := (name, sid) :: s.owner } ∧
      (∀ e ∈ new, e.2 = name) ∧ ((new ++ s.held).map (·.1)).Nodup := by
  unfold RState.register at hr ⊢
  split
  · rename_i hl; simp [hl] at hr
  · rename_i hl
    have hl' : s.isLive name = false := by simpa using hl
    refine ⟨hl', ?_⟩
    obtain ⟨new, h1, h2, h3⟩ := claim_shape s.held name keys h.keysNodup
    split
    · rename_i k' hc
      rw [hc] at hr; simp [hl] at hr
    · rename_i held' hc
      have : held' = (claim s.held name keys).1 := by rw [hc]
      refine ⟨new, ?_, h2, ?_⟩
      · rw [this, h1]
      · rw [← h1]; exact h3

theorem register_exists_state (s : RState) (sid : Nat) (name : Str) (keys : List Key)
    (hr : (s.register sid name keys).2 = .exists_) : (s.register sid name keys).1 = s := by
  unfold RState.register at hr ⊢
  split
  · rfl
  · split at hr
    · rename_i hl; exact absurd hl (by assumption)
    · split at hr <;> cases hr

theorem isLive_cons (s : RState) (name : Str) (sid : Nat) (n : Str) :
    RState.isLive { s with owner := (name, sid) :: s.owner } n = (decide (name = n) || s.isLive n) := by
  simp [RState.isLive]

theorem inv_register {s : RState} (h : Inv s) (sid : Nat) (name : Str) (keys : List Key) :
    Inv (s.register sid name keys).1 := by
  cases hr : (s.register sid name keys).2 with
  | exists_ => rw [register_exists_state s sid name keys hr]; exact h
  | conflict k => rw [register_conflict_restores h sid name keys k hr]; exact h
  | ok =>
    obtain ⟨hl, new, h1, h2, h3⟩ := register_ok_shape h sid name keys hr
    rw [h1]
    refine ⟨h3, ?_, ?_⟩
    · intro e he
      simp only [RState.isLive, List.any_cons, Bool.or_eq_true, decide_eq_true_eq]
      rcases List.mem_append.mp he with he | he
      · left; exact (h2 e he).symm
      · right
        have := h.holderLive e he
        simpa [RState.isLive] using this
    · simp only [List.map_cons, List.nodup_cons]
      refine ⟨?_, h.namesNodup⟩
      intro hm
      obtain ⟨e, he, hn⟩ := List.mem_map.mp hm
      have : s.isLive name = true := by
        simp only [RState.isLive, List.any_eq_true, decide_eq_true_eq]
        exact ⟨e, he, hn⟩
      rw [hl] at this; cases this

/-- **explicit close releases everything the proxy held and nothing else** -/
theorem close_spec (s : RState) (sid : Nat) (name : Str)
    (ho : s.owner.any (fun e => e.1 = name ∧ e.2 = sid) = true) :
    (s.close sid name).held = s.held.filter (fun e => e.2 ≠ name) ∧
    (s.close sid name).owner = s.owner.filter (fun e => e.1 ≠ name) := by
  unfold RState.close
  rw [if_pos ho]
  exact ⟨rfl, rfl⟩

/-- after the close no key is held by that proxy; every other holder keeps exactly its keys -/
theorem close_releases (s : RState) (sid : Nat) (name : Str)
    (ho : s.owner.any (fun e => e.1 = name ∧ e.2 = sid) = true) (k : Key) (n : Str) :
    (k, n) ∈ (s.close sid name).held ↔ (k, n) ∈ s.held ∧ n ≠ name := by
  rw [(close_spec s sid name ho).1]
  simp [List.mem_filter]

/-- **a close request affects only proxies of the session that sent it** -/
theorem close_foreign_noop (s : RState) (sid : Nat) (name : Str)
    (ho : s.owner.any (fun e => e.1 = name ∧ e.2 = sid) = false) : s.close sid name = s := by
  unfold RState.close
  rw [if_neg (by rw [ho]; simp)]

theorem inv_close {s : RState} (h : Inv s) (sid : Nat) (name : Str) : Inv (s.close sid name) := by
  by_cases ho : s.owner.any (fun e => e.1 = name ∧ e.2 = sid) = true
  · obtain ⟨h1, h2⟩ := close_spec s sid name ho
    refine ⟨?_, ?_, ?_⟩
    · rw [h1]
      exact (List.Nodup.sublist (List.Sublist.map _ List.filter_sublist) h.keysNodup)
    · intro e he
      rw [h1] at he
      have hm := List.mem_filter.mp he
      have hne : e.2 ≠ name := by simpa using hm.2
      have := h.holderLive e hm.1
      simp only [RState.isLive, List.any_eq_true, decide_eq_true_eq] at this ⊢
      obtain ⟨o, ho1, ho2⟩ := this
      rw [h2]
      have hon : o.1 ≠ name := by rw [ho2]; exact hne
      exact ⟨o, List.mem_filter.mpr ⟨ho1, by simpa using hon⟩, ho2⟩
    · rw [h2]
      exact (List.Nodup.sublist (List.Sublist.map _ List.filter_sublist) h.namesNodup)
  · have : s.owner.any (fun e => e.1 = name ∧ e.2 = sid) = false := Bool.eq_false_iff.mpr ho
    rw [close_foreign_noop s sid name this]; exact h

/-- **register then close is the identity**: tables return to exactly their previous content (no
    growth), hence the identical registration submitted afterwards — on the same or on any other
    session — succeeds again -/
theorem register_close_roundtrip {s : RState} (h : Inv s) (sid : Nat) (name : Str) (keys : List Key)
    (hr : (s.register sid name keys).2 = .ok) :
    (s.register sid name keys).1.close sid name = s := by
  obtain ⟨hl, new, h1, h2, _⟩ := register_ok_shape h sid name keys hr
  rw [h1]
  have hany : (({ held := new ++ s.held, owner := (name, sid) :: s.owner } : RState).owner.any
      (fun e => e.1 = name ∧ e.2 = sid)) = true := by simp
  have hown : s.owner.filter (fun e => e.1 ≠ name) = s.owner := by
    apply List.filter_eq_self.mpr
    intro e he
    have : ¬ e.1 = name := by
      intro hn
      have : s.isLive name = true := by
        simp only [RState.isLive, List.any_eq_true, decide_eq_true_eq]; exact ⟨e, he, hn⟩
      rw [hl] at this; cases this
    simpa using this
  obtain ⟨c1, c2⟩ := close_spec { held := new ++ s.held, owner := (name, sid) :: s.owner } sid name hany
  have hheld : (new ++ s.held).filter (fun e => e.2 ≠ name) = s.held := by
    have := releaseAll_append new s.held name
    unfold releaseAll at this
    rw [this]
    have a := releaseAll_all_owned h2
    have b := releaseAll_none_owned (not_live_not_holder h hl)
    unfold releaseAll at a b
    rw [a, b]; rfl
  cases hs : ({ held := new ++ s.held, owner := (name, sid) :: s.owner } : RState).close sid name with
  | mk held' owner' =>
    rw [hs] at c1 c2
    simp only at c1 c2
    rw [c1, c2, hheld]
    simp only [List.filter_cons, ne_eq, not_true_eq_false, decide_false, Bool.false_eq_true, ↓reduceIte]
    rw [hown]

theorem reregister_after_close {s : RState} (h : Inv s) (sid sid' : Nat) (name : Str) (keys : List Key)
    (hr : (s.register sid name keys).2 = .ok) :
    (((s.register sid name keys).1.close sid name).register sid' name keys).2 = .ok := by
  rw [register_close_roundtrip h sid name keys hr]
  -- the outcome of `register` does not depend on the session number
  unfold RState.register at hr ⊢
  split
  · rename_i hl; simp [hl] at hr
  · rename_i hl
    split
    · rename_i k hc
      rw [hc] at hr; simp [hl] at hr
    · rfl

/-- the same after a failed registration: an identical retry behaves exactly like the first try
    (so once the conflicting owner has gone it succeeds) -/
theorem retry_after_failure {s : RState} (h : Inv s) (sid : Nat) (name : Str) (keys : List Key) (k : Key)
    (hr : (s.register sid name keys).2 = .conflict k) :
    (s.register sid name keys).1.register sid name keys = s.register sid name keys := by
  rw [register_conflict_restores h sid name keys k hr]

/-! ### session end -/

/-- closing a list of names owned by `sid`, one after the other -/
theorem closeAll_spec (sid : Nat) (names : List Str) :
    ∀ s : RState, Inv s → names.Nodup → (∀ n ∈ names, (n, sid) ∈ s.owner) →
      (names.foldl (fun st n => st.close sid n) s).held = s.held.filter (fun e => e.2 ∉ names) ∧
      (names.foldl (fun st n => st.close sid n) s).owner = s.owner.filter (fun e => e.1 ∉ names) ∧
      Inv (names.foldl (fun st n => st.close sid n) s) := by
  induction names with
  | nil =>
    intro s h _ _
    refine ⟨?_, ?_, h⟩
    · simp only [List.foldl_nil, List.not_mem_nil, not_false_eq_true, decide_true]; exact (List.filter_eq_self.mpr (fun _ _ => rfl)).symm
    · simp only [List.foldl_nil, List.not_mem_nil, not_false_eq_true, decide_true]; exact (List.filter_eq_self.mpr (fun _ _ => rfl)).symm
  | cons n ns ih =>
    intro s h hnd hown
    have hnd' := List.nodup_cons.mp hnd
    have hn : s.owner.any (fun e => e.1 = n ∧ e.2 = sid) = true := by
      simp only [List.any_eq_true, decide_eq_true_eq]
      exact ⟨(n, sid), hown n List.mem_cons_self, rfl, rfl⟩
    obtain ⟨c1, c2⟩ := close_spec s sid n hn
    have hinv := inv_close h sid n
    have hown' : ∀ m ∈ ns, (m, sid) ∈ (s.close sid n).owner := by
      intro m hm
      rw [c2]
      apply List.mem_filter.mpr
      refine ⟨hown m (List.mem_cons_of_mem _ hm), ?_⟩
      have : m ≠ n := fun e => hnd'.1 (e ▸ hm)
      simpa using this
    obtain ⟨i1, i2, i3⟩ := ih (s.close sid n) hinv hnd'.2 hown'
    simp only [List.foldl_cons]
    refine ⟨?_, ?_, i3⟩
    · rw [i1, c1, List.filter_filter]
      apply List.filter_congr
      intro e _
      simp only [List.mem_cons, not_or, ne_eq, decide_not, Bool.and_eq_true, Bool.not_eq_eq_eq_not,
        Bool.not_true, decide_eq_false_iff_not, decide_eq_true_eq]
      by_cases e1 : e.2 = n <;> by_cases e2 : e.2 ∈ ns <;> simp [e1, e2]
    · rw [i2, c2, List.filter_filter]
      apply List.filter_congr
      intro e _
      simp only [List.mem_cons, not_or, ne_eq, decide_not, Bool.and_eq_true, Bool.not_eq_eq_eq_not,
        Bool.not_true, decide_eq_false_iff_not, decide_eq_true_eq]
      by_cases e1 : e.1 = n <;> by_cases e2 : e.1 ∈ ns <;> simp [e1, e2]

theorem owner_unique {l : List (Str × Nat)} (hnd : (l.map (·.1)).Nodup) {a : Str} {b c : Nat}
    (h1 : (a, b) ∈ l) (h2 : (a, c) ∈ l) : b = c := by
  induction l with
  | nil => simp at h1
  | cons o os ih =>
    simp only [List.map_cons, List.nodup_cons] at hnd
    rcases List.mem_cons.mp h1 with e1 | e1 <;> rcases List.mem_cons.mp h2 with e2 | e2
    · rw [← e1] at e2; injection e2 with _ e3; exact e3.symm
    · exfalso; apply hnd.1; rw [← e1]; exact List.mem_map.mpr ⟨(a, c), e2, rfl⟩
    · exfalso; apply hnd.1; rw [← e2]; exact List.mem_map.mpr ⟨(a, b), e1, rfl⟩
    · exact ih hnd.2 e1 e2

theorem namesOf_nodup {s : RState} (h : Inv s) (sid : Nat) : (s.namesOf sid).Nodup := by
  unfold RState.namesOf
  exact List.Nodup.sublist (List.Sublist.map _ List.filter_sublist) h.namesNodup

theorem mem_namesOf {s : RState} (sid : Nat) (n : Str) : n ∈ s.namesOf sid ↔ (n, sid) ∈ s.owner := by
  unfold RState.namesOf
  simp only [List.mem_map, List.mem_filter, decide_eq_true_eq]
  constructor
  · rintro ⟨e, ⟨he, hs⟩, hn⟩
    obtain ⟨a, b⟩ := e
    simp only at hs hn
    subst hs; subst hn; exact he
  · intro hm; exact ⟨(n, sid), ⟨hm, rfl⟩, rfl⟩

/-- **end of a session** (disconnect, replacement, heartbeat timeout — all run `Control.worker`):
    every key held by a proxy of that session is released, the session owns no name any more, and
    every other session's proxies keep exactly their keys -/
theorem sessionEnd_spec {s : RState} (h : Inv s) (sid : Nat) :
    (s.sessionEnd sid).held = s.held.filter (fun e => (e.2, sid) ∉ s.owner) ∧
    (s.sessionEnd sid).owner = s.owner.filter (fun e => e.2 ≠ sid) ∧
    Inv (s.sessionEnd sid) := by
  unfold RState.sessionEnd
  obtain ⟨i1, i2, i3⟩ := closeAll_spec sid (s.namesOf sid) s h (namesOf_nodup h sid)
    (fun n hn => (mem_namesOf sid n).mp hn)
  refine ⟨?_, ?_, i3⟩
  · rw [i1]
    apply List.filter_congr
    intro e _
    simp [mem_namesOf]
  · rw [i2]
    apply List.filter_congr
    intro e he
    obtain ⟨a, b⟩ := e
    have hiff : a ∈ s.namesOf sid ↔ b = sid := by
      rw [mem_namesOf]
      constructor
      · intro hm; exact owner_unique h.namesNodup he hm
      · intro hb; subst hb; exact he
    by_cases hb : b = sid
    · have := hiff.mpr hb
      simp [this, hb]
    · have : ¬ a ∈ s.namesOf sid := fun hm => hb (hiff.mp hm)
      simp [this, hb]

/-- after the session ended none of its former names is live: the identical registrations can be
    submitted on a new session -/
theorem sessionEnd_frees_names {s : RState} (h : Inv s) (sid : Nat) (n : Str) (hn : (n, sid) ∈ s.owner) :
    (s.sessionEnd sid).isLive n = false := by
  obtain ⟨_, h2, _⟩ := sessionEnd_spec h sid
  unfold RState.isLive
  rw [h2]
  apply Bool.eq_false_iff.mpr
  intro hany
  simp only [List.any_eq_true, List.mem_filter, decide_eq_true_eq] at hany
  obtain ⟨e, ⟨he, hs⟩, hen⟩ := hany
  obtain ⟨a, b⟩ := e
  simp only at hen hs
  subst hen
  have hb : b ≠ sid := by simpa using hs
  exact hb (owner_unique h.namesNodup he hn)

/-! ### every reachable state -/

inductive Op
  | register (sid : Nat) (name : Str) (keys : List Key)
  | close (sid : Nat) (name : Str)
  | sessionEnd (sid : Nat)

def apply (s : RState) : Op → RState
  | .register sid name keys => (s.register sid name keys).1
  | .close sid name => s.close sid name
  | .sessionEnd sid => s.sessionEnd sid

theorem inv_reachable (ops : List Op) : Inv (ops.foldl apply RState.init) := by
  suffices hh : ∀ s, Inv s → Inv (ops.foldl apply s) from hh _ inv_init
  induction ops with
  | nil => intro s h; exact h
  | cons op ops ih =>
    intro s h
    apply ih
    cases op with
    | register sid name keys => exact inv_register h sid name keys
    | close sid name => exact inv_close h sid name
    | sessionEnd sid => exact (sessionEnd_spec h sid).2.2

/-! ### ports (from C09): closing frees the port at once; a failed registration keeps all accounting -/

/-- re-exported from C09 -/
def port_released_on_close := @C09.close_frees_port
/-- re-exported from C09 -/
def port_kept_on_failure := @C09.register_err_unchanged

/-! non-vacuity -/
def s (x : String) : Str := Str.ofString x
def kA : Key := ⟨.http, s "a.example.com|/|"⟩
def kB : Key := ⟨.http, s "b.example.com|/|"⟩

/-- second domain conflicts: the first one is given back -/
example : let s1 := (RState.init.register 1 (s "p") [kB]).1
          (s1.register 2 (s "q") [kA, kB]).2 = .conflict kB ∧ (s1.register 2 (s "q") [kA, kB]).1.held = s1.held := by
  decide +kernel
example : ((RState.init.register 1 (s "p") [kA, kB]).1.sessionEnd 1).held = [] := by decide +kernel

end C10
end Frp
